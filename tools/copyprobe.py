"""Metamorphic probe shared by several properties: a deep copy and a pickle round trip of a Database are
databases with the same content, so every rendering of the copy — taken after the original has been
dropped and collected — must equal the rendering of the original.  (copy.deepcopy and pickle restore
__dict__ directly: back-pointers, weak references and __getstate__ shortcuts show up only here.)"""
import copy
import gc
import pickle


def safe(f):
    try:
        return ('ok', f())
    except RecursionError:
        return ('raise', 'builtins.RecursionError')
    except Exception as e:   # noqa
        return ('raise', '%s.%s' % (type(e).__module__, type(e).__name__))


def observe(db, which):
    out = {}
    if 'sql' in which:
        out['db.sql'] = safe(lambda: db.sql)
        for i, t in enumerate(db.tables):
            out['tables[%d].sql' % i] = safe(lambda t=t: t.sql)
        for i, x in enumerate(db.refs):
            out['refs[%d].sql' % i] = safe(lambda x=x: x.sql)
        for i, x in enumerate(db.enums):
            out['enums[%d].sql' % i] = safe(lambda x=x: x.sql)
    if 'dbml' in which:
        out['db.dbml'] = safe(lambda: db.dbml)
        for i, t in enumerate(db.tables):
            out['tables[%d].dbml' % i] = safe(lambda t=t: t.dbml)
        for i, x in enumerate(db.refs):
            out['refs[%d].dbml' % i] = safe(lambda x=x: x.dbml)
        for i, x in enumerate(db.table_groups):
            out['groups[%d].dbml' % i] = safe(lambda x=x: x.dbml)
        if db.project is not None:
            out['project.dbml'] = safe(lambda: db.project.dbml)
    return out


def probe(make_db, which=('sql', 'dbml')):
    """make_db() builds the database afresh each time.  Returns [(how, where, original, copy)] for every rendering of a
    copy that differs from the original's."""
    base = observe(make_db(), which)
    out = []
    for how in ('deepcopy', 'pickle'):
        db = make_db()
        try:
            c = copy.deepcopy(db) if how == 'deepcopy' else pickle.loads(pickle.dumps(db))
        except RecursionError:
            continue
        except Exception as e:   # noqa
            out.append((how, 'copying', 'ok', 'raise %s.%s' % (type(e).__module__, type(e).__name__)))
            continue
        del db
        gc.collect()
        got = observe(c, which)
        for k in base:
            if got.get(k) != base[k]:
                out.append((how, k, _short(base[k]), _short(got.get(k))))
                break
    return out


def _short(x):
    if x is None:
        return 'missing'
    return '%s %s' % (x[0], x[1] if len(str(x[1])) < 300 else str(x[1])[:300] + '…')
