"""C12 — all documented ways of supplying the source give the same database."""
import docgen
import prop_parse
import pyscript
import stream_script
import verdicts
from common import rng, load_known_findings, hexs
from pyscript import Op, parse_op

BOM = '﻿'
ROUTE_NAMES = {0: 'PyDBML(str)', 1: 'PyDBML.parse(str)', 2: 'PyDBML(Path)', 3: 'PyDBML(open file)', 4: 'PyDBML().parse(str)',
               5: 'parse_file(path str)', 6: 'parse_file(Path)', 7: 'parse_file(open file)'}


def other_types_oracle():
    import io, os, tempfile
    from pydbml import PyDBML
    out = []
    fd, path = tempfile.mkstemp(suffix='.dbml', dir='/var/tmp')
    try:
        with os.fdopen(fd, 'w') as fh:
            fh.write('Table t {\n  id int\n}\n')
        srcs = [b'Table t {\n id int\n}', path.encode(), bytearray(b'Table t {}'), 12345, 1.5, ['Table t {}'], ('a',), {'a': 1},
                io.BytesIO(b'Table t {}'), object()]
        for src in srcs:
            try:
                PyDBML(src)
                got = 'returned'
            except TypeError:
                continue
            except Exception as e:   # noqa
                got = pyscript.exc_name(e)
            out.append({'cause': 'oracle', 'clause': 'the constructor does not refuse a source of type %s with TypeError: %s' % (type(src).__name__, got),
                        'input': {'kind': 'api', 'text': 'PyDBML(%r)' % (src if not isinstance(src, (io.BytesIO,)) else 'BytesIO',)}})
            break
    finally:
        os.unlink(path)
    return out


def codec_oracle(docs):
    import os, tempfile
    from pydbml import PyDBML
    out = []

    def snap(f):
        try:
            d = f()
            return ('ok', docgen.content(d), d.dbml)
        except Exception as e:   # noqa
            return ('raise', pyscript.exc_name(e))
    for text, allow in docs:
        for codec in ('utf-16', 'latin-1', 'cp1252', 'utf-8'):
            try:
                raw = text.encode(codec)
            except UnicodeEncodeError:
                continue
            fd, path = tempfile.mkstemp(suffix='.dbml', dir='/var/tmp')
            try:
                with os.fdopen(fd, 'wb') as fh:
                    fh.write(raw)
                base = snap(lambda: PyDBML(text, allow_properties=allow))
                with open(path, encoding=codec, newline='') as fh:
                    a = snap(lambda: PyDBML(fh, allow_properties=allow))
                results = [('PyDBML(open file, encoding=%s)' % codec, a)]
                if not allow:
                    with open(path, encoding=codec, newline='') as fh:
                        results.append(('parse_file(open file, encoding=%s)' % codec, snap(lambda: PyDBML.parse_file(fh))))
                for name, got in results:
                    if got != base:
                        out.append({'cause': 'oracle', 'clause': 'PyDBML(str) and %s give different results' % name,
                                    'detail': '%s vs %s' % (str(base)[:200], str(got)[:200]),
                                    'input': {'kind': 'document', 'text_hex': hexs(text), 'text': text, 'codec': codec}})
                        break
            finally:
                os.unlink(path)
            if out:
                return out[:2]
    # a file with CRLF line endings: every file-based route reads it with universal newlines, i.e. as the LF text
    from pathlib import Path
    crlf_docs = [t for t, _ in docs if "'''" in t][:6] + ["Table t {\n  id int\n  Note: '''\n    First line\n    Second line\n  '''\n}\nNote n {\n  '''\n  a\n\n  b\n  '''\n}\n"]
    for text in crlf_docs:
        fd, path = tempfile.mkstemp(suffix='.dbml', dir='/var/tmp')
        try:
            with os.fdopen(fd, 'wb') as fh:
                fh.write(text.replace('\n', '\r\n').encode('utf8'))
            base = snap(lambda: PyDBML(text))
            routes = [('PyDBML(Path) on a CRLF file', lambda: PyDBML(Path(path))), ('parse_file(Path) on a CRLF file', lambda: PyDBML.parse_file(Path(path))),
                      ('parse_file(path string) on a CRLF file', lambda: PyDBML.parse_file(path))]
            for name, f in routes:
                got = snap(f)
                if got != base:
                    out.append({'cause': 'oracle', 'clause': 'PyDBML(str of the LF text) and %s give different results' % name,
                                'detail': '%s vs %s' % (str(base)[:200], str(got)[:200]),
                                'input': {'kind': 'document', 'text_hex': hexs(text), 'text': text, 'line_endings': 'CRLF'}})
                    break
            with open(path, encoding='utf8') as fh:
                got = snap(lambda: PyDBML(fh))
            if got != base and not out:
                out.append({'cause': 'oracle', 'clause': 'PyDBML(str of the LF text) and PyDBML(open file) on a CRLF file give different results',
                            'input': {'kind': 'document', 'text_hex': hexs(text), 'text': text, 'line_endings': 'CRLF'}})
        finally:
            os.unlink(path)
        if out:
            return out[:2]
    return out


def handle_state_oracle(docs):
    """an open text file is read through the handle, from where it stands: what .read() returns is the source, for a handle
    that cannot seek (a pipe) and for one the caller has already read a header from"""
    import os, tempfile
    from pydbml import PyDBML
    out = []

    def snap(f):
        try:
            d = f()
            return ('ok', docgen.content(d), d.dbml)
        except Exception as e:   # noqa
            return ('raise', pyscript.exc_name(e))
    for text, allow in docs:
        raw = text.encode('utf8')
        if len(raw) > 30000:
            continue
        base = snap(lambda: PyDBML(text, allow_properties=allow))
        results = []
        for how in ('PyDBML', 'parse_file'):
            if how == 'parse_file' and allow:
                continue
            rd, wr = os.pipe()
            os.write(wr, raw)
            os.close(wr)
            with os.fdopen(rd, 'r', encoding='utf8', newline='') as fh:
                results.append(('%s(text stream on a pipe, not seekable)' % how,
                                snap((lambda: PyDBML(fh, allow_properties=allow)) if how == 'PyDBML' else (lambda: PyDBML.parse_file(fh)))))
            fd, path = tempfile.mkstemp(suffix='.dbml', dir='/var/tmp')
            try:
                with os.fdopen(fd, 'wb') as fh:
                    fh.write(b'// header line the caller reads first\n' + raw)
                with open(path, encoding='utf8', newline='') as fh:
                    fh.readline()
                    results.append(('%s(open file after the caller read its first line)' % how,
                                    snap((lambda: PyDBML(fh, allow_properties=allow)) if how == 'PyDBML' else (lambda: PyDBML.parse_file(fh)))))
            finally:
                os.unlink(path)
        for name, got in results:
            if got != base:
                out.append({'cause': 'oracle', 'clause': 'PyDBML(str) and %s give different results' % name,
                            'detail': '%s vs %s' % (str(base)[:200], str(got)[:200]),
                            'input': {'kind': 'document', 'text_hex': hexs(text), 'text': text}})
                return out
    return out


def positional_oracle(docs):
    """options given by position have the effect of the same options given by keyword, on the three routes that take them"""
    from pydbml import PyDBML
    from pydbml.renderer.sql.default import DefaultSQLRenderer
    from pydbml.renderer.dbml.default import DefaultDBMLRenderer
    out = []

    def snap(f):
        try:
            d = f()
            return ('ok', docgen.content(d), d.dbml, d.allow_properties, d.sql_renderer.__name__, d.dbml_renderer.__name__)
        except Exception as e:   # noqa
            return ('raise', pyscript.exc_name(e))
    for text, allow in docs:
        pos = (allow, DefaultSQLRenderer, DefaultDBMLRenderer)
        base = snap(lambda: PyDBML.parse(text, allow_properties=allow, sql_renderer=DefaultSQLRenderer, dbml_renderer=DefaultDBMLRenderer))
        for name, f in [('PyDBML(text, *options)', lambda: PyDBML(text, *pos)), ('PyDBML.parse(text, *options)', lambda: PyDBML.parse(text, *pos)),
                        ('PyDBML().parse(text, *options)', lambda: PyDBML().parse(text, *pos)),
                        ('PyDBML().parse(text, allow_properties) with one positional option', lambda: PyDBML().parse(text, allow))]:
            got = snap(f)
            if got != base:
                out.append({'cause': 'oracle', 'clause': 'options by keyword on PyDBML.parse and %s give different results' % name,
                            'detail': '%s vs %s' % (str(base)[:200], str(got)[:200]),
                            'input': {'kind': 'document', 'text_hex': hexs(text), 'text': text, 'allow_properties': allow}})
                return out
    return out


def run(v, tier, st, pr):
    r = rng('c12')
    n = 40 if tier == 'quick' else 1500
    kfs = {f['id']: f for f in load_known_findings()['findings'] if f['property'] == 'C12'}
    rdefs = [([(1, ('const', 'T!')), (5, ('const', 'E!'))], ('const', 'CUSTOM-SQL')), ([(1, ('dbml',)), (8, ('const', 'N!'))], ('dbml',))]
    jobs, tags, groups = [], [], []
    docs = []
    for i in range(n):
        A, text, exp, allow = prop_parse.gen_doc(r)
        if r.random() < 0.15:
            text = prop_parse.mutate(r, text)          # also documents that are rejected: every route must reject alike
        if '\r' in text:
            text = text.replace('\r', '')              # CR is translated by the file routes: not "the same text" (DESIGN 6/C12)
        docs.append((text, allow))
    for text, allow in docs:
        for nbom in (0, 1, 2):
            src = BOM * nbom + text
            opts = [(False, 0, 1), (allow, 0, 1), (allow, 2, 3)]
            for (al, sq, db) in opts:
                members = []
                for route in range(8):
                    if route in (5, 6, 7) and (al, sq, db) != (False, 0, 1):
                        continue       # parse_file takes no options
                    members.append(len(jobs))
                    jobs.append((rdefs, [parse_op(route, al, sq, db, src), Op(82), Op(80, 0), Op(81, 0)]))
                    tags.append((route, nbom, al, sq, db))
                groups.append((members, nbom, src))
    # the constructor refuses any other source type
    jobs.append((rdefs, [parse_op(8, False, 0, 1, '')]))
    tags.append((8, 0, False, 0, 1))
    type_error_job = len(jobs) - 1
    res = stream_script.compare(jobs, 'entry', tags=tags)
    outs = res['impl_outs']
    fails = []
    for members, nbom, src in groups:
        base = outs[members[0]]
        for m in members[1:]:
            if outs[m] != base:
                route = tags[m][0]
                if nbom == 2 and 'D17' in kfs:
                    v.known_finding('D17', kfs['D17']['what'])
                    continue
                a, b = base.split(';'), outs[m].split(';')
                k = next((i for i, (x, y) in enumerate(zip(a, b)) if x != y), 0)
                fails.append({'cause': 'oracle', 'clause': '%s and %s give different results (BOMs: %d, options %r)' % (ROUTE_NAMES[tags[members[0]][0]], ROUTE_NAMES[route], nbom, tags[m][2:]),
                              'detail': '%s  vs  %s' % (a[k][:300], b[k][:300]),
                              'input': {'kind': 'document', 'text_hex': hexs(src), 'text': src}})
        if nbom == 1:
            # a leading BOM is ignored: same as without it
            pass
    # BOM ignored: compare groups of the same document / options with 0 and 1 BOM
    idx = {}
    for gi, (members, nbom, src) in enumerate(groups):
        key = (src.lstrip(BOM), tags[members[0]][2:])
        idx.setdefault(key, {})[nbom] = outs[members[0]]
    for key, d in idx.items():
        if 0 in d and 1 in d and d[0] != d[1]:
            fails.append({'cause': 'oracle', 'clause': 'a leading byte-order mark changes the result', 'input': {'kind': 'document', 'text_hex': hexs(key[0]), 'text': key[0]}})
    if outs[type_error_job] != 'raise builtins.TypeError':
        fails.append({'cause': 'oracle', 'clause': 'the constructor does not refuse another source type with TypeError: ' + outs[type_error_job],
                      'input': {'kind': 'api', 'text': 'PyDBML(12345)'}})
    # every other type of source is refused with TypeError (bytes, even bytes naming an existing file, included)
    fails += other_types_oracle()
    # an open text file is read through the handle: whatever codec the caller opened it with
    fails += codec_oracle(docs[:12] + [('Table "café" {\n  "naïve" int [note: \'é ü ñ\']\n}\n', False)])
    fails += positional_oracle(docs[:15] + [('Table t {\n  id int\n}\n', False), ("Table t [k: 'v'] {\n  id int\n}\n", True)])
    fails += handle_state_oracle(docs[:20] + [('Table t {\n  id int\n}\n', False)])
    fails.sort(key=lambda f: len(f['input'].get('text', '')))
    total = verdicts.conclude(v, pr, st, {'entry': stream_script.strip(res)}, fails)
    v.coverage['evaluations'] = total
    v.coverage['distinct_nontrivial'] = res['distinct_nontrivial']
    v.coverage['routes'] = ROUTE_NAMES
    v.coverage['rule'] = ('%d documents (15%% mutated) x {0,1,2} byte-order marks x 3 option settings (incl. generated custom renderer classes) x 8 routes; temporary files under /var/tmp, '
                          'removed after each case; all routes of a group must give the same dump and renderings; distinct = distinct observation traces' % n)
    v.coverage['samples'] = [{'route': ROUTE_NAMES.get(t[0]), 'boms': t[1], 'options': t[2:]} for t in tags[:3]]
    v.coverage['explanation'] = 'entry-point model (coq/model/Entry.v) tied by stream entry; route agreement checked on the implementation'
