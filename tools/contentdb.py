"""Build a Database through the public constructors from a *content* description (the format of
docgen.content / the `expected` value of docgen.render_doc).  Used by the document-level SQL clause of
C03/C04: what the DDL of a parsed document must state is computed from the document's abstract
description, never from the objects the parser produced."""
from pydbml.classes import (Table, Column, Index, Reference, Enum, EnumItem, Note, StickyNote,
                            Expression, Project, TableGroup)
from pydbml.database import Database


def _default(ed):
    if ed is None:
        return None
    k, v = ed
    if k == 'x':
        return Expression(v)
    if k in ('b', 'i', 'f', 's'):
        return v
    raise ValueError('default kind %r' % (k,))


def build(content, allow_properties=False):
    db = Database(allow_properties=allow_properties)
    enums = {}
    for e in content['enums']:
        items = [EnumItem(i['name'], note=i.get('note') or None, comment=i.get('comment')) for i in e['items']]
        en = Enum(e['name'], items, schema=e['schema'], comment=e.get('comment'))
        enums[(e['schema'], e['name'])] = en
        db.add(en)
    tables = {}
    for t in content['tables']:
        cols = []
        for c in t['columns']:
            ty = c['type']
            if ty[0] == 'enum':
                ty = enums[(ty[1], ty[2])]
            else:
                ty = ty[1]
            cols.append(Column(c['name'], ty, unique=c['unique'], not_null=c['not_null'], pk=c['pk'], autoinc=c['autoinc'],
                               default=_default(c['default']), note=c.get('note') or None, comment=c.get('comment'),
                               properties=dict(c.get('props') or {})))
        tb = Table(t['name'], schema=t['schema'], alias=t.get('alias'), columns=cols, note=t.get('note') or None,
                   header_color=t.get('header_color'), comment=t.get('comment'), properties=dict(t.get('props') or {}))
        for ix in t['indexes']:
            subs = []
            for kind, v in ix['subjects']:
                if kind == 'col':
                    subs.append(next(c for c in cols if c.name == v))
                elif kind == 'expr':
                    subs.append(Expression(v))
                else:
                    subs.append(v)
            tb.add_index(Index(subs, name=ix.get('name'), unique=ix['unique'], type=ix.get('type'), pk=ix['pk'],
                               note=ix.get('note') or None, comment=ix.get('comment')))
        tables.setdefault((t['schema'], t['name']), []).append(tb)
        db.add(tb)

    def cols_of(key, names):
        tb = tables[tuple(key)][0]
        return [next(c for c in tb.columns if c.name == n) for n in names]

    for x in content['refs']:
        db.add(Reference(x['kind'], cols_of(x['t1'], x['cols1']), cols_of(x['t2'], x['cols2']), name=x.get('name'),
                         comment=x.get('comment'), on_update=x.get('on_update'), on_delete=x.get('on_delete'),
                         inline=bool(x.get('inline'))))
    for g in content['groups']:
        nn = Note(g['note']) if g.get('note') is not None else None
        db.add(TableGroup(g['name'], [tables[tuple(k)][0] for k in g['items']], comment=g.get('comment'), note=nn,
                          color=g.get('color')))
    for s in content['stickies']:
        db.add(StickyNote(s['name'], s['text']))
    if content.get('project') is not None:
        p = content['project']
        db.add(Project(p['name'], items=dict(p['items']), note=p.get('note') or None, comment=p.get('comment')))
    return db
