#!/usr/bin/env python3
"""writes /verif/MANIFEST.json from tools/claims.json (one place to edit claims)"""
import json, os
V = os.path.dirname(os.path.dirname(os.path.abspath(__file__)))
claims = json.load(open(os.path.join(V, 'tools', 'claims.json')))
ids = ['C%02d' % i for i in range(1, 19)]
checks = []
for pid in ids:
    c = claims['checks'].get(pid)
    if not c:
        continue
    checks.append({
        'property_id': pid,
        'quick_cmd': './check %s --tier quick' % pid,
        'thorough_cmd': './check %s --tier thorough' % pid,
        'evidence_file': 'evidence/%s.json' % pid,
        'replay_cmd_template': './check %s --replay {path}' % pid,
        'engine': 'coq-model',
        'level_claimed': {'category': c['level'], 'text': c['text'], 'design_ref': c.get('design_ref', 'DESIGN.md §6 ' + pid)},
        'level_note': c['note'],
        'technique': c['technique'],
    })
m = {
    'version': 1,
    'setup_cmd': './setup.sh',
    'hooks': {'guard': 'PYDBML_VERIF', 'enable': 'no hooks in /repo are needed: the harness reflects and drives the running implementation from outside (monkey-patching in its own process)',
              'baseline_off_cmd': 'cd /repo && /venv/bin/python -m pytest -q -p no:cacheprovider', 'source_commits': [], 'add_only': True},
    'engines': [{'name': 'coq-model', 'path': 'coq/', 'serves_properties': [c['property_id'] for c in checks],
                 'kind_free_text': 'Coq 8.16 model + theorems (coq/props), regenerated parts (coq/gen via tools/translate.py), extracted OCaml model run against CPython by tools/stream_*.py'}],
    'checks': checks,
    'notes': claims.get('notes', ''),
    'not_applicable': [{'property_id': p, 'reason': claims['not_applicable'].get(p, 'check not built yet (work in progress)')} for p in ids if p not in claims['checks']],
}
json.dump(m, open(os.path.join(V, 'MANIFEST.json'), 'w'), indent=1)
json.dump({p: claims['checks'][p]['level'] for p in claims['checks']}, open(os.path.join(V, 'tools', 'levels.json'), 'w'))
print('claimed:', [c['property_id'] for c in checks])
