"""An independent tokenising reader of the SQL DDL PyDBML emits, and the declarative statement of
C03/C04 (`spec_ddl`): which statements must exist for a database, computed from the model objects
without going through any renderer.  Both produce the same plain-data AST so they can be compared."""
import re

from pydbml.classes import Column, Enum, Expression


class ReadError(Exception):
    pass


class Tok:
    def __init__(self, text):
        self.s = text
        self.i = 0

    def ws(self):
        while self.i < len(self.s) and self.s[self.i] in ' \n':
            self.i += 1

    def peek(self, lit):
        self.ws()
        return self.s.startswith(lit, self.i)

    def eat(self, lit):
        self.ws()
        if not self.s.startswith(lit, self.i):
            raise ReadError('expected %r at %d: %r' % (lit, self.i, self.s[self.i:self.i + 40]))
        self.i += len(lit)

    def opt(self, lit):
        if self.peek(lit):
            self.eat(lit)
            return True
        return False

    def qident(self):
        self.ws()
        if self.i >= len(self.s) or self.s[self.i] != '"':
            raise ReadError('expected quoted identifier at %d: %r' % (self.i, self.s[self.i:self.i + 40]))
        j = self.s.index('"', self.i + 1)
        r = self.s[self.i + 1:j]
        self.i = j + 1
        return r

    def qname(self):
        a = self.qident()
        if self.i < len(self.s) and self.s[self.i] == '.':
            self.i += 1
            b = self.qident()
            return (a, b)
        return ('public', a)

    def sqstring(self):
        self.ws()
        if self.s[self.i] != "'":
            raise ReadError('expected string at %d' % self.i)
        j = self.s.index("'", self.i + 1)
        r = self.s[self.i + 1:j]
        self.i = j + 1
        return r

    def balanced_until(self, stops):
        """raw text up to one of the stop strings at parenthesis depth 0 (not consumed)"""
        self.ws()
        depth = 0
        j = self.i
        while j < len(self.s):
            c = self.s[j]
            if depth == 0 and any(self.s.startswith(st, j) for st in stops):
                break
            if c == '(':
                depth += 1
            elif c == ')':
                if depth == 0:
                    break
                depth -= 1
            j += 1
        r = self.s[self.i:j]
        self.i = j
        return r

    def comments(self):
        out = []
        while self.peek('--'):
            self.eat('--')
            j = self.s.find('\n', self.i)
            j = len(self.s) if j < 0 else j
            line = self.s[self.i:j]
            out.append(line[1:] if line.startswith(' ') else line)
            self.i = j
        return '\n'.join(out) if out else None

    def done(self):
        self.ws()
        return self.i >= len(self.s)


def col_list(t):
    t.eat('(')
    cols = [t.qident()]
    while t.opt(','):
        cols.append(t.qident())
    t.eat(')')
    return cols


def fk_tail(t):
    t.eat('FOREIGN KEY')
    src = col_list(t)
    t.eat('REFERENCES')
    rt = t.qname()
    rc = col_list(t)
    upd = dele = None
    if t.opt('ON UPDATE'):
        upd = t.balanced_until([' ON DELETE', ';', ',\n', '\n']).strip()
    if t.opt('ON DELETE'):
        dele = t.balanced_until([';', ',\n', '\n']).strip()
    return {'src': src, 'ref_table': rt, 'ref_cols': rc, 'on_update': upd, 'on_delete': dele}


FLAGS = ['PRIMARY KEY', 'AUTOINCREMENT', 'UNIQUE', 'NOT NULL']


def read_ddl(text):
    """returns list of statements (dicts)"""
    t = Tok(text)
    out = []
    while not t.done():
        comment = t.comments()
        if t.done():
            out.append({'stmt': 'comment', 'text': comment})
            break
        if t.opt('CREATE TYPE'):
            name = t.qname()
            t.eat('AS ENUM')
            t.eat('(')
            items = []
            while not t.peek(')'):
                ic = t.comments()
                items.append({'name': t.sqstring(), 'comment': ic})
                t.opt(',')
            t.eat(')')
            t.eat(';')
            out.append({'stmt': 'type', 'name': name, 'items': items, 'comment': comment})
        elif t.opt('CREATE TABLE'):
            name = t.qname()
            t.eat('(')
            cols, pks, fks = [], [], []
            cpk = None
            while not t.peek(')'):
                ec = t.comments()
                if t.peek('PRIMARY KEY'):
                    t.eat('PRIMARY KEY')
                    t.eat('(')
                    keys = t.balanced_until([]).strip()
                    t.eat(')')
                    pks.append({'keys': keys, 'comment': ec})
                elif t.peek('CONSTRAINT') or t.peek('FOREIGN KEY'):
                    cname = None
                    if t.opt('CONSTRAINT'):
                        cname = t.qident()
                    fk = fk_tail(t)
                    fk['name'] = cname
                    fk['comment'] = ec
                    fks.append(fk)
                else:
                    cn = t.qident()
                    rest = t.balanced_until([',\n', '\n)'])
                    # type, then flags, then DEFAULT
                    dflt = None
                    m = re.search(r'(^| )DEFAULT (.*)$', rest, flags=re.S)
                    if m:
                        dflt = m.group(2)
                        rest = rest[:m.start()]
                    rest = rest.strip()
                    flags = []
                    changed = True
                    while changed:
                        changed = False
                        for f in reversed(FLAGS):
                            if rest.endswith(' ' + f):
                                flags.insert(0, f)
                                rest = rest[:-len(f) - 1]
                                changed = True
                    cols.append({'name': cn, 'type': rest.strip(), 'flags': flags, 'default': dflt, 'comment': ec})
                t.opt(',')
            t.eat(')')
            t.eat(';')
            out.append({'stmt': 'table', 'name': name, 'cols': cols, 'pk_clauses': pks, 'fks': fks, 'comment': comment})
        elif t.peek('CREATE UNIQUE INDEX') or t.peek('CREATE INDEX'):
            t.eat('CREATE')
            uq = t.opt('UNIQUE')
            t.eat('INDEX')
            iname = None
            if not t.peek('ON '):
                iname = t.qident()
            t.eat('ON')
            table = t.qname()
            using = None
            if t.opt('USING'):
                using = t.balanced_until([' (']).strip()
            t.eat('(')
            keys = t.balanced_until([]).strip()
            t.eat(')')
            t.eat(';')
            out.append({'stmt': 'index', 'unique': uq, 'name': iname, 'table': table, 'using': using, 'keys': keys, 'comment': comment})
        elif t.opt('COMMENT ON TABLE'):
            table = t.qname()
            t.eat('IS')
            txt = t.sqstring()
            t.eat(';')
            out.append({'stmt': 'comment_table', 'table': table, 'text': txt})
        elif t.opt('COMMENT ON COLUMN'):
            t1 = t.qident()
            t.eat('.')
            t2 = t.qident()
            if t.i < len(t.s) and t.s[t.i] == '.':
                t.i += 1
                t3 = t.qident()
                table, col = (t1, t2), t3
            else:
                table, col = ('public', t1), t2
            t.eat('IS')
            txt = t.sqstring()
            t.eat(';')
            out.append({'stmt': 'comment_column', 'table': table, 'column': col, 'text': txt})
        elif t.opt('ALTER TABLE'):
            table = t.qname()
            t.eat('ADD')
            cname = None
            if t.opt('CONSTRAINT'):
                cname = t.qident()
            fk = fk_tail(t)
            t.eat(';')
            fk.update({'stmt': 'alter_fk', 'table': table, 'name': cname, 'comment': comment})
            out.append(fk)
        else:
            raise ReadError('unknown statement at %d: %r' % (t.i, t.s[t.i:t.i + 50]))
    return out


# ------------------------------------------------------------------ the declarative side
def qn(x):
    return (x.schema, x.name)


def prep(text):
    return re.sub(r'\\\n', '', text).replace("'", '"')


def key_text(ix):
    parts = []
    for s in ix.subjects:
        if isinstance(s, Column):
            parts.append('"%s"' % s.name)
        elif isinstance(s, Expression):
            parts.append('(%s)' % s.text)
        else:
            parts.append(s)
    return ', '.join(parts)


def fk_of(ref):
    """(holder table, src cols, ref table, ref cols) for > - < ; None for <>"""
    if ref.type in ('>', '-'):
        return ref.col1[0].table, ref.col1, ref.col2[0].table, ref.col2
    if ref.type == '<':
        return ref.col2[0].table, ref.col2, ref.col1[0].table, ref.col1
    return None


def fk_ast(ref, src, rt, rc):
    return {'src': [c.name for c in src], 'ref_table': qn(rt), 'ref_cols': [c.name for c in rc],
            'on_update': ref.on_update.upper() if ref.on_update else None,
            'on_delete': ref.on_delete.upper() if ref.on_delete else None,
            'name': ref.name or None, 'comment': ref.comment or None}


def table_ast(t, db, qualify_index_and_comment_tables=True):
    n_pk = sum(1 for c in t.columns if c.pk)
    cols = []
    for c in t.columns:
        flags = []
        if c.pk and n_pk < 2:
            flags.append('PRIMARY KEY')
        if c.autoinc:
            flags.append('AUTOINCREMENT')
        if c.unique:
            flags.append('UNIQUE')
        if c.not_null:
            flags.append('NOT NULL')
        if c.default is None:
            d = None
        elif isinstance(c.default, Expression):
            d = '(%s)' % c.default.text
        else:
            d = str(c.default)
        ty = ('"%s"' % c.type.name if c.type.schema == 'public' else '"%s"."%s"' % (c.type.schema, c.type.name)) \
            if isinstance(c.type, Enum) else str(c.type)
        cols.append({'name': c.name, 'type': ty, 'flags': flags, 'default': d, 'comment': c.comment or None})
    pks = [{'keys': key_text(ix), 'comment': ix.comment or None} for ix in t.indexes if ix.pk]
    if n_pk >= 2:
        pks.append({'keys': ', '.join('"%s"' % c.name for c in t.columns if c.pk), 'comment': None})
    fks = []
    if db is not None and not t.abstract:
        for ref in db.refs:
            if ref.type == '<>' or not ref.inline:
                continue
            holder, src, rt, rc = fk_of(ref)
            if holder is t:
                fks.append(fk_ast(ref, src, rt, rc))
    stmts = [{'stmt': 'table', 'name': qn(t), 'cols': cols, 'pk_clauses': pks, 'fks': fks, 'comment': t.comment or None}]
    tname = qn(t) if qualify_index_and_comment_tables else ('public', t.name)
    for ix in t.indexes:
        if not ix.pk:
            stmts.append({'stmt': 'index', 'unique': bool(ix.unique), 'name': ix.name or None, 'table': tname,
                          'using': ix.type.upper() if ix.type else None, 'keys': key_text(ix), 'comment': ix.comment or None})
    if t.note and t.note.text:
        stmts.append({'stmt': 'comment_table', 'table': tname, 'text': prep(t.note.text)})
    for c in t.columns:
        if c.note and c.note.text:
            stmts.append({'stmt': 'comment_column', 'table': tname, 'column': c.name, 'text': prep(c.note.text)})
    return stmts


def ref_asts(ref):
    """statements of a non-inline reference at database level"""
    if ref.type == '<>':
        t1, t2 = ref.col1[0].table, ref.col2[0].table
        jt = (t1.schema, '%s_%s' % (t1.name, t2.name))
        cols = []
        for c in list(ref.col1) + list(ref.col2):
            ty = ('"%s"' % c.type.name if c.type.schema == 'public' else '"%s"."%s"' % (c.type.schema, c.type.name)) \
                if isinstance(c.type, Enum) else str(c.type)
            cols.append({'name': '%s_%s' % (c.table.name, c.name), 'type': ty, 'flags': ['NOT NULL'], 'default': None, 'comment': None})
        names = [c['name'] for c in cols]
        n = len(ref.col1)
        if len(cols) < 2:
            cols[0]['flags'] = ['PRIMARY KEY', 'NOT NULL']
            pk = []
        else:
            pk = [{'keys': ', '.join('"%s"' % x for x in names), 'comment': None}]
        base = {'on_update': ref.on_update.upper() if ref.on_update else None,
                'on_delete': ref.on_delete.upper() if ref.on_delete else None,
                'name': None, 'comment': ref.comment or None, 'stmt': 'alter_fk', 'table': jt}
        a = dict(base, src=names[:n], ref_table=qn(t1), ref_cols=[c.name for c in ref.col1])
        b = dict(base, src=names[n:], ref_table=qn(t2), ref_cols=[c.name for c in ref.col2])
        return [{'stmt': 'table', 'name': jt, 'cols': cols, 'pk_clauses': pk, 'fks': [], 'comment': None, '_join': True}, a, b]
    holder, src, rt, rc = fk_of(ref)
    d = fk_ast(ref, src, rt, rc)
    d.update({'stmt': 'alter_fk', 'table': qn(holder)})
    return [d]


def spec_ddl(db, order=None, qualify=True):
    """the statements C03/C04 demand, in the order the text lists them; `order` = table order to use"""
    out = []
    for e in db.enums:
        out.append({'stmt': 'type', 'name': qn(e), 'items': [{'name': i.name, 'comment': i.comment or None} for i in e.items],
                    'comment': e.comment or None})
    for t in (order if order is not None else db.tables):
        out += table_ast(t, db, qualify)
    for ref in db.refs:
        if ref.type == '<>' or not ref.inline:
            out += ref_asts(ref)
    return out


def table_order(stmts):
    return [s['name'] for s in stmts if s['stmt'] == 'table']
