"""Translator for the pure text helpers of PyDBML: the *source text* of each whitelisted function is parsed with
`ast` and re-emitted as a Gallina definition over the string library of coq/lib/PyStr.v (coq/gen/GenFns.v).
proofs/GenFnTie.v proves every generated definition equal to the hand-written one the theorems are about, so an
edit of one of these functions changes GenFns.v and breaks a lemma (or, if it leaves the translated subset, the
translator aborts: fail-closed).

Translated subset (anything else aborts):
  expressions  string constants, parameters and locals, `a + b` on strings, `s * n` (string times a count parameter),
               f-strings of string-valued parts, `sep.join(<e> for x in s.split(c))`, `s.replace(c, t)` and `c in s`
               for a one-character constant c, `s.strip(cs)`, `s == ''`, `not s`, `s and s[0] == c`, `s[1:]`,
               calls of other translated functions, calls of functions declared EXTERNAL (regex based: their hand-written
               closed forms are tied by the differential text stream and the regenerated pattern strings)
  statements   `if c: return e`, `if c: raise ValueError(...)`, `if c: x = e` (no else), `x = e`, `return e`,
               `if c: return a else: return b`, docstrings
"""
import ast
import inspect

from translate import Abort, cstr

# (module, function, parameters with their Coq types, returns a result that may raise)
FUNCS = [
    ('pydbml.tools', 'comment', [('val', 'pystr'), ('comb', 'pystr')], False),
    ('pydbml.tools', 'indent', [('val', 'pystr'), ('spaces', 'nat')], False),
    ('pydbml.tools', 'remove_bom', [('source', 'pystr')], False),
    ('pydbml.tools', 'doublequote_string', [('source', 'pystr')], True),
    ('pydbml.renderer.dbml.default.utils', 'quote_string', [('text', 'pystr')], False),
    ('pydbml.renderer.dbml.default.utils', 'note_option_to_dbml', [('note', 'NOTE')], False),
    ('pydbml.renderer.dbml.default.utils', 'comment_to_dbml', [('val', 'pystr')], False),
    ('pydbml.renderer.sql.default.utils', 'comment_to_sql', [('val', 'pystr')], False),
    # small renderers: the parameter is a model object, read through the attributes listed in RECORDS
    ('pydbml.renderer.sql.default.expression', 'render_expression', [('model', 'expression')], False),
    ('pydbml.renderer.dbml.default.expression', 'render_expression', [('model', 'expression')], False),
    ('pydbml.renderer.sql.default.enum', 'render_enum_item', [('model', 'enumitem')], False),
    ('pydbml.renderer.dbml.default.sticky_note', 'render_sticky_note', [('model', 'stickynote')], False),
    # the Note { ... } block
    ('pydbml.renderer.dbml.default.note', 'render_note', [('model', 'NOTE')], False),
    # the PRIMARY KEY clause of a pk index
    ('pydbml.renderer.sql.default.index', 'render_pk', [('model', 'index'), ('keys', 'pystr')], False),
    # the qualified name of a table / an enum, as both renderers spell it
    ('pydbml.renderer.sql.default.utils', 'get_full_name_for_sql', [('model', 'named')], False),
    ('pydbml.renderer.dbml.default.table', 'get_full_name_for_dbml', [('model', 'named')], False),
]
# attributes of model records: python attribute -> (Coq accessor, is it Optional[str])
RECORDS = {
    'expression': {'text': ('x_text', False)},
    'enumitem': {'name': ('ei_name', True), 'comment': ('ei_comment', True)},
    'stickynote': {'name': ('sn_name', False), 'text': ('sn_text', False)},
    'index': {'comment': ('i_comment', True)},
    # anything with a schema and a name (Table, Enum): the record is declared in the prelude of GenFns.v
    'named': {'schema': ('nm_schema', True), 'name': ('nm_name', True)},
}
# names a translated function may use from its module: python name -> (module it must come from, Coq term)
IMPORTED = {'indent': {'textwrap': 'textwrap_indent'}}
# functions the translated ones may call without being translated themselves (regular-expression based)
EXTERNAL = {'prepare_text_for_dbml': 'prepare_text_for_dbml'}
EXTERNAL_ORIGIN = {'prepare_text_for_dbml': 'pydbml.renderer.dbml.default.utils'}
DEFAULTS = {('indent', 'spaces'): 4}


class Tr:
    def __init__(self, name, params, raises, known, module=None):
        self.name, self.raises, self.known, self.module = name, raises, known, module
        self.types = dict(params)
        self.locals = set(p for p, _ in params)

    def one_char(self, node, what):
        if not (isinstance(node, ast.Constant) and isinstance(node.value, str) and len(node.value) == 1):
            raise Abort('%s: %s must be a one-character string constant' % (self.name, what))
        return '%d%%N' % ord(node.value)

    def expr(self, e):
        if isinstance(e, ast.Constant) and isinstance(e.value, str):
            return cstr(e.value)
        if isinstance(e, ast.Name):
            if e.id not in self.locals:
                raise Abort('%s: unknown name %s' % (self.name, e.id))
            if self.types.get(e.id) == 'NOTE':
                raise Abort('%s: the note object is only used through .text' % self.name)
            return e.id
        if isinstance(e, ast.Attribute) and isinstance(e.value, ast.Name) and self.types.get(e.value.id) == 'NOTE' and e.attr == 'text':
            return e.value.id + '_text'
        if isinstance(e, ast.Attribute) and isinstance(e.value, ast.Name) and self.types.get(e.value.id) in RECORDS:
            rec = RECORDS[self.types[e.value.id]]
            if e.attr not in rec:
                raise Abort('%s: attribute %s of a %s' % (self.name, e.attr, self.types[e.value.id]))
            acc, opt = rec[e.attr]
            # an Optional[str] attribute in a string position is formatted / passed as str(x) ('None' when unset)
            return '(fstr (%s %s))' % (acc, e.value.id) if opt else '(%s %s)' % (acc, e.value.id)
        if isinstance(e, ast.IfExp):
            return '(if %s then %s else %s)' % (self.cond(e.test), self.expr(e.body), self.expr(e.orelse))
        if isinstance(e, ast.BinOp) and isinstance(e.op, ast.Add):
            return '(%s ++ %s)' % (self.expr(e.left), self.expr(e.right))
        if isinstance(e, ast.BinOp) and isinstance(e.op, ast.Mult):
            if isinstance(e.right, ast.Name) and self.types.get(e.right.id) == 'nat':
                return '(py_mul %s %s)' % (self.expr(e.left), e.right.id)
            raise Abort('%s: only string * count-parameter is translated' % self.name)
        if isinstance(e, ast.JoinedStr):
            parts = []
            for v in e.values:
                if isinstance(v, ast.Constant):
                    parts.append(cstr(v.value))
                elif isinstance(v, ast.FormattedValue) and v.conversion == -1 and v.format_spec is None:
                    parts.append(self.expr(v.value))
                else:
                    raise Abort('%s: f-string part with conversion or format spec' % self.name)
            return '(' + ' ++ '.join(parts) + ')' if parts else '[]'
        if isinstance(e, ast.Call):
            return self.call(e)
        if isinstance(e, ast.Subscript) and isinstance(e.slice, ast.Slice) and e.slice.upper is None and e.slice.step is None \
                and isinstance(e.slice.lower, ast.Constant) and e.slice.lower.value == 1:
            return '(tl %s)' % self.expr(e.value)
        raise Abort('%s: expression %s is outside the translated subset' % (self.name, ast.dump(e)[:80]))

    def call(self, e):
        if e.keywords:
            raise Abort('%s: keyword arguments' % self.name)
        f = e.func
        if isinstance(f, ast.Name):
            args = ' '.join(self.expr(a) for a in e.args)
            # the name is resolved where the function resolves it: in the globals of its module
            obj = self.module.__dict__.get(f.id) if self.module is not None else None
            origin = getattr(obj, '__module__', None)
            if (origin, f.id) in self.known:
                return '(gen_%s %s)' % (f.id, args)
            if f.id in IMPORTED and IMPORTED[f.id].get(origin):
                return '(%s %s)' % (IMPORTED[f.id][origin], args)
            if f.id in EXTERNAL and origin == EXTERNAL_ORIGIN[f.id]:
                return '(%s %s)' % (EXTERNAL[f.id], args)
            raise Abort('%s: call of %s (defined in %s)' % (self.name, f.id, origin))
        if isinstance(f, ast.Attribute):
            m = f.attr
            if m == 'join' and len(e.args) == 1 and isinstance(e.args[0], ast.GeneratorExp):
                g = e.args[0]
                if len(g.generators) != 1 or g.generators[0].ifs or not isinstance(g.generators[0].target, ast.Name):
                    raise Abort('%s: generator shape' % self.name)
                var = g.generators[0].target.id
                it = g.generators[0].iter
                if not (isinstance(it, ast.Call) and isinstance(it.func, ast.Attribute) and it.func.attr == 'split' and len(it.args) == 1):
                    raise Abort('%s: join over something else than s.split(c)' % self.name)
                src = self.expr(it.func.value)
                c = self.one_char(it.args[0], 'separator of split')
                self.locals.add(var)
                body = self.expr(g.elt)
                self.locals.discard(var)
                return '(join %s (map (fun %s => %s) (split_on %s %s)))' % (self.expr(f.value), var, body, c, src)
            if m == 'replace' and len(e.args) == 2:
                return '(replace_c %s %s %s)' % (self.one_char(e.args[0], 'first argument of replace'), self.expr(e.args[1]), self.expr(f.value))
            if m == 'strip' and len(e.args) == 1:
                return '(strip_chars %s %s)' % (self.expr(e.args[0]), self.expr(f.value))
        raise Abort('%s: call %s is outside the translated subset' % (self.name, ast.dump(e)[:80]))

    def cond(self, c):
        if isinstance(c, ast.Compare) and len(c.ops) == 1:
            op, l, r = c.ops[0], c.left, c.comparators[0]
            if isinstance(op, ast.In):
                return '(mem %s %s)' % (self.one_char(l, 'left side of in'), self.expr(r))
            if isinstance(op, ast.Eq) and isinstance(r, ast.Constant) and r.value == '':
                return '(is_nil %s)' % self.expr(l)
            if isinstance(op, ast.Eq) and isinstance(r, ast.Constant) and isinstance(r.value, str) and r.value \
                    and isinstance(l, ast.Attribute) and isinstance(l.value, ast.Name) and self.types.get(l.value.id) in RECORDS:
                acc, opt = RECORDS[self.types[l.value.id]].get(l.attr, (None, None))
                if acc and opt:
                    # Optional[str] attribute == non-empty constant: None is different from every string
                    return '(ostr_eqb (%s %s) (Some %s))' % (acc, l.value.id, cstr(r.value))
        if isinstance(c, ast.UnaryOp) and isinstance(c.op, ast.Not):
            return '(is_nil %s)' % self.expr(c.operand)
        if isinstance(c, ast.BoolOp) and isinstance(c.op, ast.And) and len(c.values) == 2:
            a, b = c.values
            if isinstance(a, ast.Name) and isinstance(b, ast.Compare) and len(b.ops) == 1 and isinstance(b.ops[0], ast.Eq) \
                    and isinstance(b.left, ast.Subscript) and isinstance(b.left.value, ast.Name) and b.left.value.id == a.id \
                    and isinstance(b.left.slice, ast.Constant) and b.left.slice.value == 0:
                return '(match %s with x0 :: _ => N.eqb x0 %s | [] => false end)' % (a.id, self.one_char(b.comparators[0], 'compared character'))
        if isinstance(c, ast.Attribute) and isinstance(c.value, ast.Name) and self.types.get(c.value.id) in RECORDS:
            acc, opt = RECORDS[self.types[c.value.id]].get(c.attr, (None, None))
            if acc and opt:
                return '(truthy (%s %s))' % (acc, c.value.id)
        raise Abort('%s: condition %s is outside the translated subset' % (self.name, ast.dump(c)[:80]))

    def ret(self, e):
        v = self.expr(e)
        return 'Ok %s' % v if self.raises else v

    def block(self, stmts):
        if not stmts:
            raise Abort('%s: function may fall off its end' % self.name)
        s, rest = stmts[0], stmts[1:]
        if isinstance(s, ast.Expr) and isinstance(s.value, ast.Constant) and isinstance(s.value.value, str):
            return self.block(rest)
        if isinstance(s, ast.Return) and s.value is not None:
            return self.ret(s.value)
        if isinstance(s, ast.Assign) and len(s.targets) == 1 and isinstance(s.targets[0], ast.Name):
            v = self.expr(s.value)
            self.locals.add(s.targets[0].id)
            return 'let %s := %s in\n  %s' % (s.targets[0].id, v, self.block(rest))
        if isinstance(s, ast.AugAssign) and isinstance(s.op, ast.Add) and isinstance(s.target, ast.Name) and s.target.id in self.locals:
            x = s.target.id
            return 'let %s := (%s ++ %s) in\n  %s' % (x, x, self.expr(s.value), self.block(rest))
        if isinstance(s, ast.If):
            c = self.cond(s.test)
            if len(s.body) == 1 and isinstance(s.body[0], ast.Return) and s.body[0].value is not None:
                if s.orelse:
                    if rest:
                        raise Abort('%s: statements after if/else' % self.name)
                    return 'if %s then %s\n  else %s' % (c, self.ret(s.body[0].value), self.block(s.orelse))
                return 'if %s then %s\n  else %s' % (c, self.ret(s.body[0].value), self.block(rest))
            if len(s.body) == 1 and isinstance(s.body[0], ast.Raise) and not s.orelse:
                ex = s.body[0].exc
                nm = ex.func.id if isinstance(ex, ast.Call) and isinstance(ex.func, ast.Name) else getattr(ex, 'id', None)
                if nm != 'ValueError' or not self.raises:
                    raise Abort('%s: raise of %r' % (self.name, nm))
                return 'if %s then Raise EValueError\n  else %s' % (c, self.block(rest))
            if len(s.body) == 1 and isinstance(s.body[0], ast.Assign) and not s.orelse and len(s.body[0].targets) == 1 \
                    and isinstance(s.body[0].targets[0], ast.Name) and s.body[0].targets[0].id in self.locals:
                x = s.body[0].targets[0].id
                return 'let %s := if %s then %s else %s in\n  %s' % (x, c, self.expr(s.body[0].value), x, self.block(rest))
        raise Abort('%s: statement %s is outside the translated subset' % (self.name, ast.dump(s)[:80]))


def generate():
    import importlib
    out = ['(* GENERATED by tools/translate_fns.py from the source text of the functions — do not edit *)',
           'From Coq Require Import List NArith Bool.', 'From PyDBML Require Import PyStr Py Heap Tools.', 'Import ListNotations.', '',
           '(* s * n *)', 'Definition py_mul (s : pystr) (n : nat) : pystr := concat (repeat s n).', '',
           '(* an object with a schema and a name (Table, Enum), as get_full_name_for_sql / _dbml read it *)',
           'Record named := mkNamed { nm_schema : option pystr; nm_name : option pystr }.', '']
    known = []
    for mod, name, params, raises in FUNCS:
        m = importlib.import_module(mod)
        f = getattr(m, name, None)
        if f is None or not inspect.isfunction(f):
            raise Abort('%s.%s is not a function' % (mod, name))
        if inspect.getmodule(f).__name__ not in (mod, 'pydbml.tools'):
            raise Abort('%s.%s is defined in %s' % (mod, name, inspect.getmodule(f).__name__))
        src = inspect.getsource(f)
        tree = ast.parse(src)
        fd = tree.body[0]
        if not isinstance(fd, ast.FunctionDef):
            raise Abort('%s: not a plain function definition' % name)
        for dec in fd.decorator_list:
            # the registration decorator of the renderers returns the function unchanged
            if not (isinstance(dec, ast.Call) and isinstance(dec.func, ast.Attribute) and dec.func.attr == 'renderer_for'):
                raise Abort('%s: decorator %s' % (name, ast.dump(dec)[:60]))
        a = fd.args
        if a.vararg or a.kwarg or a.kwonlyargs or a.posonlyargs or [x.arg for x in a.args] != [p for p, _ in params]:
            raise Abort('%s: parameters %r, expected %r' % (name, [x.arg for x in a.args], [p for p, _ in params]))
        defaults = dict(zip([x.arg for x in a.args][len(a.args) - len(a.defaults):], a.defaults))
        for p, dv in defaults.items():
            want = DEFAULTS.get((name, p))
            if not (isinstance(dv, ast.Constant) and dv.value == want):
                raise Abort('%s: default of %s is not %r' % (name, p, want))
        for (n_, p_), want in DEFAULTS.items():
            if n_ == name and p_ not in defaults:
                raise Abort('%s: parameter %s lost its default %r' % (name, p_, want))
        tr = Tr(name, params, raises, set(known), m)
        body = tr.block(fd.body)
        sig = ' '.join('(%s : %s)' % ((p + '_text') if t == 'NOTE' else p, 'pystr' if t == 'NOTE' else t) for p, t in params)
        cname = name
        if any(t in RECORDS for _, t in params) and not (name.endswith('_sql') or name.endswith('_dbml')):
            cname = '%s_%s' % (name, 'sql' if '.sql.' in mod else 'dbml')     # the same function name exists per renderer package
        out.append('(* %s.%s *)' % (mod, name))
        out.append('Definition gen_%s %s : %s :=\n  %s.' % (cname, sig, 'res pystr' if raises else 'pystr', body))
        out.append('')
        if cname == name:
            known.append((mod, name))
    for (n_, p_), want in sorted(DEFAULTS.items()):
        out.append('Definition gen_%s_default_%s : nat := %d.' % (n_, p_, want))
    return '\n'.join(out) + '\n'


if __name__ == '__main__':
    print(generate())
