"""C11 — parsing is deterministic, history-independent and re-entrant."""
import gc
import os
import subprocess
import sys
import weakref
from concurrent.futures import ThreadPoolExecutor

import docgen
import prop_parse
import pyscript
import stream_script
import verdicts
from common import rng, hexs, VERIF, COQ
from pyscript import Op, V, NONE, vs, parse_op


def history_script(r, docs):
    """a sequence of parses (valid, invalid, failing half-way), edits of earlier results, and final observations"""
    ops = []
    dbs = []
    for _ in range(r.randint(2, 6)):
        k = r.random()
        text, allow = r.choice(docs)
        if k < 0.2:
            text = prop_parse.mutate(r, text)
        elif k < 0.3:
            text = text + '\n' + text            # the same elements twice: fails half-way through the build
        i = len(ops)
        ops.append(parse_op(r.choice([0, 1, 4]), allow, 0, 1, text))
        dbs.append(i)
        # edit an earlier result in place
        if dbs and r.random() < 0.7:
            d = r.choice(dbs)
            t = len(ops)
            ops.append(Op(70, d, V('int', 0)))                      # first table
            ops.append(Op(61, t, 8, 'injected', 'by history'))      # table.properties['injected'] = ...
            ops.append(Op(60, t, 1, vs('renamed_by_history')))
            ops.append(Op(72, t, V('int', 0)))                      # first column
            ops.append(Op(61, len(ops) - 1, 10, 'injected', 'col'))
            ops.append(Op(60, len(ops) - 2, 7, V('int', 99)))       # default = 99
            ops.append(Op(83, t))                                   # table.note
            ops.append(Op(60, len(ops) - 1, 1, vs('note edited by history')))
    ops.append(Op(82))
    for d in dbs:
        ops.append(Op(80, d))
        ops.append(Op(81, d))
    return ops


def observe(text, allow):
    """canonical observation of one parse: outcome, dump, renderings"""
    try:
        return pyscript.run_script([], [parse_op(0, allow, 0, 1, text), Op(82), Op(80, 0), Op(81, 0)])
    except RecursionError:
        return 'raise builtins.RecursionError'


def fresh_process(cases):
    """the same observations, each in an interpreter that has parsed nothing before (first parse after import)"""
    code = ('import sys, json\nsys.path[:0]=[%r, %r]\nimport prop_c11\ncases=json.load(sys.stdin)\n'
            'print(json.dumps([prop_c11.observe(t, a) for t, a in cases[:1]]))' % (os.environ.get('VERIF_REPO', '/repo'), os.path.join(VERIF, 'tools')))
    outs = []
    import json
    for c in cases:
        p = subprocess.run(['/venv/bin/python', '-c', code], input=json.dumps([c]), capture_output=True, text=True,
                           env=dict(os.environ, PYTHONHASHSEED='0', PYTHONDONTWRITEBYTECODE='1'))
        if p.returncode != 0:
            raise RuntimeError('fresh interpreter failed: ' + p.stderr[-500:])
        outs.append(json.loads(p.stdout)[0])
    return outs


def fresh_process_batch(cases, hashseed):
    """observations of all cases in ONE fresh interpreter started with the given hash seed"""
    import json
    code = ('import sys, json\nsys.path[:0]=[%r, %r]\nimport prop_c11\ncases=json.load(sys.stdin)\n'
            'print(json.dumps([prop_c11.observe(t, a) for t, a in cases]))' % (os.environ.get('VERIF_REPO', '/repo'), os.path.join(VERIF, 'tools')))
    p = subprocess.run(['/venv/bin/python', '-c', code], input=json.dumps(cases), capture_output=True, text=True,
                       env=dict(os.environ, PYTHONHASHSEED=hashseed, PYTHONDONTWRITEBYTECODE='1'))
    if p.returncode != 0:
        raise RuntimeError('fresh interpreter failed: ' + p.stderr[-500:])
    return json.loads(p.stdout)


def nested_same(text, allow, inner):
    from pydbml.parser.parser import PyDBMLParser
    from pydbml import PyDBML
    import copyprobe

    class Nesting(PyDBMLParser):
        todo = []

        def parse_blueprint(self, s, loc, tok):
            if self.todo:
                t = self.todo.pop()
                try:
                    PyDBML(t)
                except Exception:   # noqa
                    pass
            return super().parse_blueprint(s, loc, tok)

    def fp(mk):
        try:
            db = mk()
        except RecursionError:
            return ('raise', 'RecursionError')
        except Exception as e:   # noqa
            return ('raise', type(e).__name__)
        return ('ok', docgen.content(db), copyprobe.safe(lambda: db.sql), copyprobe.safe(lambda: db.dbml))
    base = fp(lambda: PyDBMLParser(text, allow_properties=allow).parse())
    p = Nesting(text, allow_properties=allow)
    p.todo = [inner]
    return fp(lambda: p.parse()) == base


def run(v, tier, st, pr):
    r = rng('c11')
    n = 1 if tier == 'quick' else 20
    docs = []
    for _ in range(60 * n):
        A, text, exp, allow = prop_parse.gen_doc(r)
        docs.append((text, allow))
    docs += [(t, 'propert' in nm) for nm, t in prop_parse.repo_documents()]
    # grammar fingerprint before anything else in this process
    import translate_grammar
    import translate

    def fingerprint():
        # the reflection can refuse a grammar it does not understand (the translator is fail-closed; the verdict then
        # already names it as the broken tie): the other clauses are still examined on the implementation
        try:
            return translate_grammar.generate()
        except translate.Abort as e:
            return 'ABORT: %s' % e
    fp0 = fingerprint()
    jobs = [([], history_script(r, docs)) for _ in range(250 * n)]
    res = stream_script.compare(jobs, 'history')
    fails = []
    # (i) determinism and history independence on the implementation: alone vs after the histories vs fresh interpreter
    alone = [observe(t, a) for t, a in docs]
    for _ in range(3):
        for j in r.sample(range(len(jobs)), min(40, len(jobs))):
            pyscript.run_script(*jobs[j])
    again = [observe(t, a) for t, a in docs]
    for (t, a), x, y in zip(docs, alone, again):
        if x != y:
            fails.append({'cause': 'oracle', 'clause': 'the result of parsing a document changed after other documents were parsed and edited',
                          'input': {'kind': 'document', 'text_hex': hexs(t), 'text': t}})
    # documents whose first parse in an interpreter exercises one-shot state (first parenthesised type, first note, first quoted name ...)
    firsts = [('Table t {\n  a numeric( 10 ,  2 )\n  b varchar( 255 )\n  c numeric(10,\n 2)\n}\n', False),
              ("Table \"t t\" {\n  \"a b\" int [note: '''\n    x\n      y\n  ''', default: `now()`]\n  indexes {\n    (`a+b`, \"a b\") [name: 'i x']\n  }\n}\n", False),
              ("Enum e {\n  \"x y\" [note: 'n']\n}\nTable t [k: 'v'] {\n  c e [k2: 'w']\n}\n", True)]
    base_n = len(docs)
    docs = docs + firsts
    alone = alone + [observe(t, a) for t, a in firsts]
    sample = r.sample(range(base_n), 6 if tier == 'quick' else 40) + list(range(base_n, len(docs)))
    fresh = fresh_process([docs[i] for i in sample])
    for i, f in zip(sample, fresh):
        if f != alone[i]:
            fails.append({'cause': 'oracle', 'clause': 'first parse in a fresh interpreter differs from a later parse',
                          'input': {'kind': 'document', 'text_hex': hexs(docs[i][0]), 'text': docs[i][0]}})
    # (i') the same across interpreters started with different hash seeds (set / dict iteration order may not show):
    # generated documents plus documents that repeat labels, settings and keys
    repeats = [('Enum e {\n  a\n  b\n  c\n  a\n  d\n  b\n  e\n}\nTable t {\n  x e\n}\n', False),
               ('Enum "my schema"."e" {\n  "x y" [note: \'n\']\n  b\n  "x y"\n  c\n  b\n}\n', False),
               ("Project p {\n  a: '1'\n  b: '2'\n  a: '3'\n  c: '4'\n  b: '5'\n}\n", False),
               ("Table t [k1: 'v', k2: 'w', k1: 'x', k3: 'y'] {\n  id int [k: 'a', j: 'b', k: 'c']\n  k1: 'z'\n  k4: 'q'\n}\n", True),
               ('Table t {\n  id int [pk, unique, pk, not null, unique]\n  indexes {\n    (id, id) [unique, pk, unique]\n  }\n}\n', False),
               ('Table a {\n  id int\n}\nTable b {\n  id int\n}\nTableGroup g {\n  a\n  b\n}\nTableGroup h {\n  b\n  a\n}\n', False)]
    hs_cases = [docs[i] for i in r.sample(range(len(docs)), 12 if tier == 'quick' else 60)] + repeats
    hs_base = [observe(t, a) for t, a in hs_cases]
    for seed_ in ('1', '2', '3') if tier == 'quick' else ('1', '2', '3', '4', '5', '6', '7'):
        outs_ = fresh_process_batch(hs_cases, seed_)
        for (t, a), x, y in zip(hs_cases, hs_base, outs_):
            if x != y:
                fails.append({'cause': 'oracle', 'clause': 'the result of parsing differs between interpreters started with different PYTHONHASHSEED (%s)' % seed_,
                              'input': {'kind': 'document', 'text_hex': hexs(t), 'text': t}})
                break
    # (i'') an independent parse started in the middle of another one, on the same thread (from a parse action of a subclass of the
    # public PyDBMLParser): the outer parse gives what it gives alone
    for i in r.sample(range(len(docs)), 30 if tier == 'quick' else 300):
        t, a = docs[i]
        inner = docs[(i * 7 + 3) % len(docs)][0]
        if not nested_same(t, a, inner):
            fails.append({'cause': 'oracle', 'clause': 'a parse during which another document is parsed on the same thread gives a different result than alone',
                          'input': {'kind': 'document', 'text_hex': hexs(t), 'text': t, 'inner_text': inner}})
            break
    # (ii) shared grammar state: the reflected grammar after the history is the one the theorems were checked against
    fp1 = fingerprint()
    gen = open(os.path.join(COQ, 'gen', 'GenGrammar.v')).read()
    if not fp0.startswith('ABORT') and (fp1 != fp0 or fp1 != gen):
        fails.append({'cause': 'oracle', 'clause': 'the module-level grammar changed during parsing (reflected grammar differs before/after the history)',
                      'input': {'kind': 'history', 'text': 'see stream history'}})
    # (iii) concurrency: 16 threads, every document several times, compared with the sequential result
    work = [(i, d) for i, d in enumerate(docs)] * (2 if tier == 'quick' else 6)
    r.shuffle(work)
    with ThreadPoolExecutor(16) as ex:
        conc = list(ex.map(lambda w: (w[0], observe(*w[1])), work))
    bad = [i for i, o in conc if o != alone[i]]
    for i in bad[:3]:
        fails.append({'cause': 'oracle', 'clause': 'parsing concurrently in 16 threads gives a different result than parsing alone',
                      'input': {'kind': 'document', 'text_hex': hexs(docs[i][0]), 'text': docs[i][0]}})
    # interpreter-wide settings (recursion limit and the like) may not be touched by a parse: a document nested far beyond
    # the limit and one far below it behave the same whether other parses run at the same time or not
    deep = [('Table t {\n  id decimal' + '(' * k + '1' + ')' * k + '\n  n int\n  m decimal' + '(' * k + '2' + ')' * k + '\n}\n', False) for k in (30, 400)]
    with ThreadPoolExecutor(1) as ex:
        deep_alone = list(ex.map(lambda d: observe(*d), deep))
    dwork = [(i, d) for i, d in enumerate(deep)] * 12 + [(None, d) for d in docs[:40]] * 2
    r.shuffle(dwork)
    with ThreadPoolExecutor(16) as ex:
        dconc = list(ex.map(lambda w: (w[0], observe(*w[1])), dwork))
    for i, o in dconc:
        if i is not None and o != deep_alone[i]:
            fails.append({'cause': 'oracle', 'clause': 'a deeply nested document parsed while other parses run behaves differently than parsed alone (%s vs %s)'
                          % (o.split(';')[0][:60], deep_alone[i].split(';')[0][:60]),
                          'input': {'kind': 'document', 'text_hex': hexs(deep[i][0]), 'text': deep[i][0][:200] + '...'}})
            break
    # (iv) nothing created for a parse stays reachable once the caller drops the result (also for failed parses)
    from pydbml.parser import parser as parser_mod
    from pydbml import PyDBML
    refs = []
    orig_init = parser_mod.PyDBMLParser.__init__

    def spy(self, *a, **kw):
        refs.append(weakref.ref(self))
        return orig_init(self, *a, **kw)
    parser_mod.PyDBMLParser.__init__ = spy
    try:
        leak_docs = docs[:40] + [(prop_parse.mutate(r, t), a) for t, a in docs[:40]] + [(t + '\n' + t, a) for t, a in docs[:20]]
        for t, a in leak_docs:
            try:
                db = PyDBML(t, allow_properties=a)
                refs.append(weakref.ref(db))
                for tb in db.tables:
                    refs.append(weakref.ref(tb))
                del db, tb
            except Exception:   # noqa
                pass
    finally:
        parser_mod.PyDBMLParser.__init__ = orig_init
    try:
        del db
    except NameError:
        pass
    gc.collect()
    alive = [x for x in refs if x() is not None]
    if alive:
        fails.append({'cause': 'oracle', 'clause': '%d of %d objects created for earlier parses are still reachable after the results were dropped and gc.collect()' % (len(alive), len(refs)),
                      'input': {'kind': 'history', 'text': 'parse %d documents, drop the results' % len(leak_docs), 'alive_types': sorted(set(type(x()).__name__ for x in alive))}})
    v.coverage['threads'] = 16
    v.coverage['concurrent_parses'] = len(work)
    v.coverage['weakrefs_checked'] = len(refs)
    v.coverage['fresh_interpreters'] = len(sample)
    v.coverage['hash_seeds_compared'] = 3 if tier == 'quick' else 7
    v.coverage['nested_parses'] = 30 if tier == 'quick' else 300
    total = verdicts.conclude(v, pr, st, {'history': stream_script.strip(res)}, fails)
    v.coverage['evaluations'] = total + len(work) + 2 * len(docs)
    v.coverage['distinct_nontrivial'] = res['distinct_nontrivial']
    v.coverage['rule'] = ('histories of 2-6 parses (valid, mutated, duplicated) interleaved with in-place edits of earlier results, observed by full dumps and '
                          'renderings and compared with the Coq model, in which every parse allocates fresh objects; plus alone/after-history/fresh-interpreter '
                          'comparison, reflected-grammar fingerprint, 16-thread runs and weakref liveness on the implementation')
    v.coverage['samples'] = [{'history': [repr(o)[:80] for o in jobs[0][1][:8]]}]
    v.coverage['explanation'] = ('threads and reclamation are runtime behaviour that the Coq model cannot exhibit: they are explored, not proved (DESIGN 10); '
                                 'history independence is carried by the correspondence of multi-parse scripts against the purely functional model')
