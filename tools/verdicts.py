"""Common verdict protocol (DESIGN 5): combine proof status, correspondence streams and the
implementation-side oracle into VIOLATION / KNOWN-FINDING lines and evidence."""
import buildsys

TRUSTED_BASE = [
    'Coq 8.16.1 kernel (coqc); vm_compute used in reflective proofs; no native_compute',
    'no axioms declared; Print Assumptions output per theorem quoted under coverage.print_assumptions',
    'extraction: ExtrOcamlBasic only (Extract Inductive for bool, option, unit, prod, list, sumbool, sumor); no Extract Constant; OCaml 4.13.1; driver.ml',
    'tools/translate.py (reflection of the live pyparsing graph and class data into coq/gen); tools/translate_fns.py (ast translation of 16 pure text helpers / small renderers into coq/gen/GenFns.v, proved equal to the hand-written model in proofs/GenFnTie.v)',
    'hand-written model (coq/model, coq/pp) tied to /repo by differential execution only (streams listed under coverage.streams)',
    'CPython 3.12 str/re/textwrap behaviour as described in coq/lib/PyStr.v, tied by stream text',
    'python harness (tools/*.py): generators, canonical serialiser, differ, oracles',
]


def proof_coverage(v, pr, st):
    v.coverage['obligations'] = len(pr['theorems'])
    v.coverage['discharged'] = pr['discharged']
    v.coverage['theorems'] = pr['theorems']
    v.coverage['checker_cmd'] = 'cd /verif/coq && make (full .vo build of lib/ model/ pp/ gen/ spec/ proofs/) && coqc -Q . PyDBML props/%s.v' % v.pid
    v.coverage['trusted_base'] = TRUSTED_BASE
    v.coverage['print_assumptions'] = pr['assumptions']
    v.coverage['translator_ok'] = st.get('translator_ok')
    v.coverage['build_s'] = st.get('build_s')


def conclude(v, pr, st, streams, oracle_failures, search=None):
    """streams: dict name -> result dict with 'cases', 'disagreements';
    oracle_failures: list of replay dicts for inputs on which the implementation breaks the
    property (already filtered against known findings);
    search: optional callable(extra_budget) -> list of replay dicts, run when a proof or a
    correspondence stream broke and the oracle has found nothing yet."""
    proof_coverage(v, pr, st)
    total = 0
    for name, r in streams.items():
        v.streams[name] = {k: r[k] for k in r if k != 'disagreements'}
        v.streams[name]['disagreements'] = len(r['disagreements'])
        total += r['cases']
    broken = []
    if not st.get('translator_ok', True):
        broken.append({'cause': 'translator', 'detail': st.get('translator_log', '')[-1500:]})
    if not pr['ok']:
        broken.append({'cause': 'proof', 'theorem_file': 'coq/props/%s.v' % v.pid,
                       'theorems': pr['theorems'], 'discharged': pr['discharged'],
                       'coqc_error': pr['log'][-2500:],
                       'make_errors': buildsys.error_excerpt(st.get('make_log', ''))[-2500:]})
    for name, r in streams.items():
        if r['disagreements']:
            broken.append({'cause': 'correspondence', 'stream': name,
                           'count': len(r['disagreements']),
                           'minimal_disagreement': min(r['disagreements'], key=lambda d: len(str(d)))})
    fails = list(oracle_failures)
    if broken and not fails and search is not None:
        fails = list(search())
    for f in fails[:5]:
        f = dict(f)
        if broken:
            f['also_broken'] = broken
        v.violation(f)
    if broken and not fails:
        v.violation({'cause': broken[0]['cause'], 'broken': broken,
                     'note': 'the property is no longer shown to hold: the listed theorem / correspondence '
                             'does not check; the search found no input on which the implementation fails the property'},
                    no_input=True)
    return total
