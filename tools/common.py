"""Shared plumbing of the verification harness: paths, the s-expression case format,
running the extracted model, evidence / replay / verdict output."""
import json
import os
import random
import subprocess
import sys
import time
import hashlib

VERIF = os.path.dirname(os.path.dirname(os.path.abspath(__file__)))
REPO = os.environ.get('VERIF_REPO', '/repo')
COQ = os.path.join(VERIF, 'coq')
BUILD = os.path.join(VERIF, 'build')
DRIVER = os.path.join(COQ, 'extract', 'driver')
NPROC = int(os.environ.get('VERIF_NPROC', '16'))


def seed():
    return int(os.environ.get('VERIF_SEED', '0') or 0)


def tier(argv_tier=None):
    t = argv_tier or os.environ.get('VERIF_TIER') or 'quick'
    return t if t in ('quick', 'thorough') else 'quick'


# ---------------------------------------------------------------- case format
def S(s):
    """python str -> sx list of code points"""
    return '(' + ' '.join(str(ord(c)) for c in s) + ')'


def L(items):
    return '(' + ' '.join(items) + ')'


def O(x, enc=S):
    """optional"""
    return '()' if x is None else '(' + enc(x) + ')'


def B(b):
    return '1' if b else '0'


def Z(z):
    return '(0 %d)' % z if z >= 0 else '(1 %d)' % (-z)


def hexs(s):
    """the Show encoding of a string"""
    return 's' + '.'.join('%x' % ord(c) for c in s)


def unhexs(t):
    assert t.startswith('s')
    return ''.join(chr(int(x, 16)) for x in t[1:].split('.') if x)


def ostr(s):
    return '~' if s is None else hexs(s)


def exc_name(e):
    c = e if isinstance(e, type) else type(e)
    mod = c.__module__
    if mod.startswith('pyparsing'):
        mod = 'pyparsing'
    return mod + '.' + c.__name__


# ---------------------------------------------------------------- model runner
def _run_driver(chunk):
    p = subprocess.run([DRIVER], input='\n'.join(chunk) + '\n', capture_output=True, text=True)
    if p.returncode != 0:
        raise RuntimeError('model driver failed: rc=%s %s' % (p.returncode, p.stderr[-2000:]))
    out = p.stdout.split('\n')
    if out and out[-1] == '':
        out.pop()
    if len(out) != len(chunk):
        raise RuntimeError('model driver returned %d lines for %d cases' % (len(out), len(chunk)))
    return out


def run_model(cases, nproc=None):
    """run the extracted model on a list of case strings; returns list of output lines"""
    if not cases:
        return []
    nproc = nproc or NPROC
    n = len(cases)
    k = max(1, min(nproc, n // 200 + 1))
    size = (n + k - 1) // k
    chunks = [cases[i:i + size] for i in range(0, n, size)]
    if len(chunks) == 1:
        return _run_driver(chunks[0])
    from concurrent.futures import ThreadPoolExecutor
    with ThreadPoolExecutor(len(chunks)) as ex:
        outs = list(ex.map(_run_driver, chunks))
    return [l for o in outs for l in o]


# ---------------------------------------------------------------- output
class Verdict:
    """collects what a check did; prints VIOLATION / KNOWN-FINDING lines; writes evidence"""

    def __init__(self, pid, tier_, level):
        self.pid = pid
        self.tier = tier_
        self.level = level
        self.seed = seed()
        self.t0 = time.time()
        self.violations = 0
        self.known = []
        self.coverage = {}
        self.assumptions = []
        self._nrep = 0
        self.streams = {}
        self.notes = []
        self.replaying = None     # set by `./check <id> --replay <file>`: the recorded failure being looked for
        self.seen = []

    def violation(self, replay, no_input=False):
        self.violations += 1
        self._nrep += 1
        sub = 'replays' if self.replaying is None else os.path.join('replays', 'replayed')
        os.makedirs(os.path.join(VERIF, sub), exist_ok=True)
        path = os.path.join(VERIF, sub, '%s-%d-%d.json' % (self.pid, self.seed, self._nrep))
        replay = dict(replay)
        replay.setdefault('property', self.pid)
        replay.setdefault('tier', self.tier)
        replay.setdefault('seed', self.seed)
        replay.setdefault('reproduce', './check %s --replay %s' % (self.pid, path))
        with open(path, 'w') as f:
            json.dump(replay, f, indent=1, ensure_ascii=True, default=str)
        line = 'VIOLATION property=%s replay=%s' % (self.pid, path)
        if no_input:
            line += ' no-failing-input-found'
        if self.replaying is not None:
            self.seen.append((json.loads(json.dumps(replay, default=str)), line))
            return
        print(line, flush=True)

    def known_finding(self, fid, what):
        if fid not in [k[0] for k in self.known]:
            self.known.append((fid, what))
            if self.replaying is not None:
                return
            print('KNOWN-FINDING: property=%s %s %s' % (self.pid, fid, what), flush=True)

    def finish(self):
        cov = dict(self.coverage)
        cov.setdefault('streams', self.streams)
        ev = {
            'property_id': self.pid,
            'tier': self.tier,
            'seed': self.seed,
            'level': self.level,
            'coverage': cov,
            'assumptions': self.assumptions,
            'wall_s': round(time.time() - self.t0, 2),
            'violations': self.violations,
            'known_findings_reported': ['%s %s' % k for k in self.known],
            'notes': self.notes,
        }
        if self.replaying is not None:
            return self.finish_replay()
        os.makedirs(os.path.join(VERIF, 'evidence'), exist_ok=True)
        with open(os.path.join(VERIF, 'evidence', self.pid + '.json'), 'w') as f:
            json.dump(ev, f, indent=1, ensure_ascii=True, default=str)
        return 1 if self.violations else 0

    def finish_replay(self):
        """the check has been re-run with the recorded seed and tier (every random choice derives from the seed, so
        the recorded input is generated and judged again): say whether the recorded failure is still there"""
        rec = self.replaying
        key = lambda d: (d.get('cause'), d.get('clause'), json.dumps(d.get('input'), sort_keys=True, default=str),
                         json.dumps([b.get('what', b.get('stream')) for b in d.get('broken', [])] if isinstance(d.get('broken'), list) else None))
        same = [ln for d, ln in self.seen if key(d) == key(rec['data'])]
        if same:
            print('REPRODUCED: the recorded failure occurs again on the current tree (%s)' % (rec['data'].get('clause') or rec['data'].get('cause')))
            print('VIOLATION property=%s replay=%s%s' % (self.pid, rec['path'], ' no-failing-input-found' if same[0].endswith('no-failing-input-found') else ''), flush=True)
            return 1
        print('NOT REPRODUCED: the recorded failure does not occur on the current tree')
        for d, ln in self.seen:
            print('  (a different failure of this property was seen: %s)' % (d.get('clause') or d.get('cause')))
            print(ln, flush=True)
        return 1 if self.seen else 0


def machinery_error(msg):
    sys.stderr.write('ERROR (machinery, not a verdict): %s\n' % msg)
    sys.exit(2)


def rng(tag=''):
    h = hashlib.sha256(('%d/%s' % (seed(), tag)).encode()).digest()
    return random.Random(int.from_bytes(h[:8], 'big'))


def load_known_findings():
    with open(os.path.join(VERIF, 'known_findings.json')) as f:
        return json.load(f)


def all_strings(alphabet, maxlen):
    """all strings over alphabet with length <= maxlen, shortest first"""
    cur = ['']
    yield ''
    for _ in range(maxlen):
        nxt = []
        for s in cur:
            for a in alphabet:
                t = s + a
                nxt.append(t)
                yield t
        cur = nxt
