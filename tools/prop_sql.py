"""Shared driver of C03 (DDL states the model), C04 (foreign keys) and C18 (table order): stream
render (random databases, benign and nasty) + the read-back oracle."""
import multiprocessing as mp

import gen_api
import sqloracle
import stream_script
import verdicts
from common import rng, NPROC, load_known_findings, hexs
from pyscript import Op


def gen_jobs(tier, tag):
    r = rng(tag)
    n_b = 1500 if tier == 'quick' else 20000
    n_n = 600 if tier == 'quick' else 6000
    jobs, metas = [], []
    for i in range(n_b + n_n):
        benign = i < n_b
        g, info = gen_api.gen_database(r, nasty=0.0 if benign else 0.35, benign_sql=benign)
        if benign and i % 5 == 2:
            # operations the library must refuse (wrong table, twice, absent): the DDL must not notice them
            gen_api.gen_rejected(g, info, r.randint(1, 3))
        k = g.emit(Op(80, info['db']))
        if benign and i % 2 == 1:
            # edit after a first rendering (flags, types, kinds, names ...) and render again: what is read back must follow
            for rf in info['refs']:
                g.emit(Op(80, rf))
            g.single_line = True
            gen_api.gen_edits(g, info, r.randint(1, 5), sql_benign=True)
            k = g.emit(Op(80, info['db']))
        for t in info['tables']:
            g.emit(Op(80, t))
        for rf in info['refs']:
            g.emit(Op(80, rf))
        if not benign:
            gen_api.observe_all(g, info, which=('sql',))
        jobs.append(([], g.ops))
        metas.append({'db': info['db'], 'sqlop': k, 'benign': benign, 'info': info})
    return jobs, metas


def run(v, tier, st, pr, pid):
    jobs, metas = gen_jobs(tier, 'sql-' + pid)
    res = stream_script.compare(jobs, 'render')
    ojobs = []
    for (rd, ops), m, mo in zip(jobs, metas, res['model_outs']):
        if not m['benign']:
            continue
        ml = mo.split(';')
        msql = ml[m['sqlop']][3:] if m['sqlop'] < len(ml) and ml[m['sqlop']].startswith('ok ') else None
        ojobs.append((ops[:m['sqlop'] + 1], m['db'], msql))
        if len(ojobs) % 7 == 3:
            # the same oracle on a deep copy / a pickle round trip of the database
            ojobs.append((ops[:m['sqlop'] + 1], m['db'], msql, 'deepcopy' if len(ojobs) % 2 else 'pickle'))
    ctx = mp.get_context('fork')
    with ctx.Pool(NPROC) as pool:
        outs = pool.map(sqloracle.check_db, ojobs, chunksize=max(1, len(ojobs) // (NPROC * 8)))
    kf = {f['id']: f for f in load_known_findings()['findings'] if f['property'] == pid}
    fails = []
    stats = {'oracle_databases': len(outs), 'copies_checked': 0, 'read_errors': 0, 'd2_instances': 0, 'order_violations_equal_to_model': 0,
             'with_inline_fk_edges': 0, 'statements_read': 0}
    stats['copies_checked'] = sum(1 for j in ojobs if len(j) > 3)
    for j_, o in zip(ojobs, outs):
        ops, dbs = j_[0], j_[1]
        variant = j_[3] if len(j_) > 3 else None
        stats['statements_read'] += o['nstmts']
        stats['with_inline_fk_edges'] += 1 if o['has_inline'] else 0
        script = [repr(x) for x in ops] + (['<then %s of the database, original dropped>' % variant] if variant else [])
        if o['read_error']:
            stats['read_errors'] += 1
            if pid == o.get('read_error_owner', 'C03'):
                fails.append({'cause': 'oracle', 'clause': 'emitted SQL is not readable as the DDL the property describes',
                              'input': {'kind': 'script', 'ops': script}, 'detail': o['read_error']})
            continue
        if o['d2']:
            stats['d2_instances'] += 1
            if pid == 'C03':
                if 'D2' in kf:
                    v.known_finding('D2', kf['D2']['what'])
                else:
                    fails.append({'cause': 'oracle', 'clause': 'CREATE INDEX / COMMENT ON do not name the table as qualified as its CREATE TABLE',
                                  'input': {'kind': 'script', 'ops': script}})
        for prop, desc in o['diffs']:
            if prop == pid:
                fails.append({'cause': 'oracle', 'clause': 'DDL read back differs from the declarative statement list',
                              'input': {'kind': 'script', 'ops': script}, 'detail': desc})
        if pid == 'C18':
            if not o['perm_ok']:
                fails.append({'cause': 'oracle', 'clause': 'CREATE TABLE statements are not a permutation of the tables',
                              'input': {'kind': 'script', 'ops': script}})
            viol = o['order_violation'] or o.get('text_violation')
            if viol:
                same = (o['order_equals_model'] if o['order_violation'] else True) and (o.get('text_equals_model') if o.get('text_violation') else True)
                if same and 'D1' in kf:
                    stats['order_violations_equal_to_model'] += 1
                    v.known_finding('D1', kf['D1']['what'])
                else:
                    fails.append({'cause': 'oracle', 'clause': 'a table with an inline FOREIGN KEY is created before the table it references (and not as the pinned model orders them)',
                                  'input': {'kind': 'script', 'ops': script}, 'detail': str(viol)})
    # document level: parse a generated document, read its DDL back, compare with the statement list computed from a
    # database built through the API from the document's abstract description
    if pid in ('C03', 'C04'):
        import docsql
        djobs = docsql.gen_jobs(400 if tier == 'quick' else 3000, 'docsql-' + pid)
        with ctx.Pool(NPROC) as pool:
            douts = pool.map(docsql.check_doc, djobs, chunksize=max(1, len(djobs) // (NPROC * 8)))
        stats['documents_read_back'] = sum(1 for o in douts if 'skip' not in o)
        skips = {}
        for (text, _), o in zip(djobs, douts):
            if 'skip' in o:
                skips[o['skip']] = skips.get(o['skip'], 0) + 1
                continue
            for prop, desc in o['diffs']:
                if prop == pid:
                    fails.append({'cause': 'oracle', 'clause': 'DDL of a parsed document differs from the statement list the document declares',
                                  'input': {'kind': 'document', 'text_hex': hexs(text), 'text': text}, 'detail': desc})
        stats['documents_skipped'] = skips
        if pid == 'C03' and 'D38' in kf and docsql.witness_d38():
            v.known_finding('D38', kf['D38']['what'])
    fails.sort(key=lambda f: len(str(f['input'])))
    v.coverage.update(stats)
    total = verdicts.conclude(v, pr, st, {'render': stream_script.strip(res)}, fails)
    v.coverage['evaluations'] = total
    v.coverage['distinct_nontrivial'] = res['distinct_nontrivial']
    v.coverage['rule'] = ('random databases over the cross product of column flags, default kinds, type kinds, pk layouts, index shapes, schemas, '
                          'notes, reference kinds/inline/composite/self/named/actions (gen_api.gen_database); benign ones are read back with the independent '
                          'DDL reader and compared with the declarative statement list; nasty ones only feed the model/implementation comparison; '
                          'distinct = distinct complete observation traces')
    v.coverage['samples'] = [{'script': [repr(o) for o in jobs[i][1][:12]]} for i in (0, len(jobs) - 1)]
    v.coverage['explanation'] = ('SQL renderer model tied to the code by stream render; theorems in coq/props; implementation SQL read back by tools/sqlread.py '
                                 'and compared with spec_ddl computed from the objects')
