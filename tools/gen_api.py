"""Generators of op scripts (API-level): random databases with rich feature mixes, edit scripts,
container histories.  Every choice comes from the random.Random passed in."""
from pyscript import Op, V, NONE, vs

NAMES = ['users', 'posts', 'orders', 'order items', 'Таблица', 'a', 'select', 'T1', 'x_y', 'caf\u00e9', 'cafe\u0301']
COLNAMES = ['id', 'name', 'user_id', 'created at', 'b', 'status', 'ref', 'c1', 'c2', 'total']
SCHEMAS = ['public', 'public', 'public', 'auth', 'my schema', 'Public']
TYPES = ['int', 'integer', 'varchar', 'varchar(255)', 'numeric(10, 2)', 'int[]', 'text', 'timestamp']
ODD_TYPES = ['my type', 'double precision', 'a.b', 'a.b.c']
NICE_TEXT = ['note', 'a longer note', 'x', 'some text here', 'line one\nline two', 'é 中 💸', 'tab\there', 'ALTER TABLE All Rows CREATE',
             'de\u0301compose\u0301 \u2126',
             'a single line that is rather long: ' + 'lorem ipsum dolor sit amet ' * 6]
NASTY_TEXT = ["it's", 'say "hi"', 'back\\slash', '`tick`', '{brace}', 'a\n\n  b', "'''", '//c', '/* c */', '  lead',
              'trail  ', '#', "x'", '{', '}', '{}', '{0}', '{c}', 'a\n b\n  c', '']
ACTIONS = ['cascade', 'restrict', 'set null', 'set default', 'no action', 'CASCADE']
INDEX_TYPES = ['btree', 'hash', 'gin', 'gist', 'brin', 'spgist']
COLORS = ['#fff', '#AbCdEf', '#123456']
FLOATS = ['1.5', '0.0', '10.25', '3.0', '0.001', '123456.789', '2.5e-16', '6.62607015e-34', '1e-05', '1e+16', '1.2345678e-10']


class G:
    """script builder with slot bookkeeping"""

    def __init__(self, r, nasty=0.0):
        self.r = r
        self.ops = []
        self.nasty = nasty
        self.single_line = False
        self.shared_note = None

    def emit(self, op):
        self.ops.append(op)
        return len(self.ops) - 1

    def text(self, allow_empty=False):
        r = self.r
        if r.random() < self.nasty:
            t = r.choice(NASTY_TEXT)
        else:
            t = r.choice(NICE_TEXT)
        if t == '' and not allow_empty:
            t = 'n'
        if self.single_line:
            t = t.replace('\n', ' ')
        return t

    def otext(self, p=0.3):
        return self.text() if self.r.random() < p else None

    def note_arg(self, p):
        """a note argument: None, a string, or (sometimes) one Note object handed to several owners —
        constructors must copy it, not adopt it"""
        if self.shared_note is not None and self.r.random() < 0.5:
            return V('obj', self.shared_note)
        return vs(self.otext(p))

    def ident(self, pool):
        r = self.r
        if r.random() < self.nasty * 0.5:
            return r.choice(['we"ird', 'semi;colon', 'dot.ted', '{b}', "quo'te", 'sp ace', ''])
        return r.choice(pool)


def gen_database(r, nasty=0.0, size=None, allow_props=None, renderers=(0, 1), db_props=True, benign_sql=False):
    """returns (G, info) where info maps roles to slot numbers"""
    g = G(r, nasty)
    info = {'tables': [], 'columns': {}, 'indexes': {}, 'refs': [], 'enums': [], 'groups': [], 'stickies': [],
            'project': None, 'notes': [], 'exprs': [], 'enumitems': [], 'added': {}}
    allow = r.random() < 0.4 if allow_props is None else allow_props
    db = g.emit(Op(21, renderers[0], renderers[1], allow))
    info['db'] = db
    if r.random() < 0.2:
        g.shared_note = g.emit(Op(10, g.text(True)))
        info['notes'].append(g.shared_note)
    size = r.choice([1, 2, 2, 3, 3, 4]) if size is None else size
    # enums
    enum_slots = []
    for _ in range(r.choice([0, 0, 1, 1, 2])):
        items = []
        for _ in range(r.randint(1, 3)):
            if r.random() < 0.5:
                items.append(V('str', g.ident(['active', 'closed', 'in progress', 'x'])))
            else:
                ei = g.emit(Op(16, g.ident(['new', 'done', 'wait ing']), g.note_arg(0.4), g.otext(0.3)))
                info['enumitems'].append(ei)
                items.append(V('obj', ei))
        e = g.emit(Op(17, g.ident(['status', 'kind', 'my enum']), items, r.choice(SCHEMAS), g.otext(0.3)))
        enum_slots.append(e)
    info['enums'] = enum_slots
    used = set()
    for _ in range(size):
        name = g.ident(NAMES)
        schema = r.choice(SCHEMAS)
        tries = 0
        while (schema, name) in used and tries < 10:
            name = g.ident(NAMES) + str(r.randint(0, 9))
            tries += 1
        used.add((schema, name))
        cols = []
        ncols = r.randint(1, 4)
        cnames = r.sample(COLNAMES, ncols)
        pk_layout = r.choice(['none', 'single', 'single', 'composite'])
        for i, cn in enumerate(cnames):
            if r.random() < g.nasty * 0.3:
                cn = g.ident(COLNAMES)
            kind = r.random()
            if kind < 0.2 and enum_slots:
                ty = V('obj', r.choice(enum_slots))
            elif kind < 0.3 and g.nasty > 0:
                ty = vs(r.choice(ODD_TYPES))
            else:
                ty = vs(r.choice(TYPES))
            dk = r.choice(['none', 'none', 'none', 'int', 'int0', 'float', 'bool', 'str', 'str', 'expr', 'strkw', 'empty'])
            if dk == 'none':
                d = NONE
            elif dk == 'int':
                d = V('int', r.choice([1, 42, -7, 1000000]))
            elif dk == 'int0':
                d = V('int', 0)
            elif dk == 'float':
                d = V('float', r.choice(FLOATS))
            elif dk == 'bool':
                d = V('bool', r.random() < 0.5)
            elif dk == 'str':
                d = V('str', g.text().replace('\n', ' ') if benign_sql else g.text())
            elif dk == 'strkw':
                d = V('str', r.choice(['null', 'true', 'False', 'NULL']))
            elif dk == 'empty':
                d = V('str', '')
            else:
                x = g.emit(Op(11, r.choice(['now()', 'id * 2', "'a' || b", '(a + b) * (c)', g.text().replace('\n', ' ') if benign_sql else g.text()])))
                info['exprs'].append(x)
                d = V('obj', x)
            pk = (pk_layout == 'single' and i == 0) or (pk_layout == 'composite' and i < 2)
            props = [(g.ident(['k', 'key2', 'weird key']), g.text(True))] if r.random() < 0.25 else []
            c = g.emit(Op(12, cn, ty, r.random() < 0.25, r.random() < 0.3, pk, r.random() < 0.15, d,
                          g.note_arg(0.3), g.otext(0.2), props))
            cols.append(c)
        alias = g.ident(['u', 'p', 'al ias', 'A']) + str(len(info['tables'])) if r.random() < 0.3 else None
        tprops = [(g.ident(['tk', 'other']), g.text(True))] if r.random() < 0.25 else []
        t = g.emit(Op(14, name, schema, alias, cols, [], g.note_arg(0.35),
                      r.choice(COLORS) if r.random() < 0.2 else None, g.otext(0.25), False, tprops))
        info['tables'].append(t)
        info['columns'][t] = cols
        # indexes
        idxs = []
        for _ in range(r.choice([0, 0, 1, 1, 2, 3, 4])):
            nsub = r.choice([1, 1, 2, 3])
            subs = []
            for _ in range(nsub):
                sk = r.random()
                if sk < 0.7:
                    subs.append((1, r.choice(cols)))
                elif sk < 0.9:
                    x = g.emit(Op(11, r.choice(['id*2', 'lower(name)', g.text().replace('\n', ' ') if benign_sql else g.text()])))
                    info['exprs'].append(x)
                    subs.append((2, x))
                else:
                    subs.append((0, r.choice(['raw_col', '(expr)'])))
            ixop = Op(13, V('subjects', subs), g.ident(['idx', 'my index']) if r.random() < 0.4 else None,
                      r.random() < 0.3, r.choice(INDEX_TYPES) if r.random() < 0.3 else None,
                      r.random() < 0.2, g.note_arg(0.2), g.otext(0.2))
            def isig(o_):
                subs_ = tuple((k_, g.ops[v_].args[0]) if k_ == 2 else (k_, v_) for k_, v_ in o_.args[0].val)
                def norm_(a_):
                    if isinstance(a_, V) and a_.kind == 'obj':
                        return ('str', g.ops[a_.val].args[0])            # a Note object counts by its text
                    if isinstance(a_, V) and a_.kind in ('none',):
                        return ('str', '')                                # Note(None) has the empty text
                    return (a_.kind, a_.val) if isinstance(a_, V) else a_
                return (subs_,) + tuple(norm_(a_) for a_ in o_.args[1:])
            if any(isig(ixop) == isig(g.ops[j]) for j in idxs):
                continue      # an index equal to an earlier one of the same table: delete_index(obj) would hit D23 (reported by C09)
            ix = g.emit(ixop)
            g.emit(Op(52, t, ix))
            idxs.append(ix)
        info['indexes'][t] = idxs
        info['added'][t] = g.emit(Op(30, r.choice([0, 0, 1]), db, t))
    for e in enum_slots:
        info['added'][e] = g.emit(Op(30, r.choice([0, 3]), db, e))
    # references
    tabs = info['tables']
    for _ in range(r.choice([0, 1, 1, 2, 3]) if tabs else 0):
        t1 = r.choice(tabs)
        t2 = r.choice(tabs)
        c1s, c2s = info['columns'][t1], info['columns'][t2]
        n = 1 if r.random() < 0.7 else min(len(c1s), len(c2s), 2)
        col1 = r.sample(c1s, n)
        col2 = r.sample(c2s, n)
        kind = r.choice(['>', '<', '-', '<>'])
        inline = r.random() < 0.4
        rf = g.emit(Op(15, kind, col1, col2, g.ident(['fk_a', 'my fk', 'fk']) if r.random() < 0.3 else None,
                       g.otext(0.2), r.choice(ACTIONS) if r.random() < 0.3 else None,
                       r.choice(ACTIONS) if r.random() < 0.3 else None, inline))
        info['added'][rf] = g.emit(Op(30, r.choice([0, 2]), db, rf))
        info['refs'].append(rf)
    # groups
    for gi in range(r.choice([0, 0, 1, 2])):
        items = r.sample(tabs, r.randint(0, len(tabs))) if tabs else []
        nt = None
        if r.random() < 0.4:
            nt = g.emit(Op(10, g.text(True)))
            info['notes'].append(nt)
        gr = g.emit(Op(20, g.ident(['grp', 'my group']) + str(gi), items, g.otext(0.3), nt,
                       r.choice(COLORS) if r.random() < 0.3 else None))
        info['added'][gr] = g.emit(Op(30, r.choice([0, 4]), db, gr))
        info['groups'].append(gr)
    for si in range(r.choice([0, 0, 1, 2])):
        s = g.emit(Op(18, g.ident(['sticky', 'n1', 'my note']), '' if r.random() < 0.15 else g.text(True)))
        info['added'][s] = g.emit(Op(30, r.choice([0, 6]), db, s))
        info['stickies'].append(s)
    if r.random() < 0.4:
        items = [(g.ident(['database_type', 'author', 'my key']), g.text(True)) for _ in range(r.randint(0, 2))]
        items = list(dict(items).items())
        p = g.emit(Op(19, g.ident(['proj', 'my project']), items, g.note_arg(0.5), g.otext(0.3)))
        info['added'][p] = g.emit(Op(30, r.choice([0, 5]), db, p))
        info['project'] = p
    return g, info


def all_elements(info):
    out = list(info['enums']) + list(info['tables']) + list(info['refs']) + list(info['groups']) + list(info['stickies'])
    if info['project'] is not None:
        out.append(info['project'])
    for t in info['tables']:
        out += info['columns'][t] + info['indexes'][t]
    out += info['enumitems'] + info['exprs'] + info['notes']
    return out


def observe_all(g, info, which=('sql', 'dbml'), elements=True):
    """append rendering observations; returns list of (slot, kind, opindex)"""
    obs = []
    for k in which:
        code = 80 if k == 'sql' else 81
        obs.append((info['db'], k, g.emit(Op(code, info['db']))))
    if elements:
        for e in all_elements(info):
            for k in which:
                code = 80 if k == 'sql' else 81
                obs.append((e, k, g.emit(Op(code, e))))
    return obs


# ------------------------------------------------------------------ edits (C10)
def gen_rejected(g, info, n):
    """append up to n operations that the library must refuse and that must leave everything as it was: a column or an
    index offered to / removed from the wrong table, an element added twice, an absent element deleted.  Returns the
    slots of the operations (each observes `raise ...`)."""
    r = g.r
    tabs = info['tables']
    out = []

    def cname(c):
        return g.ops[c].args[0]
    for _ in range(n):
        kind = r.choice(['delcol_other', 'delcol_other', 'addidx_foreign', 'add_twice', 'del_absent'])
        if kind == 'delcol_other' and len(tabs) >= 2:
            t1, t2 = r.sample(tabs, 2)
            own = {cname(c) for c in info['columns'][t2]}
            cand = [c for c in info['columns'][t1] if cname(c) not in own]
            if cand:
                out.append(g.emit(Op(51, t2, V('obj', r.choice(cand)))))
        elif kind == 'addidx_foreign' and len(tabs) >= 2:
            t1, t2 = r.sample(tabs, 2)
            own = {cname(c) for c in info['columns'][t2]}
            cand = [c for c in info['columns'][t1] if cname(c) not in own]
            if cand:
                ix = g.emit(Op(13, V('subjects', [(1, r.choice(cand))]), 'rej%d' % len(g.ops), False, None, False, NONE, None))
                out.append(g.emit(Op(52, t2, ix)))
        elif kind == 'add_twice' and tabs:
            out.append(g.emit(Op(30, 0, info['db'], r.choice(tabs))))
        elif kind == 'del_absent':
            x = g.emit(Op(18, 'never added %d' % len(g.ops), 'text'))
            out.append(g.emit(Op(40, 0, info['db'], x)))
    return out


def gen_edits(g, info, n, sql_benign=False):
    """append n random in-place edits of the kinds C10 lists"""
    r = g.r
    tabs = info['tables']
    done = []
    for _ in range(n):
        kind = r.choice(['tname', 'tschema', 'talias', 'cname', 'ctype', 'cflag', 'cflag', 'cdefault', 'cnote', 'tnote', 'ename',
                         'rtype', 'rinline', 'rname', 'raction', 'addcol', 'addidx', 'delidx', 'additem', 'tcomment',
                         'eschema', 'ccomment', 'rcomment', 'gname', 'allow', 'rseq', 'rseq', 'iname'])
        t = r.choice(tabs)
        cols = info['columns'][t]
        if kind == 'tname':
            g.emit(Op(60, t, 1, vs(g.ident(NAMES) + 'R')))
        elif kind == 'tschema':
            g.emit(Op(60, t, 2, vs(r.choice(SCHEMAS + ['other']))))
        elif kind == 'talias':
            g.emit(Op(60, t, 3, vs(r.choice([None, 'zz', 'new alias']))))
        elif kind == 'cname' and cols:
            g.emit(Op(60, r.choice(cols), 1, vs(g.ident(COLNAMES) + 'r')))
        elif kind == 'ctype' and cols:
            if info['enums'] and r.random() < 0.4:
                g.emit(Op(60, r.choice(cols), 2, V('obj', r.choice(info['enums']))))
            elif info['enums'] and r.random() < 0.3 and isinstance(g.ops[info['enums'][0]].args[0], str):
                g.emit(Op(60, r.choice(cols), 2, vs(g.ops[r.choice(info['enums'])].args[0])))     # the enum's name as a plain string
            else:
                g.emit(Op(60, r.choice(cols), 2, vs(r.choice(TYPES))))
        elif kind == 'cflag' and cols:
            g.emit(Op(60, r.choice(cols), r.choice([3, 4, 5, 6]), V('bool', r.random() < 0.6)))
        elif kind == 'cdefault' and cols:
            g.emit(Op(60, r.choice(cols), 7, r.choice([NONE, V('int', 5), V('int', 0), V('str', g.text()), V('bool', False), V('float', '2.5')])))
        elif kind == 'cnote' and cols:
            nt = g.emit(Op(10, g.text(True)))
            g.emit(Op(60, r.choice(cols), 8, V('obj', nt)))
        elif kind == 'tnote':
            nt = g.emit(Op(10, g.text(True)))
            g.emit(Op(60, t, 4, V('obj', nt)))
        elif kind == 'ename' and info['enums']:
            g.emit(Op(60, r.choice(info['enums']), 1, vs(g.ident(['renamed_enum', 're named']))))
        elif kind == 'eschema' and info['enums']:
            g.emit(Op(60, r.choice(info['enums']), 2, vs(r.choice(SCHEMAS))))
        elif kind == 'rseq' and info['refs']:
            # kind and inline-ness of ONE reference edited several times in a row: the result may depend on the final
            # values only, not on the order in which they were assigned or on the values passed through
            rf = r.choice(info['refs'])
            for _ in range(r.choice([2, 3, 3, 4])):
                if r.random() < 0.5:
                    g.emit(Op(60, rf, 1, vs(r.choice(['>', '<', '-', '<>', '<>']))))
                else:
                    g.emit(Op(60, rf, 8, V('bool', r.random() < 0.6)))
        elif kind == 'rtype' and info['refs']:
            g.emit(Op(60, r.choice(info['refs']), 1, vs(r.choice(['>', '<', '-', '<>']))))
        elif kind == 'rinline' and info['refs']:
            g.emit(Op(60, r.choice(info['refs']), 8, V('bool', r.random() < 0.5)))
        elif kind == 'rname' and info['refs']:
            g.emit(Op(60, r.choice(info['refs']), 4, vs(r.choice([None, 'newfk', 'new fk']))))
        elif kind == 'raction' and info['refs']:
            g.emit(Op(60, r.choice(info['refs']), r.choice([6, 7]), vs(r.choice([None] + ACTIONS))))
        elif kind == 'rcomment' and info['refs']:
            g.emit(Op(60, r.choice(info['refs']), 5, vs(g.otext(0.7))))
        elif kind == 'addcol':
            tys = list(TYPES)
            if info['enums'] and r.random() < 0.4:
                # a plain type string that merely spells the name of an enum of the database stays a string
                e_ = g.ops[r.choice(info['enums'])]
                tys = [e_.args[0], '%s.%s' % (e_.args[2], e_.args[0])] if isinstance(e_.args[0], str) and isinstance(e_.args[2], str) else tys
            c = g.emit(Op(12, 'added' + str(len(g.ops)), vs(r.choice(tys)), False, r.random() < 0.3, r.random() < 0.2, False,
                          NONE, vs(g.otext(0.3)), None, []))
            g.emit(Op(50, t, c))
            info['columns'][t] = cols + [c]
        elif kind == 'addidx' and cols:
            ix = g.emit(Op(13, V('subjects', [(1, r.choice(cols))]), 'ix%d' % len(g.ops), r.random() < 0.5, None, False, NONE, None))   # unique name: an index equal to an existing one would make delete_index hit D23 (covered by C09)
            g.emit(Op(52, t, ix))
            info['indexes'][t] = info['indexes'][t] + [ix]
        elif kind == 'iname' and info['indexes'][t]:
            # the name of an index cleared or changed after construction ('' means no name, as in the constructor)
            g.emit(Op(60, r.choice(info['indexes'][t]), 2, vs(r.choice(['', None, 'renamed_ix']))))
        elif kind == 'delidx' and info['indexes'][t]:
            ix = r.choice(info['indexes'][t])
            g.emit(Op(53, t, V('obj', ix)))
            info['indexes'][t] = [x for x in info['indexes'][t] if x != ix]
        elif kind == 'additem' and info['enums']:
            g.emit(Op(54, r.choice(info['enums']), V('str', 'item' + str(len(g.ops)))))
        elif kind == 'tcomment':
            g.emit(Op(60, t, 6, vs(g.otext(0.7))))
        elif kind == 'ccomment' and cols:
            g.emit(Op(60, r.choice(cols), 9, vs(g.otext(0.7))))
        elif kind == 'gname' and info['groups']:
            g.emit(Op(60, r.choice(info['groups']), 1, vs('grp renamed')))
        elif kind == 'allow':
            g.emit(Op(60, info['db'], 1, V('bool', r.random() < 0.5)))
        else:
            continue
        done.append(kind)
    return done
