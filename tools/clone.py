"""Build a fresh Database with the same content as a given one, through the public constructors
only (used by the C10 oracle: renderings after edits must equal those of a fresh build)."""
from pydbml.classes import (Table, Column, Index, Reference, Enum, EnumItem, Note, StickyNote,
                            Expression, Project, TableGroup)
from pydbml.database import Database


def clone_database(db):
    m = {}

    def expr(x):
        if id(x) not in m:
            m[id(x)] = Expression(x.text)
        return m[id(x)]

    new = Database(sql_renderer=db.sql_renderer, dbml_renderer=db.dbml_renderer, allow_properties=db.allow_properties)
    for e in db.enums:
        items = []
        for it in e.items:
            ni = EnumItem(it.name, note=it.note.text, comment=it.comment)
            m[id(it)] = ni
            items.append(ni)
        ne = Enum(e.name, items, schema=e.schema, comment=e.comment)
        m[id(e)] = ne
    for t in db.tables:
        cols = []
        for c in t.columns:
            ty = m[id(c.type)] if isinstance(c.type, Enum) and id(c.type) in m else c.type
            if isinstance(ty, Enum) and ty is c.type:
                raise ValueError('column typed with an enum outside the database')
            d = expr(c.default) if isinstance(c.default, Expression) else c.default
            nc = Column(c.name, ty, unique=c.unique, not_null=c.not_null, pk=c.pk, autoinc=c.autoinc, default=d,
                        note=c.note.text, comment=c.comment, properties=dict(c.properties))
            m[id(c)] = nc
            cols.append(nc)
        nt = Table(t.name, schema=t.schema, alias=t.alias, columns=cols, note=t.note.text, header_color=t.header_color,
                   comment=t.comment, abstract=t.abstract, properties=dict(t.properties))
        m[id(t)] = nt
        for ix in t.indexes:
            subs = []
            for s in ix.subjects:
                if isinstance(s, Column):
                    subs.append(m[id(s)])
                elif isinstance(s, Expression):
                    subs.append(expr(s))
                else:
                    subs.append(s)
            ni = Index(subs, name=ix.name, unique=ix.unique, type=ix.type, pk=ix.pk, note=ix.note.text, comment=ix.comment)
            m[id(ix)] = ni
            nt.add_index(ni)
    for e in db.enums:
        new.add(m[id(e)])
    for t in db.tables:
        new.add(m[id(t)])
    for rf in db.refs:
        nr = Reference(rf.type, [m[id(c)] for c in rf.col1], [m[id(c)] for c in rf.col2], name=rf.name,
                       comment=rf.comment, on_update=rf.on_update, on_delete=rf.on_delete, inline=rf.inline)
        m[id(rf)] = nr
        new.add(nr)
    for g in db.table_groups:
        nn = None
        if g.note is not None:
            nn = Note(g.note.text)
            m[id(g.note)] = nn
        ng = TableGroup(g.name, [m[id(t)] for t in g.items], comment=g.comment, note=nn, color=g.color)
        m[id(g)] = ng
        new.add(ng)
    for s in db.sticky_notes:
        ns = StickyNote(s.name, s.text)
        m[id(s)] = ns
        new.add(ns)
    if db.project is not None:
        p = db.project
        np_ = Project(p.name, items=dict(p.items), note=p.note.text, comment=p.comment)
        m[id(p)] = np_
        new.add(np_)
    m[id(db)] = new
    return new, m
