import prop_sql


def run(v, tier, st, pr):
    prop_sql.run(v, tier, st, pr, 'C04')
