"""C13 — free text survives."""
import stream_text
import verdicts
from common import hexs, all_strings, rng


def oracle(tier):
    """implementation-side statement of the clauses proved so far; returns (failures, stats)"""
    from pydbml.parser.blueprints import NoteBlueprint
    from pydbml.renderer.sql.default.note import prepare_text_for_sql
    from pydbml.classes import Note
    fails = []
    n = 0
    nontriv = set()
    # idempotence of note normalisation on the theorem's domain (whitespace = blank, TAB, LF)
    alpha = ['a', ' ', '\n', '\t', "'"]
    ml = 6 if tier == 'quick' else 8
    for t in all_strings(alpha, ml):
        n += 1
        try:
            p = NoteBlueprint(t)._preformat_text()
        except ValueError:
            continue   # D3 territory, handled by C08
        try:
            p2 = NoteBlueprint(p)._preformat_text()
        except Exception as e:   # noqa
            p2 = 'raise ' + type(e).__name__
        if p != t:
            nontriv.add(p)
        if p2 != p:
            fails.append({'cause': 'oracle', 'clause': 'normalisation idempotent',
                          'input': {'kind': 'note-text', 'text_hex': hexs(t)}, 'expected': hexs(p), 'got': hexs(p2) if isinstance(p2, str) else p2})
            if len(fails) > 3:
                break
    # structured multi-line notes: every combination of line shapes
    shapes = ['', ' ', '  ', '    ', 'a', ' a', '  a', '    a', '        a', '  a  ', '\t', '\ta']
    nl = 4 if tier == 'quick' else 5
    import itertools
    for k in range(1, nl + 1):
        for combo in itertools.product(shapes, repeat=k):
            t = '\n'.join(combo)
            n += 1
            try:
                p = NoteBlueprint(t)._preformat_text()
            except ValueError:
                continue
            p2 = NoteBlueprint(p)._preformat_text()
            if p != t:
                nontriv.add(p)
            if p2 != p and len(fails) < 4:
                fails.append({'cause': 'oracle', 'clause': 'normalisation idempotent',
                              'input': {'kind': 'note-text', 'text_hex': hexs(t)}, 'expected': hexs(p), 'got': hexs(p2)})
    # SQL: prepared note text has no single quote
    for t in all_strings(['a', "'", '\\', '\n', '"'], 6 if tier == 'quick' else 8):
        n += 1
        o = prepare_text_for_sql(Note(t))
        if "'" in o:
            fails.append({'cause': 'oracle', 'clause': 'sql note text has no single quote',
                          'input': {'kind': 'note-text', 'text_hex': hexs(t)}, 'got': hexs(o)})
            break
    # SQL: expression text is passed through verbatim inside parentheses (stand-alone, as a column default, as an index subject)
    from pydbml.classes import Expression, Column, Table, Index
    for t in all_strings(['a', '(', ')', ' ', '*', "'"], 5 if tier == 'quick' else 6):
        if not t:
            continue
        n += 1
        bad = None
        o = Expression(t).sql
        if o != '(' + t + ')':
            bad = ('Expression.sql', o)
        else:
            col = Column('c', 'int', default=Expression(t))
            tb = Table('t', columns=[col])
            tb.add_index(Index([Expression(t)]))
            o2 = col.sql
            o3 = tb.indexes[0].sql
            if 'DEFAULT (' + t + ')' not in o2:
                bad = ('column default', o2)
            elif '((' + t + '))' not in o3:
                bad = ('index subject', o3)
        if bad:
            fails.append({'cause': 'oracle', 'clause': 'sql expression text verbatim inside parentheses (%s)' % bad[0],
                          'input': {'kind': 'expression-text', 'text_hex': hexs(t), 'text': t}, 'got': hexs(bad[1])})
            break
    # expression text written between backticks is stored verbatim (no escape processing at all) and passed through
    from pydbml import PyDBML
    samples = ["E'\\t|\\n'", "'\\x2f'", '\\0', '\\u0041', "regexp_replace(a, '[\\t\\n]+', ' ')", 'a\\', '\\\\', "'\\folder\\name'", '\\r\\f']
    for t in list(all_strings(['a', '\\', 't', 'n', "'", '('], 3 if tier == 'quick' else 5)) + samples:
        if not t or '`' in t:
            continue
        n += 1
        doc = 'Table t {\n  id int [default: `%s`]\n  indexes {\n    (`%s`)\n  }\n}\n' % (t, t)
        try:
            d = PyDBML(doc)
            col = d.tables[0].columns[0]
            got = (getattr(col.default, 'text', col.default), getattr(d.tables[0].indexes[0].subjects[0], 'text', None))
            sql_ok = ('DEFAULT (' + t + ')') in d.sql
        except Exception as e:   # noqa
            got, sql_ok = ('raise ' + type(e).__name__, None), True
        if got != (t, t) or not sql_ok:
            fails.append({'cause': 'oracle', 'clause': 'expression text between backticks is stored and passed to SQL verbatim',
                          'input': {'kind': 'expression-text', 'text_hex': hexs(t), 'text': t}, 'got': repr(got)[:300]})
            break
    return fails, {'oracle_inputs': n, 'oracle_distinct_nontrivial': len(nontriv)}


SITES = ['table_note', 'column_note', 'index_note', 'index_name', 'string_default', 'table_property', 'column_property',
         'enum_item_note', 'group_note', 'project_note', 'project_field', 'sticky_note']
NOTE_SITES = {'table_note', 'column_note', 'index_note', 'enum_item_note', 'group_note', 'project_note', 'sticky_note'}
SINGLE_LINE_SITES = {'column_note', 'index_note', 'enum_item_note', 'index_name', 'string_default', 'table_property', 'column_property', 'project_field'}
NO_QUOTE_SITES = {'index_name', 'project_field'}


def site_build(site, t):
    from pydbml.classes import Column, Table, Index, Note, Enum, EnumItem, TableGroup, Project, StickyNote
    from pydbml.database import Database
    db = Database(allow_properties=True)
    col = Column('id', 'int')
    tb = Table('t', columns=[col])
    get = None
    if site == 'table_note':
        tb.note = Note(t)
        get = lambda d: d.tables[0].note.text
    elif site == 'column_note':
        col.note = Note(t)
        get = lambda d: d.tables[0].columns[0].note.text
    elif site == 'index_note':
        tb.add_index(Index([col], note=t))
        get = lambda d: d.tables[0].indexes[0].note.text
    elif site == 'index_name':
        tb.add_index(Index([col], name=t))
        get = lambda d: d.tables[0].indexes[0].name
    elif site == 'string_default':
        col.default = t
        get = lambda d: d.tables[0].columns[0].default
    elif site == 'table_property':
        tb.properties = {'k': t}
        get = lambda d: d.tables[0].properties.get('k')
    elif site == 'column_property':
        col.properties = {'k': t}
        get = lambda d: d.tables[0].columns[0].properties.get('k')
    db.add(tb)
    if site == 'enum_item_note':
        db.add(Enum('e', [EnumItem('x', note=t)]))
        get = lambda d: d.enums[0].items[0].note.text
    elif site == 'group_note':
        db.add(TableGroup('g', [tb], note=Note(t)))
        get = lambda d: d.table_groups[0].note.text
    elif site == 'project_note':
        db.add(Project('p', note=t))
        get = lambda d: d.project.note.text
    elif site == 'project_field':
        db.add(Project('p', items={'k': t}))
        get = lambda d: d.project.items.get('k')
    elif site == 'sticky_note':
        db.add(StickyNote('s', t))
        get = lambda d: d.sticky_notes[0].text
    return db, get


def text_ok(site, t):
    """the domain of the site round-trip clause; every exclusion is a listed finding"""
    if not t or '\\' in t or "'''" in t:                      # D10 backslash, D33 three quotes
        return False
    if not t.strip():                                            # D35 whitespace-only text
        return False
    if site in SINGLE_LINE_SITES and '\n' in t:                  # D13, D30, D32, D34
        return False
    if site in NO_QUOTE_SITES and "'" in t:                      # D9
        return False
    if site == 'string_default' and t.lower() in ('true', 'false', 'null'):   # D12
        return False
    if any(l and not l.strip() for l in t.split('\n')):          # D14 interior whitespace-only lines
        return False
    return True


def site_roundtrip(job):
    site, t = job
    from pydbml import PyDBML
    db, get = site_build(site, t)
    try:
        text = db.dbml
        d2 = PyDBML(text, allow_properties=True)
        r = get(d2)
    except Exception as e:   # noqa
        return 'raise ' + type(e).__name__
    return None if r == t else 'stored ' + repr(r)


def sql_literal_job(job):
    """the note text of a table / column reaches the DDL as ONE single-quoted literal of a COMMENT ON statement, quotes neutralised —
    for the database as built, for a deep copy and for a pickle round trip of it (original dropped)"""
    import copy, gc, pickle, re
    site, t = job
    want = [re.sub(r'\\\n', '', t).replace("'", '"')]
    for how in ('built', 'deepcopy', 'pickle'):
        db, _ = site_build(site, t)
        try:
            if how == 'deepcopy':
                db = copy.deepcopy(db)
            elif how == 'pickle':
                db = pickle.loads(pickle.dumps(db))
            gc.collect()
            sql = db.sql
        except Exception as e:   # noqa
            return '%s: raise %s' % (how, type(e).__name__)
        got = re.findall(r"COMMENT ON (?:TABLE|COLUMN) [^\n]*? IS '([^']*)';", sql)
        if got != want:
            return '%s: literals %r, expected %r' % (how, got, want)
    return None


def site_oracle(tier, v):
    import prop_parse
    from pydbml.parser.blueprints import NoteBlueprint
    from common import load_known_findings
    jobs = []
    alpha = ['a', ' ', '\n', "'", '"', '`', '{', '#', '/', ']', 'é']
    for t in all_strings(alpha, 3 if tier == 'quick' else 4):
        for site in SITES:
            if not text_ok(site, t):
                continue
            if site in NOTE_SITES:
                try:
                    if NoteBlueprint(t)._preformat_text() != t:
                        continue          # notes are stored in normal form
                except Exception:   # noqa
                    continue
            jobs.append((site, t))
    r = rng('c13-sites')
    pool = ["it's", 'say "hi"', 'a `tick`', '{brace}', '[bracket]', '# hash', '// slashes', '/* block */', 'é 中 💸', 'two words',
            'line one\nline two', 'indented\n  more', "ends with quote'", 'colon: value', 'comma, separated', 'a = b', 'x;y', '<>', 'ref: > t.id',
            'de\u0301compose\u0301', '\u2126 \u212b \u212a', '\u1112\u1161\u11ab']
    # length classes: a renderer may switch style by length (one-line literal / block), the stored text may not change
    for site in SITES:
        for n_ in (79, 80, 81, 99, 100, 101, 119, 120, 121, 255, 256, 257, 1000):
            t = ('lorem ipsum dolor ' * 70)[:n_].rstrip() + 'x'
            if text_ok(site, t):
                jobs.append((site, t))
    for _ in range(300 if tier == 'quick' else 5000):
        t = ' '.join(r.choice(pool) for _ in range(r.choice([1, 1, 2, 3, 3, 12, 30])))
        site = r.choice(SITES)
        if text_ok(site, t):
            jobs.append((site, t))
    outs = prop_parse.pool_map(site_roundtrip, jobs)
    fails = []
    sjobs = [(site, t) for site in ('table_note', 'column_note')
             for t in list(all_strings(['a', "'", '"', ' ', '\n', ';'], 3 if tier == 'quick' else 5)) + pool if t.strip()]
    for (site, t), o in zip(sjobs, prop_parse.pool_map(sql_literal_job, sjobs)):
        if o is not None:
            fails.append({'cause': 'oracle', 'clause': 'note text at site %s is not emitted as one single-quoted SQL literal (%s)' % (site, o),
                          'input': {'kind': 'site-text', 'site': site, 'text_hex': hexs(t), 'text': t}})
            break
    for (site, t), o in zip(jobs, outs):
        if o is not None:
            fails.append({'cause': 'oracle', 'clause': 'text at site %s does not survive render + parse: %s' % (site, o),
                          'input': {'kind': 'site-text', 'site': site, 'text_hex': hexs(t), 'text': t}})
    for f in load_known_findings()['findings']:
        if f['property'] == 'C13' and f['witness'].get('kind') == 'site-text':
            w = f['witness']
            if site_roundtrip((w['site'], w['text'])) is not None:
                v.known_finding(f['id'], f['what'])
        elif f['property'] == 'C13' and f['witness'].get('kind') == 'note-text':
            t = f['witness']['text']
            p1 = NoteBlueprint(t)._preformat_text()
            if NoteBlueprint(p1)._preformat_text() != p1:
                v.known_finding(f['id'], f['what'])
    return fails, len(jobs)


def run(v, tier, st, pr):
    r = stream_text.run(tier)
    fails, stats = oracle(tier)
    sfails, nsite = site_oracle(tier, v)
    fails += sfails
    stats['site_round_trips'] = nsite
    v.coverage.update(stats)
    total = verdicts.conclude(v, pr, st, {'text': r}, fails)
    v.coverage['evaluations'] = total + stats['oracle_inputs']
    v.coverage['distinct_nontrivial'] = r['distinct_nontrivial'] + stats['oracle_distinct_nontrivial']
    v.coverage['rule'] = ('stream text: every text helper on all strings up to a length bound over critical alphabets plus random structured '
                          'strings, distinct = distinct (function, output) pairs on non-empty input; oracle: all note texts up to a bound and all '
                          'combinations of line shapes, non-trivial = normalisation changed the text')
    v.coverage['samples'] = r['samples']
    v.coverage['explanation'] = ('theorems in coq/props/C13.v checked by coqc against the hand-written model of the text helpers; the model is tied to '
                                 '/repo by the exhaustive differential stream `text`; the implementation-side oracle searches for failing inputs')
