"""C13 — free text survives."""
import stream_text
import verdicts
from common import hexs, all_strings, rng


def oracle(tier):
    """implementation-side statement of the clauses proved so far; returns (failures, stats)"""
    from pydbml.parser.blueprints import NoteBlueprint
    from pydbml.renderer.sql.default.note import prepare_text_for_sql
    from pydbml.classes import Note
    fails = []
    n = 0
    nontriv = set()
    # idempotence of note normalisation on the theorem's domain (whitespace = blank, TAB, LF)
    alpha = ['a', ' ', '\n', '\t', "'"]
    ml = 6 if tier == 'quick' else 8
    for t in all_strings(alpha, ml):
        n += 1
        try:
            p = NoteBlueprint(t)._preformat_text()
        except ValueError:
            continue   # D3 territory, handled by C08
        try:
            p2 = NoteBlueprint(p)._preformat_text()
        except Exception as e:   # noqa
            p2 = 'raise ' + type(e).__name__
        if p != t:
            nontriv.add(p)
        if p2 != p:
            fails.append({'cause': 'oracle', 'clause': 'normalisation idempotent',
                          'input': {'kind': 'note-text', 'text_hex': hexs(t)}, 'expected': hexs(p), 'got': hexs(p2) if isinstance(p2, str) else p2})
            if len(fails) > 3:
                break
    # structured multi-line notes: every combination of line shapes
    shapes = ['', ' ', '  ', '    ', 'a', ' a', '  a', '    a', '        a', '  a  ', '\t', '\ta']
    nl = 4 if tier == 'quick' else 5
    import itertools
    for k in range(1, nl + 1):
        for combo in itertools.product(shapes, repeat=k):
            t = '\n'.join(combo)
            n += 1
            try:
                p = NoteBlueprint(t)._preformat_text()
            except ValueError:
                continue
            p2 = NoteBlueprint(p)._preformat_text()
            if p != t:
                nontriv.add(p)
            if p2 != p and len(fails) < 4:
                fails.append({'cause': 'oracle', 'clause': 'normalisation idempotent',
                              'input': {'kind': 'note-text', 'text_hex': hexs(t)}, 'expected': hexs(p), 'got': hexs(p2)})
    # SQL: prepared note text has no single quote
    for t in all_strings(['a', "'", '\\', '\n', '"'], 6 if tier == 'quick' else 8):
        n += 1
        o = prepare_text_for_sql(Note(t))
        if "'" in o:
            fails.append({'cause': 'oracle', 'clause': 'sql note text has no single quote',
                          'input': {'kind': 'note-text', 'text_hex': hexs(t)}, 'got': hexs(o)})
            break
    return fails, {'oracle_inputs': n, 'oracle_distinct_nontrivial': len(nontriv)}


def run(v, tier, st, pr):
    r = stream_text.run(tier)
    fails, stats = oracle(tier)
    v.coverage.update(stats)
    total = verdicts.conclude(v, pr, st, {'text': r}, fails)
    v.coverage['evaluations'] = total + stats['oracle_inputs']
    v.coverage['distinct_nontrivial'] = r['distinct_nontrivial'] + stats['oracle_distinct_nontrivial']
    v.coverage['rule'] = ('stream text: every text helper on all strings up to a length bound over critical alphabets plus random structured '
                          'strings, distinct = distinct (function, output) pairs on non-empty input; oracle: all note texts up to a bound and all '
                          'combinations of line shapes, non-trivial = normalisation changed the text')
    v.coverage['samples'] = r['samples']
    v.coverage['explanation'] = ('theorems in coq/props/C13.v checked by coqc against the hand-written model of the text helpers; the model is tied to '
                                 '/repo by the exhaustive differential stream `text`; the implementation-side oracle searches for failing inputs')
