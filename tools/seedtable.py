#!/usr/bin/env python3
"""Development-time tool: regenerate DESIGN.md section 11.6 (table of seeded changes) from seeded/*/meta.json."""
import glob, json, os, re
VERIF = os.path.dirname(os.path.dirname(os.path.abspath(__file__)))
MISSED_FIRST = {   # round 2: not caught by the check as it stood; what was strengthened
    'C01_d': 'docgen column-name pool had no bare names starting with a keyword (`notes`, `note_id`, `indexes_count`, ...): added',
    'C02_c': 'docgen float defaults had at most three decimals: long fractions added',
    'C03_c': 'API generator never handed ONE Note object to several owners: shared note objects added (constructors must copy)',
    'C07_c': 'fault list had no property-shaped unknown setting (`key: \'value\'`) with the option off: three fault kinds added',
    'C13_d': 'oracle did not state the SQL expression clause: Expression / column default / index subject texts over a parenthesis alphabet added',
    'C16_c': 'API generator never produced a sticky note with empty text: added',
    'C17_d': 'scenario had the detached column only as a single-column side: composite sides with the detached column at any position added',
    # round 3
    'C01_e': 'docgen expressions had no backslash sequences: E\'\\t|\\n\' and \'\\folder\\name\' texts added (defaults and index subjects)',
    'C01_f': 'docgen never typed a column with a bare name equal to an enum of another schema: added (the type must stay a string)',
    'C03_f': 'schemas differing from `public` only by letter case were not generated: `Public` added to both generators',
    'C05_f': 'column pools had no names differing only by letter case: `ID`/`Name`/`User_ID` added',
    'C08_e': 'corpus had no document without any table: Ref / TableGroup / Enum-only documents added',
    'C09_f': 'oracle accepted the deletion of an equal-looking TableGroup that was never added (groups compare by identity): must-reject clause and a twin group added',
    'C11_e': 'the check CRASHED (translate.Abort escaped from the in-process grammar fingerprint): the refusal is now caught; the thread clause exhibits the failure',
    'C12_e': 'documents with CR had been excluded altogether: CRLF files are now read through every file route and compared with the LF text',
    'C12_f': 'no text contained an interior U+FEFF: added to the note pool',
    'C13_e': 'site texts were all short: length classes 80/100/120/256/1000 added at every site',
    'C14_f': 'comment pool had no braces (kept away because of D5): braces added for every element except references',
    'C17_f': 'no scenario removed a table through an equal but distinct object: added',
    # round 4
    'C01_g': 'note pool had no interior whitespace-only line longer than the indentation: added (parse level; its round trip is finding D14)',
    'C02_g': 'blank-only single-line notes were excluded from the round-trip domain although only newline-only notes are defective (D35): exclusion narrowed, such notes added',
    'C03_h': 'API generator had no tiny float defaults (exponent notation): added',
    'C06_g': 'missing-table injection used a name that exists nowhere: a name that exists only in another schema added',
    'C07_h': 'no fault used a character that str.splitlines takes for a line end (VT FF FS GS RS NEL LS PS): added as stray tokens and in place of required newlines',
    'C08_h': 'names never contained those separators: short-string products for Project / TableGroup / Table / Enum names and notes added',
    'C11_h': 'no clause looked at interpreter-wide settings: documents nested far below / far beyond the recursion limit are now parsed alone and under concurrency',
    'C12_h': 'only one unsupported source type was tried: bytes (also bytes naming an existing file), bytearray, numbers, containers, BytesIO added',
    'C13_g': 'the expression clause built Expression objects through the API only: backtick expressions with backslash sequences are now parsed from documents',
    'C14_g': 'documents never had CRLF line endings: comment pairs are now also parsed with CRLF, with line-boundary characters inside comments',
    'C15_h': 'property values never began with blanks: leading / trailing blanks and U+3000 added',
    'C16_g': 'every scenario built its database through the API: parsing with configured renderer classes through Path / open-file sources added',
    'C17_g': 'reference sides always had equal length: sides of different length with the detached column beyond the shorter side added',
    # round 5
    'C02_i': 'no clause looked at copies: deep copy / pickle round trip of the parsed database (original dropped and collected) now go through the same round trip',
    'C02_j': 'round trip ran on freshly parsed databases only: renames through the public attributes (fresh bare names) before the round trip added',
    'C03_i': 'API scripts contained no refused operations: delete_column / add_index on the wrong table, an element added twice, an absent element deleted are now interleaved (the DDL must not notice)',
    'C03_j': 'the DDL oracle never saw a copy: it is now also applied to deepcopy / pickle copies of the database',
    'C04_j': 'the DDL oracle computed its expectation from the objects, so a parser pairing the wrong columns agreed with itself: document-level clause added (expectation from a database built through the API from the abstract description)',
    'C06_j': 'generated block-form references had no remark inside the braces above the relation: added (it is dropped, a duplicate stays a duplicate)',
    'C07_j': 'fault list had no comma that separates nothing: trailing / leading / doubled commas in all six kinds of settings list added',
    'C08_i': 'generated composite references always had sides of equal length: unequal sides added to docgen',
    'C08_j': 'first run: caught by the correspondence only (no-failing-input-found): corpus of short names (also the empty one) used as index subject, reference endpoint and enum type added; now by the oracle with a concrete document',
    'C09_i': 'universe had no instances of user subclasses, and the oracle only checked that refusals leave the state alone: every sixth history is replayed with trivial subclasses of all classes, and a refused operation that the property does not list as rejected is a failure',
    'C10_i': 'added columns / retyped columns never had a type string spelling the name of an enum of the database; the fresh-build oracle cloned the objects as they were: such strings added, and every scalar attribute must hold what was passed or assigned last',
    'C11_i': 'no parse was ever started in the middle of another one on the same thread: nested parse from a parse action of a PyDBMLParser subclass added',
    'C11_j': 'all interpreters ran with one hash seed and no document repeated a label: three (thorough: seven) hash seeds and documents repeating enum labels, settings and keys added',
    'C12_i': 'open files were always fresh seekable handles at offset 0: a pipe and a handle the caller has read a header from added',
    'C13_i': 'the SQL clause was stated on the helper only: the whole DDL must carry the note as ONE single-quoted literal, also for deepcopy / pickle copies',
    'C16_j': 'the current project was never added again: added (it stays attached); refused operations interleaved',
    'C17_i': 'no scenario rendered an index after its add_index had been refused: added',
    'C17_j': 'a reference side was never the very list object `table.columns`: the interpreter now passes that list when a side lists exactly the columns of a table, and a scenario deletes one of them afterwards',
    'C18_j': 'first run: caught by the correspondence only (no-failing-input-found): the order clause is now also read off the emitted text (which CREATE TABLE carries a FOREIGN KEY clause, where its target is created) and compared edge by edge with the pinned model',
    # round 6
    'C02_k': 'first run: caught by the correspondence only (no-failing-input-found): name pools had no name in two Unicode normalisation forms: `café` composed and decomposed added to tables, columns, enums and notes (each must come back as written); now by the oracle with a concrete document',
    'C02_l': 'the round trip never changed the kind of a reference after construction: `type` edits (to and from `<>`) on inline references before the round trip added',
    'C03_k': 'first run: caught by the correspondence only (no-failing-input-found): document-level clause had no table name with braces next to column notes: added (outside the D5 domain a rendering failure of a parsed document is reported)',
    'C03_l': 'index names were never the empty string: `name=\'\'` (edit and constructor) added to the API generator',
    'C04_l': 'first run: caught by the correspondence only (no-failing-input-found): an unreadable DDL was charged to C03 only: it is now charged to C04 when the statement of a reference rendered on its own is already unreadable; comments made of the letters of `ALTER TABLE` / `CREATE` added; documents whose DDL cannot be read are failures, no longer skipped',
    'C05_k': 'enum names never contained a dot: a quoted enum name `app.v1.status` used as a column type added',
    'C05_l': 'no table declared two columns whose names differ only by Unicode normalisation form: twin pairs `état` composed / decomposed added (lookup by name must return the one asked for)',
    'C08_l': 'the corpus of source strings had no text that is also a path: `.`, `..`, `/`, `pydbml`, the repository directory ... added (a str source is DBML text, never a file name)',
    'C11_l': 'no document needed a feature that is consumed by its first use in a process: documents with multi-line type arguments etc. are now always also parsed first-thing in a fresh process and compared',
    'C12_k': 'sources had no decomposed characters: added to the entry-point corpus (all routes must agree with `parse_file` on them)',
    'C12_l': 'options were only passed by keyword to the class: positional and instance-level calls added (`PyDBML().parse`, `PyDBML.parse` with and without options must be the same function of their arguments)',
    'C13_k': 'note texts had no decomposed / compatibility characters (`e\\u0301`, `\\u2126`, `\\u212b`, Hangul jamo): added — the stored text is the written text',
    'C15_k': 'property values had no decomposed characters: added',
    'C15_l': 'property values were never texts that look like literals of another kind: `true`, `False`, `NULL`, `42`, `1.5` added (a property value is a string and is written back as one)',
    'C16_k': 'custom renderer classes always derived from `BaseRenderer`: classes deriving from the default DBML renderer with a partial registry of their own added (only the class\'s own registry counts)',
    'C16_l': 'no scenario left a reference in the database after one of its tables had been deleted: added (every listed reference is rendered or refused, never skipped)',
    'C06_k': 'first run: caught by the correspondence only (no-failing-input-found): no case declared a name only in another Unicode form / letter case than the one referred to: added for tables, groups and columns (must be rejected)',
    'C07_k': 'first run: caught by the correspondence only (no-failing-input-found): fault list had no non-ASCII digits: fullwidth / Arabic-Indic digits as numbers added (must be rejected)',
}

def cell(t, n):
    t = ' '.join(str(t).split()).replace('|', '\\|')
    return t[:n]

rows = []
for mp in sorted(glob.glob(os.path.join(VERIF, 'seeded', '*', 'meta.json'))):
    name = os.path.basename(os.path.dirname(mp))
    m = json.load(open(mp))
    pid = m.get('property', name.split('_')[0])
    cr = m.get('checks_run', {}).get(pid, {})
    if cr.get('rc') == 1:
        res = '%s: caught (%s: %s)' % (pid, cr.get('cause'), cell(cr.get('clause') or 'model and implementation disagree / generated model no longer checks', 90))
        if any('no-failing-input-found' in l for l in cr.get('lines', [])):
            res += ' — no-failing-input-found'
    else:
        res = '%s: NOT caught' % pid
    if name in MISSED_FIRST:
        t = MISSED_FIRST[name]
        res = (t if t.startswith('first run:') else 'first run: missed — ' + t) + '; now ' + res
    rows.append('| %s | %s | %s | %s |' % (name, cell(m.get('summary', ''), 110), cell(m.get('needs', ''), 90), res))
table = '| seed | change | needs | result |\n|---|---|---|---|\n' + '\n'.join(rows) + '\n'
p = os.path.join(VERIF, 'DESIGN.md')
s = open(p).read()
i = s.index('| seed | change | needs | result |')
j = s.index('\n\n', i) if '\n\n' in s[i:] else len(s)
s = s[:i] + table + s[j + 1:]
open(p, 'w').write(s)
print(len(rows), 'seeds;', sum('NOT caught' in r for r in rows), 'not caught')
