#!/usr/bin/env python3
"""Development-time tool: regenerate DESIGN.md section 11.6 (table of seeded changes) from seeded/*/meta.json."""
import glob, json, os, re
VERIF = os.path.dirname(os.path.dirname(os.path.abspath(__file__)))
MISSED_FIRST = {   # round 2: not caught by the check as it stood; what was strengthened
    'C01_d': 'docgen column-name pool had no bare names starting with a keyword (`notes`, `note_id`, `indexes_count`, ...): added',
    'C02_c': 'docgen float defaults had at most three decimals: long fractions added',
    'C03_c': 'API generator never handed ONE Note object to several owners: shared note objects added (constructors must copy)',
    'C07_c': 'fault list had no property-shaped unknown setting (`key: \'value\'`) with the option off: three fault kinds added',
    'C13_d': 'oracle did not state the SQL expression clause: Expression / column default / index subject texts over a parenthesis alphabet added',
    'C16_c': 'API generator never produced a sticky note with empty text: added',
    'C17_d': 'scenario had the detached column only as a single-column side: composite sides with the detached column at any position added',
}

def cell(t, n):
    t = ' '.join(str(t).split()).replace('|', '\\|')
    return t[:n]

rows = []
for mp in sorted(glob.glob(os.path.join(VERIF, 'seeded', '*', 'meta.json'))):
    name = os.path.basename(os.path.dirname(mp))
    m = json.load(open(mp))
    pid = m.get('property', name.split('_')[0])
    cr = m.get('checks_run', {}).get(pid, {})
    if cr.get('rc') == 1:
        res = '%s: caught (%s: %s)' % (pid, cr.get('cause'), cell(cr.get('clause') or 'model and implementation disagree / generated model no longer checks', 90))
        if any('no-failing-input-found' in l for l in cr.get('lines', [])):
            res += ' — no-failing-input-found'
    else:
        res = '%s: NOT caught' % pid
    if name in MISSED_FIRST:
        res = 'first run: missed — ' + MISSED_FIRST[name] + '; now ' + res
    rows.append('| %s | %s | %s | %s |' % (name, cell(m.get('summary', ''), 110), cell(m.get('needs', ''), 90), res))
table = '| seed | change | needs | result |\n|---|---|---|---|\n' + '\n'.join(rows) + '\n'
p = os.path.join(VERIF, 'DESIGN.md')
s = open(p).read()
i = s.index('| seed | change | needs | result |')
j = s.index('\n\n', i) if '\n\n' in s[i:] else len(s)
s = s[:i] + table + s[j + 1:]
open(p, 'w').write(s)
print(len(rows), 'seeds;', sum('NOT caught' in r for r in rows), 'not caught')
