"""C10, C16, C17: scripted API scenarios on random databases.  Each scenario is an op script with
expectations attached to some observation ops; the script is compared op by op with the Coq model
(correspondence) and the expectations are the implementation-side oracle of the property."""
import gen_api
import pyscript
import stream_script
import verdicts
from common import rng, load_known_findings, hexs, unhexs
from pyscript import Op, V, NONE, vs

AME = 'raise pydbml.exceptions.AttributeMissingError'
TNF = 'raise pydbml.exceptions.TableNotFoundError'
DBE = 'raise pydbml.exceptions.DBMLError'
UDB = 'raise pydbml.exceptions.UnknownDatabaseError'


class Scenario:
    def __init__(self, g, info, rdefs=()):
        self.g, self.info, self.rdefs = g, info, list(rdefs)
        self.expect = []      # (op index, kind, payload, clause)

    def want(self, idx, text, clause):
        self.expect.append((idx, 'eq', text, clause))

    def same(self, i, j, clause):
        self.expect.append((i, 'same', j, clause))


# ---------------------------------------------------------------- C17
REQUIRED = {  # (class key in info, attr code, what) — mirrored from the property text
    'table': [(1, 'table without name'), (2, 'table without schema')],
    'column': [(1, 'column without name'), (2, 'column without type')],
    'enum': [(1, 'enum without name'), (2, 'enum without schema'), (4, 'enum without items')],
    'enumitem': [(1, 'enum item without name')],
    'index': [(8, 'index not attached to a table'), (1, 'index without subjects')],
    'ref': [(1, 'reference without type'), (2, 'reference without col1'), (3, 'reference without col2')],
}


def scen_c17(r):
    g, info = gen_api.gen_database(r, nasty=0.0, size=r.choice([2, 3]))
    sc = Scenario(g, info)
    if r.random() < 0.5:
        gen_api.gen_edits(g, info, r.randint(1, 4))
    kind = r.choice(['req', 'req', 'detached_col', 'mixed', 'moved_col', 'composite_inline', 'detached_getrefs', 'deleted_twin',
                     'refused_index', 'side_column_deleted'])
    tabs = info['tables']
    t = r.choice(tabs)
    cols = info['columns'][t]
    if kind == 'req':
        cls = r.choice(['table', 'column', 'enum', 'enumitem', 'index', 'ref'])
        pool = {'table': tabs, 'column': cols, 'enum': info['enums'], 'enumitem': info['enumitems'],
                'index': info['indexes'][t], 'ref': info['refs']}[cls]
        if not pool:
            return None
        o = r.choice(pool)
        attr, what = r.choice(REQUIRED[cls])
        g.emit(Op(60, o, attr, NONE))
        k = g.emit(Op(80, o))
        sc.want(k, AME, 'SQL of a %s raises the attribute-missing error' % what)
    elif kind == 'detached_col':
        # a reference one of whose columns is not attached to any table
        c = g.emit(Op(12, 'loose', vs('int'), False, False, False, False, NONE, NONE, None, []))
        other = r.choice(cols)
        side = r.random() < 0.5
        if r.random() < 0.25 and len(cols) >= 1:
            # sides of different length (legal through the API): the detached column beyond the length of the other side
            rf = g.emit(Op(15, r.choice(['>', '<', '-']), [cols[0], c] if side else [other], [other] if side else [cols[0], c],
                           None, None, None, None, False))
            k = g.emit(Op(80, rf))
            sc.want(k, TNF, 'SQL of a reference with sides of different length and a detached column raises table-not-found')
            g.emit(Op(81, rf))
            return sc
        if r.random() < 0.4 and len(cols) >= 2:
            # composite: the detached column at any position of its side
            good = r.sample(cols, 2)
            bad = [good[0], c] if r.random() < 0.6 else [c, good[0]]
            rf = g.emit(Op(15, r.choice(['>', '<', '-']), bad if side else good, good if side else bad,
                           None, None, None, None, False))
            k = g.emit(Op(80, rf))
            sc.want(k, TNF, 'SQL of a composite reference with a detached column (any position) raises table-not-found')
            g.emit(Op(81, rf))
            return sc
        rf = g.emit(Op(15, r.choice(['>', '<', '-', '<>']), [c] if side else [other], [other] if side else [c],
                       None, None, None, None, r.random() < 0.5))
        k = g.emit(Op(80, rf))
        sc.want(k, TNF, 'SQL of a reference with a detached column raises table-not-found')
        k = g.emit(Op(81, rf))
        sc.want(k, TNF, 'DBML of a reference with a detached column raises table-not-found')
    elif kind == 'refused_index':
        # an index offered to a table that does not own its column is refused: it stays detached, and its SQL is refused too
        others = [x for x in tabs if x != t and not ({g.ops[c_].args[0] for c_ in cols} & {g.ops[c_].args[0] for c_ in info['columns'][x]})]
        if not others or not cols:
            return None
        ix = g.emit(Op(13, V('subjects', [(1, r.choice(cols))]), 'refused', False, None, False, NONE, None))
        if r.random() < 0.5:
            g.emit(Op(80, ix))
        g.emit(Op(52, r.choice(others), ix))
        k = g.emit(Op(80, ix))
        sc.want(k, AME, 'SQL of an index whose add_index was refused (it is attached to no table) raises the attribute-missing error')
    elif kind == 'side_column_deleted':
        # a reference over ALL the columns of a table, one of which is then deleted from the table: that column is attached to
        # nothing, the reference still names it
        t2 = r.choice(tabs)
        c2s = info['columns'][t2]
        if len(cols) < 2 or len(c2s) < len(cols) or t2 == t:
            return None
        rf = g.emit(Op(15, r.choice(['>', '<', '-']), list(cols), c2s[:len(cols)], None, None, None, None, False))
        if r.random() < 0.5:
            g.emit(Op(80, rf))
        gone = r.choice(cols)
        if any(g.ops[c_].args[0] == g.ops[gone].args[0] for c_ in cols if c_ != gone):
            return None
        g.emit(Op(51, t, V('obj', gone)))
        k = g.emit(Op(80, rf))
        sc.want(k, TNF, 'SQL of a reference one of whose columns was deleted from its table raises table-not-found')
        k = g.emit(Op(81, rf))
        sc.want(k, TNF, 'DBML of a reference one of whose columns was deleted from its table raises table-not-found')
    elif kind == 'mixed':
        if len(tabs) < 2:
            return None
        t2 = r.choice([x for x in tabs if x != t])
        c1 = [r.choice(cols), r.choice(info['columns'][t2])]
        c2 = [r.choice(cols), r.choice(cols)]
        if r.random() < 0.5:
            c1, c2 = c2, c1
            side = 2
        else:
            side = 1
        rf = g.emit(Op(15, r.choice(['>', '<', '-']), c1, c2, None, None, None, None, False))
        k = g.emit(Op(76, side, rf))
        sc.want(k, DBE, 'table%d of a reference mixing columns of different tables raises the DBML error' % side)
        k = g.emit(Op(81, rf))
        sc.want(k, DBE, 'DBML of a reference mixing columns of different tables raises the DBML error')
    elif kind == 'moved_col':
        # a valid composite reference is asked for its tables, then one of its columns moves to another table through
        # the public API: the very same questions must now be refused (no answer may be remembered)
        if len(tabs) < 2 or len(cols) < 2:
            return None
        t2 = r.choice([x for x in tabs if x != t])
        c2s = info['columns'][t2]
        if len(c2s) < 2:
            return None
        rf = g.emit(Op(15, r.choice(['>', '<', '-']), cols[:2], c2s[:2], None, None, None, None, False))
        g.emit(Op(76, 1, rf)); g.emit(Op(76, 2, rf)); g.emit(Op(81, rf)); g.emit(Op(80, rf))
        moved = cols[1]
        g.emit(Op(51, t, V('obj', moved)))
        g.emit(Op(50, t2, moved))
        k = g.emit(Op(76, 1, rf))
        sc.want(k, DBE, 'table1 of a reference whose columns no longer share a table raises the DBML error, also after it answered before')
        k = g.emit(Op(81, rf))
        sc.want(k, DBE, 'DBML of a reference whose columns no longer share a table raises the DBML error, also after it rendered before')
    elif kind == 'deleted_twin':
        # a table is removed from the database through an equal but distinct object: it is the STORED table that
        # is detached, and every question that needs the database must then be refused for it
        nm = 'twin_%d' % r.randint(0, 9)
        c1 = g.emit(Op(12, 'id', vs('int'), False, False, True, False, NONE, NONE, None, []))
        t1 = g.emit(Op(14, nm, 'public', None, [c1], [], NONE, None, None, False, []))
        g.emit(Op(30, 0, info['db'], t1))
        c2 = g.emit(Op(12, 'id', vs('int'), False, False, True, False, NONE, NONE, None, []))
        t2 = g.emit(Op(14, nm, 'public', None, [c2], [], NONE, None, None, False, []))
        g.emit(Op(40, r.choice([0, 1]), info['db'], t2))
        k = g.emit(Op(74, t1))
        sc.want(k, UDB, 'get_refs of a table that was removed (through an equal object) raises unknown-database')
        k = g.emit(Op(75, c1))
        sc.want(k, UDB, 'get_refs of a column of a removed table raises unknown-database')
        g.emit(Op(74, t2)); g.emit(Op(80, t1)); g.emit(Op(82))
    elif kind == 'composite_inline':
        if len(cols) < 2:
            return None
        t2 = r.choice(tabs)
        c2s = info['columns'][t2]
        if len(c2s) < 2:
            return None
        rf = g.emit(Op(15, r.choice(['>', '<', '-']), cols[:2], c2s[:2], None, None, None, None, True))
        k = g.emit(Op(81, rf))
        sc.want(k, DBE, 'a composite reference cannot be rendered inline in DBML')
    else:
        c = g.emit(Op(12, 'loose', vs('int'), False, False, False, False, NONE, NONE, None, []))
        k = g.emit(Op(75, c))
        sc.want(k, TNF, 'get_refs of a detached column raises table-not-found')
        tt = g.emit(Op(14, 'detached', 'public', None, [c], [], NONE, None, None, False, []))
        k = g.emit(Op(74, tt))
        sc.want(k, UDB, 'get_refs of a detached table raises unknown-database')
        k = g.emit(Op(75, c))
        sc.want(k, UDB, 'get_refs of a column of a detached table raises unknown-database')
    return sc


# ---------------------------------------------------------------- C16
def rand_rdef(r):
    kinds = r.sample(range(1, 12), r.randint(0, 8))
    hs = []
    for k in kinds:
        m = r.random()
        if m < 0.6:
            hs.append((k, ('const', 'K%d:%s' % (k, r.choice(['x', 'custom output', ''])))))
        elif m < 0.8:
            hs.append((k, ('sql',)))
        else:
            hs.append((k, ('dbml',)))
    dm = r.choice([('const', 'DB-TEXT'), ('sql',), ('dbml',)])
    return (hs, dm)


def scen_c16_parsed(r):
    """the renderer classes handed to the parser configure the returned database whatever way the source is supplied"""
    import prop_parse
    from pyscript import parse_op
    rdefs = [rand_rdef(r), rand_rdef(r)]
    A, text, exp, allow = prop_parse.gen_doc(r, size=r.choice([1, 2]))
    text = text.replace('\r', '')
    g = gen_api.G(r)
    sc = Scenario(g, {}, rdefs)
    a = g.emit(parse_op(0, allow, 2, 3, text))
    b = g.emit(parse_op(r.choice([2, 3]), allow, 2, 3, text))
    for code, what in ((80, 'SQL'), (81, 'DBML')):
        ka = g.emit(Op(code, a))
        kb = g.emit(Op(code, b))
        sc.same(kb, ka, 'a database parsed from a Path / open file renders %s through the configured renderer class, like one parsed from a string' % what)
    return sc


def scen_c16(r):
    if r.random() < 0.06:
        return scen_c16_parsed(r)
    rdefs = [rand_rdef(r) for _ in range(r.choice([0, 1, 2]))]
    n = len(rdefs)
    sqlr = r.choice([0] + list(range(2, 2 + n)) + ([1] if r.random() < 0.1 else []))
    dbmlr = r.choice([1] + list(range(2, 2 + n)))
    g, info = gen_api.gen_database(r, nasty=0.0, renderers=(sqlr, dbmlr), size=r.choice([None, None, None, 0]))
    sc = Scenario(g, info, rdefs)
    db = info['db']
    if not info['tables']:
        # a database without tables still configures the renderers of its other elements
        e = g.emit(Op(17, 'lonely', [V('str', 'a')], 'public', None))
        info['added'][e] = g.emit(Op(30, 0, db, e))
        info['enums'].append(e)
        s_ = g.emit(Op(18, 'lonely note', 'text'))
        info['added'][s_] = g.emit(Op(30, 0, db, s_))
        info['stickies'].append(s_)
    if info['project'] is not None and r.random() < 0.3:
        # setting the project that is already the current one: it stays the attached project
        info['added'][info['project']] = g.emit(Op(30, r.choice([0, 5]), db, info['project']))
    if r.random() < 0.2:
        gen_api.gen_rejected(g, info, r.randint(1, 2))      # refused operations change nothing
    if len(info['tables']) >= 2 and info['refs'] and r.random() < 0.15:
        # a table is deleted from the database: its references stay attached (and keep their place in the database text)
        gone = r.choice(info['tables'])
        g.emit(Op(40, r.choice([0, 1]), db, gone))
        info['tables'] = [t_ for t_ in info['tables'] if t_ != gone]
        info['columns'] = {t_: c_ for t_, c_ in info['columns'].items() if t_ != gone}
        info['indexes'] = {t_: c_ for t_, c_ in info['indexes'].items() if t_ != gone}
    twins = []
    for rf in info['refs'][:2]:
        op = g.ops[rf]
        tw = g.emit(Op(15, *op.args))
        twins.append((rf, tw, g.emit(Op(84, rf, tw))))
    g.emit(Op(82))
    d0 = len(g.ops) - 1
    # element renderings in random order, twice, interleaved with database renderings
    elems = gen_api.all_elements(info)
    r.shuffle(elems)
    first = {}
    seq = [(e, k) for e in elems for k in (80, 81)] + [(db, 80), (db, 81)]
    r.shuffle(seq)
    for e, code in seq:
        first[(e, code)] = g.emit(Op(code, e))
    g.emit(Op(82))
    sc.same(len(g.ops) - 1, d0, 'rendering has no side effects on the model')
    for rf, tw, k0 in twins:
        k = g.emit(Op(84, rf, tw))
        sc.same(k, k0, 'rendering does not change how an element compares with an identical twin')
    r.shuffle(seq)
    for e, code in seq[:max(4, len(seq) // 2)]:
        k = g.emit(Op(code, e))
        sc.same(k, first[(e, code)], 'evaluating a rendering again gives the same text')
    # configured renderers: an attached top-level element or column renders through the database's classes
    KIND = {}
    for t_ in info['tables']:
        KIND[t_] = 1
        for c_ in info['columns'][t_]:
            KIND[c_] = 2
    for x_ in info['refs']:
        KIND[x_] = 4
    for x_ in info['enums']:
        KIND[x_] = 5
    for x_ in info['stickies']:
        KIND[x_] = 8
    for x_ in info['groups']:
        KIND[x_] = 11
    if info['project'] is not None:
        KIND[info['project']] = 10
    for (e, code), idx in list(first.items()):
        if e not in KIND:
            continue
        rn = sqlr if code == 80 else dbmlr
        if rn >= 2:
            hs = dict(rdefs[rn - 2][0])
            h_ = hs.get(KIND[e])
            added = info['added'].get(e) if KIND[e] != 2 else next((info['added'].get(t_) for t_ in info['tables'] if e in info['columns'][t_]), None)
            if KIND[e] in (8, 10, 11) and code == 80:
                continue      # DBML-only classes have no .sql
            if h_ is None:
                sc.expect.append((idx, 'eq_if_added', ('ok s', added), 'an element type the configured renderer has no handler for renders as an empty string'))
            elif h_[0] == 'const':
                sc.expect.append((idx, 'eq_if_added', ('ok ' + hexs(h_[1]), added), 'an attached element renders through the configured renderer class'))
    # default renderers: database text is the join of the element texts
    if dbmlr == 1:
        parts = ([info['project']] if info['project'] is not None else []) + info['enums'] + info['tables'] \
            + ['NONINLINE_REFS'] + info['groups'] + info['stickies']
        sc.expect.append((first[(db, 81)], 'join', ([(first.get((p, 81)), info['added'].get(p)) if p != 'NONINLINE_REFS' else 'REFS' for p in parts],
                                                  [(first[(x, 81)], info['added'].get(x)) for x in info['refs']], info['refs']),
                          'database DBML is the join of the element texts in order'))
    return sc


# ---------------------------------------------------------------- C10
def scen_c10(r):
    g, info = gen_api.gen_database(r, nasty=0.0 if r.random() < 0.7 else 0.3)
    sc = Scenario(g, info)
    if r.random() < 0.5:
        gen_api.observe_all(g, info, elements=False)     # render before the edits (a cache would be filled here)
        for rf in info['refs']:
            g.emit(Op(80, rf))
            g.emit(Op(78, rf))
    gen_api.gen_edits(g, info, r.randint(1, 8))
    obs = gen_api.observe_all(g, info)
    sc.obs = obs
    return sc


def rebuild_and_compare(sc):
    """C10 oracle: build a fresh database with the final content through the public API and compare all renderings"""
    from clone import clone_database
    it = pyscript.Interp(sc.rdefs)
    outs = []
    for op in sc.g.ops:
        t, o = it.run_op(op)
        it.slots.append(o)
        outs.append(t)
    db = it.slots[sc.info['db']]
    try:
        fresh, mapping = clone_database(db)
    except Exception as e:   # noqa
        return []          # the final content cannot be built afresh (e.g. two tables renamed to one name): nothing to compare
    fails = []
    # (b) the same construction and edits, replayed in a fresh interpreter without any intermediate rendering
    first_obs = min(i for _, _, i in sc.obs)
    it2 = pyscript.Interp(sc.rdefs)
    for i, op in enumerate(sc.g.ops):
        if i < first_obs and op.code in (78, 80, 81, 82):
            it2.slots.append(None)
            continue
        t2, o2 = it2.run_op(op)
        it2.slots.append(o2)
        if i >= first_obs and t2 != outs[i]:
            fails.append(('replay-without-earlier-renderings', repr(op), outs[i][:600], t2[:600]))
            break
    # (c) the final content is what the script built and assigned: every scalar attribute holds the value given to the
    # constructor or assigned last (no operation rewrites an attribute it was not asked to)
    CTOR = {12: {'name': 0, 'type': 1, 'unique': 2, 'not_null': 3, 'pk': 4, 'autoinc': 5, 'comment': 8},
            14: {'name': 0, 'schema': 1, 'alias': 2, 'header_color': 6, 'comment': 7, 'abstract': 8},
            15: {'type': 0, 'name': 3, 'comment': 4, 'on_update': 5, 'on_delete': 6, 'inline': 7},
            17: {'name': 0, 'schema': 2, 'comment': 3}}
    expected = {}
    for i, op in enumerate(sc.g.ops):
        if op.code in CTOR and outs[i] == 'obj':
            expected[i] = {}
            for an, pos in CTOR[op.code].items():
                a_ = op.args[pos]
                expected[i][an] = it.val(a_) if isinstance(a_, pyscript.V) else a_
        elif op.code == 60 and outs[i] == 'ok' and op.args[0] in expected:
            an = pyscript.ATTRS.get(pyscript.bt(it.slots[op.args[0]]), {}).get(op.args[1])
            if an in expected[op.args[0]]:
                expected[op.args[0]][an] = it.val(op.args[2])
    for i, exp_ in expected.items():
        ob_ = it.slots[i]
        for an, ev in exp_.items():
            if an == 'inline':
                ev = bool(ev) and exp_.get('type') != '<>'
            if an == 'name' and sc.g.ops[i].code == 15:
                ev = ev or None          # Reference(name='') stores None
            try:
                gv = getattr(ob_, an)
            except Exception as e:   # noqa
                gv = 'raise ' + pyscript.exc_name(e)
            if not (gv is ev or (type(gv) is type(ev) and gv == ev)):
                fails.append(('attribute', '%s.%s of the object built by %r' % (type(ob_).__name__, an, sc.g.ops[i]), repr(gv)[:200], repr(ev)[:200]))
                break
    for slot, kind, idx in sc.obs:
        obj = it.slots[slot]
        twin = mapping.get(id(obj))
        if twin is None:
            continue
        got = outs[idx]
        try:
            exp = 'ok ' + hexs(twin.sql if kind == 'sql' else twin.dbml)
        except Exception as e:   # noqa
            exp = 'raise ' + pyscript.exc_name(e)
        if got != exp:
            fails.append((kind, type(obj).__name__, got, exp))
    return fails


SCEN = {'C10': scen_c10, 'C16': scen_c16, 'C17': scen_c17}


def run(v, tier, st, pr, pid):
    r = rng('api-' + pid)
    n = {'C10': 1200, 'C16': 800, 'C17': 2500}[pid] * (1 if tier == 'quick' else 20)
    scs = []
    while len(scs) < n:
        sc = SCEN[pid](r)
        if sc is not None:
            scs.append(sc)
    jobs = [(sc.rdefs, sc.g.ops) for sc in scs]
    res = stream_script.compare(jobs, 'api-' + pid)
    fails = []
    clauses = {}
    for sc, io in zip(scs, res['impl_outs']):
        il = io.split(';')
        for idx, kind, payload, clause in sc.expect:
            clauses[clause] = clauses.get(clause, 0) + 1
            got = il[idx]
            ok = True
            detail = None
            if kind == 'eq':
                ok = (got == payload)
                detail = 'got %s' % got[:200]
            elif kind == 'eq_if_added':
                want, added = payload
                if added is None or il[added] != 'obj':
                    continue
                ok = (got == want)
                detail = 'got %s want %s' % (got[:200], want[:200])
            elif kind == 'same':
                a, b = got, il[payload]
                if a.startswith('ok slots='):
                    a, b = a.split('|', 1)[-1], b.split('|', 1)[-1]
                ok = (a == b)
                detail = 'op %d: %s  vs op %d: %s' % (idx, got[:300], payload, il[payload][:300])
            elif kind == 'join':
                parts, refidx, refslots = payload
                texts = []
                bad = False
                for p in parts:
                    if p == 'REFS':
                        for ri, ai in refidx:
                            if il[ai] != 'obj':
                                continue           # the add was rejected: not part of the database
                            t = il[ri]
                            if t.startswith('ok ') and not unhexs(t[3:]).startswith('ref:'):
                                texts.append(unhexs(t[3:]))
                            elif not t.startswith('ok '):
                                bad = True
                    elif p[0] is not None:
                        if il[p[1]] != 'obj':
                            continue
                        t = il[p[0]]
                        if t.startswith('ok '):
                            texts.append(unhexs(t[3:]))
                        else:
                            bad = True
                if bad or not got.startswith('ok '):
                    continue       # some element does not render: nothing to compare
                ok = unhexs(got[3:]) == '\n\n'.join(texts)
                detail = 'database text differs from the join of %d element texts' % len(texts)
            if not ok:
                fails.append({'cause': 'oracle', 'clause': clause, 'detail': detail,
                              'input': {'kind': 'script', 'rdefs': repr(sc.rdefs), 'ops': [repr(o) for o in sc.g.ops[:idx + 1]]}})
    if pid == 'C10':
        import multiprocessing as mp
        from common import NPROC
        ctx = mp.get_context('fork')
        with ctx.Pool(NPROC) as pool:
            outs = pool.map(rebuild_and_compare, scs, chunksize=max(1, len(scs) // (NPROC * 8)))
        nobs = 0
        for sc, fl in zip(scs, outs):
            nobs += len(sc.obs)
            for f in fl:
                fails.append({'cause': 'oracle', 'clause': 'rendering after edits differs from a freshly built database with the final content',
                              'detail': str(f)[:1500], 'input': {'kind': 'script', 'ops': [repr(o) for o in sc.g.ops]}})
        clauses['renderings compared with a fresh build'] = nobs
    fails.sort(key=lambda f: len(str(f['input'])))
    v.coverage['oracle_expectations'] = clauses
    total = verdicts.conclude(v, pr, st, {'api': stream_script.strip(res)}, fails)
    v.coverage['evaluations'] = total
    v.coverage['distinct_nontrivial'] = res['distinct_nontrivial']
    v.coverage['rule'] = 'random databases (gen_api) followed by the scenario of the property; distinct = distinct complete observation traces'
    v.coverage['samples'] = [{'script': [repr(o) for o in scs[i].g.ops[-6:]]} for i in (0, len(scs) - 1)]
    v.coverage['explanation'] = 'model tied to the code by op-script correspondence; expectations derived from the property text checked on the implementation outputs'
