"""Container histories for C09: a fixed universe with name / alias / content clashes, an alphabet of
container operations over it, exhaustive sequences up to a depth and random longer ones."""
import itertools
from pyscript import Op, V, NONE, vs


def universe():
    """returns (prelude ops, roles dict slot-name -> slot index)"""
    ops = []
    R = {}

    def e(name, op):
        ops.append(op)
        R[name] = len(ops) - 1
        return R[name]

    def col(name, cname, ty='int', pk=False):
        return e(name, Op(12, cname, vs(ty), False, False, pk, False, NONE, NONE, None, []))

    e('db', Op(21, 0, 1, False))
    e('db2', Op(21, 0, 1, False))
    # tA: users alias u
    col('a_id', 'id', pk=True); col('a_name', 'name', 'varchar')
    e('tA', Op(14, 'users', 'public', 'u', [R['a_id'], R['a_name']], [], NONE, None, None, False, []))
    # tB: same full name, different content
    col('b_id', 'id')
    e('tB', Op(14, 'users', 'public', None, [R['b_id']], [], NONE, None, None, False, []))
    # tC: alias clash with tA
    col('c_id', 'id'); col('c_uid', 'user_id')
    e('tC', Op(14, 'posts', 'public', 'u', [R['c_id'], R['c_uid']], [], NONE, None, None, False, []))
    # tD: alias equal to an existing full name
    col('d_id', 'id')
    e('tD', Op(14, 'other', 'public', 'public.users', [R['d_id']], [], NONE, None, None, False, []))
    # tE: content-equal twin of tA
    col('e_id', 'id', pk=True); col('e_name', 'name', 'varchar')
    e('tE', Op(14, 'users', 'public', 'u', [R['e_id'], R['e_name']], [], NONE, None, None, False, []))
    # tF: same name in another schema
    col('f_id', 'id')
    e('tF', Op(14, 'users', 'auth', None, [R['f_id']], [], NONE, None, None, False, []))
    # tG: plain
    col('g_id', 'id'); col('g_uid', 'user_id')
    e('tG', Op(14, 'posts', 'public', None, [R['g_id'], R['g_uid']], [], vs('note'), None, None, False, []))
    # tH: table named like tA's alias
    col('h_id', 'id')
    e('tH', Op(14, 'u', 'public', None, [R['h_id']], [], NONE, None, None, False, []))
    # references
    e('r1', Op(15, '>', [R['g_uid']], [R['a_id']], None, None, None, None, False))
    e('r2', Op(15, '>', [R['g_uid']], [R['a_id']], None, None, None, None, True))      # equal to r1 up to inline
    e('r3', Op(15, '<', [R['f_id']], [R['g_id']], 'fk', None, 'cascade', None, False))
    e('r4', Op(15, '-', [R['b_id']], [R['d_id']], None, None, None, None, False))
    # enums
    e('e1', Op(17, 'status', [V('str', 'a'), V('str', 'b')], 'public', None))
    e('e2', Op(17, 'status', [V('str', 'c')], 'public', None))                         # same name+schema
    e('e3', Op(17, 'status', [V('str', 'a'), V('str', 'b')], 'public', None))           # equal twin of e1
    e('e4', Op(17, 'status', [V('str', 'a')], 'other', None))
    # groups
    e('g1', Op(20, 'g', [R['tA']], None, None, None))
    e('g2', Op(20, 'g', [R['tG']], None, None, None))                                  # same name
    e('g3', Op(20, 'h', [], None, None, None))
    # sticky notes, projects
    e('s1', Op(18, 'n', 'text'))
    e('s2', Op(18, 'n', 'text'))
    e('p1', Op(19, 'proj', [('k', 'v')], vs('pn'), None))
    e('p2', Op(19, 'proj2', [], NONE, None))
    # loose objects for table-level operations
    col('x1', 'extra'); col('x2', 'id', pk=True)          # x2 equals a_id once attached to a table named public.users
    e('i_own', Op(13, V('subjects', [(1, R['a_id'])]), None, False, None, False, NONE, None))
    e('i_own2', Op(13, V('subjects', [(1, R['a_id'])]), None, False, None, False, NONE, None))   # equal twin
    e('i_foreign', Op(13, V('subjects', [(1, R['g_id'])]), None, False, None, False, NONE, None))
    e('i_str', Op(13, V('subjects', [(0, 'name'), (1, R['a_name'])]), 'ix', True, None, False, NONE, None))
    e('note', Op(10, 'a note'))
    # g4: equal in every attribute to g1, another object
    e('g4', Op(20, 'g', [R['tA']], None, None, None))
    # tI: alias equal to its OWN full name (D36) — appended last so that earlier slots keep their numbers
    col('i_id', 'id')
    e('tI', Op(14, 'self', 'public', 'public.self', [R['i_id']], [], NONE, None, None, False, []))
    return ops, R


def alphabet(R, level):
    """list of (label, [ops]) ; level 0 core (exhaustive), 1 extended (random)"""
    db = R['db']
    A = []
    tabs = ['tA', 'tB', 'tC', 'tD', 'tE', 'tF', 'tG', 'tH', 'tI']
    core_objs = ['tA', 'tB', 'tC', 'tE', 'tG', 'r1', 'r2', 'e1', 'e2', 'g1', 'g2', 'p1', 'p2', 's1']
    objs = tabs + ['r1', 'r2', 'r3', 'r4', 'e1', 'e2', 'e3', 'e4', 'g1', 'g2', 'g3', 's1', 's2', 'p1', 'p2', 'note', 'a_id']
    for o in (core_objs if level == 0 else objs):
        A.append(('add(%s)' % o, [Op(30, 0, db, R[o])]))
        A.append(('delete(%s)' % o, [Op(40, 0, db, R[o])]))
    if level >= 1:
        for m, o in [(1, 'tA'), (1, 'tE'), (2, 'r1'), (3, 'e1'), (4, 'g1'), (5, 'p1'), (6, 's1')]:
            A.append(('add_m%d(%s)' % (m, o), [Op(30, m, db, R[o])]))
        for m, o in [(1, 'tA'), (1, 'tE'), (2, 'r2'), (3, 'e3'), (4, 'g2'), (5, 'p1')]:
            A.append(('delete_m%d(%s)' % (m, o), [Op(40, m, db, R[o])]))
        A.append(('db2.add(tA)', [Op(30, 0, R['db2'], R['tA'])]))
        A.append(('db2.add(r1)', [Op(30, 0, R['db2'], R['r1'])]))
    # renames (D6 territory)
    A.append(('tA.name=renamed', [Op(60, R['tA'], 1, vs('renamed'))]))
    A.append(('tG.name=renamed2', [Op(60, R['tG'], 1, vs('renamed2'))]))      # a table without alias
    A.append(('delete(g4)', [Op(40, 0, db, R['g4'])]))                         # the twin of g1 that is never added
    if level >= 1:
        A.append(('tA.schema=s2', [Op(60, R['tA'], 2, vs('s2'))]))
        A.append(('tA.alias=None', [Op(60, R['tA'], 3, NONE)]))
        A.append(('tA.alias=z', [Op(60, R['tA'], 3, vs('z'))]))
        A.append(('tG.name=users', [Op(60, R['tG'], 1, vs('users'))]))
    # table level
    tA = R['tA']
    A.append(('tA.add_column(x1)', [Op(50, tA, R['x1'])]))
    A.append(('tA.delete_column(a_name)', [Op(51, tA, V('obj', R['a_name']))]))
    A.append(('tA.delete_column(0)', [Op(51, tA, V('int', 0))]))
    A.append(('tA.add_index(i_own)', [Op(52, tA, R['i_own'])]))
    A.append(('tA.add_index(i_foreign)', [Op(52, tA, R['i_foreign'])]))
    A.append(('tA.delete_index(i_own)', [Op(53, tA, V('obj', R['i_own']))]))
    if level >= 1:
        A.append(('tA.add_column(x2)', [Op(50, tA, R['x2'])]))
        A.append(('tA.add_column(note)', [Op(50, tA, R['note'])]))
        A.append(('tA.delete_column(e_id)', [Op(51, tA, V('obj', R['e_id']))]))     # equal column of the twin table
        A.append(('tA.delete_column(x1)', [Op(51, tA, V('obj', R['x1']))]))
        A.append(('tA.delete_column(-1)', [Op(51, tA, V('int', -1))]))
        A.append(('tA.delete_column(5)', [Op(51, tA, V('int', 5))]))
        A.append(('tA.add_index(i_own2)', [Op(52, tA, R['i_own2'])]))
        A.append(('tA.add_index(i_str)', [Op(52, tA, R['i_str'])]))
        A.append(('tA.add_index(a_id)', [Op(52, tA, R['a_id'])]))
        A.append(('tA.delete_index(i_own2)', [Op(53, tA, V('obj', R['i_own2']))]))
        A.append(('tA.delete_index(0)', [Op(53, tA, V('int', 0))]))
        A.append(('tA.delete_index(1)', [Op(53, tA, V('int', 1))]))
        A.append(('tA.delete_index(-1)', [Op(53, tA, V('int', -1))]))
        A.append(('tA.delete_column(2)', [Op(51, tA, V('int', 2))]))
        A.append(('tA.delete_index(-3)', [Op(53, tA, V('int', -3))]))
        A.append(('tE.add_index(i_own)', [Op(52, R['tE'], R['i_own'])]))
        A.append(('e1.add_item(x)', [Op(54, R['e1'], V('str', 'x'))]))
    return A


def lookups(R):
    db = R['db']
    return [Op(71, db), Op(70, db, V('int', 0)), Op(70, db, V('int', -1)), Op(70, db, V('str', 'public.users')),
            Op(70, db, V('str', 'u')), Op(70, db, V('str', 'public.posts')), Op(70, db, V('str', 'public.renamed')),
            Op(72, R['tA'], V('str', 'id')), Op(72, R['tA'], V('int', 1)), Op(73, R['tA'], V('str', 'zzz')),
            Op(74, R['tA']), Op(74, R['tG']), Op(75, R['g_uid'])]


def histories(r, tier):
    """yields (labels, ops) — ops include the prelude, the history, lookups and a final dump"""
    pre, R = universe()
    core = alphabet(R, 0)
    ext = alphabet(R, 1)
    look = lookups(R)
    depth = 2 if tier == 'quick' else 3
    for k in range(0, depth + 1):
        for seq in itertools.product(core, repeat=k):
            ops = list(pre)
            for _, o in seq:
                ops += o
            yield [l for l, _ in seq], ops + look + [Op(82)], len(pre)
    # renames interleaved with add / delete of the renamed tables, exhaustively one level deeper
    focus = [a for a in core if a[0] in ('add(tA)', 'delete(tA)', 'tA.name=renamed', 'add(tG)', 'delete(tG)', 'tG.name=renamed2', 'add(tB)')]
    for seq in itertools.product(focus, repeat=depth + 1):
        ops = list(pre)
        for _, o in seq:
            ops += o
        yield [l for l, _ in seq], ops + look + [Op(82)], len(pre)
    # the table-level sub-language, exhaustively (twins, positions, foreign columns)
    tl = [a for a in ext if a[0].startswith(('tA.add_', 'tA.delete_', 'tE.add_'))]
    tdepth = 3 if tier == 'quick' else 4
    for k in range(1, tdepth + 1):
        for seq in itertools.product(tl, repeat=k):
            if k == tdepth and not seq[-1][0].startswith('tA.delete'):
                continue
            ops = list(pre)
            for _, o in seq:
                ops += o
            yield [l for l, _ in seq], ops + look[7:10] + [Op(82)], len(pre)
    nrand = 1500 if tier == 'quick' else 30000
    for _ in range(nrand):
        n = r.choice([3, 4, 5, 6, 8, 12, 20])
        seq = [r.choice(ext) for _ in range(n)]
        ops = list(pre)
        for i, (_, o) in enumerate(seq):
            ops += o
            if r.random() < 0.25:
                ops.append(Op(82))
        yield [l for l, _ in seq], ops + look + [Op(82)], len(pre)
