import prop_parse


def run(v, tier, st, pr):
    prop_parse.run(v, tier, st, pr, 'C15')
