#!/usr/bin/env python3
"""Development-time tool (not a registered check): confirm a seeded change and run checks against it.
  seedtool.py confirm <srcdir> <name>      srcdir has patch.diff demo.py meta.json -> /verif/seeded/<name>/
  seedtool.py run <name> <Cxx> [<Cxx>...]  apply to /repo, run ./check, revert; record outcome in meta.json
"""
import json, os, shutil, subprocess, sys, time
VERIF = os.path.dirname(os.path.dirname(os.path.abspath(__file__)))
PY = '/venv/bin/python'

def sh(cmd, cwd=None, timeout=1800):
    p = subprocess.run(cmd, shell=True, cwd=cwd, capture_output=True, text=True, timeout=timeout)
    return p.returncode, (p.stdout + p.stderr)

def confirm(src, name):
    wt = '/var/tmp/seedwt_%s' % name
    sh('git -C /repo worktree remove --force %s' % wt)
    rc, o = sh('git -C /repo worktree add --detach %s HEAD' % wt)
    assert rc == 0, o
    try:
        patch = os.path.abspath(os.path.join(src, 'patch.diff'))
        demo = os.path.abspath(os.path.join(src, 'demo.py'))
        rc, o = sh('git apply %s' % patch, cwd=wt); assert rc == 0, 'patch does not apply: ' + o
        rc, o = sh('%s -m pytest -q -p no:cacheprovider 2>&1 | tail -3' % PY, cwd=wt)
        suite = o.strip().split('\n')[-1]
        rc_with, o_with = sh('%s %s' % (PY, demo), cwd=wt)
        sh('git checkout -- . && git clean -fdq', cwd=wt)
        rc_without, o_without = sh('%s %s' % (PY, demo), cwd=wt)
        ok = ('470 passed' in suite) and rc_with != 0 and rc_without == 0
        print('suite:', suite, '| demo with change rc=%d | without rc=%d | confirmed=%s' % (rc_with, rc_without, ok))
        if not ok:
            print(o_with[-800:]); print(o_without[-800:])
            return False
        dst = os.path.join(VERIF, 'seeded', name)
        os.makedirs(dst, exist_ok=True)
        shutil.copy(patch, os.path.join(dst, 'patch.diff'))
        shutil.copy(demo, os.path.join(dst, 'demo.py'))
        meta = json.load(open(os.path.join(src, 'meta.json')))
        meta['confirmed'] = {'suite_with_change': suite, 'demo_rc_with_change': rc_with, 'demo_rc_without': rc_without,
                             'how': 'tools/seedtool.py confirm: scratch worktree under /var/tmp, git apply, full pytest, demo, revert, demo'}
        meta['demo_output_with_change'] = o_with[-600:]
        json.dump(meta, open(os.path.join(dst, 'meta.json'), 'w'), indent=1)
        return True
    finally:
        sh('git -C /repo worktree remove --force %s' % wt)

def run(name, pids, tier='quick'):
    dst = os.path.join(VERIF, 'seeded', name)
    rc, o = sh('git -C /repo status --porcelain'); assert o.strip() == '', '/repo not clean: ' + o
    rc, o = sh('git -C /repo apply %s' % os.path.join(dst, 'patch.diff'))
    if rc != 0:
        # the pinned commit has since received fix: commits; take the seed's side of conflicting hunks
        rb = os.path.join(dst, 'patch_rebased.diff')
        if os.path.exists(rb):
            rc, o = sh('git -C /repo apply %s' % rb)
        else:
            sh('git -C /repo apply --3way %s' % os.path.join(dst, 'patch.diff'))
            rc2, conf = sh('git -C /repo diff --name-only --diff-filter=U')
            for f in conf.split():
                sh('git -C /repo checkout --theirs -- %s' % f)
            sh('git -C /repo reset -q')
            rc, o = sh('git -C /repo diff')
            open(rb, 'w').write(o)
            rc = 0 if o.strip() and '<<<<<<<' not in o else 1
    assert rc == 0, o
    res = {}
    # evidence files are rewritten by every check run: keep the ones from the clean tree
    saved = {}
    for pid in pids:
        ev = os.path.join(VERIF, 'evidence', pid + '.json')
        if os.path.exists(ev):
            saved[ev] = open(ev).read()
    try:
        for pid in pids:
            t = time.time()
            rc, o = sh('./check %s --tier %s' % (pid, tier), cwd=VERIF)
            lines = [l for l in o.split('\n') if l.startswith('VIOLATION') or l.startswith('ERROR')]
            res[pid] = {'rc': rc, 'lines': lines[:3], 's': round(time.time() - t, 1)}
            print(name, pid, 'rc=%d' % rc, lines[:2], '%.0fs' % (time.time() - t))
            for l in lines[:1]:
                if 'replay=' in l:
                    rp = l.split('replay=')[1].split()[0]
                    try:
                        d = json.load(open(rp))
                        res[pid]['cause'] = d.get('cause'); res[pid]['clause'] = d.get('clause')
                        print('   cause=%s clause=%s' % (d.get('cause'), d.get('clause')))
                    except Exception as e:
                        pass
    finally:
        sh('git -C /repo checkout -- . && git -C /repo clean -fdq')
        for ev, txt in saved.items():
            open(ev, 'w').write(txt)
        # coq/gen was regenerated from the patched tree: bring it back to the clean tree
        sh('PYTHONPATH=/repo:%s/tools /venv/bin/python %s/tools/translate.py --out %s/coq/gen' % (VERIF, VERIF, VERIF))
    mp = os.path.join(dst, 'meta.json')
    meta = json.load(open(mp))
    meta.setdefault('checks_run', {}).update({p: res[p] for p in res})
    json.dump(meta, open(mp, 'w'), indent=1)
    return res

if __name__ == '__main__':
    if sys.argv[1] == 'confirm':
        sys.exit(0 if confirm(sys.argv[2], sys.argv[3]) else 1)
    elif sys.argv[1] == 'run':
        run(sys.argv[2], sys.argv[3:])
