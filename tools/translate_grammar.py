"""Grammar half of the translator: reflects the live pyparsing element graph that PyDBMLParser
actually parses with (both option settings, captured at the real parse_string call, after
streamlining) into coq/gen/GenGrammar.v.  Fail-closed: any element class, attribute value,
regex or parse action it does not know aborts the translation."""
import ast
import inspect
import re
import sys
import textwrap

import pyparsing as pp

from translate import Abort, cstr, clist

MAXINT = sys.maxsize

# action ids shared with coq/model/Actions.v
ACTIONS = {
    'lambda:expression_literal': 1, 'lambda:note': 2, 'lambda:boolean_default': 3, 'lambda:number_default': 4,
    'lambda:true': 5, 'lambda:false': 6,
    'parse_column_settings': 10, 'parse_column': 11, 'parse_table_settings': 12, 'parse_table': 13,
    'parse_index_settings': 14, 'parse_index': 15, 'parse_enum_settings': 16, 'parse_enum_item': 17,
    'parse_enum': 18, 'parse_inline_relation': 19, 'parse_ref_settings': 20, 'parse_ref_cols': 21,
    'parse_ref': 22, 'parse_table_group': 23, 'parse_project': 24, 'parse_sticky_note': 25,
    'PyDBMLParser.parse_blueprint': 30,
}

LAMBDA_SRC = {   # body of each known lambda -> symbolic name (compared as normalised ASTs)
    "ExpressionBlueprint(tok[0])": 'lambda:expression_literal',
    "NoteBlueprint(tok['text'])": 'lambda:note',
    "{'true': True, 'false': False, 'NULL': None}[tok[0]]": 'lambda:boolean_default',
    "float(''.join(tok[0])) if '.' in tok[0] else int(tok[0])": 'lambda:number_default',
    "True": 'lambda:true',
    "False": 'lambda:false',
}


def unwrap_action(fn):
    """parse actions are wrapped by pyparsing's _trim_arity; the user function sits in a closure cell"""
    seen = 0
    while getattr(fn, '__closure__', None) and seen < 5:
        cells = dict(zip(fn.__code__.co_freevars, fn.__closure__))
        if 'func' in cells:
            fn = cells['func'].cell_contents
            seen += 1
        else:
            break
    return fn


def strip_ctx(node):
    for n in ast.walk(node):
        for f in ('ctx', 'lineno', 'col_offset', 'end_lineno', 'end_col_offset'):
            if hasattr(n, f):
                try:
                    delattr(n, f)
                except AttributeError:
                    pass
    return node


def _norm(node):
    return ast.dump(strip_ctx(node), annotate_fields=True, include_attributes=False)


LAMBDAS = {_norm(ast.parse(k, mode='eval').body): v for k, v in LAMBDA_SRC.items()}


def lambda_key(fn):
    try:
        src = inspect.getsource(fn)
    except (OSError, TypeError):
        raise Abort('cannot get the source of a lambda parse action')
    src = textwrap.dedent(src)
    # the lambda may sit inside a larger expression; find lambda nodes on that line range
    found = []
    try:
        tree = ast.parse(src)
    except SyntaxError:
        # source line is a fragment (e.g. a continuation line); wrap to make it parse
        m = re.search(r'lambda[^:]*:.*', src, flags=re.S)
        if not m:
            raise Abort('cannot parse lambda source %r' % src[:80])
        frag = m.group(0)
        tree = None
        for cut in range(len(frag), 0, -1):
            try:
                tree = ast.parse('(' + frag[:cut] + ')')
                break
            except SyntaxError:
                continue
        if tree is None:
            raise Abort('cannot parse lambda source %r' % src[:80])
    import types
    ncode = fn.__code__
    for n in ast.walk(tree):
        if isinstance(n, ast.Lambda):
            key = _norm(ast.parse(ast.unparse(n.body), mode='eval').body)
            found.append(key)
            try:
                outer = compile(ast.Expression(body=ast.parse(ast.unparse(n), mode='eval').body), '<lambda-src>', 'eval')
            except SyntaxError:
                continue
            inner = [c for c in outer.co_consts if isinstance(c, types.CodeType)]
            same = any(c.co_code == ncode.co_code and c.co_names == ncode.co_names
                       and [x for x in c.co_consts if not isinstance(x, types.CodeType)] ==
                           [x for x in ncode.co_consts if not isinstance(x, types.CodeType)] for c in inner)
            if same and key in LAMBDAS:
                return LAMBDAS[key]
    raise Abort('unknown lambda parse action: %s' % found)


def action_id(fn):
    fn = unwrap_action(fn)
    if inspect.ismethod(fn):
        q = fn.__func__.__qualname__
        if q in ACTIONS:
            return ACTIONS[q]
        raise Abort('unknown bound-method parse action %s' % q)
    name = getattr(fn, '__name__', '?')
    if name == '<lambda>':
        return ACTIONS[lambda_key(fn)]
    mod = getattr(fn, '__module__', '')
    if name in ACTIONS and mod.startswith('pydbml.definitions'):
        return ACTIONS[name]
    raise Abort('unknown parse action %s.%s' % (mod, name))


def chars(cs):
    return clist(['%d%%N' % ord(c) for c in sorted(cs)])


def b(x):
    return 'true' if x else 'false'


def quoted_pattern(e):
    """the pattern pyparsing 3.3.2 builds for these parameters; must equal e.pattern"""
    inner = []
    if e.esc_char:
        inner.append('(?:%s.)' % re.escape(e.esc_char))
    if len(e.end_quote_char) > 1:
        inner.append('(?:' + '|'.join('(?:%s(?!%s))' % (re.escape(e.end_quote_char[:i]), re.escape(e.end_quote_char[i:]))
                                      for i in range(len(e.end_quote_char) - 1, 0, -1)) + ')')
    esc = pp.util._escape_regex_range_chars(e.esc_char) if e.has_esc_char else ''
    if e.multiline:
        inner.append('(?:[^%s%s])' % (pp.util._escape_regex_range_chars(e.end_quote_char[0]), esc))
    else:
        inner.append('(?:[^%s\\n\\r%s])' % (pp.util._escape_regex_range_chars(e.end_quote_char[0]), esc))
    return re.escape(e.quote_char) + '(?:' + '|'.join(inner) + ')*' + re.escape(e.end_quote_char)


class Emitter:
    def __init__(self):
        self.defs = []          # (name, text, comment)
        self.by_key = {}        # structural key -> name
        self.by_id = {}         # id(obj) -> name
        self.forwards = {}      # id(forward) -> number
        self.forward_defs = {}  # number -> name of inner
        self.in_progress = set()
        self.keepalive = []     # ids are only unique among live objects
        self.classes = {}

    def attrs(self, e):
        # attributes that influence parsing and must have the values the interpreter assumes
        if e.ignoreExprs:
            raise Abort('ignore expressions are not modelled: %s' % e)
        if e.failAction is not None or e.debug or e.callDuringTry or e.keepTabs:
            raise Abort('failAction / debug / callDuringTry / keepTabs are not modelled: %s' % e)
        acts = [action_id(f) for f in e.parseAction]
        rn = 'None' if e.resultsName is None else '(Some %s)' % cstr(e.resultsName)
        return '(mkAttrs %s %s %s %s %s %s %s)' % (b(e.skipWhitespace), chars(e.whiteChars), b(e.callPreparse),
                                                  b(e.saveAsList), b(e.modalResults), rn,
                                                  clist(['%d%%N' % a for a in acts]))

    def is_original_text(self, e):
        if type(e) is not pp.And or len(e.exprs) != 3:
            return False
        a, _, c = e.exprs
        return (type(a) is pp.Empty and type(c) is pp.Empty and a.resultsName == '_original_start'
                and c.resultsName == '_original_end' and len(e.parseAction) == 1 and not c.callPreparse
                and len(a.parseAction) == 1 and len(c.parseAction) == 1
                and unwrap_action(e.parseAction[0]).__name__ == '<lambda>'
                and getattr(unwrap_action(e.parseAction[0]), '__module__', '').startswith('pyparsing'))

    def core(self, e):
        t = type(e)
        self.classes[t.__name__] = self.classes.get(t.__name__, 0) + 1
        if self.is_original_text(e):
            return 'POrigText %s' % self.ref(e.exprs[1]), True
        if t in (pp.Literal, pp.core._SingleCharLiteral):
            return 'PLit %s' % cstr(e.match), False
        if t is pp.CaselessLiteral:
            if e.match != e.returnString.upper():
                raise Abort('CaselessLiteral with unexpected match')
            return 'PCaseless %s %s' % (cstr(e.match), cstr(e.returnString)), False
        if t is pp.Word:
            regex_mode = 'parseImpl' in vars(e)
            mx = 0 if e.maxLen == MAXINT else e.maxLen
            return 'PWord %s %s %d %d %s %s %s' % (chars(e.init_chars), chars(e.bodyChars), e.minLen, mx,
                                                   b(e.maxSpecified), b(e.asKeyword), b(regex_mode)), False
        if t is pp.QuotedString:
            if e.esc_quote:
                raise Abort('QuotedString esc_quote is not modelled')
            if e.pattern != quoted_pattern(e):
                raise Abort('QuotedString pattern %r is not the one the scanner was derived for (%r)' % (e.pattern, quoted_pattern(e)))
            esc = '(Some %d%%N)' % ord(e.esc_char) if e.has_esc_char and e.esc_char else 'None'
            return 'PQuoted %s %s %s %s %s %s' % (cstr(e.quote_char), cstr(e.end_quote_char), esc, b(e.multiline),
                                                  b(e.unquote_results), b(e.convert_whitespace_escapes)), False
        if t is pp.CharsNotIn:
            mx = 0 if e.maxLen == MAXINT else e.maxLen
            return 'PCharsNotIn %s %d %d' % (chars(e.notCharsSet), e.minLen, mx), False
        if t is pp.White:
            mx = 0 if e.maxLen == MAXINT else e.maxLen
            return 'PWhite %s %d %d' % (chars(e.matchWhite), e.minLen, mx), False
        if t is pp.Regex:
            if e.flags != 0 and int(e.flags) != 0:
                raise Abort('Regex with flags is not modelled: %r' % e.pattern)
            alts = re.split(r'(?<!\\)\|', e.pattern)
            lits = []
            for a in alts:
                lit = re.sub(r'\\(.)', r'\1', a)
                if re.escape(lit) != a and a != lit:
                    raise Abort('Regex %r is not an alternation of literals' % e.pattern)
                if re.search(r'[\[\](){}*+?.^$]', re.sub(r'\\.', '', a)):
                    raise Abort('Regex %r is not an alternation of literals' % e.pattern)
                lits.append(lit)
            return 'PAltLits %s' % clist([cstr(x) for x in lits]), False
        if t is pp.LineEnd:
            return 'PLineEnd', False
        if t is pp.StringEnd:
            return 'PStringEnd', False
        if t is pp.WordStart:
            return 'PWordStart %s' % chars(e.wordChars), False
        if t is pp.WordEnd:
            return 'PWordEnd %s' % chars(e.wordChars), False
        if t is pp.Empty:
            return 'PEmpty', False
        if t is pp.NoMatch:
            return 'PNoMatch', False
        if t is pp.And:
            items = []
            for x in e.exprs:
                if type(x) is pp.And._ErrorStop:
                    items.append('IErrorStop')
                else:
                    items.append('IElem %s' % self.ref(x))
            return 'PAnd %s' % clist(items), False
        if t is pp.MatchFirst:
            return 'PMatchFirst %s' % clist([self.ref(x) for x in e.exprs]), False
        if t is pp.Or:
            return 'POr %s' % clist([self.ref(x) for x in e.exprs]), False
        if t in (pp.ZeroOrMore, pp.OneOrMore):
            if e.not_ender is not None:
                raise Abort('stop_on is not modelled')
            return '%s %s' % ('PZeroOrMore' if t is pp.ZeroOrMore else 'POneOrMore', self.ref(e.expr)), False
        if t is pp.Opt:
            if e.defaultValue is not pp.Opt._Opt__optionalNotMatched:
                raise Abort('Opt with a default value is not modelled')
            return 'POpt %s' % self.ref(e.expr), False
        if t is pp.SkipTo:
            if e.failOn is not None or e.ignoreExpr is not None:
                raise Abort('SkipTo fail_on / ignore is not modelled')
            return 'PSkipTo %s %s' % (self.ref(e.expr), b(e.includeMatch)), False
        if t is pp.Combine:
            return 'PCombine %s %s' % (self.ref(e.expr), cstr(e.joinString)), False
        if t is pp.Suppress:
            return 'PSuppress %s' % self.ref(e.expr), False
        if t is pp.Group:
            if e._asPythonList:
                raise Abort('Group(aslist=True) is not modelled')
            return 'PGroup %s' % self.ref(e.expr), False
        if t is pp.Forward:
            if id(e) not in self.forwards:
                self.forwards[id(e)] = len(self.forwards) + 1
                n = self.forwards[id(e)]
                if e.expr is None:
                    raise Abort('empty Forward')
                self.forward_defs[n] = e.expr
            return 'PForward %d%%N' % self.forwards[id(e)], False
        if t is pp.NotAny:
            return 'PNotAny %s' % self.ref(e.expr), False
        if t is pp.FollowedBy:
            return 'PFollowedBy %s' % self.ref(e.expr), False
        raise Abort('element class %s is not modelled (%s)' % (t.__name__, e))

    def ref(self, e):
        if id(e) in self.by_id:
            return self.by_id[id(e)]
        self.keepalive.append(e)
        core, origtext = self.core(e)
        if origtext:
            # the And node's own attributes, minus its (library) action which POrigText stands for
            acts = e.parseAction
            e_attrs = self.attrs_without_actions(e)
        else:
            e_attrs = self.attrs(e)
        text = '(PE (%s) %s)' % (core, e_attrs)
        if text in self.by_key:
            name = self.by_key[text]
        else:
            name = 'e%d' % len(self.defs)
            self.by_key[text] = name
            self.defs.append((name, text, re.sub(r'[^ -~]', '?', str(e))[:70].replace('*)', '* )').replace('(*', '( *').replace('"', "''")))
        self.by_id[id(e)] = name
        return name

    def attrs_without_actions(self, e):
        saved = e.parseAction
        try:
            e.parseAction = []
            return self.attrs(e)
        finally:
            e.parseAction = saved


def capture(allow_properties):
    from pydbml.parser.parser import PyDBMLParser
    cap = {}
    orig = pp.ParserElement.parse_string

    def patched(self, instring, parse_all=False, **kw):
        cap['elem'] = self
        cap['parse_all'] = bool(parse_all or kw.get('parseAll') or kw.get('parse_all'))
        extra = set(kw) - {'parseAll', 'parse_all'}
        if extra:
            raise Abort('unexpected keyword arguments to parse_string: %s' % extra)
        return orig(self, instring, parse_all, **kw)
    pp.ParserElement.parse_string = patched
    try:
        PyDBMLParser('Table a {\n id int\n}\n', allow_properties=allow_properties).parse()
    finally:
        pp.ParserElement.parse_string = orig
    if 'elem' not in cap:
        raise Abort('PyDBMLParser.parse did not call parse_string')
    return cap['elem'], cap['parse_all']


def generate():
    import warnings
    warnings.simplefilter('ignore')
    em = Emitter()
    top_off, pa_off = capture(False)
    top_on, pa_on = capture(True)
    n_off = em.ref(top_off)
    n_on = em.ref(top_on)
    # forwards discovered while walking: define their bodies (may discover more)
    done = {}
    while len(done) < len(em.forward_defs):
        for n, ex in list(em.forward_defs.items()):
            if n not in done:
                done[n] = em.ref(ex)
    # module-level rules, by name (streamlined copies)
    import importlib
    aliases = []
    for modname in ('generic', 'common', 'column', 'table', 'index', 'enum', 'reference', 'table_group', 'project', 'sticky_note'):
        mod = importlib.import_module('pydbml.definitions.' + modname)
        for k, v in sorted(vars(mod).items()):
            if isinstance(v, pp.ParserElement) and not k.startswith('__'):
                if isinstance(v, pp.Forward):
                    continue
                c = v.copy()
                c.streamline()
                aliases.append(('g_%s__%s' % (modname, k if k != '_' else 'underscore'), em.ref(c)))
        while len(done) < len(em.forward_defs):
            for n, ex in list(em.forward_defs.items()):
                if n not in done:
                    done[n] = em.ref(ex)
    out = ['(* GENERATED by tools/translate_grammar.py from the running implementation — do not edit.',
           '   %d element objects reflected, %d structurally distinct. *)' % (len(em.by_id), len(em.defs)),
           'From PyDBML Require Import PyStr PP.', 'Import ListNotations.', '']
    for name, text, comment in em.defs:
        out.append('(* %s *)' % comment)
        out.append('Definition %s : pexpr := %s.' % (name, text))
    out.append('')
    seen = set()
    for a, n in aliases:
        if a in seen:
            continue
        seen.add(a)
        out.append('Definition %s : pexpr := %s.' % (a, n))
    out.append('')
    out.append('Definition gen_top_off : pexpr := %s.' % n_off)
    out.append('Definition gen_top_on : pexpr := %s.' % n_on)
    out.append('Definition gen_parse_all_off : bool := %s.' % b(pa_off))
    out.append('Definition gen_parse_all_on : bool := %s.' % b(pa_on))
    env = 'fun id => ' + ''.join('if N.eqb id %d%%N then Some %s else ' % (n, nm) for n, nm in sorted(done.items())) + 'None'
    out.append('Definition gen_env : N -> option pexpr := %s.' % env)
    out.append('Definition gen_element_classes : list (pystr * nat) := %s.' % clist(
        ['(%s, %d)' % (cstr(k), v) for k, v in sorted(em.classes.items())]))
    return '\n'.join(out) + '\n'


if __name__ == '__main__':
    sys.stdout.write(generate())
