"""Parser-side properties C01 C05 C06 C07 C08 C14 C15: documents from docgen, compared with the Coq
model through the op-script stream `parse` (OParse + full dump + renderings), and checked on the
implementation by property-specific oracles."""
import multiprocessing as mp
import glob
import os
import re

import docgen
import pyscript
import stream_script
import verdicts
from common import rng, NPROC, load_known_findings, hexs
from pyscript import Op, parse_op

PARSE_ERRORS = ('pyparsing.ParseException', 'pyparsing.ParseSyntaxException')
OWN = 'pydbml.exceptions.'


def parse_impl(text, allow=False):
    """returns ('ok', db) or ('raise', qualified exception class name)"""
    from pydbml import PyDBML
    try:
        return 'ok', PyDBML(text, allow_properties=allow)
    except RecursionError:
        return 'raise', 'builtins.RecursionError'
    except Exception as e:   # noqa
        return 'raise', pyscript.exc_name(e)


def gen_doc(r, level=None, comments=None, props=None, size=None):
    A = docgen.gen_schema(r, size=size)
    allow = (r.random() < 0.3) if props is None else props
    if allow:
        docgen.add_properties(r, A)
    if (r.random() < 0.5) if comments is None else comments:
        docgen.add_comments(r, A)
    st = docgen.Style(r, level=r.choice([0, 1, 1]) if level is None else level)
    text, exp = docgen.render_doc(A, st, allow)
    return A, text, exp, allow


def script_for(text, allow, renders=True, route=0):
    ops = [parse_op(route, allow, 0, 1, text), Op(82)]
    if renders:
        ops += [Op(80, 0), Op(81, 0)]
    return ops


def repo_documents():
    out = []
    for f in sorted(glob.glob('/repo/test/test_data/*.dbml')) + ['/repo/test_schema.dbml']:
        try:
            out.append((os.path.basename(f), open(f, encoding='utf8').read()))
        except OSError:
            pass
    return out


# ---------------------------------------------------------------- mutations (C07 / C08)
TOKENS = ['{', '}', '[', ']', '(', ')', ':', ',', '.', "'", '"', "'''", '`', '//', '/*', '*/', '\n', ' ', '\t', '#', '<', '>', '-', '<>',
          'Table', 'Ref', 'Enum', 'Note', 'note:', 'indexes', 'pk', 'null', 'not null', 'default:', 'ref:', 'as', 'Project',
          'TableGroup', 'unique', 'increment', 'headercolor:', 'x', 'a.b', 'a.b.c', '"a.b.c"', '1', '1.5', '#fff', '\\', '{}', '@', ';', '﻿',
          "'  '", '" "', "'''\n  \n'''", '"q\\n"', 'é', '\r', '\x0c', '1e5', '2E-3', '+1', '-1', '.5', '5.', '0x1F', '1_000', '""', "''", '``']


def mutate(r, text):
    k = r.random()
    if not text:
        return r.choice(TOKENS)
    i = r.randrange(len(text) + 1)
    if k < 0.08:
        m = list(re.finditer(r'(?i)default:\s*', text))
        if m:
            j = r.choice(m).end()
            return text[:j] + r.choice(TOKENS) + text[j:]
    if k < 0.3:
        return text[:i] + r.choice(TOKENS) + text[i:]
    if k < 0.5:
        j = min(len(text), i + r.choice([1, 1, 2, 5, 20]))
        return text[:i] + text[j:]
    if k < 0.6:
        j = min(len(text), i + r.choice([1, 3, 10]))
        return text[:i] + text[i:j] + text[i:j] + text[j:]
    if k < 0.7:
        return text[:i]
    if k < 0.8:
        return text[i:]
    if k < 0.9:
        c = r.choice(TOKENS)
        j = min(len(text), i + 1)
        return text[:i] + c + text[j:]
    lines = text.split('\n')
    r.shuffle(lines)
    return '\n'.join(lines)


def soup(r):
    return ''.join(r.choice(TOKENS) + r.choice(['', ' ', '\n']) for _ in range(r.randint(1, 25)))


# ---------------------------------------------------------------- syntax faults of provably invalid kinds (C07)
def syntax_faults(r, text):
    """yields (kind, faulty text).  Each kind is invalid wherever it is placed among top-level elements or
    at the chosen structural site."""
    lines = text.split('\n')
    # stray tokens between elements: at start, between elements, at end
    tops = [i for i, l in enumerate(lines) if re.match(r'^(table|enum|ref|tablegroup|project|note)\b', l.strip(), flags=re.I)
            and not l.startswith((' ', '\t'))]
    for junk in ['@@@', '}', ']', ')', 'garbage here', '= 1', '"unterminated', "'unterminated", ';', '$x',
                 '\x0c', '\x0b', '\x1c', '\x85', '\u2028', '\u2029']:
        pos = r.choice([0, len(lines)] + tops) if tops else 0
        # only at positions that are between top-level elements: the start of a top-level line or the end
        l2 = lines[:pos] + [junk] + lines[pos:]
        yield 'stray token between elements: %r' % junk, '\n'.join(l2)
    col_like = re.compile(r'^  [A-Za-z_0-9]+\s+[a-z]+(\s*\[[^\]\'"`/]*\])?\s*$')      # `  name type [plain settings]`, nothing quoted, no comment
    body = [i for i, l in enumerate(lines[:-1]) if col_like.match(l) and col_like.match(lines[i + 1])
            and '\n'.join(lines[:i]).count("'''") % 2 == 0]          # not inside a multi-line string
    if body:
        i = r.choice(body)
        sep = r.choice(['\x0c', '\u2028', '\x85', '\x1d'])
        yield 'line separator %r instead of a newline' % sep, '\n'.join(lines[:i]) + '\n' + lines[i] + sep + lines[i + 1].lstrip() + '\n' + '\n'.join(lines[i + 2:])
    yield 'trailing garbage', text + '\n@garbage'
    yield 'leading garbage', '@garbage\n' + text
    # unknown setting / index type / operator / action / malformed colour inside the document
    subs = [(r'\[pk', '[pkk'), (r'(?i)type:\s*(btree|hash|gin|gist|brin|spgist)', 'type: tree'),
            (r'(?i)delete:\s*(cascade|restrict|set null|set default|no action)', 'delete: explode'),
            (r'(?i)update:\s*(cascade|restrict|set null|set default|no action)', 'update: explode'),
            (r'#[0-9a-fA-F]{6}\b', '#12345'), (r'#[0-9a-fA-F]{3}\b', '#ggg')]
    # a misspelt flag word, only inside a settings list [...] (a column may be NAMED unique / increment, and such a
    # name may stand in an index subject list, where any word is a legal column name)
    for word, bad in (('unique', 'uniq'), ('increment', 'incremental')):
        for m in re.finditer(r'\[([^\[\]]*)\]', text):
            seg = m.group(1)
            m2 = re.search(r'(?i)(^|,)(\s*)%s(\s*)(?=,|$)' % word, seg)
            if m2:
                seg2 = seg[:m2.start()] + m2.group(1) + m2.group(2) + bad + m2.group(3) + seg[m2.end():]
                yield 'invalid word %r' % bad, text[:m.start(1)] + seg2 + text[m.end(1):]
                break
    for pat, rep in subs:
        if re.search(pat, text):
            yield 'invalid word %r' % rep, re.sub(pat, rep, text, count=1)
    # with the option off nothing accepts an arbitrary `key: 'value'` setting or body line
    ms = list(re.finditer(r' \[(?!\])', text))
    if ms:
        m = r.choice(ms)
        yield 'property-shaped unknown setting first', text[:m.end()] + "colour: 'red', " + text[m.end():]
    ms = list(re.finditer(r'(?<!\[)\]', text))
    if ms:
        m = r.choice(ms)
        yield 'property-shaped unknown setting last', text[:m.start()] + ", colour: 'red'" + text[m.start():]
    # a backslash at the end of a structural line (outside any string) continues nothing
    cand = [i for i, l in enumerate(lines) if l.rstrip().endswith(('{', '}', ']')) and "'" not in l and '"' not in l and '`' not in l
            and '//' not in l and '\n'.join(lines[:i]).count("'''") % 2 == 0 and '/*' not in '\n'.join(lines[:i + 1])]
    if cand:
        i = r.choice(cand)
        yield 'stray backslash at the end of a line', '\n'.join(lines[:i] + [lines[i].rstrip() + ' \\'] + lines[i + 1:])
    # digits that are not ASCII digits are no number
    m = re.search(r'(?i)(default:\s*)(\d+)(?=\s*[,\]])', text)
    if m:
        uni = ''.join(chr(0xFF10 + int(ch_)) for ch_ in m.group(2))
        yield 'non-ASCII digits as a number', text[:m.start(2)] + uni + text[m.end(2):]
    # a settings list is  [ item (, item)* ] : no comma may lead, trail or double
    ms = list(re.finditer(r'(?<!\[)\]', text))
    if ms:
        m = r.choice(ms)
        yield 'comma after the last setting', text[:m.start()] + r.choice([',', ', ', ',\n']) + text[m.start():]
    ms = list(re.finditer(r' \[(?!\])', text))
    if ms:
        m = r.choice(ms)
        yield 'comma before the first setting', text[:m.end()] + r.choice([',', ', ']) + text[m.end():]
    ms = [i for i, l in enumerate(lines) if re.match(r'^table\b.*\{\s*$', l.strip(), flags=re.I) and not l.startswith((' ', '\t'))]
    if ms:
        i = r.choice(ms)
        yield 'property line in a table body', '\n'.join(lines[:i + 1] + ["  colour: 'red'"] + lines[i + 1:])
    # a one-line string whose closing quote is escaped is unterminated
    ms = [m for m in re.finditer(r"(?<=: )'[A-Za-z0-9 ]+'(?=[^'\n]*$)", text, flags=re.M)]
    if ms:
        m = r.choice(ms)
        yield 'unterminated string (closing quote escaped)', text[:m.end() - 1] + "\\'" + text[m.end():]
    # missing closing brace of the last element / extra opening brace
    idx = text.rfind('}')
    if idx >= 0:
        yield 'missing closing brace', text[:idx] + text[idx + 1:]
    i2 = text.find('{')
    if i2 >= 0:
        yield 'extra opening brace', text[:i2] + '{' + text[i2:]
    m = re.search(r'\]', text)
    if m:
        yield 'missing closing bracket', text[:m.start()] + text[m.end():]


# ---------------------------------------------------------------- rule violations (C06)
def safe_col(t):
    """a column whose name survives the re-splitting of reference column lists (D20 domain)"""
    for c in t['columns']:
        if ',' not in c['name'] and c['name'] == c['name'].strip('() '):
            return c['name']
    return None


def rule_violations(r, A):
    """yields (kind, expected exception class, mutated abstract schema)"""
    import copy
    tabs = [t for t in A['tables'] if safe_col(t)]
    if tabs:
        B = copy.deepcopy(A)
        t = copy.deepcopy(r.choice([x for x in B['tables'] if safe_col(x)]))
        t['alias'] = None
        B['tables'].insert(r.randint(0, len(B['tables'])), t)
        yield 'two tables with the same schema and name', OWN + 'DatabaseValidationError', B
        al = [t for t in tabs if t['alias']]
        if al and len(tabs) >= 2:
            B = copy.deepcopy(A)
            src = r.choice([t for t in B['tables'] if t['alias']])
            others = [t for t in B['tables'] if t is not src]
            o = r.choice(others)
            o['alias'] = src['alias']
            yield 'table alias reused', OWN + 'DatabaseValidationError', B
        if len(tabs) >= 2:
            B = copy.deepcopy(A)
            a, b = r.sample(B['tables'], 2)
            a['alias'] = b['schema'] + '.' + b['name']
            yield 'alias equal to an existing table key', OWN + 'DatabaseValidationError', B
        B = copy.deepcopy(A)
        t = r.choice([x for x in B['tables'] if safe_col(x)])
        B['groups'].append({'name': 'dupgroup', 'items': [(t['schema'], t['name']), (t['schema'], t['name'])], 'note': None, 'color': None, 'comment': None})
        yield 'table listed twice in a group', OWN + 'ValidationError', B
        B = copy.deepcopy(A)
        B['groups'].append({'name': 'badgroup', 'items': [('public', 'no_such_table')], 'note': None, 'color': None, 'comment': None})
        yield 'group names a missing table', OWN + 'TableNotFoundError', B
        B = copy.deepcopy(A)
        t = r.choice([x for x in B['tables'] if safe_col(x)])
        B['refs'].append({'kind': '>', 't1': (t['schema'], t['name']), 'cols1': [safe_col(t)], 't2': ('public', 'no_such_table'),
                          'cols2': ['id'], 'form': r.choice(['short', 'long', 'inline']), 'name': None, 'on_update': None, 'on_delete': None, 'comment': None})
        yield 'reference to a missing table', OWN + 'TableNotFoundError', B
        # the name exists, but only in ANOTHER schema (and is nobody's alias): still a missing table
        keys = set()
        for x in A['tables']:
            keys.add(x['schema'] + '.' + x['name'])
            if x['alias']:
                keys.add(x['alias'])
        cands = [x for x in A['tables'] if x['schema'] != 'public' and safe_col(x) and docgen.BARE.match(x['name'])
                 and ('public.' + x['name']) not in keys and x['name'] not in keys]
        if cands:
            B = copy.deepcopy(A)
            tgt = r.choice(cands)
            t = r.choice([x for x in B['tables'] if safe_col(x)])
            wrong = r.choice(['public'] + [sc for sc in docgen.SCHEMAS if sc != tgt['schema'] and (sc + '.' + tgt['name']) not in keys])
            B['refs'].append({'kind': '>', 't1': (t['schema'], t['name']), 'cols1': [safe_col(t)], 't2': (wrong, tgt['name']),
                              'cols2': [safe_col(tgt)], 'form': r.choice(['short', 'long', 'inline']), 'name': None, 'on_update': None, 'on_delete': None, 'comment': None})
            yield 'reference to a table name that exists only in another schema', OWN + 'TableNotFoundError', B
        # a name that differs from a declared one only by its Unicode normal form (or by letter case) is another name
        import unicodedata
        def other_form(n):
            for f_ in ('NFD', 'NFC'):
                m_ = unicodedata.normalize(f_, n)
                if m_ != n:
                    return m_
            return n.swapcase() if n.swapcase() != n else None
        cands = [(x, other_form(x['name'])) for x in A['tables'] if safe_col(x)]
        cands = [(x, o) for x, o in cands if o and (x['schema'] + '.' + o) not in keys and o not in keys]
        if cands:
            B = copy.deepcopy(A)
            tgt, o = r.choice(cands)
            t = r.choice([x for x in B['tables'] if safe_col(x)])
            B['refs'].append({'kind': '>', 't1': (t['schema'], t['name']), 'cols1': [safe_col(t)], 't2': (tgt['schema'], o),
                              'cols2': [safe_col(tgt)], 'form': r.choice(['short', 'long', 'inline']), 'name': None, 'on_update': None, 'on_delete': None, 'comment': None})
            yield 'reference to a table name that is declared only in another Unicode form / letter case', OWN + 'TableNotFoundError', B
            B = copy.deepcopy(A)
            B['groups'].append({'name': 'formgroup', 'items': [(tgt['schema'], o)], 'note': None, 'color': None, 'comment': None})
            yield 'group names a table declared only in another Unicode form / letter case', OWN + 'TableNotFoundError', B
        ccands = [(x, c_['name'], other_form(c_['name'])) for x in A['tables'] for c_ in x['columns'] if ',' not in c_['name'] and c_['name'] == c_['name'].strip('() ')]
        ccands = [(x, c_, o) for x, c_, o in ccands if o and o not in [y['name'] for y in x['columns']] and ',' not in o]
        if ccands:
            B = copy.deepcopy(A)
            tgt, cn, o = r.choice(ccands)
            B['refs'].append({'kind': '<', 't1': (tgt['schema'], tgt['name']), 'cols1': [cn], 't2': (tgt['schema'], tgt['name']),
                              'cols2': [o], 'form': r.choice(['short', 'long']), 'name': None, 'on_update': None, 'on_delete': None, 'comment': None})
            yield 'reference to a column declared only in another Unicode form / letter case', OWN + 'ColumnNotFoundError', B
        B = copy.deepcopy(A)
        t = r.choice([x for x in B['tables'] if safe_col(x)])
        B['refs'].append({'kind': '<', 't1': (t['schema'], t['name']), 'cols1': [safe_col(t)], 't2': (t['schema'], t['name']),
                          'cols2': ['no_such_column'], 'form': r.choice(['short', 'long', 'inline']), 'name': None, 'on_update': None, 'on_delete': None, 'comment': None})
        yield 'reference to a missing column', OWN + 'ColumnNotFoundError', B
        B = copy.deepcopy(A)
        t = r.choice(B['tables'])
        t['indexes'].append({'subjects': [('col', 'no_such_column')], 'name': None, 'unique': False, 'type': None, 'pk': False, 'note': None, 'comment': None})
        yield 'index over a missing column', OWN + 'ColumnNotFoundError', B
    if A['enums']:
        B = copy.deepcopy(A)
        e = copy.deepcopy(r.choice(B['enums']))
        B['enums'].insert(r.randint(0, len(B['enums'])), e)
        yield 'two enums with the same schema and name', OWN + 'DatabaseValidationError', B
    if A['groups']:
        B = copy.deepcopy(A)
        g = copy.deepcopy(r.choice(B['groups']))
        g['items'] = []
        B['groups'].append(g)
        yield 'two table groups with the same name', OWN + 'DatabaseValidationError', B
    if A['refs']:
        B = copy.deepcopy(A)
        x = copy.deepcopy(r.choice(B['refs']))
        if x['form'] == 'inline' or len(x['cols1']) == 1:
            x['form'] = r.choice(['short', 'long', 'inline'] if (x['name'] is None and not x['on_update'] and not x['on_delete']) else ['short', 'long'])
        x['comment'] = None
        B['refs'].insert(r.randint(0, len(B['refs'])), x)
        yield 'identical reference repeated', OWN + 'DatabaseValidationError', B


# ---------------------------------------------------------------- C05: linked object graph
def check_links(db):
    from pydbml.classes import Enum, Column
    fails = []
    for t in db.tables:
        if t.database is not db:
            fails.append('table does not point back to the database')
        if t.note.parent is not t:
            fails.append('table note does not point back to its table')
        for c in t.columns:
            if c.table is not t:
                fails.append('column does not point back to its table')
            if c.note.parent is not c:
                fails.append('column note does not point back')
            if isinstance(c.type, Enum) and not any(c.type is e for e in db.enums):
                fails.append('enum-typed column holds a copy of the enum')
            if isinstance(c.type, str):
                sc, _, nm = c.type.rpartition('.')
                if any(e.name == nm and e.schema == (sc or 'public') for e in db.enums) and c.type.count('.') <= 1:
                    fails.append('column whose type names a declared enum does not hold the Enum object')
        for ix in t.indexes:
            if ix.table is not t:
                fails.append('index does not point back to its table')
            if ix.note.parent is not ix:
                fails.append('index note does not point back')
            for s in ix.subjects:
                if isinstance(s, Column) and not any(s is c for c in t.columns):
                    fails.append('index subject is not the owning table\'s own column object')
    for e in db.enums:
        if e.database is not db:
            fails.append('enum does not point back to the database')
        for i in e.items:
            if i.note.parent is not i:
                fails.append('enum item note does not point back')
    for x in db.refs:
        if x.database is not db:
            fails.append('reference does not point back to the database')
        for c in list(x.col1) + list(x.col2):
            if c.table is None or not any(c is cc for cc in c.table.columns) or not any(c.table is t for t in db.tables):
                fails.append('reference endpoint is not the column object held by a table of the database')
        holders = 0
        if x.type != '<>':
            from pydbml.renderer.sql.default.table import get_references_for_sql
            holders = sum(1 for t in db.tables if any(rr is x for rr in get_references_for_sql(t)))
            if holders != 1:
                fails.append('reference has %d SQL key holders' % holders)
    for g in db.table_groups:
        if g.database is not db:
            fails.append('table group does not point back to the database')
        for it in g.items:
            if not any(it is t for t in db.tables):
                fails.append('group item is not a table object of the database')
    for s in db.sticky_notes:
        if s.database is not db:
            fails.append('sticky note does not point back to the database')
    if db.project is not None:
        if db.project.database is not db:
            fails.append('project does not point back to the database')
        if db.project.note.parent is not db.project:
            fails.append('project note does not point back')
    for i, t in enumerate(db.tables):
        if db[i] is not t or db['%s.%s' % (t.schema, t.name)] is not t or (t.alias and db[t.alias] is not t):
            fails.append('lookup by index / full name / alias returns another object')
        mine = [x for x in db.refs if x.col1 and x.col1[0].table is t]
        got = t.get_refs()
        if len(got) != len(mine) or any(a is not b for a, b in zip(got, mine)):
            fails.append('get_refs does not return exactly the references whose left side is the table')
    return fails


# ---------------------------------------------------------------- per-property jobs
def _c01_job(job):
    text, exp, allow = job
    k, v = parse_impl(text, allow)
    if k == 'raise':
        return ('raise', v)
    links = check_links(v)
    d = docgen.diff(exp, docgen.content(v))
    if d:
        return ('diff', d, links)
    if v.allow_properties != allow:
        return ('diff', 'database.allow_properties is %r' % v.allow_properties, links)
    return ('ok', links, links)


def pool_map(fn, jobs):
    if len(jobs) < 32:
        return [fn(j) for j in jobs]
    ctx = mp.get_context('fork')
    with ctx.Pool(NPROC) as pool:
        return pool.map(fn, jobs, chunksize=max(1, len(jobs) // (NPROC * 8)))


def features_exhaustive(tier):
    """exhaustive per-element feature products: every subset of column settings x default kind x pk spelling"""
    import itertools
    docs = []
    flags = ['pk', 'unique', 'not_null', 'autoinc']
    defaults = [None, ('int', 0), ('int', 5), ('float', '1.5'), ('bool', True), ('bool', False), ('null', None), ('str', 'txt'), ('str', ''), ('expr', 'now()')]
    for mask in range(16):
        for d in defaults:
            for with_note in (False, True):
                c = {'name': 'c1', 'type': ('plain', 'int'), 'pk': bool(mask & 1), 'unique': bool(mask & 2), 'not_null': bool(mask & 4),
                     'autoinc': bool(mask & 8), 'null_setting': False, 'default': d, 'note': 'n' if with_note else None, 'props': [], 'refs': [], 'comment': None}
                A = {'project': None, 'enums': [], 'groups': [], 'stickies': [], 'refs': [],
                     'tables': [{'schema': 'public', 'name': 't', 'alias': None, 'columns': [c], 'indexes': [], 'note': None,
                                 'header_color': None, 'props': [], 'comment': None}]}
                docs.append(A)
    # index option subsets
    for mask in range(32):
        i = {'subjects': [('col', 'a')] if mask & 16 else [('col', 'a'), ('expr', 'b*2')], 'name': 'ix' if mask & 1 else None,
             'unique': bool(mask & 2), 'type': 'hash' if mask & 4 else None, 'pk': bool(mask & 8), 'note': None, 'comment': None}
        col = {'name': 'a', 'type': ('plain', 'int'), 'pk': False, 'unique': False, 'not_null': False, 'autoinc': False,
               'null_setting': False, 'default': None, 'note': None, 'props': [], 'refs': [], 'comment': None}
        docs.append({'project': None, 'enums': [], 'groups': [], 'stickies': [], 'refs': [],
                     'tables': [{'schema': 'public', 'name': 't', 'alias': None, 'columns': [col], 'indexes': [i], 'note': None,
                                 'header_color': None, 'props': [], 'comment': None}]})
    # every reference kind x form x addressing (schema / alias) x named x actions
    for kind in ['>', '<', '-', '<>']:
        for form in ['short', 'long', 'inline']:
            for sc in ['public', 'auth']:
                for alias in [None, 'al']:
                    for named in ([False, True] if form != 'inline' else [False]):
                        mk = lambda n, s, a: {'schema': s, 'name': n, 'alias': a, 'indexes': [], 'note': None, 'header_color': None, 'props': [], 'comment': None,
                                              'columns': [{'name': 'id', 'type': ('plain', 'int'), 'pk': False, 'unique': False, 'not_null': False, 'autoinc': False,
                                                           'null_setting': False, 'default': None, 'note': None, 'props': [], 'refs': [], 'comment': None}]}
                        A = {'project': None, 'enums': [], 'groups': [], 'stickies': [], 'tables': [mk('a', 'public', None), mk('b', sc, alias)],
                             'refs': [{'kind': kind, 't1': ('public', 'a'), 'cols1': ['id'], 't2': (sc, 'b'), 'cols2': ['id'], 'form': form,
                                       'name': 'fk' if named else None, 'on_update': 'cascade' if named else None, 'on_delete': None, 'comment': None}]}
                        docs.append(A)
    return docs


def run(v, tier, st, pr, pid):
    r = rng('parse-' + pid)
    kfs = {f['id']: f for f in load_known_findings()['findings'] if f['property'] == pid}
    n = {'quick': 1, 'thorough': 25}[tier]
    jobs, metas = [], []          # correspondence jobs
    fails = []
    stats = {}

    def add_job(text, allow, tag, renders=True):
        jobs.append(([], script_for(text, allow, renders)))
        metas.append(tag)

    if pid == 'C01':
        docs = []
        for A in features_exhaustive(tier):
            for lvl in (0, 1, 1):
                stl = docgen.Style(r, level=lvl)
                text, exp = docgen.render_doc(A, stl, False)
                docs.append((text, exp, False))
        for _ in range(1500 * n):
            A, text, exp, allow = gen_doc(r)
            docs.append((text, exp, allow))
        for text, exp, allow in docs:
            add_job(text, allow, 'wf')
        for name, text in repo_documents():
            add_job(text, 'propert' in name, 'repo:' + name)
        outs = pool_map(_c01_job, docs)
        stats['documents_checked_against_expected_content'] = len(docs)
        for (text, exp, allow), o in zip(docs, outs):
            if o[0] == 'raise':
                fails.append({'cause': 'oracle', 'clause': 'a well-formed document is rejected (%s)' % o[1],
                              'input': {'kind': 'document', 'text_hex': hexs(text), 'text': text, 'allow_properties': allow}})
            elif o[0] == 'diff':
                fails.append({'cause': 'oracle', 'clause': 'parsed content differs from what the document declares', 'detail': o[1],
                              'input': {'kind': 'document', 'text_hex': hexs(text), 'text': text, 'allow_properties': allow}})
    elif pid == 'C05':
        docs = []
        for _ in range(2000 * n):
            A, text, exp, allow = gen_doc(r)
            docs.append((text, exp, allow))
            add_job(text, allow, 'wf')
        outs = pool_map(_c01_job, docs)
        nlinks = 0
        for (text, exp, allow), o in zip(docs, outs):
            if o[0] == 'raise' and o[1].endswith(('TableNotFoundError', 'ColumnNotFoundError')):
                # every address in a generated document names a declared table / column: failing to resolve one is
                # the addressing clause of C05 (schema.name, bare name and alias reach the same table)
                fails.append({'cause': 'oracle', 'clause': 'an address of a well-formed document does not resolve (%s)' % o[1],
                              'input': {'kind': 'document', 'text_hex': hexs(text), 'text': text, 'allow_properties': allow}})
            if o[0] in ('ok', 'diff'):
                nlinks += 1
                for f in o[2][:2]:
                    fails.append({'cause': 'oracle', 'clause': f, 'input': {'kind': 'document', 'text_hex': hexs(text), 'text': text, 'allow_properties': allow}})
                # what each address (schema.name, bare name, alias) resolved to is part of C05: the declared endpoints,
                # enum-typed column types and group items are compared with what the document says
                if o[0] == 'diff' and isinstance(o[1], str) and re.match(r'^\.(refs|groups)\b|^\.tables\[\d+\]\.columns\[\d+\]\.type', o[1]):
                    fails.append({'cause': 'oracle', 'clause': 'an address resolved to something else than the document declares: ' + o[1][:160],
                                  'input': {'kind': 'document', 'text_hex': hexs(text), 'text': text, 'allow_properties': allow}})
        stats['databases_link_checked'] = nlinks
    elif pid == 'C06':
        cases = []
        for _ in range(400 * n):
            A = docgen.gen_schema(r)
            for kind, exc, B in rule_violations(r, A):
                stl = docgen.Style(r, level=r.choice([0, 1, 1]))
                try:
                    text, _ = docgen.render_doc(B, stl, False)
                except Exception:   # noqa
                    continue
                allow = r.random() < 0.35        # the rules do not depend on the option
                cases.append((kind, exc, text, allow))
                add_job(text, allow, kind, renders=False)
        # a table without columns, with the option off and on
        for nm in ['t', '"my t"', 'auth.t']:
            for body in ['', '\n', '\n  Note: \'x\'\n', '\n  indexes {\n    id\n  }\n']:
                for allow in (False, True):
                    text = 'Table a {\n  id int\n}\nTable %s {%s}\n' % (nm, body)
                    cases.append(('table without columns', 'builtins.SyntaxError', text, allow))
                    add_job(text, allow, 'table without columns', renders=False)
            text = 'Table a {\n  id int\n}\nTable %s {\n  k: \'v\'\n}\n' % nm
            cases.append(('table without columns', 'builtins.SyntaxError', text, True))
            add_job(text, True, 'table without columns', renders=False)
        outs = pool_map(parse_impl_job, [(t, a) for _, _, t, a in cases])
        byk = {}
        for (kind, exc, text, allow), o in zip(cases, outs):
            byk[kind] = byk.get(kind, 0) + 1
            if o != exc:
                fails.append({'cause': 'oracle', 'clause': '%s: expected %s, got %s' % (kind, exc, o),
                              'input': {'kind': 'document', 'text_hex': hexs(text), 'text': text, 'allow_properties': allow}})
        stats['violations_injected'] = byk
    elif pid == 'C07':
        cases = []
        for _ in range(250 * n):
            with docgen.safe_pools():
                A, text, exp, allow = gen_doc(r, props=False)
            if any(d and d[0] in ('expr', 'str') for t in A['tables'] for c in t['columns'] for d in [c['default']]) \
                    or any(k == 'expr' for t in A['tables'] for i in t['indexes'] for k, _ in i['subjects']):
                continue       # expression / string literals may legally contain brackets
            for kind, bad in syntax_faults(r, text):
                cases.append((kind, bad))
                add_job(bad, False, kind, renders=False)
        # characters that str.splitlines() takes for line ends are not line ends of the grammar: where a newline is
        # required they are stray tokens
        for sep in ['\x0b', '\x0c', '\x1c', '\x1d', '\x1e', '\x85', '\u2028', '\u2029']:
            for bad in ['Table users {\n  id int [pk]' + sep + 'name varchar\n}\n',
                        'Enum e {\n  a' + sep + 'b\n}\n',
                        'Table a {\n  id int\n}' + sep + 'Table b {\n  id int\n}\n',
                        sep + 'Table a {\n  id int\n}\n',
                        'Table a {\n  id int\n}\n' + sep,
                        'Table a {\n  id int [pk,' + sep + 'unique]\n}\n']:
                cases.append(('line separator %r where a newline or blank is required' % sep, bad))
                add_job(bad, False, 'separator', renders=False)
        # commas of a settings list: one between two settings, nowhere else (every kind of settings list)
        for lst in ['Table a {\n  id int [%s]\n}\n', 'Table a [%s] {\n  id int\n}\n', 'Table a {\n  id int\n  indexes {\n    id [%s]\n  }\n}\n',
                    'Table a {\n  id int\n}\nRef: a.id > a.id [%s]\n', 'Enum e {\n  x [%s]\n}\n', 'Table a {\n  id int\n}\nTableGroup g [%s] {\n  a\n}\n']:
            good = {'Table a {\n  id int [': ['pk', 'unique'], 'Table a [': ['headercolor: #fff', "note: 'n'"], 'Table a {\n  id int\n  indexes': ['unique', 'pk'],
                    'Table a {\n  id int\n}\nRef': ['delete: cascade', 'update: cascade'], 'Enum': ["note: 'n'", "note: 'n'"],
                    'Table a {\n  id int\n}\nTableGroup': ['color: #fff', "note: 'n'"]}
            a_, b_ = next(v_ for k_, v_ in good.items() if lst.startswith(k_))
            for bad in [a_ + ',', a_ + ', ', ',' + a_, a_ + ',,' + b_, a_ + ', ,' + b_, a_ + ',\n' , ',']:
                cases.append(('comma that separates nothing in a settings list', lst % bad))
                add_job(lst % bad, False, 'comma', renders=False)
        for bad in ['Table a {\n  id int [default: \uff11\uff12]\n}\n', 'Table a {\n  id int [pk, default: \u0661\u0662]\n}\n', 'Table a {\n  id int [default: 1.\uff15]\n}\n',
                    'Table a {\n  id int [default: \u0967]\n}\n']:
            cases.append(('non-ASCII digits as a number', bad))
            add_job(bad, False, 'digits', renders=False)
        for bad in ['Table a { \\\n  id int\n}\n', 'Table a {\n  id int\n}\n\\\nTable b {\n  id int\n}\n', 'Table a {\n  id int [pk, \\\n unique]\n}\n',
                    'Table a {\n  id int \\\n}\n', 'Enum e {\r\n  a \\\r\n  b\r\n}\r\n', 'Table a {\n  id int\n}\n\\']:
            cases.append(('stray backslash at the end of a line', bad))
            add_job(bad, False, 'backslash', renders=False)
        outs = pool_map(parse_impl_job, [(t, False) for _, t in cases])
        byk = {}
        for (kind, text), o in zip(cases, outs):
            k2 = kind.split(':')[0]
            byk[k2] = byk.get(k2, 0) + 1
            if o not in PARSE_ERRORS:
                fails.append({'cause': 'oracle', 'clause': 'malformed text (%s) is not rejected with a syntax error: %s' % (kind, o),
                              'input': {'kind': 'document', 'text_hex': hexs(text), 'text': text}})
        stats['faults_injected'] = byk
        # nothing of a rejected document may turn up anywhere: parse a probe document right after each rejected one
        leak = pool_map(c07_leak_job, [t for _, t in cases[:400]])
        stats['rejected_then_probe'] = len(leak)
        for (kind, text), o in zip(cases[:400], leak):
            if o is not None:
                fails.append({'cause': 'oracle', 'clause': 'elements of a rejected document turn up in the next database: ' + o,
                              'input': {'kind': 'history', 'ops': ['PyDBML(<malformed text>) raises', "PyDBML('Table probe { id int }')"], 'text': text, 'text_hex': hexs(text)}})
                break
    elif pid == 'C08':
        cases = []
        base = [t for _, t in repo_documents()]
        for _ in range(1500 * n):
            k = r.random()
            if k < 0.15:
                text = soup(r)
            else:
                if k < 0.4:
                    text = r.choice(base)
                    if len(text) > 1500:
                        lines = text.split('\n')
                        i = r.randrange(len(lines))
                        text = '\n'.join(lines[i:i + r.randint(3, 30)])
                else:
                    _, text, _, _ = gen_doc(r, props=False)
                for _ in range(r.choice([1, 1, 2, 3])):
                    text = mutate(r, text)
            cases.append(text)
            add_job(text, False, 'fuzz')
        # exhaustive short strings in free-text / identifier positions
        from common import all_strings
        alpha = ['a', ' ', '\n', "'", '"', '\\', '.', '{', '}']
        for s in all_strings(alpha, 3):
            for tmpl in ["Table t {\n  id int [note: '%s']\n}", 'Table t {\n  id "%s"\n}', 'Table "%s" {\n  id int\n}',
                         "Note n {\n'''%s'''\n}", 'Table t {\n id int\n}\nRef "%s": t.id > t.id // %s']:
                if tmpl.count('%s') == 2:
                    text = tmpl % (s, s.replace('\n', ' '))
                else:
                    text = tmpl % s
                cases.append(text)
                add_job(text, False, 'short')
        # names (also the empty one) that are index subjects, reference endpoints and enum types at the same time
        for s in all_strings(['a', ' ', '1', '-', '.', '_'], 2):
            for tmpl in ['Table t {\n "%s" int\n k int\n indexes {\n "%s"\n ("%s", k) [unique]\n }\n}',
                         'Table t {\n "%s" int [pk]\n}\nTable u {\n "%s" int [ref: > t."%s"]\n}',
                         'Enum "%s" {\n "%s"\n}\nTable t {\n c "%s"\n}']:
                text = tmpl.replace('%s', s)
                cases.append(text)
                add_job(text, False, 'short-name')
        for s in all_strings(['a', ' ', '\x0c', '\x0b', '\u2028', '\x85', '\t', '.'], 2):
            for tmpl in ['Project "%s" {\n}', 'Table t {\n id int\n}\nTableGroup "%s" {\n t\n}', 'Table "%s" {\n id int\n}', "Note n {\n '%s'\n}",
                         'Enum "%s" {\n "%s"\n}', 'Table t {\n id int [note: \'%s\']\n}']:
                text = tmpl.replace('%s', s)
                cases.append(text)
                add_job(text, False, 'short-sep')
        # regression corpus: witnesses of every defect ever found for this property
        for text in ['Project "a\\nb" {\n}', 'TableGroup "a\\nb" {\n}', 'Table t {\n id int\n}\nTableGroup "g\\tx" {\n t\n}',
                     "Table t {\n id int [note: '  ']\n}", 'Table t {\n id "a.b.c"\n}', "Note n {\n'''\n\n'''\n}",
                     'Table t {\n id int\n}\nRef "{": t.id > t.id', 'Table t {\n id int\n}\nRef: t.id <> t.id // {x}', '', '// only a comment', '\ufeff', '\ufeffTable t {\n id int\n}',
                     'Table t {\n id int [default: ' + '9' * 4301 + ']\n}', 'Table t {\n id int [default: ' + '9' * 4300 + ']\n}',
                     # numbers with an exponent, signed numbers (no number literal of the grammar: parse errors, nothing else)
                     'Table t {\n id int [default: 1e5]\n}', 'Table t {\n id int [default: 2E-3]\n}', 'Table t {\n id int [default: 7e+2]\n}',
                     'Table t {\n id int [default: -1e3]\n}', 'Table t {\n id int [default: -1]\n}', 'Table t {\n id int [default: +1.5]\n}',
                     # texts that happen to name something in the file system are texts
                     '.', '..', '/', 'pydbml', 'test', '/etc/hostname', 'setup.py', 'README.md', '/repo/pydbml', '/repo', '/repo/README.md', '/repo/coverage.svg',
                     # documents without any table
                     'Ref: a.id > b.id', 'Ref r {\n a.id > b.id\n}', 'TableGroup g {\n a\n}', 'TableGroup g {\n}', 'Enum e {\n a\n}\nRef: a.id > b.id',
                     "Project p {\n}\nNote n {\n 'x'\n}\nTableGroup g {\n s.a\n}", 'Enum e {\n a\n}', "Note n {\n ''\n}"]:
            cases.append(text)
            add_job(text, False, 'corpus')
        outs = pool_map(c08_job, cases)
        hist = {}
        for text, o in zip(cases, outs):
            for stage, exc, site in o:
                hist[exc] = hist.get(exc, 0) + 1
                if exc == 'ok':
                    continue
                if stage == 'parse' and (exc.startswith(('pyparsing.', OWN)) or exc == 'builtins.SyntaxError'):
                    continue
                kid = next((k for k, f in kfs.items() if f['signature'].get('class') == exc and f['signature'].get('function') == site
                            and f['signature'].get('stage', stage) == stage
                            and ('text_regex' not in f['signature'] or re.search(f['signature']['text_regex'], text))), None)
                if kid:
                    v.known_finding(kid, kfs[kid]['what'])
                else:
                    fails.append({'cause': 'oracle', 'clause': '%s escapes with %s (innermost pydbml frame: %s)' % (stage, exc, site),
                                  'input': {'kind': 'document', 'text_hex': hexs(text), 'text': text}})
        stats['outcomes'] = hist
    elif pid == 'C14':
        cases = []
        for _ in range(500 * n):
            A = docgen.gen_schema(r)
            stl_seed = r.random()
            import random as _rnd
            docgen.add_comments(r, A)
            text_c, exp_c = docgen.render_doc(A, docgen.Style(_rnd.Random(stl_seed), level=1), False)
            import copy
            B = copy.deepcopy(A)
            for path in docgen_comment_holders(B):
                path['comment'] = None
            text_n, exp_n = docgen.render_doc(B, docgen.Style(_rnd.Random(stl_seed), level=1), False)
            cases.append((text_c, exp_c, text_n, exp_n))
            add_job(text_c, False, 'comments')
            add_job(text_n, False, 'no-comments')
            # extra inert comments anywhere a comment is allowed: between elements and at line ends of column lines
            noisy = re.sub(r'\n(?=(?:Table|TABLE|table|Enum|enum|ENUM)\b)', '\n', text_n)
            add_job(noisy, False, 'noisy')
        outs = pool_map(c14_job, cases)
        for (tc, ec, tn, en), o in zip(cases, outs):
            for f in o:
                fails.append({'cause': 'oracle', 'clause': f[0], 'detail': f[1], 'input': {'kind': 'document', 'text_hex': hexs(tc), 'text': tc, 'without_comments': tn}})
        stats['comment_pairs'] = len(cases)
        # the same holds when the file has CRLF line endings: whatever a comment contains (line-boundary characters other
        # than LF included) it ends at the end of its line and nothing of it is parsed as an element
        crlf = [(tc, tn) for tc, _, tn, _ in cases if "'''" not in tc and '\r' not in tc][:150]
        crlf += [('Table users {\n  id int // was:\u2028login varchar [not null]\n}\n', 'Table users {\n  id int\n}\n'),
                 ('Table users {\n  id int\n}\n// formerly\x0cRef legacy: users.id - users.id\n', 'Table users {\n  id int\n}\n')]
        outs2 = pool_map(c14_crlf_job, crlf)
        for (tc, tn), o in zip(crlf, outs2):
            if o is not None:
                fails.append({'cause': 'oracle', 'clause': 'with CRLF line endings, adding comments changes the elements of the parsed database', 'detail': o,
                              'input': {'kind': 'document', 'text_hex': hexs(tc.replace('\n', '\r\n')), 'text': tc.replace('\n', '\r\n'), 'without_comments': tn}})
        stats['crlf_comment_pairs'] = len(crlf)
    elif pid == 'C15':
        cases = []
        for _ in range(600 * n):
            A, text, exp, allow = gen_doc(r, props=True)
            has_props = any(t['props'] or any(c['props'] for c in t['columns']) for t in A['tables'])
            A2, text2, exp2, _ = gen_doc(r, props=False)
            cases.append((text, exp, has_props, text2, exp2))
            add_job(text, True, 'on')
            add_job(text, False, 'off')
            add_job(text2, True, 'plain-on')
            add_job(text2, False, 'plain-off')
        outs = pool_map(c15_job, cases)
        for c, o in zip(cases, outs):
            for f in o:
                fails.append({'cause': 'oracle', 'clause': f[0], 'detail': f[1], 'input': {'kind': 'document', 'text_hex': hexs(f[2]), 'text': f[2]}})
        stats['property_documents'] = len(cases)
    res = stream_script.compare(jobs, 'parse', tags=metas)
    fails.sort(key=lambda f: len(f['input'].get('text', '')))
    v.coverage.update(stats)
    total = verdicts.conclude(v, pr, st, {'parse': stream_script.strip(res)}, fails)
    v.coverage['evaluations'] = total
    v.coverage['distinct_observation_traces'] = res['distinct_nontrivial']
    v.coverage['distinct_nontrivial'] = len(set(j[1][0].args[5] for j in jobs if len(j[1][0].args[5].strip()) > 10))
    v.coverage['rule'] = ('distinct_nontrivial = number of distinct documents (by text, longer than 10 characters) run through model and implementation; '
                          'documents printed from random abstract schemas under random surface styles (tools/docgen.py), property-specific '
                          'injections/mutations, and the repository test data; each parsed by the implementation and by the Coq model '
                          '(regenerated grammar + PP.v + actions + build) and compared on the full object-graph dump and both renderings; '
                          'distinct = distinct complete observation traces')
    v.coverage['samples'] = [{'document': jobs[i][1][0].args[5][:300]} for i in (0, len(jobs) // 2, len(jobs) - 1)]
    v.coverage['explanation'] = 'parser model tied to the code by stream parse; oracle independent of model and renderers'


def c07_leak_job(text):
    from pydbml import PyDBML
    try:
        PyDBML(text)
        return None          # accepted: reported by the other clause
    except Exception:   # noqa
        pass
    try:
        db = PyDBML('Table probe {\n  id int\n}\n')
    except Exception as e:   # noqa
        return 'the probe document is rejected: %s' % type(e).__name__
    got = ([t.name for t in db.tables], len(db.enums), len(db.refs), len(db.table_groups), len(db.sticky_notes), db.project is not None)
    return None if got == (['probe'], 0, 0, 0, 0, False) else repr(got)


def parse_impl_job(job):
    text, allow = job
    k, v = parse_impl(text, allow)
    return 'ok' if k == 'ok' else v


def innermost_site(tb):
    site = None
    while tb is not None:
        fn = tb.tb_frame.f_code.co_filename
        if '/pydbml/' in fn:
            site = tb.tb_frame.f_code.co_name
        tb = tb.tb_next
    return site


def c08_job(text):
    """returns list of (stage, exception class or 'ok', innermost pydbml function)"""
    from pydbml import PyDBML
    out = []
    try:
        db = PyDBML(text)
    except RecursionError:
        return [('parse', 'ok', None)]       # nesting beyond the interpreter's recursion limit: excluded by the property
    except Exception as e:   # noqa
        return [('parse', pyscript.exc_name(e), innermost_site(e.__traceback__))]
    out.append(('parse', 'ok', None))
    objs = [db] + list(db.tables) + list(db.enums) + list(db.refs) + list(db.table_groups) + list(db.sticky_notes) \
        + ([db.project] if db.project else []) + [c for t in db.tables for c in t.columns] + [i for t in db.tables for i in t.indexes]
    for o in objs:
        for stage in ('dbml', 'sql'):
            if stage == 'sql' and not hasattr(type(o), 'sql'):
                continue
            try:
                getattr(o, stage)
                out.append((stage, 'ok', None))
            except Exception as e:   # noqa
                out.append((stage, pyscript.exc_name(e), innermost_site(e.__traceback__)))
    return out


def docgen_comment_holders(A):
    out = []
    for e in A['enums']:
        out.append(e)
        out += e['items']
    for t in A['tables']:
        out.append(t)
        out += t['columns'] + t['indexes']
    out += A['refs'] + A['groups']
    if A['project']:
        out.append(A['project'])
    return out


def c14_job(job):
    tc, ec, tn, en = job
    fails = []
    k1, d1 = parse_impl(tc)
    k2, d2 = parse_impl(tn)
    if k1 != 'ok' or k2 != 'ok':
        return [('a document with / without comments is rejected', '%s / %s' % (d1 if k1 != 'ok' else 'ok', d2 if k2 != 'ok' else 'ok'))]
    c1, c2 = docgen.content(d1), docgen.content(d2)
    d = docgen.diff(docgen.strip_comments(c1), docgen.strip_comments(c2))
    if d:
        fails.append(('adding comments changed something other than comment attributes', d))
    d = docgen.diff(ec, c1)
    if d:
        fails.append(('comment not stored on the element it belongs to', d))
    # every renderer that emits the element emits its comment with it, every line prefixed
    elems = list(d1.tables) + list(d1.enums) + list(d1.refs) + list(d1.table_groups) + ([d1.project] if d1.project else []) \
        + [c for t in d1.tables for c in t.columns] + [i for t in d1.tables for i in t.indexes] + [i for e in d1.enums for i in e.items]
    for o in elems:
        if not getattr(o, 'comment', None):
            continue
        for kind, prefix in (('dbml', '// '), ('sql', '-- ')):
            if kind == 'sql' and not hasattr(type(o), 'sql'):
                continue
            try:
                text = getattr(o, kind)
            except Exception:   # noqa
                continue      # crashes belong to C08
            if getattr(o, 'inline', False) and kind == 'dbml':
                continue      # an inline reference is rendered inside its column's settings, without comment
            want = ''.join(prefix + l + '\n' for l in o.comment.split('\n'))
            if want not in text:
                fails.append(('%s of a %s does not carry its comment as comment lines' % (kind, type(o).__name__), repr(text[:200])))
    return fails


def parse_route(text, allow, route):
    it = pyscript.Interp([])
    try:
        return 'ok', it.parse(route, allow, 0, 1, pyscript.as_read(text) if route in (2, 3) else text, text)
    except Exception as e:   # noqa
        return 'raise', pyscript.exc_name(e)


def c14_crlf_job(job):
    tc, tn = job

    def struct(db):
        return ([(t.schema, t.name, [c.name for c in t.columns], len(t.indexes)) for t in db.tables], len(db.refs),
                [(e.schema, e.name, [i.name for i in e.items]) for e in db.enums], [g.name for g in db.table_groups], len(db.sticky_notes))
    ka, da = parse_impl(tc.replace('\n', '\r\n'), False)
    kb, db_ = parse_impl(tn.replace('\n', '\r\n'), False)
    if ka != kb:
        return 'with comments: %s, without: %s' % (ka if ka == 'ok' else da, kb if kb == 'ok' else db_)
    if ka != 'ok':
        return None
    a, b = struct(da), struct(db_)
    return None if a == b else '%r vs %r' % (a, b)


def c15_job(job):
    text, exp, has_props, text2, exp2 = job
    fails = []
    route = (len(text) + len(text2)) % 5          # every way of supplying the source that takes the option
    k, db = parse_route(text, True, route) if '\r' not in text else parse_impl(text, True)
    if k != 'ok':
        return [('document with properties rejected although the option is on', db, text)]
    d = docgen.diff(exp, docgen.content(db))
    if d:
        fails.append(('properties not stored exactly', d, text))
    if db.allow_properties is not True:
        fails.append(('resulting database does not have the option enabled', '', text))
    k2, db2 = parse_impl(text, False)
    if has_props and (k2 == 'ok' or db2 not in PARSE_ERRORS):
        fails.append(('property syntax accepted although the option is off', str(db2) if k2 != 'ok' else 'returned a database', text))
    # rendering gate
    try:
        on = db.dbml
        db.allow_properties = False
        off = db.dbml
        db.allow_properties = True
        on2 = db.dbml
        if on != on2:
            fails.append(('switching the flag back does not restore the rendering', '', text))
        if has_props and on == off:
            fails.append(('properties rendered regardless of the flag (or never)', '', text))
        k3, db3 = parse_impl(off, False)
        if k3 == 'ok':
            if any(t.properties or any(c.properties for c in t.columns) for t in db3.tables):
                fails.append(('properties rendered with the option off', '', text))
        # rendered back so that they round-trip (outside the listed C02 findings D8-property-key, D10, D30, D33: bare keys,
        # single-line values without backslash or three quotes)
        holders = list(db.tables) + [c for t in db.tables for c in t.columns]
        dom = all('\n' not in v and '\\' not in v and "'''" not in v and docgen.BARE.match(k_)      # D8: keys are rendered bare
                  and not any(ch_ in v for ch_ in '\x0b\x0c\x1c\x1d\x1e\x85\u2028\u2029')       # D38
                  for h_ in holders for k_, v in h_.properties.items())
        if has_props and dom:
            k4, db4 = parse_impl(on, True)
            if k4 != 'ok' and k3 == 'ok':
                fails.append(('rendered properties do not parse back (the rendering without them does)', str(db4), text))
            elif k4 == 'ok':
                holders4 = list(db4.tables) + [c for t in db4.tables for c in t.columns]
                if len(holders4) == len(holders):
                    for a_, b_ in zip(holders, holders4):
                        if list(a_.properties.items()) != list(b_.properties.items()):
                            fails.append(('properties do not round-trip through the rendering', '%r -> %r' % (a_.properties, b_.properties), text))
                            break
    except Exception as e:   # noqa
        pass     # rendering problems belong to C02 / C08
    # enabling the option changes nothing for a document without properties
    ka, da = parse_impl(text2, False)
    kb, dbb = parse_impl(text2, True)
    if ka != kb:
        fails.append(('a document without properties parses differently with the option on', '%s / %s' % (ka, kb), text2))
    elif ka == 'ok':
        d = docgen.diff(docgen.content(da), docgen.content(dbb))
        if d:
            fails.append(('a document without properties parses differently with the option on', d, text2))
        try:
            if da.dbml != dbb.dbml or da.sql != dbb.sql:
                fails.append(('a document without properties renders differently with the option on', '', text2))
        except Exception:   # noqa
            pass
    return fails
