"""Generator of well-formed DBML documents: an abstract schema crossed with a surface style, together
with the content the parsed Database must have (computed from the abstract schema, independently of
PyDBML's renderers and of the Coq model), plus extraction of that content from a parsed Database."""
import re

BARE = re.compile(r'^[A-Za-z0-9_]+$')
NAMES = ['users', 'posts', 'orders', 'order_items', 'T1', 'x', 'select', 'table', 'Ref', 'note', 'enum', 'indexes',
         'my table', 'Таблица', 'we ird', 'a-b', 'semi;colon', 'curly{brace}', "quo'te", 'hash#tag', '1st',
         'caf\u00e9', 'cafe\u0301']      # the same word composed and decomposed: two different names
COLS = ['id', 'name', 'user_id', 'created_at', 'status', 'total', 'ref', 'pk', 'unique', 'null', 'as',
        'my col', 'cöl', 'c,d', '(e)', 'x y z', 'notes', 'note_id', 'Note', 'indexes_count', 'enum_value', 'table_id', 'refs', 'default', 'ID', 'Name', 'User_ID', '\u00e9tat', 'e\u0301tat']
SCHEMAS = ['public', 'auth', 'my schema', 'S2', 'Public']
TYPES = ['int', 'integer', 'varchar', 'varchar(255)', 'numeric(10,2)', 'numeric(10, 2)', 'int[]', 'text', 'timestamp',
         'decimal(1,2)', 'numeric( 10 , 2 )', 'varchar( 255 )', '"my type"', 'character varying']   # the last two only in quoted form
NOTES = ['a note', 'x', 'two words', 'line one\nline two', 'first\n\nthird after empty', 'é 中 💸', "it's", 'say "hi"',
         'tick ` tock', 'hash # not comment', 'slash // not comment', 'a {brace}', 'indented\n  more\n    most',
         'ends with quote\'', "'''triple inside'''", 'zero\ufeffwidth\ufeffjoiner', ' ', '  ', 'x\n   \ny', 'form\x0cfeed', 'line\u2028separator\x85nel',
         'a single line that is rather long: ' + 'lorem ipsum dolor sit amet ' * 6, 'back\\\\slash', "two lines\nends with quote'", "four '''' quotes\nsecond line",
         'de\u0301compose\u0301 \u2126 \u212b \u1112\u1161\u11ab']      # not in any Unicode normal form: stored as written
ACTIONS = ['cascade', 'restrict', 'set null', 'set default', 'no action']
INDEX_TYPES = ['btree', 'hash', 'gin', 'gist', 'brin', 'spgist']
COLORS = ['#fff', '#AbCdEf', '#123456', '#000']
COMMENTS = ['a comment', 'c', 'two words here', 'with # and \' and "', 'second line', 'stars **', '*', 'x */ y'.replace(' */', ''),
            'path C:\\legacy\\dumps\\', 'ends with backslash \\', '{auto} payload: {"done": true}', 'was:\u2028login varchar', 'ff\x0cafter', 'ALTER TABLE All Rows CREATE "x"']


class safe_pools:
    """context manager: names and texts without brackets, braces or quotes, so that every such
    character in a printed document is structural (used for syntax-fault injection)"""
    def __enter__(self):
        global NAMES, COLS, NOTES, COMMENTS
        self.saved = (NAMES, COLS, NOTES, COMMENTS)
        bad = set('{}[]()\'"`')
        ok = lambda x: not (set(x) & bad)
        NAMES, COLS, NOTES, COMMENTS = ([x for x in l if ok(x)] for l in self.saved)

    def __exit__(self, *a):
        global NAMES, COLS, NOTES, COMMENTS
        NAMES, COLS, NOTES, COMMENTS = self.saved


def esc_triple(t):
    """proper escapes for a '''-quoted literal: backslashes doubled, every quote of a run of three or more
    escaped, a final quote escaped"""
    body = t.replace('\\', '\\\\')
    body = re.sub(r"'{3,}", lambda m: "\\'" * len(m.group(0)), body)
    if body.endswith("'") and not body.endswith("\\'"):
        body = body[:-1] + "\\'"
    return body


class Style:
    def __init__(self, r, level=1.0):
        import random as _random
        self.r = r
        self.level = level     # 0 = canonical-ish, 1 = full variety
        self.rc = _random.Random(12345)     # separate stream for comment placement: the layout does not depend on comments

    def ccoin(self, p=0.5):
        return self.rc.random() < p * self.level

    def coin(self, p=0.5):
        return self.r.random() < p * self.level

    def kw(self, w):
        m = self.r.random()
        if m < 0.4 * self.level:
            return w.upper()
        if m < 0.6 * self.level:
            return w.capitalize()
        if m < 0.7 * self.level:
            return ''.join(c.upper() if self.r.random() < 0.5 else c.lower() for c in w)
        return w

    def ident(self, n):
        if BARE.match(n) and not self.coin(0.4):
            return n
        return '"%s"' % n

    def ws(self):
        return self.r.choice([' ', ' ', '  ', '\t']) if self.level > 0 else ' '

    def ows(self):
        return self.r.choice(['', '', ' ', '  ']) if self.level > 0 else ''

    def nl(self):
        if self.coin(0.3):
            return '\n' + self.r.choice(['', '  ', '\t']) + '\n'
        return '\n'

    def string(self, t, allow_single=True):
        """one of the three string styles with proper escapes"""
        multi = '\n' in t
        choices = ["'''"] if multi else (["'", '"', "'''"] if allow_single else ["'''"])
        q = self.r.choice(choices) if self.level > 0 else choices[0]
        if q == "'":
            return "'" + t.replace('\\', '\\\\').replace("'", "\\'") + "'"
        if q == '"':
            return '"' + t.replace('\\', '\\\\').replace('"', '\\"') + '"'
        return "'''" + esc_triple(t) + "'''"

    def note_string(self, t, indent):
        """a note; multi-line ones may be written as an indented block (normalisation must undo it)"""
        if '\n' in t and self.coin(0.6):
            body = esc_triple(t)
            pad = ' ' * indent
            lines = body.split('\n')
            return "'''\n" + '\n'.join((pad + l) if l else l for l in lines) + '\n' + pad[:-2] + "'''"
        return self.string(t)


def pick_text(r, pool, p_none=0.6):
    return None if r.random() < p_none else r.choice(pool)


def gen_schema(r, size=None, features=1.0):
    """abstract schema as plain dicts"""
    A = {'project': None, 'enums': [], 'tables': [], 'refs': [], 'groups': [], 'stickies': []}
    f = features
    used = set()
    ntab = size if size is not None else r.choice([1, 2, 2, 3, 3, 4])
    for _ in range(r.choice([0, 0, 1, 2]) if f > 0 else 0):
        nm = r.choice(['status', 'kind', 'my enum', 'E', 'app.v1.status'])
        sc = r.choice(SCHEMAS) if '.' not in nm else 'public'     # a dotted name can only be addressed as a bare (public) enum name
        if (sc, nm) in used:
            continue
        used.add((sc, nm))
        items = []
        for inm in r.sample(['active', 'closed', 'in progress', 'x', 'Y_1', 'not yet'], r.randint(1, 3)):
            items.append({'name': inm, 'note': pick_text(r, NOTES, 0.7), 'comment': None})
        A['enums'].append({'schema': sc, 'name': nm, 'items': items, 'comment': None})
    tnames = set()
    aliases = set()
    for _ in range(ntab):
        nm = r.choice(NAMES)
        sc = r.choice(SCHEMAS)
        if (sc, nm) in tnames:
            continue
        tnames.add((sc, nm))
        alias = None
        if r.random() < 0.3 * f:
            alias = r.choice(['u', 'p', 'AL', 'my alias', 'o_1']) + str(len(A['tables']))
            aliases.add(alias)
        cols = []
        pk_layout = r.choice(['none', 'single', 'composite'])
        colnames = r.sample(COLS, r.randint(1, 4))
        for a_, b_ in (('\u00e9tat', 'e\u0301tat'),):
            # two columns whose names differ only by Unicode normalisation form are two columns
            if (a_ in colnames) != (b_ in colnames) and r.random() < 0.6:
                colnames.append(b_ if a_ in colnames else a_)
        for i, cn in enumerate(colnames):
            tk = r.random()
            foreign = [e for e in A['enums'] if e['schema'] != 'public' and BARE.match(e['name'])
                       and not any(x['schema'] == 'public' and x['name'] == e['name'] for x in A['enums'])]
            if tk < 0.25 and A['enums']:
                e = r.choice(A['enums'])
                ty = ('enum', e['schema'], e['name'])
            elif tk < 0.33 and foreign:
                # a plain type that merely looks like an enum of ANOTHER schema: a bare name means schema public
                ty = ('plain', r.choice(foreign)['name'])
            else:
                ty = ('plain', r.choice(TYPES[:12]))
            dk = r.choice(['none'] * 5 + ['int', 'int0', 'float', 'true', 'false', 'null', 'str', 'str_empty', 'expr']) if f > 0 else 'none'
            d = {'none': None, 'int': ('int', r.choice([1, 42, 1000000, 7, 9007199254740993, 123456789012345678901234567890])), 'int0': ('int', 0),
                 'float': ('float', r.choice(['1.5', '0.0', '10.25', '3.0', '0.5', '123.456', '52.5200066', '0.0012345678', '1234567.125', '0.1000001'])),
                 'true': ('bool', True), 'false': ('bool', False), 'null': ('null', None),
                 'str': ('str', r.choice(NOTES + ['true', 'NULL', '0'])), 'str_empty': ('str', ''),
                 'expr': ('expr', r.choice(['now()', 'id * 2', "'a' || b", 'a + (b * c)', '', "regexp_replace(t, E'\\t|\\n', ' ')",
                                            "split_part(p, '\\folder\\name', 1)", '(price) * (qty)']))}[dk]
            if d and d[0] == 'str':
                d = ('str', d[1].replace('\n', ' '))
            cols.append({'name': cn, 'type': ty,
                         'pk': (pk_layout == 'single' and i == 0) or (pk_layout == 'composite' and i < 2),
                         'unique': r.random() < 0.2 * f, 'not_null': r.random() < 0.25 * f, 'autoinc': r.random() < 0.15 * f,
                         'null_setting': False, 'default': d, 'note': pick_text(r, NOTES, 0.7), 'props': [], 'refs': [], 'comment': None})
        idxs = []
        for _ in range(r.choice([0, 0, 1, 2]) if f > 0 else 0):
            subs = []
            for _ in range(r.choice([1, 1, 2, 3])):
                if r.random() < 0.75:
                    subs.append(('col', r.choice(cols)['name']))
                else:
                    subs.append(('expr', r.choice(['id*2', 'lower(name)', 'a + b', '', "split_part(p, '\\folder\\name', 1)", '(a) || (b)'])))
            idxs.append({'subjects': subs, 'name': pick_text(r, ['idx', 'my index', "i'x"], 0.6), 'unique': r.random() < 0.3,
                         'type': r.choice(INDEX_TYPES) if r.random() < 0.3 else None, 'pk': r.random() < 0.2,
                         'note': pick_text(r, NOTES, 0.8), 'comment': None})
        A['tables'].append({'schema': sc, 'name': nm, 'alias': alias, 'columns': cols, 'indexes': idxs,
                            'note': pick_text(r, NOTES, 0.6), 'header_color': r.choice(COLORS) if r.random() < 0.2 * f else None,
                            'props': [], 'comment': None})
    # a twin: the same table name (and the same column names) in another schema — every name-based shortcut
    # that forgets the schema confuses the two
    if A['tables'] and r.random() < 0.12 * f and size is None:
        import copy
        src = r.choice(A['tables'])
        others = [s_ for s_ in SCHEMAS if (s_, src['name']) not in tnames]
        if others:
            tw = copy.deepcopy(src)
            tw['schema'] = r.choice(others)
            tw['alias'] = None
            tw['indexes'] = []
            for c_ in tw['columns']:
                c_['pk'] = False
            tnames.add((tw['schema'], tw['name']))
            A['tables'].insert(r.randint(0, len(A['tables'])), tw)
    tabs = A['tables']
    # references (standalone or inline, decided by the style at render time through 'form')
    for _ in range(r.choice([0, 1, 1, 2, 3]) if (tabs and f > 0) else 0):
        t1, t2 = r.choice(tabs), r.choice(tabs)
        n = 1 if r.random() < 0.75 else min(2, len(t1['columns']), len(t2['columns']))
        c1 = [c['name'] for c in r.sample(t1['columns'], n)]
        c2 = [c['name'] for c in r.sample(t2['columns'], n)]
        if n == 2 and r.random() < 0.2:
            c2 = c2[:1]            # sides of different length: nothing in the grammar or the classes forbids it
        form = r.choice(['short', 'long', 'inline']) if n == 1 else r.choice(['short', 'long'])
        ref = {'kind': r.choice(['>', '<', '-', '<>']), 't1': (t1['schema'], t1['name']), 'cols1': c1,
               't2': (t2['schema'], t2['name']), 'cols2': c2, 'form': form,
               'name': pick_text(r, ['fk_1', 'my fk', 'FK'], 0.6) if form != 'inline' else None,
               'on_update': r.choice(ACTIONS) if (form != 'inline' and r.random() < 0.3) else None,
               'on_delete': r.choice(ACTIONS) if (form != 'inline' and r.random() < 0.3) else None,
               'comment': None}
        # D20 domain: composite column lists are re-split on ',' and stripped of '() ': keep such names out of refs
        if any((',' in c or c != c.strip('() ')) for c in c1 + c2):
            continue
        # an identical reference twice is a rule violation (C06), not a well-formed document
        key = (ref['kind'], ref['t1'], tuple(c1), ref['t2'], tuple(c2), ref['name'], ref['on_update'], ref['on_delete'])
        if key in [x.get('_key') for x in A['refs']]:
            continue
        ref['_key'] = key
        A['refs'].append(ref)
    for gi in range(r.choice([0, 0, 1, 2]) if (tabs and f > 0) else 0):
        items = [(t['schema'], t['name']) for t in r.sample(tabs, r.randint(0, len(tabs)))]
        # D19 domain: group items are re-split on '.'
        items = [it for it in items if '.' not in it[0] and '.' not in it[1]]
        A['groups'].append({'name': r.choice(['g', 'grp', 'my group', 'G_2']) + str(gi), 'items': items,
                            'note': pick_text(r, NOTES, 0.6), 'color': r.choice(COLORS) if r.random() < 0.3 else None, 'comment': None})
    for si in range(r.choice([0, 0, 1, 2]) if f > 0 else 0):
        A['stickies'].append({'name': r.choice(['sticky', 'n1', 'my note']) + str(si), 'text': r.choice(NOTES + [''])})
    if r.random() < 0.4 * f:
        items = []
        for k in r.sample(['database_type', 'author', 'my key', 'version'], r.randint(0, 3)):
            items.append((k, r.choice(NOTES + [''])))
        A['project'] = {'name': r.choice(['proj', 'my project', 'P1']), 'items': items, 'note': pick_text(r, NOTES, 0.5), 'comment': None}
    return A


def add_properties(r, A):
    for t in A['tables']:
        if r.random() < 0.5:
            t['props'] = [(k, r.choice(NOTES + ['', '    four leading spaces', '\u3000ideographic space first', 'trailing  ', 'true', 'False', 'NULL', '42', '1.5'])) for k in r.sample(['owner', 'my key', 'k2', 'Unique_key'], r.randint(1, 2))]
        for c in t['columns']:
            if r.random() < 0.3:
                c['props'] = [(k, r.choice(NOTES + ['', '    four leading spaces', 'trailing  ', 'true', 'False', 'NULL', '42']).replace('\n', ' ')) for k in r.sample(['ck', 'col key', 'z'], r.randint(1, 2))]


def add_comments(r, A):
    """comments in the slots where the parser captures them"""
    def cm():
        return r.choice(COMMENTS) if r.random() < 0.5 else None
    for e in A['enums']:
        e['comment'] = cm()
        for i in e['items']:
            i['comment'] = cm()
    for t in A['tables']:
        t['comment'] = cm()
        for c in t['columns']:
            c['comment'] = cm()
        for i in t['indexes']:
            i['comment'] = cm()
    for x in A['refs']:
        if x['form'] != 'inline':
            x['comment'] = cm()
            if x['comment'] and ('{' in x['comment'] or '}' in x['comment']):
                x['comment'] = None        # D5: a brace in a reference comment reaches str.format in the SQL renderer
    for g in A['groups']:
        g['comment'] = cm()
    if A['project']:
        A['project']['comment'] = cm()


# ---------------------------------------------------------------- printing
def comment_block(st, text, indent=''):
    """a comment written above an element"""
    if st.ccoin(0.3) and '*/' not in text and '\n' not in text:
        if st.ccoin(0.4) and not text.endswith('/'):
            return indent + '/*' + text + '*/\n', text          # banner style, no blanks inside
        return indent + '/* ' + text + ' */\n', text + ' '
    return ''.join(indent + '// ' + l + '\n' for l in text.split('\n')), text


def table_addr(st, A, key, allow_alias=True, in_group=False):
    sc, nm = key
    t = next((t for t in A['tables'] if (t['schema'], t['name']) == key), None)

    def ident(n, first):
        # inside a TableGroup body a bare word starting with `note` is read as a note element (finding D28)
        if in_group and first and n.lower().startswith('note'):
            return '"%s"' % n
        return st.ident(n)
    if allow_alias and t is not None and t['alias'] and st.coin(0.4):
        return ident(t['alias'], True)
    if sc == 'public' and not st.coin(0.3):
        return ident(nm, True)
    return ident(sc, True) + '.' + ident(nm, False)


def fmt_default(st, d):
    k, v = d
    if k == 'int':
        return str(v)
    if k == 'float':
        return v
    if k == 'bool':
        return st.kw('true' if v else 'false')
    if k == 'null':
        return st.kw('null')
    if k == 'str':
        return st.string(v)
    return '`' + v + '`'


def settings_list(st, items, indent, one_line=False):
    if not items:
        return ''
    if st.level > 0:
        # settings order is free, except that several inline refs of one column keep their relative order
        refs = [x for x in items if x.startswith('ref:')]
        st.r.shuffle(items)
        it = iter(refs)
        items[:] = [next(it) if x.startswith('ref:') else x for x in items]
    if st.coin(0.25) and not one_line:
        sep = ',\n' + indent + '  '
        return ' [\n' + indent + '  ' + sep.join(items) + '\n' + indent + ']'
    return ' [' + st.ows() + (',' + st.ws()).join(items) + st.ows() + ']'


def render_column(st, A, t, c, expected_refs, allow_props):
    ind = '  '
    out = ind + st.ident(c['name']) + st.ws()
    ty = c['type']
    if ty[0] == 'enum':
        # an enum whose name holds dots can only be spelt as a bare (public) name: `schema.name` needs exactly one dot
        out += (st.ident(ty[2]) if (ty[1] == 'public' and (not st.coin(0.3) or '.' in ty[2])) else st.ident(ty[1]) + '.' + st.ident(ty[2]))
    else:
        out += ty[1]
    items = []
    if c['pk']:
        items.append(st.kw(st.r.choice(['pk', 'primary key'])))
    if c['unique']:
        items.append(st.kw('unique'))
    if c['not_null']:
        items.append(st.kw('not null'))
    if c['autoinc']:
        items.append(st.kw('increment'))
    if c['default'] is not None:
        items.append(st.kw('default') + ':' + st.ows() + fmt_default(st, c['default']))
    if c['note'] is not None:
        items.append(st.kw('note') + ':' + st.ows() + st.string(c['note']))
    for rf in c['refs']:
        items.append('ref:' + st.ws() + rf['kind'] + st.ws() + table_addr(st, A, rf['t2']) + '.' + st.ident(rf['cols2'][0]))
    if allow_props:
        for k, v in c['props']:
            items.append(st.ident(k) + ':' + st.ows() + st.string(v))
    # grammar: a property after a line break inside the brackets is not accepted (finding D27)
    out += settings_list(st, items, ind, one_line=bool(allow_props and c['props']))
    if c['comment'] is not None:
        out += ' // ' + c['comment'].split('\n')[0]
    return out + '\n'


def render_doc(A, st, allow_props=False, interleave=True):
    """returns (text, expected) where expected mirrors content(db)"""
    r = st.r
    chunks = []          # (kind, text)
    exp = {'project': None, 'enums': [], 'tables': [], 'refs': [], 'groups': [], 'stickies': []}
    inline_by_col = {}
    for x in A['refs']:
        if x['form'] == 'inline':
            inline_by_col.setdefault((x['t1'], x['cols1'][0]), []).append(x)
    for e in A['enums']:
        txt, com = '', None
        if e['comment'] is not None:
            c, com = comment_block(st, e['comment'])
            txt += c
        nm = st.ident(e['name']) if (e['schema'] == 'public' and not st.coin(0.3)) else st.ident(e['schema']) + '.' + st.ident(e['name'])
        txt += st.kw('enum') + st.ws() + nm + st.ows() + '{' + st.nl()
        eitems = []
        for i in e['items']:
            icom = None
            if i['comment'] is not None and st.ccoin(0.5):
                c, icom = comment_block(st, i['comment'], '  ')
                txt += c
            txt += '  ' + st.ident(i['name'])
            if i['note'] is not None:
                txt += ' [' + st.kw('note') + ': ' + st.string(i['note']) + ']'
            txt += (st.nl() if i is not e['items'][-1] else '\n')      # exactly one newline before the closing brace
            eitems.append({'name': i['name'], 'note': i['note'] or '', 'comment': icom})
        txt += '}\n'
        chunks.append(('enum', txt, {'schema': e['schema'], 'name': e['name'], 'items': eitems, 'comment': com}))
    for t in A['tables']:
        txt, com = '', None
        if t['comment'] is not None:
            c, com = comment_block(st, t['comment'])
            txt += c
        key = (t['schema'], t['name'])
        nm = st.ident(t['name']) if (t['schema'] == 'public' and not st.coin(0.3)) else st.ident(t['schema']) + '.' + st.ident(t['name'])
        txt += st.kw('table') + st.ws() + nm
        if t['alias']:
            txt += ' as ' + st.ident(t['alias'])
        hs = []
        note_in_settings = t['note'] is not None and '\n' not in t['note'] and st.coin(0.3)
        if t['header_color']:
            hs.append(st.kw('headercolor') + ':' + st.ows() + t['header_color'])
        if note_in_settings:
            hs.append(st.kw('note') + ': ' + st.string(t['note']))
        if hs:
            txt += ' [' + ', '.join(hs) + ']'
        txt += st.ws() + '{' + st.nl()
        body = []
        ecols = []
        trefs = []
        for c in t['columns']:
            c = dict(c)
            c['refs'] = inline_by_col.get((key, c['name']), [])
            body_line = render_column(st, A, t, c, trefs, allow_props)
            body.append(('col', body_line))
            d = c['default']
            ed = None
            if d is not None:
                ed = {'int': ('i', d[1]), 'float': ('f', float(d[1]) if d[0] == 'float' else None), 'bool': ('b', d[1]),
                      'null': ('s', 'NULL'), 'str': ('s', d[1]), 'expr': ('x', d[1])}[d[0]]
            ecols.append({'name': c['name'], 'type': c['type'], 'pk': c['pk'], 'unique': c['unique'], 'not_null': c['not_null'],
                          'autoinc': c['autoinc'], 'default': ed, 'note': c['note'] or '',
                          'props': dict(c['props']) if allow_props else {},
                          'comment': c['comment'].split('\n')[0] if c['comment'] is not None else None})
            for rf in c['refs']:
                trefs.append({'kind': rf['kind'], 't1': rf['t1'], 'cols1': rf['cols1'], 't2': rf['t2'], 'cols2': rf['cols2'],
                              'inline': rf['kind'] != '<>', 'name': None, 'on_update': None, 'on_delete': None, 'comment': None})
        extra = []
        if t['note'] is not None and not note_in_settings:
            if st.coin(0.5) and '\n' not in t['note']:
                extra.append(('note', '  ' + st.kw('note') + ':' + st.ws() + st.string(t['note']) + '\n'))
            else:
                extra.append(('note', '  ' + st.kw('note') + st.ows() + '{' + st.nl() + '    ' + st.note_string(t['note'], 4) + st.nl() + '  }\n'))
        eidx = []
        if t['indexes']:
            itxt = '  ' + st.kw('indexes') + st.ows() + '{' + st.nl()
            for i in t['indexes']:
                icom = None
                if i['comment'] is not None and st.ccoin(0.5):
                    c2, icom = comment_block(st, i['comment'], '    ')
                    itxt += c2
                subs = [st.ident(v) if k == 'col' else '`' + v + '`' for k, v in i['subjects']]
                if len(subs) == 1 and not st.coin(0.3):
                    itxt += '    ' + subs[0]
                else:
                    itxt += '    (' + (',' + st.ows()).join(subs) + ')'
                its = []
                if i['name'] is not None:
                    its.append(st.kw('name') + ':' + st.ows() + st.string(i['name']))
                if i['unique']:
                    its.append(st.kw('unique'))
                if i['type']:
                    its.append(st.kw('type') + ':' + st.ows() + st.kw(i['type']))
                if i['pk']:
                    its.append(st.kw('pk'))
                if i['note'] is not None:
                    its.append(st.kw('note') + ':' + st.ows() + st.string(i['note']))
                itxt += settings_list(st, its, '    ')
                if i['comment'] is not None and icom is None:
                    itxt += ' // ' + i['comment'].split('\n')[0]
                    icom = i['comment'].split('\n')[0]
                itxt += '\n'
                eidx.append({'subjects': i['subjects'], 'name': i['name'] or None, 'unique': i['unique'], 'type': i['type'],
                             'pk': i['pk'], 'note': i['note'] or '', 'comment': icom})
            itxt += '  }\n'
            extra.append(('indexes', itxt))
        if allow_props:
            for k, v in t['props']:
                extra.append(('prop', '  ' + st.ident(k) + ':' + st.ows() + st.string(v) + '\n'))
        # notes / index block / properties may sit anywhere among the columns
        items = body[:]
        for x in extra:
            pos = r.randint(0, len(items)) if st.level > 0 else len(items)
            items.insert(pos, x)
        for _, s in items:
            txt += s
            if st.coin(0.15):
                txt += '\n'
        txt += '}' + ('\n' if True else '')
        chunks.append(('table', txt, {'schema': t['schema'], 'name': t['name'], 'alias': t['alias'], 'columns': ecols,
                                      'indexes': eidx, 'note': t['note'] or '', 'header_color': t['header_color'],
                                      'props': dict(t['props']) if allow_props else {}, 'comment': com}, trefs))
    for x in A['refs']:
        if x['form'] == 'inline':
            continue
        txt, com = '', None
        if x['comment'] is not None and st.ccoin(0.6):
            c, com = comment_block(st, x['comment'])
            txt += c

        def side(tk, cols):
            a = table_addr(st, A, tk)
            if len(cols) == 1 and not st.coin(0.2):
                return a + '.' + st.ident(cols[0])
            return a + '.(' + (',' + st.ows()).join(st.ident(c) for c in cols) + ')'
        body = side(x['t1'], x['cols1']) + st.ws() + x['kind'] + st.ws() + side(x['t2'], x['cols2'])
        its = []
        if x['on_update']:
            its.append(st.kw('update') + ':' + st.ows() + st.kw(x['on_update']))
        if x['on_delete']:
            its.append(st.kw('delete') + ':' + st.ows() + st.kw(x['on_delete']))
        body += settings_list(st, its, '  ') if its else ''
        if x['comment'] is not None and com is None:
            body += ' // ' + x['comment'].split('\n')[0]
            com = x['comment'].split('\n')[0]
        nm = (' ' + st.ident(x['name'])) if x['name'] else ''
        if x['form'] == 'short':
            txt += st.kw('ref') + nm + ':' + st.ws() + body + '\n'
        else:
            # a remark inside the block, above the relation, belongs to nothing: it is dropped
            inner = ('  // inner remark' + st.nl()) if st.coin(0.5) else ''
            txt += st.kw('ref') + nm + st.ws() + '{' + st.nl() + inner + '  ' + body + st.nl() + '}\n'
        chunks.append(('ref', txt, {'kind': x['kind'], 't1': x['t1'], 'cols1': x['cols1'], 't2': x['t2'], 'cols2': x['cols2'],
                                    'inline': False, 'name': x['name'], 'on_update': x['on_update'], 'on_delete': x['on_delete'],
                                    'comment': com}))
    for g in A['groups']:
        txt, com = '', None
        if g['comment'] is not None:
            c, com = comment_block(st, g['comment'])
            txt += c
        txt += st.kw('tablegroup') + st.ws() + st.ident(g['name'])
        gs = []
        note_in_settings = g['note'] is not None and '\n' not in g['note'] and st.coin(0.3)
        if g['color']:
            gs.append(st.kw('color') + ':' + st.ows() + g['color'])
        if note_in_settings:
            gs.append(st.kw('note') + ': ' + st.string(g['note']))
        if gs:
            txt += ' [' + ', '.join(gs) + ']'
        txt += st.ws() + '{' + st.nl()
        for it in g['items']:
            txt += '  ' + table_addr(st, A, it, in_group=True) + st.nl()
        if g['note'] is not None and not note_in_settings:
            txt += '  ' + st.kw('note') + ': ' + st.string(g['note']) + '\n'
        txt += '}\n'
        chunks.append(('group', txt, {'name': g['name'], 'items': g['items'], 'note': g['note'], 'color': g['color'], 'comment': com}))
    for s in A['stickies']:
        txt = st.kw('note') + st.ws() + st.ident(s['name']) + st.ws() + '{' + st.nl() + '  ' + st.note_string(s['text'], 2) + st.nl() + '}\n'
        chunks.append(('sticky', txt, {'name': s['name'], 'text': s['text']}))
    if A['project']:
        p = A['project']
        txt, com = '', None
        if p['comment'] is not None:
            c, com = comment_block(st, p['comment'])
            txt += c
        txt += st.kw('project') + st.ws() + st.ident(p['name']) + st.ws() + '{' + st.nl()
        for k, v in p['items']:
            txt += '  ' + st.ident(k) + ':' + st.ows() + st.string(v) + st.nl()
        if p['note'] is not None:
            txt += '  ' + st.kw('note') + ': ' + st.string(p['note']) + '\n'
        txt += '}\n'
        chunks.append(('project', txt, {'name': p['name'], 'items': dict(p['items']), 'note': p['note'] or '', 'comment': com}))
    # interleave top-level elements (within each kind the order is kept: it is part of the content)
    if st.level > 0 and interleave:
        order = list(range(len(chunks)))
        kinds = [c[0] for c in chunks]
        perm = order[:]
        r.shuffle(perm)
        # stable within kind
        by_kind = {}
        for i in order:
            by_kind.setdefault(kinds[i], []).append(i)
        taken = {k: 0 for k in by_kind}
        new = []
        for i in perm:
            k = kinds[i]
            new.append(by_kind[k][taken[k]])
            taken[k] += 1
        chunks = [chunks[i] for i in new]
    text = ''
    for ch in chunks:
        kind = ch[0]
        if st.coin(0.2):
            text += '\n' * r.randint(1, 2)
        text += ch[1]
        if kind == 'enum':
            exp['enums'].append(ch[2])
        elif kind == 'table':
            exp['tables'].append(ch[2])
            exp['refs'] += ch[3]
        elif kind == 'ref':
            exp['refs'].append(ch[2])
        elif kind == 'group':
            exp['groups'].append(ch[2])
        elif kind == 'sticky':
            exp['stickies'].append(ch[2])
        elif kind == 'project':
            exp['project'] = ch[2]
    if st.coin(0.2):
        text = text.rstrip('\n')
    return text, exp


# ---------------------------------------------------------------- content of a parsed database
def content(db):
    from pydbml.classes import Enum, Expression, Column
    out = {'project': None, 'enums': [], 'tables': [], 'refs': [], 'groups': [], 'stickies': []}
    for e in db.enums:
        out['enums'].append({'schema': e.schema, 'name': e.name, 'comment': e.comment,
                             'items': [{'name': i.name, 'note': i.note.text, 'comment': i.comment} for i in e.items]})
    for t in db.tables:
        cols = []
        for c in t.columns:
            ty = ('enum', c.type.schema, c.type.name) if isinstance(c.type, Enum) else ('plain', c.type)
            d = c.default
            if d is None:
                ed = None
            elif isinstance(d, bool):
                ed = ('b', d)
            elif isinstance(d, int):
                ed = ('i', d)
            elif isinstance(d, float):
                ed = ('f', d)
            elif isinstance(d, str):
                ed = ('s', d)
            elif isinstance(d, Expression):
                ed = ('x', d.text)
            else:
                ed = ('?', repr(d))
            cols.append({'name': c.name, 'type': ty, 'pk': c.pk, 'unique': c.unique, 'not_null': c.not_null, 'autoinc': c.autoinc,
                         'default': ed, 'note': c.note.text, 'props': dict(c.properties), 'comment': c.comment})
        idxs = []
        for i in t.indexes:
            subs = [('col', s.name) if isinstance(s, Column) else ('expr', s.text) if isinstance(s, Expression) else ('str', s)
                    for s in i.subjects]
            idxs.append({'subjects': subs, 'name': i.name, 'unique': i.unique, 'type': i.type, 'pk': i.pk, 'note': i.note.text,
                         'comment': i.comment})
        out['tables'].append({'schema': t.schema, 'name': t.name, 'alias': t.alias, 'columns': cols, 'indexes': idxs,
                              'note': t.note.text, 'header_color': t.header_color, 'props': dict(t.properties), 'comment': t.comment})
    for x in db.refs:
        out['refs'].append({'kind': x.type, 't1': (x.col1[0].table.schema, x.col1[0].table.name), 'cols1': [c.name for c in x.col1],
                            't2': (x.col2[0].table.schema, x.col2[0].table.name), 'cols2': [c.name for c in x.col2],
                            'inline': bool(x.inline), 'name': x.name,
                            'on_update': x.on_update, 'on_delete': x.on_delete, 'comment': x.comment})
    for g in db.table_groups:
        out['groups'].append({'name': g.name, 'items': [(t.schema, t.name) for t in g.items],
                              'note': g.note.text if g.note is not None else None, 'color': g.color, 'comment': g.comment})
    for s in db.sticky_notes:
        out['stickies'].append({'name': s.name, 'text': s.text})
    if db.project is not None:
        p = db.project
        out['project'] = {'name': p.name, 'items': dict(p.items), 'note': p.note.text, 'comment': p.comment}
    return out


def strip_comments(c):
    """content with every comment attribute erased"""
    import copy
    c = copy.deepcopy(c)

    def walk(x):
        if isinstance(x, dict):
            if 'comment' in x:
                x['comment'] = None
            for v in x.values():
                walk(v)
        elif isinstance(x, list):
            for v in x:
                walk(v)
    walk(c)
    return c


def diff(a, b, path=''):
    """first difference between two content structures, as a string; None if equal"""
    if type(a) != type(b) and not (isinstance(a, (list, tuple)) and isinstance(b, (list, tuple))):
        return '%s: %r != %r' % (path, a, b)
    if isinstance(a, dict):
        for k in sorted(set(a) | set(b)):
            if k not in a or k not in b:
                return '%s.%s: missing on one side (%r / %r)' % (path, k, a.get(k), b.get(k))
            d = diff(a[k], b[k], path + '.' + str(k))
            if d:
                return d
        return None
    if isinstance(a, (list, tuple)):
        if len(a) != len(b):
            return '%s: length %d != %d (%r / %r)' % (path, len(a), len(b), a, b)
        for i, (x, y) in enumerate(zip(a, b)):
            d = diff(x, y, '%s[%d]' % (path, i))
            if d:
                return d
        return None
    return None if a == b else '%s: %r != %r' % (path, a, b)


# ---------------------------------------------------------------- the DBML-expressible value domain (C02)
def bare(n, fallback):
    return n if BARE.match(n) else fallback


def restrict_for_roundtrip(A):
    """rewrite an abstract schema into the domain Expr_dbml of DESIGN 6/C02; every rewrite below is
    there because of a listed defect (the id is given) and disappears with its fix"""
    def clean(t, single_line=False, no_sq=False):
        if t is None:
            return None
        t = t.replace('\\', '/')                                  # D10 backslash is rendered raw
        if '\n' in t:
            t = '\n'.join(l if l.strip() else '' for l in t.split('\n'))  # D14 interior whitespace-only lines lose their blanks
        for ch_ in '\x0b\x0c\x1c\x1d\x1e\x85\u2028\u2029':
            t = t.replace(ch_, ' ')                              # D38 textwrap.indent treats these as line ends
        if single_line:
            t = t.replace('\n', ' ')                              # D13 multi-line text in settings position drifts
        if no_sq:
            t = t.replace("'", '')                                # D9 unescaped single quote
        if '\n' not in t:
            t = t.replace("'''", "'")                             # D33 ''' inside a single-line literal is escaped as \''' : two bare quotes remain
        return t
    for e in A['enums']:
        for i in e['items']:
            i['note'] = clean(i['note'], single_line=True)
    for t in A['tables']:
        t['note'] = clean(t['note'])
        t['props'] = [(bare(k, 'pk_%d' % n), clean(v, single_line=True)) for n, (k, v) in enumerate(t['props'])]    # D8 bare keys; D30 multi-line values
        subj_cols = set(v for i in t['indexes'] for k, v in i['subjects'] if k == 'col')
        ren = {}
        for n, c in enumerate(t['columns']):
            if c['name'] in subj_cols and not BARE.match(c['name']):
                ren[c['name']] = 'col_%d' % n                    # D8 index subjects are rendered bare
                c['name'] = ren[c['name']]
            c['note'] = clean(c['note'], single_line=True)
            c['comment'] = None                                  # D15 column comments move above the column and are lost
            c['props'] = [(bare(k, 'ck_%d' % m), clean(v, single_line=True)) for m, (k, v) in enumerate(c['props'])]
            d = c['default']
            if d is not None:
                if d[0] == 'int' and d[1] == 0 or d[0] == 'float' and float(d[1]) == 0 or d[0] == 'bool' and d[1] is False \
                        or d[0] == 'str' and (d[1] == '' or d[1].lower() in ('true', 'false', 'null')):
                    c['default'] = None                          # D11 falsy defaults are dropped; D12 keyword-like strings change kind
                elif d[0] == 'str':
                    c['default'] = ('str', clean(d[1]))
                elif d[0] == 'expr' and '\\' in d[1]:
                    c['default'] = ('expr', d[1].replace('\\', '/'))
        for i in t['indexes']:
            i['subjects'] = [(k, ren.get(v, v)) if k == 'col' else (k, v) for k, v in i['subjects']]
            i['name'] = clean(i['name'], no_sq=True)
            i['note'] = clean(i['note'], single_line=True)
        for x in A['refs']:
            if x['t1'] == (t['schema'], t['name']):
                x['cols1'] = [ren.get(c, c) for c in x['cols1']]
            if x['t2'] == (t['schema'], t['name']):
                x['cols2'] = [ren.get(c, c) for c in x['cols2']]
    for n, x in enumerate(A['refs']):
        if x['form'] == 'inline' and x['kind'] == '<>':
            x['form'] = 'short'                                  # D31 a many-to-many inline reference is rendered standalone, after the tables
        if x['name'] is not None:
            x['name'] = bare(x['name'], 'fkx_%d' % n)            # D8 reference names are rendered bare (the substitute is not a name of the pool)
    for g in A['groups']:
        g['note'] = clean(g['note'])
    # D38 applies to comments as well (they are rendered inside indented bodies)
    def clean_comment(x):
        if x.get('comment'):
            for ch_ in '\x0b\x0c\x1c\x1d\x1e\x85\u2028\u2029':
                x['comment'] = x['comment'].replace(ch_, ' ')
    for e in A['enums']:
        clean_comment(e)
        for i in e['items']:
            clean_comment(i)
    for t in A['tables']:
        clean_comment(t)
        for c in t['columns']:
            clean_comment(c)
        for i in t['indexes']:
            clean_comment(i)
    for x in A['refs']:
        clean_comment(x)
    for g in A['groups']:
        clean_comment(g)
    if A['project']:
        clean_comment(A['project'])
    for n, s_ in enumerate(A['stickies']):
        s_['name'] = bare(s_['name'], 'sticky_%d' % n)           # D8 sticky note names are rendered bare
        s_['text'] = clean(s_['text'])
    if A['project']:
        p = A['project']
        p['note'] = clean(p['note'])
        p['items'] = [(bare(k, 'key_%d' % n), clean(v, no_sq=True, single_line=True)) for n, (k, v) in enumerate(p['items'])]   # D8 keys, D9 values, D32 multi-line values
    return A
