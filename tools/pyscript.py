"""Python side of the op-script language (mirror of coq/model/Script.v and Show.v): interprets a
script against the real PyDBML classes and prints the same canonical observations."""
from common import S, L, O, B, Z, hexs, ostr, exc_name

from pydbml.classes import (Table, Column, Index, Reference, Enum, EnumItem, Note, StickyNote,
                            Expression, Project, TableGroup)
from pydbml.database import Database
from pydbml.renderer.base import BaseRenderer
from pydbml.renderer.sql.default import DefaultSQLRenderer
from pydbml.renderer.dbml.default import DefaultDBMLRenderer

KINDS = {1: Table, 2: Column, 3: Index, 4: Reference, 5: Enum, 6: EnumItem, 7: Note, 8: StickyNote,
         9: Expression, 10: Project, 11: TableGroup}
LETTER = {Table: 'T', Column: 'C', Index: 'I', Reference: 'R', Enum: 'E', EnumItem: 'M', Note: 'N',
          StickyNote: 'S', Expression: 'X', Project: 'P', TableGroup: 'G', Database: 'D'}

ATTRS = {
    Table: {1: 'name', 2: 'schema', 3: 'alias', 4: 'note', 5: 'header_color', 6: 'comment', 7: 'abstract', 8: 'properties'},
    Column: {1: 'name', 2: 'type', 3: 'unique', 4: 'not_null', 5: 'pk', 6: 'autoinc', 7: 'default', 8: 'note', 9: 'comment', 10: 'properties', 11: 'table'},
    Index: {1: 'subjects', 2: 'name', 3: 'unique', 4: 'type', 5: 'pk', 6: 'note', 7: 'comment', 8: 'table'},
    Reference: {1: 'type', 2: 'col1', 3: 'col2', 4: 'name', 5: 'comment', 6: 'on_update', 7: 'on_delete', 8: 'inline'},
    Enum: {1: 'name', 2: 'schema', 3: 'comment', 4: 'items'},
    EnumItem: {1: 'name', 2: 'note', 3: 'comment'},
    Note: {1: 'text'},
    StickyNote: {1: 'name', 2: 'text'},
    Expression: {1: 'text'},
    Project: {1: 'name', 2: 'items', 3: 'note', 4: 'comment'},
    TableGroup: {1: 'name', 2: 'items', 3: 'comment', 4: 'note', 5: 'color'},
    Database: {1: 'allow_properties', 2: 'sql_renderer', 3: 'dbml_renderer'},
}


# ------------------------------------------------------------------ script values (python-side AST)
class V:
    """sval: kind in none,str,bool,int,obj,objs,float,dict,subjects,nat"""
    def __init__(self, kind, val=None):
        self.kind, self.val = kind, val

    def sx(self):
        k, v = self.kind, self.val
        if k == 'none':
            return '(0)'
        if k == 'str':
            return '(1 %s)' % S(v)
        if k == 'bool':
            return '(2 %s)' % B(v)
        if k == 'int':
            return '(3 %s)' % Z(v)
        if k == 'obj':
            return '(4 %d)' % v
        if k == 'objs':
            return '(5 (%s))' % ' '.join(str(x) for x in v)
        if k == 'float':
            return '(6 %s)' % S(v)
        if k == 'dict':
            return '(7 %s)' % D(v)
        if k == 'subjects':
            return '(8 (%s))' % ' '.join('(%d %s)' % (sk, S(sv) if sk == 0 else str(sv)) for sk, sv in v)
        if k == 'nat':
            return '(9 %d)' % v
        raise ValueError(k)

    def __repr__(self):
        return '%s:%r' % (self.kind, self.val)


NONE = V('none')


def vs(s):
    return NONE if s is None else V('str', s)


def D(d):
    return '(' + ' '.join('(%s %s)' % (S(k), S(v)) for k, v in d) + ')'


def OS(s):
    return O(s, S)


def NL(l):
    return '(' + ' '.join(str(x) for x in l) + ')'


class Op:
    def __init__(self, code, *args):
        self.code, self.args = code, args

    def __repr__(self):
        return 'Op%d%r' % (self.code, self.args)

    def sx(self):
        c, a = self.code, self.args
        enc = ENC[c]
        return '(' + ' '.join([str(c)] + [e(x) for e, x in zip(enc, a)]) + ')'


def _v(x):
    return x.sx()


def _ons(l):
    return '()' if l is None else '(' + NL(l) + ')'


def _on(n):
    return '()' if n is None else '(%d)' % n


ENC = {
    10: [S], 11: [S],
    12: [OS, _v, B, B, B, B, _v, _v, OS, D],
    13: [_v, OS, B, OS, B, _v, OS],
    14: [OS, OS, OS, NL, NL, _v, OS, OS, B, D],
    15: [OS, _ons, _ons, OS, OS, OS, OS, B],
    16: [OS, _v, OS],
    17: [OS, lambda l: '(' + ' '.join(x.sx() for x in l) + ')', OS, OS],
    18: [S, S],
    19: [S, D, _v, OS],
    20: [S, NL, OS, _on, OS],
    21: [str, str, B],
    30: [str, str, str], 40: [str, str, str],
    50: [str, str], 51: [str, _v], 52: [str, str], 53: [str, _v], 54: [str, _v],
    60: [str, str, _v],
    70: [str, _v], 71: [str], 72: [str, _v], 73: [str, _v], 74: [str], 75: [str],
    76: [str, str], 78: [str], 80: [str], 81: [str], 82: [], 83: [str], 84: [str, str], 85: [str],
    90: [str, B, str, str, S],
    91: [str, B],
    61: [str, str, S, S],
}


def as_read(text):
    """what open(p, encoding='utf8').read() returns for a file holding `text` (universal newlines)"""
    import io
    return io.TextIOWrapper(io.BytesIO(text.encode('utf8', 'surrogatepass')), encoding='utf8').read()


def parse_op(route, allow, sqlr, dbmlr, text):
    """OParse; for the file routes the case carries the content as read"""
    return Op(90, route, allow, sqlr, dbmlr, as_read(text) if route in (2, 3, 5, 6, 7) else text, text)


def rdefs_sx(rdefs):
    out = []
    for handlers, dbmode in rdefs:
        hs = []
        for kind, h in handlers:
            if h[0] == 'const':
                hs.append('(%d (0 %s))' % (kind, S(h[1])))
            elif h[0] == 'sql':
                hs.append('(%d (1))' % kind)
            else:
                hs.append('(%d (2))' % kind)
        if dbmode[0] == 'const':
            dm = '(0 %s)' % S(dbmode[1])
        elif dbmode[0] == 'sql':
            dm = '(1)'
        else:
            dm = '(2)'
        out.append('((%s) %s)' % (' '.join(hs), dm))
    return '(' + ' '.join(out) + ')'


def script_sx(rdefs, ops):
    return '(2 %s (%s))' % (rdefs_sx(rdefs), ' '.join(o.sx() for o in ops))


# ------------------------------------------------------------------ renderer classes
def make_renderers(rdefs):
    classes = [DefaultSQLRenderer, DefaultDBMLRenderer]
    for handlers, dbmode in rdefs:
        # a partial renderer is either built on BaseRenderer, or extends a default renderer (inheriting render_db) with a registry of
        # its own: the registry of the class in use is what counts, never the one of a parent class
        base = BaseRenderer
        if dbmode[0] == 'dbml' and len(handlers) % 2 == 1:
            base = DefaultDBMLRenderer      # (DefaultSQLRenderer overrides render() with the attribute check, so it is not a neutral base)

        class R(base):
            model_renderers = {}
        for kind, h in handlers:
            if h[0] == 'const':
                R.model_renderers[KINDS[kind]] = (lambda m, s=h[1]: s)
            elif h[0] == 'sql':
                R.model_renderers[KINDS[kind]] = (lambda m: DefaultSQLRenderer.render(m))
            else:
                R.model_renderers[KINDS[kind]] = (lambda m: DefaultDBMLRenderer.render(m))
        if dbmode[0] == 'const':
            R.render_db = classmethod(lambda cls, db, s=dbmode[1]: s)
        elif dbmode[0] == 'sql':
            R.render_db = classmethod(DefaultSQLRenderer.render_db.__func__)
        else:
            R.render_db = classmethod(DefaultDBMLRenderer.render_db.__func__)
        classes.append(R)
    return classes


# ------------------------------------------------------------------ canonical dump
def children(o):
    t = bt(o)
    if t is Table:
        return [o.database] + list(o.columns) + list(o.indexes) + [o.note]
    if t is Column:
        return [o.type if isinstance(o.type, Enum) else None, o.note,
                o.default if isinstance(o.default, Expression) else None, o.table]
    if t is Index:
        subs = [s for s in (o.subjects or []) if isinstance(s, (Column, Expression))]
        return subs + [o.table, o.note]
    if t is Reference:
        return [o.database] + list(o.col1 or []) + list(o.col2 or [])
    if t is Enum:
        return [o.database] + list(o.items or [])
    if t is EnumItem:
        return [o.note]
    if t is Note:
        return [o.parent]
    if t is StickyNote:
        return [o.database]
    if t is Expression:
        return []
    if t is Project:
        return [o.database, o.note]
    if t is TableGroup:
        return [o.database] + list(o.items) + [o.note]
    if t is Database:
        return (list(o.tables) + list(o.table_dict.values()) + list(o.refs) + list(o.enums)
                + list(o.table_groups) + list(o.sticky_notes) + [o.project])
    return []


def bfs(roots):
    order, seen, queue = [], set(), [r for r in roots if r is not None]
    i = 0
    while i < len(queue):
        o = queue[i]
        i += 1
        if id(o) in seen or bt(o) not in LETTER:
            continue
        seen.add(id(o))
        order.append(o)
        queue.extend(c for c in children(o) if c is not None)
    return order


class Dumper:
    def __init__(self, slots, classes):
        self.order = bfs(slots)
        self.num = {id(o): i for i, o in enumerate(self.order)}
        self.classes = classes

    def ptr(self, o):
        if o is None:
            return '~'
        if id(o) in self.num:
            return LETTER[bt(o)] + str(self.num[id(o)])
        return '?'

    def ptrs(self, l):
        if l is None:
            return '~'
        return '[' + ','.join(self.ptr(x) for x in l) + ']'

    def s(self, x):
        if x is None:
            return '~'
        if isinstance(x, str):
            return hexs(x)
        return '?' + repr(x)

    def b(self, x):
        return '1' if x is True else '0' if x is False else '?' + repr(x)

    def d(self, x):
        return '[' + ','.join(hexs(k) + '=' + hexs(v) for k, v in x.items()) + ']'

    def line(self, o):
        t = bt(o)
        p = self.ptr(o)
        f = []
        if t is Table:
            f = [('database', self.ptr(o.database)), ('name', self.s(o.name)), ('schema', self.s(o.schema)),
                 ('columns', self.ptrs(o.columns)), ('indexes', self.ptrs(o.indexes)), ('alias', self.s(o.alias)),
                 ('note', self.ptr(o.note)), ('header_color', self.s(o.header_color)), ('comment', self.s(o.comment)),
                 ('abstract', self.b(o.abstract)), ('properties', self.d(o.properties))]
        elif t is Column:
            ty = self.ptr(o.type) if isinstance(o.type, Enum) else self.s(o.type)
            dv = o.default
            if dv is None:
                ds = '~'
            elif isinstance(dv, bool):
                ds = 'b:' + self.b(dv)
            elif isinstance(dv, int):
                ds = 'i:' + str(dv)
            elif isinstance(dv, float):
                ds = 'f:' + str(dv)
            elif isinstance(dv, str):
                ds = 's:' + hexs(dv)
            elif isinstance(dv, Expression):
                ds = self.ptr(dv)
            else:
                ds = '?' + repr(dv)
            f = [('name', self.s(o.name)), ('type', ty), ('unique', self.b(o.unique)), ('not_null', self.b(o.not_null)),
                 ('pk', self.b(o.pk)), ('autoinc', self.b(o.autoinc)), ('comment', self.s(o.comment)),
                 ('note', self.ptr(o.note)), ('properties', self.d(o.properties)), ('default', ds),
                 ('table', self.ptr(o.table))]
        elif t is Index:
            if o.subjects is None:
                ss = '~'
            else:
                ss = '[' + ','.join(self.ptr(x) if isinstance(x, (Column, Expression)) else self.s(x) for x in o.subjects) + ']'
            f = [('subjects', ss), ('table', self.ptr(o.table)), ('name', self.s(o.name)), ('unique', self.b(o.unique)),
                 ('type', self.s(o.type)), ('pk', self.b(o.pk)), ('note', self.ptr(o.note)), ('comment', self.s(o.comment))]
        elif t is Reference:
            f = [('database', self.ptr(o.database)), ('type', self.s(o.type)), ('col1', self.ptrs(o.col1)),
                 ('col2', self.ptrs(o.col2)), ('name', self.s(o.name)), ('comment', self.s(o.comment)),
                 ('on_update', self.s(o.on_update)), ('on_delete', self.s(o.on_delete)), ('inline', self.b(bool(o.inline)))]
        elif t is Enum:
            f = [('database', self.ptr(o.database)), ('name', self.s(o.name)), ('schema', self.s(o.schema)),
                 ('comment', self.s(o.comment)), ('items', self.ptrs(o.items))]
        elif t is EnumItem:
            f = [('name', self.s(o.name)), ('note', self.ptr(o.note)), ('comment', self.s(o.comment))]
        elif t is Note:
            f = [('text', self.s(o.text)), ('parent', self.ptr(o.parent))]
        elif t is StickyNote:
            f = [('name', self.s(o.name)), ('text', self.s(o.text)), ('database', self.ptr(o.database))]
        elif t is Expression:
            f = [('text', self.s(o.text))]
        elif t is Project:
            f = [('database', self.ptr(o.database)), ('name', self.s(o.name)), ('items', self.d(o.items)),
                 ('note', self.ptr(o.note)), ('comment', self.s(o.comment))]
        elif t is TableGroup:
            f = [('database', self.ptr(o.database)), ('name', self.s(o.name)), ('items', self.ptrs(o.items)),
                 ('comment', self.s(o.comment)), ('note', self.ptr(o.note)), ('color', self.s(o.color))]
        elif t is Database:
            td = '[' + ','.join(hexs(k) + '=' + self.ptr(v) for k, v in o.table_dict.items()) + ']'
            f = [('tables', self.ptrs(o.tables)), ('table_dict', td), ('refs', self.ptrs(o.refs)),
                 ('enums', self.ptrs(o.enums)), ('table_groups', self.ptrs(o.table_groups)),
                 ('sticky_notes', self.ptrs(o.sticky_notes)), ('project', self.ptr(o.project)),
                 ('allow_properties', self.b(o.allow_properties)),
                 ('sql_renderer', str(self.classes.index(o.sql_renderer)) if o.sql_renderer in self.classes else '?'),
                 ('dbml_renderer', str(self.classes.index(o.dbml_renderer)) if o.dbml_renderer in self.classes else '?')]
        return p + ''.join(' %s=%s' % kv for kv in f)


def dump(slots, classes):
    d = Dumper(slots, classes)
    return 'slots=[' + ','.join(d.ptr(s) for s in slots) + ']' + ''.join('|' + d.line(o) for o in d.order)


# ------------------------------------------------------------------ interpreter
_BASES = None


def bt(o):
    """the library class of an object (instances of user subclasses count as instances of the class they extend)"""
    global _BASES
    if _BASES is None:
        _BASES = (Note, Expression, Column, Index, Table, Reference, EnumItem, Enum, StickyNote, Project, TableGroup, Database)
    t = type(o)
    if t in _BASES:
        return t
    for b in t.__mro__:
        if b in _BASES:
            return b
    return t


class Skip(Exception):
    pass


class Interp:
    def __init__(self, rdefs, subclass=False):
        self.classes = make_renderers(rdefs)
        self.slots = []
        K = dict(Note=Note, Expression=Expression, Column=Column, Index=Index, Table=Table, Reference=Reference, EnumItem=EnumItem,
                 Enum=Enum, StickyNote=StickyNote, Project=Project, TableGroup=TableGroup, Database=Database)
        if subclass:
            # every object is an instance of a trivial user subclass of its library class
            K = {k: type('My' + k, (v_,), {}) for k, v_ in K.items()}
        self.K = K

    def slot(self, n):
        if n >= len(self.slots) or self.slots[n] is None:
            raise Skip()
        return self.slots[n]

    def val(self, v):
        k = v.kind
        if k == 'none':
            return None
        if k in ('str', 'bool', 'int'):
            return v.val
        if k == 'float':
            return float(v.val)
        if k == 'obj':
            return self.slot(v.val)
        if k == 'objs':
            return [self.slot(x) for x in v.val]
        if k == 'dict':
            return dict(v.val)
        if k == 'subjects':
            return [sv if sk == 0 else self.slot(sv) for sk, sv in v.val]
        if k == 'nat':
            return v.val
        raise Skip()

    def showlist(self, l):
        out = []
        for o in l:
            idx = next((i for i, s in enumerate(self.slots) if s is o), None)
            out.append('?' if idx is None else '#%d' % idx)
        return '[' + ','.join(out) + ']'

    def run_op(self, op):
        """returns (text, obj_or_None)"""
        c, a = op.code, op.args
        try:
            r = self._exec(c, a)
        except Skip:
            return 'skip', None
        except RecursionError:
            raise
        except Exception as e:  # noqa
            return 'raise ' + exc_name(e), None
        if r is None:
            return 'ok', None
        if isinstance(r, tuple) and r[0] == 'text':
            return 'ok ' + r[1], None
        return 'obj', r

    def _exec(self, c, a):
        sl, val, K = self.slot, self.val, self.K
        if c == 10:
            return K['Note'](a[0])
        if c == 11:
            return K['Expression'](a[0])
        if c == 12:
            n, ty, u, nn, pk, ai, d, nt, cm, p = a
            return K['Column'](name=n, type=val(ty), unique=u, not_null=nn, pk=pk, autoinc=ai, default=val(d),
                          note=val(nt), comment=cm, properties=dict(p))
        if c == 13:
            s, n, u, ty, pk, nt, cm = a
            return K['Index'](subjects=val(s), name=n, unique=u, type=ty, pk=pk, note=val(nt), comment=cm)
        if c == 14:
            n, s, al, cs, is_, nt, hc, cm, ab, p = a
            cols = [sl(x) for x in cs]
            idxs = [sl(x) for x in is_]
            note = val(nt)
            return K['Table'](name=n, schema=s, alias=al, columns=cols, indexes=idxs, note=note, header_color=hc,
                         comment=cm, abstract=ab, properties=dict(p))
        if c == 15:
            ty, c1, c2, n, cm, ou, od, il = a
            def side(cs):
                # a side that lists exactly the columns of a table is passed as that table's own list object (the
                # caller's list must never be kept: Reference copies it)
                l = [sl(x) for x in cs]
                tb = getattr(l[0], 'table', None) if l else None
                own = getattr(tb, 'columns', None)
                if isinstance(own, list) and len(own) == len(l) and all(a_ is b_ for a_, b_ in zip(own, l)):
                    return own
                return l
            col1 = None if c1 is None else side(c1)
            col2 = None if c2 is None else side(c2)
            if col1 is None or col2 is None:
                r = K['Reference'](ty, [], [], name=n, comment=cm, on_update=ou, on_delete=od, inline=il)
                r.col1, r.col2 = (col1, col2)
                return r
            return K['Reference'](ty, col1, col2, name=n, comment=cm, on_update=ou, on_delete=od, inline=il)
        if c == 16:
            n, nt, cm = a
            return K['EnumItem'](n, note=val(nt), comment=cm)
        if c == 17:
            n, its, s, cm = a
            return K['Enum'](n, [val(x) for x in its], schema=s, comment=cm)
        if c == 18:
            return K['StickyNote'](a[0], a[1])
        if c == 19:
            n, its, nt, cm = a
            return K['Project'](n, items=dict(its), note=val(nt), comment=cm)
        if c == 20:
            n, its, cm, nt, col = a
            return K['TableGroup'](n, [sl(x) for x in its], comment=cm, note=None if nt is None else sl(nt), color=col)
        if c == 21:
            return K['Database'](sql_renderer=self.classes[a[0]], dbml_renderer=self.classes[a[1]], allow_properties=a[2])
        if c == 30:
            m, d, o = a
            db, ob = sl(d), sl(o)
            f = [db.add, db.add_table, db.add_reference, db.add_enum, db.add_table_group, db.add_project, db.add_sticky_note][min(m, 6)]
            f(ob)
            return ob
        if c == 40:
            m, d, o = a
            db, ob = sl(d), sl(o)
            if m >= 5:
                return db.delete_project()
            f = [db.delete, db.delete_table, db.delete_reference, db.delete_enum, db.delete_table_group][m]
            return f(ob)
        if c == 50:
            sl(a[0]).add_column(sl(a[1]))
            return None
        if c == 51:
            return sl(a[0]).delete_column(val(a[1]))
        if c == 52:
            sl(a[0]).add_index(sl(a[1]))
            return None
        if c == 53:
            return sl(a[0]).delete_index(val(a[1]))
        if c == 54:
            sl(a[0]).add_item(val(a[1]))
            return None
        if c == 60:
            ob = sl(a[0])
            name = ATTRS.get(bt(ob), {}).get(a[1])
            if name is None:
                raise Skip()
            v = val(a[2])
            if bt(ob) is Database and a[1] in (2, 3):
                v = self.classes[v]
            setattr(ob, name, v)
            return None
        if c == 70:
            return sl(a[0])[val(a[1])]
        if c == 71:
            return ('text', self.showlist(list(iter(sl(a[0])))))
        if c == 72:
            return sl(a[0])[val(a[1])]
        if c == 73:
            return sl(a[0]).get(val(a[1]))
        if c == 74:
            return ('text', self.showlist(sl(a[0]).get_refs()))
        if c == 75:
            return ('text', self.showlist(sl(a[0]).get_refs()))
        if c == 76:
            r = sl(a[1])
            return r.table1 if a[0] == 1 else r.table2
        if c == 78:
            return sl(a[0]).join_table
        if c == 80:
            return ('text', hexs(sl(a[0]).sql))
        if c == 81:
            return ('text', hexs(sl(a[0]).dbml))
        if c == 82:
            return ('text', dump(self.slots, self.classes))
        if c == 83:
            ob = sl(a[0])
            if bt(ob) not in (Table, Column, Index, EnumItem, Project, TableGroup):
                raise Skip()
            return ob.note
        if c == 84:
            return ('text', '1' if sl(a[0]) == sl(a[1]) else '0')
        if c == 85:
            return getattr(sl(a[0]), 'database', None)
        if c == 90:
            return self.parse(*a)
        if c == 61:
            ob = sl(a[0])
            name = ATTRS.get(bt(ob), {}).get(a[1])
            if name not in ('properties', 'items') or bt(ob) is TableGroup:
                raise Skip()
            getattr(ob, name)[a[2]] = a[3]
            return None
        if c == 91:
            from pydbml import PyDBML
            return PyDBML(sl(a[0]).dbml, allow_properties=a[1])
        raise Skip()


def _parse(self, route, allow, sqlr, dbmlr, text_model, text=None):
    import os
    import tempfile
    from pathlib import Path
    from pydbml import PyDBML
    if text is None:
        text = text_model
    kw = dict(allow_properties=allow, sql_renderer=self.classes[sqlr], dbml_renderer=self.classes[dbmlr])
    if route == 0:
        return PyDBML(text, **kw)
    if route == 1:
        return PyDBML.parse(text, **kw)
    if route == 4:
        return PyDBML().parse(text, **kw)
    if route == 8:
        return PyDBML(12345, **kw)
    d = tempfile.mkdtemp(prefix='verif_entry_', dir='/var/tmp')
    p = os.path.join(d, 'doc.dbml')
    try:
        with open(p, 'w', encoding='utf8', newline='') as f:
            f.write(text)
        if route == 2:
            return PyDBML(Path(p), **kw)
        if route == 3:
            with open(p, encoding='utf8') as f:
                return PyDBML(f, **kw)
        if route == 5:
            return PyDBML.parse_file(p)
        if route == 6:
            return PyDBML.parse_file(Path(p))
        if route == 7:
            with open(p, encoding='utf8') as f:
                return PyDBML.parse_file(f)
    finally:
        try:
            os.remove(p)
            os.rmdir(d)
        except OSError:
            pass
    raise Skip()


Interp.parse = _parse


def run_script(rdefs, ops):
    it = Interp(rdefs)
    outs = []
    for op in ops:
        text, obj = it.run_op(op)
        it.slots.append(obj)
        outs.append(text)
    return ';'.join(outs)
