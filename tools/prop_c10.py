import prop_api


def run(v, tier, st, pr):
    prop_api.run(v, tier, st, pr, 'C10')
