"""Stream `text`: the text helpers of pydbml.tools / renderer utils and the PyStr primitives
they are modelled with, implementation vs extracted model, on exhaustive short strings over
critical alphabets plus random longer ones."""
import re
import textwrap

from common import S, L, hexs, exc_name, run_model, all_strings, rng


def impl_table():
    from pydbml import tools
    from pydbml.renderer.dbml.default import utils as du
    from pydbml.renderer.sql.default import utils as su
    from pydbml.renderer.sql.default import note as sn
    from pydbml.parser.blueprints import NoteBlueprint
    from pydbml.classes import Note

    def strs(l):
        return '[' + ','.join(hexs(x) for x in l) + ']'

    T = {
        1: ('comment', 2, lambda a, b: hexs(tools.comment(a, b))),
        3: ('remove_bom', 1, lambda a: hexs(tools.remove_bom(a))),
        4: ('strip_empty_lines', 1, lambda a: hexs(tools.strip_empty_lines(a))),
        5: ('doublequote_string', 1, lambda a: hexs(tools.doublequote_string(a))),
        6: ('remove_indentation', 1, lambda a: hexs(tools.remove_indentation(a))),
        7: ('preformat', 1, lambda a: hexs(NoteBlueprint(a)._preformat_text())),
        8: ('prepare_text_for_dbml', 1, lambda a: hexs(du.prepare_text_for_dbml(a))),
        9: ('quote_string', 1, lambda a: hexs(du.quote_string(a))),
        10: ('note_option_to_dbml', 1, lambda a: hexs(du.note_option_to_dbml(Note(a)))),
        11: ('prepare_text_for_sql', 1, lambda a: hexs(sn.prepare_text_for_sql(Note(a)))),
        12: ('textwrap_indent', 2, lambda a, b: hexs(textwrap.indent(a, b))),
        13: ('expandtabs', 1, lambda a: hexs(a.expandtabs())),
        14: ('split_lf', 1, lambda a: strs(a.split('\n'))),
        15: ('strip_chars', 2, lambda cs, a: hexs(a.strip(cs)) if cs else None),
        16: ('splitlines_keep', 1, lambda a: strs(a.splitlines(True))),
        17: ('upper', 1, lambda a: hexs(a.upper())),
        18: ('lower', 1, lambda a: hexs(a.lower())),
        19: ('strip_ws', 1, lambda a: hexs(a.strip())),
        20: ('isspace', 1, lambda a: '1' if a.isspace() else '0'),
        21: ('comment_to_dbml', 1, lambda a: hexs(du.comment_to_dbml(a))),
        22: ('comment_to_sql', 1, lambda a: hexs(su.comment_to_sql(a))),
        23: ('rstrip_chars', 2, lambda cs, a: hexs(a.rstrip(cs)) if cs else None),
    }
    return T


def impl_indent(a, n):
    from pydbml import tools
    return hexs(tools.indent(a, n))


ALPHA_NOTE = ['a', ' ', '\n', '\t', "'", '\\', '\r', '\xa0']
ALPHA_QUOTE = ['a', ' ', '\n', "'", '"', '\\', '`', '{', '#']
ALPHA_LINES = ['a', ' ', '\n', '\r', '\x0c', '\x1c', '\x85', ' ', '\t']
SAMPLE_NONASCII = ['é', 'Ж', '中', '💸', '✔', '\xa0', ' ', '\x85']


def gen_cases(tier):
    """yields (fn, args) with args python strs (or int for indent)"""
    r = rng('text')
    n1 = 4 if tier == 'quick' else 6
    n2 = 4 if tier == 'quick' else 5
    for s in all_strings(ALPHA_NOTE, n1):
        for fn in (4, 6, 7, 19, 20):
            yield fn, (s,)
    for s in all_strings(ALPHA_QUOTE, n2):
        for fn in (5, 8, 9, 10, 11, 1, 21, 22):
            yield fn, ((s, '//') if fn == 1 else (s,))
    for s in all_strings(ALPHA_LINES, n2):
        yield 12, (s, '    ')
        yield 16, (s,)
        yield 13, (s,)
        yield 14, (s,)
    for s in all_strings(['a', '"', '(', ')', ' ', ','], 4):
        yield 15, ('"', s)
        yield 15, ('() ', s)
        yield 23, (',', s)
        yield 23, ('\n', s.replace(',', '\n'))
    for s in all_strings(['a', 'Z', 'z', '0', '_', ' ', '中'], 3):   # case mapping: ASCII + caseless scripts (DESIGN 3.1)
        yield 17, (s,)
        yield 18, (s,)
    for s in all_strings(['a', '\n', ' '], 4):
        for k in (0, 2, 4):
            yield 2, (s, k)
    yield 3, ('﻿abc',)
    yield 3, ('﻿﻿abc',)
    yield 3, ('abc',)
    yield 3, ('',)
    # random longer strings
    alph = ALPHA_NOTE + ALPHA_QUOTE + SAMPLE_NONASCII + ['b', 'c', '(', ')', '[', ']', '/', '*', '-']
    nrand = 3000 if tier == 'quick' else 40000
    for _ in range(nrand):
        ln = r.randint(5, 40)
        # mostly-structured: lines with indentation
        if r.random() < 0.6:
            lines = []
            for _ in range(r.randint(1, 6)):
                ind = ' ' * r.choice([0, 0, 2, 4, 4, 8]) if r.random() < 0.8 else '\t'
                body = ''.join(r.choice(alph) for _ in range(r.randint(0, 6))) if r.random() < 0.8 else ''
                lines.append(ind + body)
            s = '\n'.join(lines)
        else:
            s = ''.join(r.choice(alph) for _ in range(ln))
        fn = r.choice([1, 4, 5, 6, 7, 8, 9, 10, 11, 12, 13, 14, 16, 19, 20, 21, 22])
        if fn == 1:
            yield fn, (s, r.choice(['//', '--']))
        elif fn == 12:
            yield fn, (s, r.choice(['    ', '  ', '        ']))
        else:
            yield fn, (s,)


def run(tier, only_fns=None):
    """returns dict with cases, disagreements (list), distribution"""
    T = impl_table()
    cases = []
    seen = set()
    for fn, args in gen_cases(tier):
        if only_fns and fn not in only_fns:
            continue
        key = (fn, args)
        if key in seen:
            continue
        seen.add(key)
        cases.append(key)
    lines = []
    for fn, args in cases:
        if fn == 2:
            lines.append(L(['1', '2', S(args[0]), str(args[1])]))
        else:
            lines.append(L(['1', str(fn)] + [S(a) for a in args]))
    model_out = run_model(lines)
    dis = []
    dist = {}
    outcomes = {'ok': 0, 'raise': 0}
    distinct = set()
    for (fn, args), mo in zip(cases, model_out):
        name = 'indent' if fn == 2 else T[fn][0]
        dist[name] = dist.get(name, 0) + 1
        try:
            if fn == 2:
                io = 'ok ' + impl_indent(*args)
            else:
                io = 'ok ' + T[fn][2](*args)
        except Exception as e:  # noqa
            io = 'raise ' + exc_name(e)
        outcomes['ok' if io.startswith('ok') else 'raise'] += 1
        if io != mo:
            dis.append({'stream': 'text', 'fn': name, 'args': [a if isinstance(a, int) else hexs(a) for a in args],
                        'args_repr': repr(args), 'impl': io, 'model': mo})
        if len(args[0]) > 0 if isinstance(args[0], str) else True:
            distinct.add((fn, io))
    return {'cases': len(cases), 'disagreements': dis, 'by_function': dist, 'outcomes': outcomes,
            'distinct_nontrivial': len(distinct),
            'samples': [{'fn': ('indent' if c[0] == 2 else T[c[0]][0]), 'args': repr(c[1])} for c in cases[1000:1003]]}
