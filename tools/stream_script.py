"""Run op scripts on the implementation and on the extracted model; compare observation by observation."""
import multiprocessing as mp
import pyscript
from common import run_model, NPROC


def _impl(job):
    rdefs, ops = job
    try:
        return pyscript.run_script(rdefs, ops)
    except RecursionError:
        return 'HARNESS-RECURSION'


def run_impl(jobs):
    if len(jobs) < 64:
        return [_impl(j) for j in jobs]
    ctx = mp.get_context('fork')
    with ctx.Pool(NPROC) as pool:
        return pool.map(_impl, jobs, chunksize=max(1, len(jobs) // (NPROC * 8)))


# model outcomes that mean: this input lies outside a documented window of the model (not a disagreement).
# 310: a float literal with more than 15 significant digits (its repr needs correctly rounded binary conversion)
OUTSIDE_MODEL = {'raise MODEL-STUCK-310'}


def compare(jobs, stream, tags=None, impl_outs=None):
    """jobs: list of (rdefs, ops). returns dict(cases, disagreements, outcomes, ops, impl_outs)"""
    lines = [pyscript.script_sx(rd, ops) for rd, ops in jobs]
    mouts = run_model(lines)
    iouts = impl_outs if impl_outs is not None else run_impl(jobs)
    dis = []
    outside = {}
    outcomes = {}
    nops = 0
    distinct = set()
    for idx, ((rd, ops), mo, io) in enumerate(zip(jobs, mouts, iouts)):
        ml, il = mo.split(';'), io.split(';')
        nops += len(ops)
        for t in il:
            k = t.split(' ')[0] if not t.startswith('raise') else t
            outcomes[k] = outcomes.get(k, 0) + 1
        distinct.add(hash(io))
        if mo != io:
            first = next((i for i, (a, b) in enumerate(zip(ml, il)) if a != b), min(len(ml), len(il)))
            if first < len(ml) and ml[first] in OUTSIDE_MODEL:
                # a documented window of the model (DESIGN 3.1): the case is not compared, and is counted
                outside[ml[first]] = outside.get(ml[first], 0) + 1
                continue
            d = {'stream': stream, 'script_index': idx, 'first_differing_op': first,
                 'op': repr(ops[first]) if first < len(ops) else None,
                 'model': (ml[first] if first < len(ml) else None),
                 'impl': (il[first] if first < len(il) else None),
                 'script': [repr(o) for o in ops[:first + 1]], 'rdefs': repr(rd)}
            if tags:
                d['tag'] = tags[idx]
            if len(str(d)) > 6000:
                d['script'] = d['script'][-12:]
                d['model'] = str(d['model'])[:1500]
                d['impl'] = str(d['impl'])[:1500]
            dis.append(d)
    return {'cases': len(jobs), 'ops': nops, 'disagreements': dis, 'outcomes': outcomes, 'outside_model_window': outside,
            'distinct_nontrivial': len(distinct), 'impl_outs': iouts, 'model_outs': mouts}


def strip(res):
    return {k: v for k, v in res.items() if k not in ('impl_outs', 'model_outs')}
