"""Entry point of every registered check."""
import argparse
import importlib
import json
import os
import sys
import traceback

import buildsys
from common import Verdict, tier as get_tier, machinery_error, VERIF

LEVELS = json.load(open(os.path.join(VERIF, 'tools', 'levels.json')))


def main():
    ap = argparse.ArgumentParser()
    ap.add_argument('pid')
    ap.add_argument('--tier', default=None)
    ap.add_argument('--replay', default=None)
    a = ap.parse_args()
    pid = a.pid.upper()
    tr = get_tier(a.tier)
    try:
        mod = importlib.import_module('prop_' + pid.lower())
    except ImportError as e:
        machinery_error('no check module for %s: %s' % (pid, e))
    st = buildsys.ensure_built()
    if not st.get('driver_ok'):
        machinery_error('model does not build: ' + st.get('driver_log', '') + buildsys.error_excerpt(st.get('make_log', '')))
    pr = buildsys.compile_props(pid)
    v = Verdict(pid, tr, LEVELS.get(pid, 'other'))
    if a.replay:
        return mod.replay(a.replay)
    try:
        mod.run(v, tr, st, pr)
    except SystemExit:
        raise
    except Exception:
        machinery_error('check crashed:\n' + traceback.format_exc())
    rc = v.finish()
    sys.exit(rc)


if __name__ == '__main__':
    main()
