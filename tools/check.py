"""Entry point of every registered check."""
import argparse
import importlib
import json
import os
import sys
import traceback

import buildsys
from common import Verdict, tier as get_tier, machinery_error, VERIF

LEVELS = json.load(open(os.path.join(VERIF, 'tools', 'levels.json')))


def show_recorded(rec):
    d = rec['data']
    print('replaying %s: property=%s tier=%s seed=%s cause=%s' % (rec['path'], d.get('property'), d.get('tier'), d.get('seed'), d.get('cause')))
    if d.get('clause'):
        print('  clause: %s' % d['clause'])
    if d.get('detail'):
        print('  recorded detail: %s' % str(d['detail'])[:400])
    inp = d.get('input')
    if isinstance(inp, dict) and inp.get('kind') == 'document' and 'text' in inp:
        # what the implementation does with the recorded document now
        sys.path.insert(0, os.environ.get('VERIF_REPO', '/repo'))
        try:
            from pydbml import PyDBML
            kw = {}
            if inp.get('allow_properties'):
                kw['allow_properties'] = True
            try:
                db = PyDBML(inp['text'], **kw)
                print('  the implementation now accepts the recorded document: %d tables, %d refs, %d enums' % (len(db.tables), len(db.refs), len(db.enums)))
            except Exception as e:   # noqa
                print('  the implementation now rejects the recorded document: %s.%s' % (type(e).__module__, type(e).__name__))
        except Exception as e:   # noqa
            print('  (pydbml cannot be imported: %r)' % (e,))
    print('re-running the %s check with the recorded seed: the same inputs are generated and judged again' % d.get('property'), flush=True)


def main():
    ap = argparse.ArgumentParser()
    ap.add_argument('pid')
    ap.add_argument('--tier', default=None)
    ap.add_argument('--replay', default=None)
    a = ap.parse_args()
    pid = a.pid.upper()
    tr = get_tier(a.tier)
    try:
        mod = importlib.import_module('prop_' + pid.lower())
    except ImportError as e:
        machinery_error('no check module for %s: %s' % (pid, e))
    rec = None
    if a.replay:
        try:
            rec = {'path': os.path.abspath(a.replay), 'data': json.load(open(a.replay))}
        except (OSError, ValueError) as e:
            machinery_error('replay file %s cannot be read: %s' % (a.replay, e))
        if rec['data'].get('property', pid) != pid:
            machinery_error('replay file %s belongs to property %s, not %s' % (a.replay, rec['data'].get('property'), pid))
        os.environ['VERIF_SEED'] = str(rec['data'].get('seed', 0))
        tr = get_tier(rec['data'].get('tier'))
        show_recorded(rec)
    st = buildsys.ensure_built()
    if not st.get('driver_ok'):
        machinery_error('model does not build: ' + st.get('driver_log', '') + buildsys.error_excerpt(st.get('make_log', '')))
    pr = buildsys.compile_props(pid)
    v = Verdict(pid, tr, LEVELS.get(pid, 'other'))
    v.replaying = rec
    try:
        mod.run(v, tr, st, pr)
    except SystemExit:
        raise
    except Exception:
        machinery_error('check crashed:\n' + traceback.format_exc())
    rc = v.finish()
    sys.exit(rc)


if __name__ == '__main__':
    main()
