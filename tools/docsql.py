"""Document-level clause of C03/C04: a generated document is parsed, its .sql is read back with the independent
DDL reader and compared with the statement list computed from a database built through the public API from the
document's *abstract description* (docgen's expected content) — never from what the parser produced."""
import contentdb
import docgen
import sqloracle
import sqlread
from common import rng


D38_CHARS = '\x0b\x0c\x1c\x1d\x1e\x85\u2028\u2029'
D38_WITNESS = "Table t {\n  id varchar [default: 'a\x0cb']\n  k int\n}"


def restrict(A):
    """D38 (seen through C03): a string default holding a str.splitlines boundary other than LF gains blanks inside
    CREATE TABLE, whose body lines are indented with textwrap.indent; such defaults are mapped into the domain"""
    for t in A['tables']:
        for c in t['columns']:
            d = c['default']
            if d and d[0] == 'str':
                v = d[1]
                for ch_ in D38_CHARS:
                    v = v.replace(ch_, ' ')
                c['default'] = ('str', v)


def gen_jobs(n, tag):
    r = rng(tag)
    jobs = []
    for i in range(n):
        A = docgen.gen_schema(r)
        restrict(A)
        st = docgen.Style(r, level=r.choice([0, 1, 1]))
        text, exp = docgen.render_doc(A, st, False)
        jobs.append((text, exp))
    return jobs


def witness_d38():
    """True when D38 still shows in the DDL"""
    from pydbml import PyDBML
    try:
        sql = PyDBML(D38_WITNESS).sql
    except Exception:   # noqa
        return False
    return "'a\x0cb'" not in sql


def check_doc(job):
    """returns {'skip': reason} or {'diffs': [(prop, desc)], 'text': ...}"""
    from pydbml import PyDBML
    text, exp = job
    try:
        db = PyDBML(text)
    except Exception as e:   # noqa
        return {'skip': 'parse raised %s' % type(e).__name__}
    try:
        sql = db.sql
    except Exception as e:   # noqa
        # D5 (C08): the SQL of a reference passes through str.format, so a brace in anything a reference mentions may raise; a document
        # whose references mention no brace must render
        def has_brace(x):
            return isinstance(x, str) and ('{' in x or '}' in x)
        d5 = any(has_brace(v) for rf in exp['refs'] for v in [rf.get('name'), rf.get('comment'), rf['t1'][0], rf['t1'][1], rf['t2'][0], rf['t2'][1]]
                 + list(rf['cols1']) + list(rf['cols2']))
        if d5:
            return {'skip': 'render raised %s (D5 domain)' % type(e).__name__}
        return {'diffs': [('C03', 'the DDL of the parsed document cannot be rendered: %s.%s' % (type(e).__module__, type(e).__name__))], 'text': text}
    try:
        got = sqlread.read_ddl(sql)
    except (sqlread.ReadError, ValueError) as e:
        return {'diffs': [(sqloracle.read_error_owner(db), 'the DDL of the parsed document is not readable as the DDL the property describes: %r' % (e,))], 'text': text}
    try:
        spec_db = contentdb.build(exp)
    except Exception as e:   # noqa
        return {'skip': 'content not buildable through the API: %s' % type(e).__name__}
    ntab = len(spec_db.tables)
    names = sqlread.table_order(got)[:ntab]
    by_name = {}
    for t in spec_db.tables:
        by_name.setdefault((t.schema, t.name), []).append(t)
    order = []
    for n in names:
        if by_name.get(n):
            order.append(by_name[n].pop(0))
    if len(order) != ntab:
        return {'diffs': [('C03', 'CREATE TABLE statements %r are not a permutation of the declared tables' % (names,))], 'text': text}
    want = sqlread.spec_ddl(spec_db, order=order, qualify=True)
    diffs = sqloracle.diff_stmts(got, want)
    if diffs and not sqloracle.diff_stmts(got, sqlread.spec_ddl(spec_db, order=order, qualify=False)):
        diffs = []     # D2
    return {'diffs': diffs, 'text': text}
