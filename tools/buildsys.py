"""Build orchestration: regenerate coq/gen from /repo, make the Coq development (full .vo),
extract + compile the OCaml driver, compile one property file with Print Assumptions."""
import fcntl
import os
import re
import subprocess
import sys
import time
import hashlib

from common import VERIF, COQ, BUILD, REPO, machinery_error

PY = '/venv/bin/python'
FORBIDDEN = re.compile(r'\b(Admitted|admit|Axiom|Parameter|Conjecture|Abort All|Unset Guard Checking|'
                       r'bypass_check|Unset Positivity Checking|Unset Universe Checking|Admit Obligations)\b')


def sh(cmd, cwd=None, timeout=3600, env=None):
    p = subprocess.run(cmd, shell=True, cwd=cwd, capture_output=True, text=True, timeout=timeout, env=env)
    return p.returncode, p.stdout + p.stderr


class Lock:
    def __enter__(self):
        os.makedirs(BUILD, exist_ok=True)
        self.f = open(os.path.join(BUILD, 'lock'), 'w')
        fcntl.flock(self.f, fcntl.LOCK_EX)
        return self

    def __exit__(self, *a):
        fcntl.flock(self.f, fcntl.LOCK_UN)
        self.f.close()


def file_digest(paths):
    h = hashlib.sha256()
    for p in sorted(paths):
        try:
            h.update(open(p, 'rb').read())
        except OSError:
            h.update(b'<missing>')
    return h.hexdigest()


def regenerate():
    """run the translator against /repo; returns (ok, log). Writes coq/gen/*.v only on change."""
    tr = os.path.join(VERIF, 'tools', 'translate.py')
    if not os.path.exists(tr):
        return True, 'no translator yet'
    env = dict(os.environ, PYTHONPATH=REPO + ':' + os.path.join(VERIF, 'tools'), PYTHONHASHSEED='0')
    rc, out = sh('%s %s --out %s' % (PY, tr, os.path.join(COQ, 'gen')), cwd=REPO, env=env, timeout=300)
    return rc == 0, out


def scan_forbidden():
    bad = []
    for root, _, files in os.walk(COQ):
        for fn in files:
            if fn.endswith('.v'):
                p = os.path.join(root, fn)
                txt = open(p).read()
                txt_nc = re.sub(r'\(\*.*?\*\)', '', txt, flags=re.S)
                for m in FORBIDDEN.finditer(txt_nc):
                    bad.append('%s: %s' % (os.path.relpath(p, COQ), m.group(0)))
    return bad


def ensure_built(verbose=False):
    """returns dict: translator_ok, translator_log, make_ok, make_log, failed (list of .v that did not compile)"""
    st = {}
    with Lock():
        t0 = time.time()
        ok, log = regenerate()
        st['translator_ok'] = ok
        st['translator_log'] = log[-4000:]
        bad = scan_forbidden()
        if bad:
            machinery_error('forbidden construct in the Coq development: ' + '; '.join(bad))
        if not os.path.exists(os.path.join(COQ, 'Makefile')):
            rc, out = sh('coq_makefile -f _CoqProject -o Makefile', cwd=COQ)
            if rc != 0:
                machinery_error('coq_makefile failed: ' + out)
        rc, out = sh('timeout 3000 make -k -j16 2>&1', cwd=COQ, timeout=3100)
        st['make_ok'] = rc == 0
        st['make_log'] = out
        vfiles = [l.strip() for l in open(os.path.join(COQ, '_CoqProject')) if l.strip().endswith('.v')]
        st['failed'] = [v for v in vfiles if not os.path.exists(os.path.join(COQ, v + 'o'))]
        # extraction + driver, keyed on the digest of everything the model depends on
        main_vo = os.path.join(COQ, 'extract', 'Main.vo')
        if not os.path.exists(main_vo):
            st['driver_ok'] = False
            st['driver_log'] = 'extract/Main.vo missing:\n' + error_excerpt(out)
        else:
            stamp = os.path.join(COQ, 'extract', 'driver.stamp')
            dig = file_digest([main_vo, os.path.join(COQ, 'extract', 'driver.ml'), os.path.join(COQ, 'extract', 'Extract.v')])
            old = open(stamp).read() if os.path.exists(stamp) else ''
            if old != dig or not os.path.exists(os.path.join(COQ, 'extract', 'driver')):
                rc, o1 = sh('rm -f driver && coqc -Q .. PyDBML Extract.v 2>&1 && '
                            'ocamlfind ocamlopt -O2 -w -a model.mli model.ml driver.ml -o driver 2>&1',
                            cwd=os.path.join(COQ, 'extract'), timeout=900)
                if rc != 0 or not os.path.exists(os.path.join(COQ, 'extract', 'driver')):
                    machinery_error('extraction / OCaml build failed:\n' + o1[-3000:])
                open(stamp, 'w').write(dig)
            st['driver_ok'] = True
        st['build_s'] = round(time.time() - t0, 1)
    return st


def error_excerpt(log, file=None, n=40):
    lines = log.split('\n')
    out = []
    for i, l in enumerate(lines):
        if l.startswith('File "') and (file is None or file in l):
            blk = lines[i:i + 12]
            if any('Error' in b for b in blk):
                out.extend(blk)
                out.append('...')
        if len(out) > n:
            break
    return '\n'.join(out)


def compile_props(pid):
    """compile props/<pid>.v afresh; returns dict(ok, theorems, discharged, assumptions, log)"""
    src = os.path.join(COQ, 'props', pid + '.v')
    res = {'ok': False, 'theorems': [], 'discharged': 0, 'assumptions': {}, 'log': ''}
    if not os.path.exists(src):
        res['log'] = 'no theorem file'
        return res
    txt = open(src).read()
    txt_nc = re.sub(r'\(\*.*?\*\)', '', txt, flags=re.S)
    res['theorems'] = re.findall(r'^\s*(?:Theorem|Corollary)\s+(\w+)', txt_nc, flags=re.M)
    with Lock():
        rc, out = sh('timeout 900 coqc -Q . PyDBML props/%s.v 2>&1' % pid, cwd=COQ, timeout=1000)
    res['log'] = out[-6000:]
    res['ok'] = rc == 0
    # Print Assumptions output: either "Closed under the global context" or "Axioms:" + list
    closed = out.count('Closed under the global context')
    ax_blocks = re.findall(r'Axioms:\n((?:.+\n)+?)(?=\n|\Z)', out)
    res['discharged'] = len(res['theorems']) if rc == 0 else min(closed + len(ax_blocks), len(res['theorems']))
    res['assumptions'] = {'closed': closed, 'axiom_blocks': ax_blocks}
    return res
