"""C09 — the container stays consistent under any sequence of add, delete and rename."""
import multiprocessing as mp

import gen_container
import pyscript
import stream_script
import verdicts
from common import rng, NPROC, load_known_findings
from pyscript import Op

VALIDATION = ('pydbml.exceptions.',)


def _names(t):
    ks = ['%s.%s' % (t.schema, t.name)]
    if t.alias:
        ks.append(t.alias)
    return ks


def check_history(job):
    """Implementation-side statement of C09 with an independent abstract container (python lists).
    returns list of failure dicts (each with 'class' for known-finding matching)"""
    labels, ops, npre = job[:3]
    from pydbml.classes import Table, Reference, Enum, TableGroup, Project, StickyNote, Column, Index
    # job[3]: every object is an instance of a trivial user subclass of its library class (a subclass of Table is a table)
    it = pyscript.Interp([], subclass=(len(job) > 3 and job[3]))
    for op in ops[:npre]:
        t, o = it.run_op(op)
        it.slots.append(o)
    pre, R = gen_container.universe()
    db = it.slots[R['db']]
    spec = {'tables': [], 'refs': [], 'enums': [], 'groups': [], 'stickies': [], 'project': None}
    removed = []
    renamed = False          # a contained table was renamed (D6 territory)
    fails = []

    def snapshot():
        return pyscript.dump(it.slots, it.classes)

    taints = set()
    MASK = {
        'D6': ('lookup by current name fails', 'name index holds a key of no contained table', 'non-validation exception',
               'rejected operation changed the state', 'lookup by current name finds another table',
               'duplicate table name/alias accepted',
               # consequences of the non-atomic delete_table (table popped and detached before the KeyError)
               'iteration does not list exactly the contained tables in insertion order', 'positional lookup raised',
               'positional lookup wrong', 'contained object does not point back to the database',
               # delete_table returns / unlinks whatever the stale key points to
               'removed object still points to a database', 'delete returned an object that was not contained'),
        'D23': ('non-validation exception', 'rejected operation changed the state', 'column in the list does not point to its table',
                'index in the list does not point to its table', 'column points to a table that does not list it',
                'index points to a table that does not list it'),
        'D24': ('column listed twice', 'column in the list does not point to its table', 'index in the list does not point to its table',
                'column points to a table that does not list it', 'index points to a table that does not list it'),
        'D36': ('non-validation exception', 'rejected operation changed the state',
                'iteration does not list exactly the contained tables in insertion order', 'positional lookup raised',
                'positional lookup wrong', 'contained object does not point back to the database',
                'name index holds a key of no contained table', 'lookup by current name fails'),
        'D25': ('contained object does not point back to the database', 'removed object still points to a database'),
    }

    def fail(kind, detail, cls_unused):
        cls = 'new'
        for t in ('D6', 'D36', 'D23', 'D24', 'D25'):
            if t in taints and kind in MASK[t]:
                if t == 'D6' and kind == 'non-validation exception' and 'KeyError' not in detail:
                    continue
                if t == 'D23' and kind == 'non-validation exception' and 'ValueError' not in detail:
                    continue
                if t == 'D36' and kind == 'non-validation exception' and 'KeyError' not in detail:
                    continue
                cls = t
                break
        fails.append({'kind': kind, 'detail': detail, 'class': cls, 'history': labels[:step + 1]})

    # expected child lists of every table: what was added and not deleted, in order, by identity
    exp_cols = {id(t_): list(t_.columns) for t_ in it.slots if isinstance(t_, Table)}
    exp_idxs = {id(t_): list(t_.indexes) for t_ in it.slots if isinstance(t_, Table)}
    step = -1
    hist_ops = [op for op in ops[npre:] if op.code in (30, 40, 50, 51, 52, 53, 54, 60)]
    for step, op in enumerate(hist_ops):
        before = snapshot()
        target_db = op.code in (30, 40) and it.slots[op.args[1]] is db
        obj = it.slots[op.args[2]] if op.code in (30, 40) else None
        d23 = False
        if op.code in (51, 53) and op.args[1].kind == 'obj':
            tab = it.slots[op.args[0]]
            arg = it.slots[op.args[1].val]
            members = tab.columns if op.code == 51 else tab.indexes
            # the library detaches the argument before it searches the list: a column compares its table's name, so a
            # detached column is equal to no attached sibling; the first member the search can stop at is computed the same way
            saved_tab = getattr(arg, 'table', None)
            try:
                if op.code == 51 and any(arg is m for m in members):
                    arg.table = None
                first_eq = next((m for m in members if m == arg), None)
            finally:
                if op.code == 51 and any(arg is m for m in members):
                    arg.table = saved_tab
            d23 = first_eq is not None and first_eq is not arg
        if op.code == 60 and isinstance(it.slots[op.args[0]], Table) and op.args[1] in (1, 2, 3) \
                and any(it.slots[op.args[0]] is t for t in spec['tables']):
            renamed = True
            taints.add('D6')
        if d23:
            taints.add('D23')
        if op.code == 40 and isinstance(obj, Table) and obj.alias == '%s.%s' % (obj.schema, obj.name) \
                and any(obj is t for t in spec['tables']):
            taints.add('D36')      # delete of a contained table whose alias equals its own full name
        if op.code == 30:
            o_ = it.slots[op.args[2]]
            d_ = it.slots[op.args[1]]
            if getattr(o_, 'database', None) is not None and getattr(o_, 'database', None) is not d_:
                taints.add('D25')      # object already contained in another Database
        if op.code in (50, 52):
            arg = it.slots[op.args[1]]
            if isinstance(arg, (Column, Index)) and arg.table is not None:
                taints.add('D24')      # add_column / add_index of an object that is already attached
        text, res = it.run_op(op)
        after = snapshot()
        it.slots.append(res)
        cls = 'D6' if renamed else ('D23' if d23 else 'new')
        misuse = False
        if op.code in (30, 40) and op.args[0] >= 1:
            want = {30: [None, Table, Reference, Enum, TableGroup, Project, StickyNote],
                    40: [None, Table, Reference, Enum, TableGroup, None]}[op.code][min(op.args[0], 6 if op.code == 30 else 5)]
            misuse = want is not None and not isinstance(obj, want)
        if misuse:
            pass      # a typed method called with an object of another class: outside the property
        elif text.startswith('raise'):
            exc = text[6:]
            if not exc.startswith(VALIDATION) and exc not in ('builtins.TypeError', 'builtins.IndexError'):
                fail('non-validation exception', '%s -> %s' % (op, exc), cls)
            if before != after:
                fail('rejected operation changed the state', '%s -> %s' % (op, exc), cls)
            # the property lists what is rejected; anything else must be accepted
            if target_db and not taints and op.code == 30:
                legal = False
                if isinstance(obj, Table):
                    legal = not any(obj is t for t in spec['tables']) and not any(obj == t for t in spec['tables']) \
                        and not any(k in [x for t in spec['tables'] for x in _names(t)] for k in _names(obj))
                elif isinstance(obj, Enum):
                    legal = not any((e.name, e.schema) == (obj.name, obj.schema) for e in spec['enums'])
                elif isinstance(obj, TableGroup):
                    legal = not any(g.name == obj.name for g in spec['groups'])
                elif isinstance(obj, (StickyNote, Project)):
                    legal = True
                elif isinstance(obj, Reference):
                    try:
                        legal = any(c.table is not None and any(c.table is t for t in spec['tables'])
                                    for c in list(obj.col1) + list(obj.col2)) and not any(obj == x for x in spec['refs'])
                    except Exception:   # noqa
                        legal = False
                if legal:
                    fail('an addition the property does not list as rejected was refused', '%s -> %s' % (op, exc), cls)
            if target_db and not taints and op.code == 40 and op.args[0] == 0:
                if any(obj is x for k_ in ('tables', 'refs', 'enums', 'groups') for x in spec[k_]):
                    fail('deleting a contained object was refused', '%s -> %s' % (op, exc), cls)
        elif op.code == 30 and not target_db and text != 'skip':
            removed[:] = [x for x in removed if x is not obj]     # now legitimately owned by the other database
        elif target_db and text != 'skip':
            if op.code == 30:
                # must-reject conditions of the property
                if isinstance(obj, Table):
                    if any(obj is t for t in spec['tables']):
                        fail('a table object that is already contained was accepted again (listed twice)', str(op), cls)
                    elif any(k in [x for t in spec['tables'] for x in _names(t)] for k in _names(obj)):
                        fail('duplicate table name/alias accepted', str(op), cls)
                    spec['tables'].append(obj)
                elif isinstance(obj, Reference):
                    touching = any(c.table is not None and any(c.table is t for t in spec['tables'])
                                   for c in list(obj.col1) + list(obj.col2))
                    if not touching:
                        fail('reference without a table in this database accepted', str(op), cls)
                    if any(obj is r for r in spec['refs']):
                        fail('same reference added twice', str(op), cls)
                    spec['refs'].append(obj)
                elif isinstance(obj, Enum):
                    if any((e.name, e.schema) == (obj.name, obj.schema) for e in spec['enums']):
                        fail('duplicate enum accepted', str(op), cls)
                    spec['enums'].append(obj)
                elif isinstance(obj, TableGroup):
                    if any(g.name == obj.name for g in spec['groups']):
                        fail('duplicate table group accepted', str(op), cls)
                    spec['groups'].append(obj)
                elif isinstance(obj, Project):
                    if spec['project'] is not None and spec['project'] is not obj:
                        removed.append(spec['project'])
                    spec['project'] = obj
                elif isinstance(obj, StickyNote):
                    spec['stickies'].append(obj)
                else:
                    fail('unsupported type accepted', str(op), cls)
                removed[:] = [x for x in removed if x is not obj]
            else:
                ret = res
                # table groups (like projects and sticky notes) have no structural equality: an equal-looking group
                # that was never added is absent, and deleting it must be refused
                if isinstance(obj, TableGroup) and not any(obj is g for g in spec['groups']):
                    fail('deleting a table group that is not contained was accepted', str(op), cls)
                for key in ('tables', 'refs', 'enums', 'groups'):
                    if any(ret is x for x in spec[key]):
                        spec[key] = [x for x in spec[key] if x is not ret]
                        removed.append(ret)
                        break
                else:
                    if ret is not None and ret is spec['project']:
                        spec['project'] = None
                        removed.append(ret)
                    else:
                        fail('delete returned an object that was not contained', str(op), cls)
        # ---- invariants after every step
        if [id(t) for t in db] != [id(t) for t in spec['tables']] or [id(t) for t in db.tables] != [id(t) for t in spec['tables']]:
            fail('iteration does not list exactly the contained tables in insertion order', str(op), cls)
        for i, t in enumerate(spec['tables']):
            try:
                if db[i] is not t:
                    fail('positional lookup wrong', str(op), cls)
            except Exception as e:  # noqa
                fail('positional lookup raised', repr(e), cls)
            for k in _names(t):
                try:
                    if db[k] is not t:
                        fail('lookup by current name finds another table', k, cls)
                except KeyError:
                    fail('lookup by current name fails', k, cls)
        valid_keys = set(k for t in spec['tables'] for k in _names(t))
        for k in db.table_dict:
            if k not in valid_keys:
                fail('name index holds a key of no contained table', k, cls)
        for key, lst in (('refs', db.refs), ('enums', db.enums), ('groups', db.table_groups), ('stickies', db.sticky_notes)):
            if [id(x) for x in lst] != [id(x) for x in spec[key]]:
                fail('%s list differs from added-minus-deleted' % key, str(op), cls)
        if db.project is not spec['project']:
            fail('project differs', str(op), cls)
        for x in spec['tables'] + spec['refs'] + spec['enums'] + spec['groups'] + spec['stickies'] + ([spec['project']] if spec['project'] else []):
            if x.database is not db:
                fail('contained object does not point back to the database', repr(x), cls)
        for x in removed:
            if x.database is not None and not any(x is y for k in ('tables', 'refs', 'enums', 'groups') for y in spec[k]):
                fail('removed object still points to a database', repr(x), cls)
        # table level: the lists are exactly what was added and not deleted (by position: that position; by object: that object)
        if op.code in (50, 51, 52, 53) and not text.startswith('raise') and text != 'skip':
            tab_ = it.slots[op.args[0]]
            exp_ = exp_cols if op.code in (50, 51) else exp_idxs
            lst_ = exp_.setdefault(id(tab_), [])
            if op.code in (50, 52):
                arg_ = it.slots[op.args[1]]
                if isinstance(arg_, Column if op.code == 50 else Index):
                    lst_.append(arg_)
            elif op.args[1].kind == 'int':
                k_ = op.args[1].val
                if -len(lst_) <= k_ < len(lst_):
                    lst_.pop(k_)
            elif not d23:
                arg_ = it.slots[op.args[1].val]
                lst_[:] = [x_ for x_ in lst_ if x_ is not arg_]
            else:
                exp_[id(tab_)] = list(tab_.columns if op.code == 51 else tab_.indexes)     # D23 territory: resynchronise
        for t in [s for s in it.slots if isinstance(s, Table)]:
            if 'D24' not in taints and 'D23' not in taints:
                if [id(c) for c in t.columns] != [id(c) for c in exp_cols.get(id(t), [])]:
                    fail('column list differs from added-minus-deleted (position or object)', '%s: %r' % (op, t.columns), cls)
                    exp_cols[id(t)] = list(t.columns)
                if [id(c) for c in t.indexes] != [id(c) for c in exp_idxs.get(id(t), [])]:
                    fail('index list differs from added-minus-deleted (position or object)', '%s: %r' % (op, t.indexes), cls)
                    exp_idxs[id(t)] = list(t.indexes)
        for t in [s for s in it.slots if isinstance(s, Table)]:
            for c in t.columns:
                if c.table is not t:
                    fail('column in the list does not point to its table', repr(c), cls)
            for ix in t.indexes:
                if ix.table is not t:
                    fail('index in the list does not point to its table', repr(ix), cls)
                for s in ix.subjects:
                    if isinstance(s, Column) and not any(s is c for c in t.columns):
                        # allowed only if the column was deleted afterwards; adding such an index must be refused
                        if op.code == 52 and it.slots[op.args[1]] is ix and not text.startswith('raise'):
                            fail('index over a foreign column accepted', repr(ix), cls)
            if len(set(id(c) for c in t.columns)) != len(t.columns):
                fail('column listed twice', repr(t), cls)
        for c in [s for s in it.slots if isinstance(s, Column)]:
            if c.table is not None and not any(c is x for x in c.table.columns):
                fail('column points to a table that does not list it', repr(c), cls)
        for ix in [s for s in it.slots if isinstance(s, Index)]:
            if ix.table is not None and not any(ix is x for x in ix.table.indexes):
                fail('index points to a table that does not list it', repr(ix), cls)
        if len(fails) > 6:
            break
    return fails


def run(v, tier, st, pr):
    r = rng('container')
    jobs = list(gen_container.histories(r, tier))
    res = stream_script.compare([([], ops) for _, ops, _ in jobs], 'container', tags=[l for l, _, _ in jobs])
    ctx = mp.get_context('fork')
    sub_jobs = [(l, ops, npre, True) for i, (l, ops, npre) in enumerate(jobs) if i % 6 == 0]
    with ctx.Pool(NPROC) as pool:
        allf = pool.map(check_history, jobs + sub_jobs, chunksize=max(1, len(jobs) // (NPROC * 8)))
    for fl in allf[len(jobs):]:
        for f in fl:
            f['history'] = ['<every object an instance of a trivial subclass of its class>'] + list(f['history'])
    kf = [f for f in load_known_findings()['findings'] if f['property'] == 'C09']
    known_classes = {f['id'] for f in kf}
    new = []
    seen_known = {}
    for fl in allf:
        for f in fl:
            if f['class'] in known_classes:
                seen_known.setdefault(f['class'], f)
            else:
                new.append(f)
    for f in kf:
        if f['id'] in seen_known:
            v.known_finding(f['id'], f['what'])
    new.sort(key=lambda f: len(f['history']))
    fails = [{'cause': 'oracle', 'clause': f['kind'], 'input': {'kind': 'history', 'ops': f['history']}, 'detail': f['detail']}
             for f in new[:3]]
    total = verdicts.conclude(v, pr, st, {'container': stream_script.strip(res)}, fails)
    v.coverage['evaluations'] = total
    v.coverage['distinct_nontrivial'] = res['distinct_nontrivial']
    v.coverage['rule'] = ('histories over a 45-object universe with name/alias/content clashes: exhaustive sequences over a 35-operation core '
                          'alphabet up to the tier depth plus random sequences (length <= 20) over a 75-operation alphabet; each compared '
                          'observation by observation with the Coq model and checked against an independent abstract container; distinct = distinct complete observation traces')
    v.coverage['samples'] = [{'history': jobs[i][0]} for i in (40, 700, len(jobs) - 1)]
    v.coverage['histories_replayed_with_subclass_instances'] = len(sub_jobs)
    v.coverage['oracle_failures_known'] = {k: seen_known[k]['history'] for k in seen_known}
    v.coverage['explanation'] = 'invariant / atomicity theorems over the Coq container model; model tied to the code by stream container; independent python container spec as oracle'
