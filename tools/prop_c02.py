"""C02 — DBML round trip and fixpoint."""
import docgen
import prop_parse
import pyscript
import stream_script
import verdicts
from common import rng, load_known_findings, hexs
from pyscript import Op, parse_op


def apply_edits(db, edits):
    """in-place renames through the public attributes: the edited database is a database built through the public
    classes, so it must round-trip as well"""
    for e in edits:
        k = e[0]
        try:
            if k == 'tname':
                db.tables[e[1] % len(db.tables)].name = e[2]
            elif k == 'tschema':
                db.tables[e[1] % len(db.tables)].schema = e[2]
            elif k == 'talias':
                db.tables[e[1] % len(db.tables)].alias = e[2]
            elif k == 'cname':
                t = db.tables[e[1] % len(db.tables)]
                t.columns[e[2] % len(t.columns)].name = e[3]
            elif k == 'ename':
                db.enums[e[1] % len(db.enums)].name = e[2]
            elif k == 'gname':
                db.table_groups[e[1] % len(db.table_groups)].name = e[2]
            elif k == 'rtype' and len(db.refs) == 1:
                # the kind of the only reference (with several, changing inline-ness reorders them on re-parse: finding D31)
                db.refs[0].type = e[2]
        except ZeroDivisionError:
            pass


def roundtrip(job):
    """returns None, or (clause, detail)"""
    text, allow, cycles = job[:3]
    variant = job[3] if len(job) > 3 else None
    if variant and variant[0] == 'api':
        # the database is built through the public classes from the abstract description of the document (comments left out: a
        # comment has no place of its own in the classes' constructors that the parser would read back)
        import contentdb
        try:
            db = contentdb.build(variant[1], allow)
        except Exception as e:   # noqa
            return ('the content cannot be built through the public classes', repr(e))
        k = 'ok'
    else:
        k, db = prop_parse.parse_impl(text, allow)
    if k != 'ok':
        return ('generated document rejected', db)
    if variant and variant[0] in ('deepcopy', 'pickle'):
        import copy, gc, pickle
        try:
            dbc = copy.deepcopy(db) if variant[0] == 'deepcopy' else pickle.loads(pickle.dumps(db))
        except RecursionError:
            dbc = db
        except Exception as e:   # noqa
            return ('%s of the parsed database raised' % variant[0], repr(e))
        if dbc is not db:
            del db
            gc.collect()
            db = dbc
    elif variant and variant[0] == 'edits':
        apply_edits(db, variant[1])
    try:
        c0 = docgen.content(db)
    except Exception as e:   # noqa
        return ('the database cannot be walked (tables of reference columns, notes, items)', repr(e))
    prev_text = None
    for i in range(cycles):
        try:
            t = db.dbml
        except Exception as e:   # noqa
            return ('rendering raised', repr(e))
        if prev_text is not None and t != prev_text:
            return ('rendering the re-parsed database does not give byte-identical text (cycle %d)' % i, '')
        k, db2 = prop_parse.parse_impl(t, allow)
        if k != 'ok':
            return ('rendered DBML does not parse back (cycle %d): %s' % (i, db2), t)
        d = docgen.diff(c0, docgen.content(db2))
        if d:
            return ('content changed by a parse/render cycle (cycle %d)' % i, d)
        prev_text, db = t, db2
    return None


def run(v, tier, st, pr):
    r = rng('c02')
    n = 1 if tier == 'quick' else 25
    cycles = 2 if tier == 'quick' else 3
    docs = []
    jobs, tags = [], []
    for i in range(1500 * n):
        A = docgen.gen_schema(r)
        allow = r.random() < 0.3
        if allow:
            docgen.add_properties(r, A)
        if r.random() < 0.5:
            docgen.add_comments(r, A)
        indomain = i % 4 != 3
        if indomain:
            docgen.restrict_for_roundtrip(A)
        text, exp_ = docgen.render_doc(A, docgen.Style(r, level=r.choice([0, 1, 1])), allow, interleave=not indomain)
        if indomain:
            docs.append((text, allow, cycles))
            if len(A['refs']) == 1 and A['refs'][0].get('form') == 'inline':
                # the only reference, written inline, becomes many-to-many (never inline) and something else again
                docs.append((text, allow, cycles, ('edits', [('rtype', 0, '<>')])))
                docs.append((text, allow, cycles, ('edits', [('rtype', 0, '<>'), ('rtype', 0, r.choice(['>', '<', '-']))])))
            if i % 4 == 2:
                import copy as _copy
                docs.append((text, allow, cycles, ('api', docgen.strip_comments(_copy.deepcopy(exp_)))))
            if i % 8 == 1:
                # the same round trip for a deep copy / pickle round trip of the parsed database (original dropped and collected)
                docs.append((text, allow, cycles, ('deepcopy' if i % 16 == 1 else 'pickle',)))
            elif i % 8 == 5:
                # ... and for the parsed database after renames through the public attributes (fresh bare names: inside the domain)
                eds = []
                for k_ in range(r.randint(1, 3)):
                    kind = r.choice(['tname', 'tname', 'tschema', 'talias', 'cname', 'ename', 'gname', 'rtype', 'rtype'])
                    new = 'rn%d_%d' % (i, k_) if kind != 'rtype' else r.choice(['<>', '>', '<', '-'])
                    if kind == 'cname':
                        eds.append((kind, r.randint(0, 9), r.randint(0, 9), new))
                    else:
                        eds.append((kind, r.randint(0, 9), new))
                docs.append((text, allow, cycles, ('edits', eds)))
        # correspondence: parse, render, parse the rendering, render again (also outside the domain: the model is faithful to the defects)
        jobs.append(([], [parse_op(0, allow, 0, 1, text), Op(81, 0), Op(91, 0, allow), Op(82), Op(81, 2)]))
        tags.append('in' if indomain else 'out')
    res = stream_script.compare(jobs, 'roundtrip', tags=tags)
    outs = prop_parse.pool_map(roundtrip, docs)
    fails = []
    for dj, o in zip(docs, outs):
        text, allow = dj[0], dj[1]
        if o is not None:
            inp = {'kind': 'document', 'text_hex': hexs(text), 'text': text, 'allow_properties': allow}
            if len(dj) > 3:
                inp['then'] = repr(dj[3])[:2000]
            fails.append({'cause': 'oracle', 'clause': o[0] + ((' [%s]' % ('database built through the API from the same content' if dj[3][0] == 'api' else 'after ' + dj[3][0])) if len(dj) > 3 else ''), 'detail': str(o[1])[:1500], 'input': inp})
    # known findings: replay every witness; still failing ones are reported as known
    for f in load_known_findings()['findings']:
        if f['property'] != 'C02':
            continue
        w = f['witness']
        if roundtrip((w['text'], w.get('allow_properties', False), 2)) is not None:
            v.known_finding(f['id'], f['what'])
    fails.sort(key=lambda f: len(f['input']['text']))
    v.coverage['documents_round_tripped'] = len(docs)
    v.coverage['of_which_copies_or_edited'] = sum(1 for d in docs if len(d) > 3)
    v.coverage['cycles'] = cycles
    total = verdicts.conclude(v, pr, st, {'roundtrip': stream_script.strip(res)}, fails)
    v.coverage['evaluations'] = total
    v.coverage['distinct_nontrivial'] = res['distinct_nontrivial']
    v.coverage['rule'] = ('documents from random abstract schemas; three quarters rewritten into the DBML-expressible domain (docgen.restrict_for_roundtrip) '
                          'and round-tripped on the implementation; all of them (also outside the domain) run parse -> render -> parse -> render on model and implementation')
    v.coverage['samples'] = [{'document': d[0][:300]} for d in docs[:2]]
    v.coverage['explanation'] = 'round trip checked on the implementation inside the stated domain; model tied by the roundtrip stream; known findings replayed'
