"""Implementation-side oracle shared by C03, C04 and C18: read the emitted SQL back with the
independent reader and compare with the declarative statement list."""
import pyscript
import sqlread
from common import hexs, unhexs


def build(ops):
    it = pyscript.Interp([])
    for op in ops:
        t, o = it.run_op(op)
        it.slots.append(o)
    return it


def stmt_owner(s):
    """which property a statement kind belongs to"""
    if s['stmt'] == 'alter_fk':
        return 'C04'
    return 'C03'


def diff_stmts(got, want):
    """returns list of (property, description)"""
    out = []
    if len(got) != len(want):
        kinds_g = [s['stmt'] for s in got]
        kinds_w = [s['stmt'] for s in want]
        prop = 'C04' if kinds_g.count('alter_fk') != kinds_w.count('alter_fk') else 'C03'
        out.append((prop, 'statement lists differ: got %s want %s' % (kinds_g, kinds_w)))
        return out
    for g, w in zip(got, want):
        isjoin = bool(w.get('_join'))
        w = {k: v for k, v in w.items() if k != '_join'}
        if g == w:
            continue
        if g['stmt'] != w['stmt']:
            out.append(('C03', 'statement kind %s vs %s' % (g['stmt'], w['stmt'])))
            continue
        if g['stmt'] == 'table':
            if g.get('fks') != w.get('fks'):
                out.append(('C04', 'FOREIGN KEY clauses of table %s: got %s want %s' % (g['name'], g['fks'], w['fks'])))
            g2 = dict(g, fks=None)
            w2 = dict(w, fks=None)
            if g2 != w2:
                prop = 'C04' if isjoin else 'C03'
                keys = [k for k in g2 if g2[k] != w2.get(k)]
                out.append((prop, 'table %s differs in %s: got %s want %s' % (g['name'], keys, {k: g2[k] for k in keys}, {k: w2.get(k) for k in keys})))
        else:
            keys = [k for k in g if g[k] != w.get(k)]
            out.append((stmt_owner(g), '%s differs in %s: got %s want %s' % (g['stmt'], keys, {k: g[k] for k in keys}, {k: w.get(k) for k in keys})))
    return out


def read_error_owner(db):
    """the emitted DDL as a whole cannot be read: whose statement is it?  C04 when the statement of a reference, rendered
    on its own, is already unreadable (or cannot be rendered); C03 otherwise"""
    for ref in db.refs:
        if ref.inline:
            continue
        try:
            sqlread.read_ddl(ref.sql)
        except Exception:   # noqa
            return 'C04'
    return 'C03'


def check_db(job):
    """job = (ops, db_slot, model_sql_hex or None[, variant]). returns dict with findings.
    variant 'deepcopy' / 'pickle': the oracle is applied to a copy of the database taken after the script ran, the
    original dropped and collected (a copy of a database is a database with the same content)."""
    ops, dbslot, model_sql = job[:3]
    variant = job[3] if len(job) > 3 else None
    it = build(ops)
    db = it.slots[dbslot]
    if variant:
        import copy, gc, pickle
        try:
            dbc = copy.deepcopy(db) if variant == 'deepcopy' else pickle.loads(pickle.dumps(db))
        except RecursionError:
            dbc = None
        except Exception as e:   # noqa
            return {'diffs': [], 'd2': False, 'order_violation': None, 'order_equals_model': None,
                    'read_error': '%s of the database raised %r' % (variant, e), 'perm_ok': True, 'nstmts': 0, 'has_inline': False}
        if dbc is not None:
            del it, db
            gc.collect()
            db = dbc
    res = {'diffs': [], 'd2': False, 'order_violation': None, 'order_equals_model': None, 'read_error': None,
           'perm_ok': True, 'nstmts': 0, 'has_inline': False, 'text_violation': None, 'text_equals_model': None}
    try:
        sql = db.sql
    except Exception as e:   # noqa
        res['read_error'] = 'render raised %r' % e
        return res
    try:
        got = sqlread.read_ddl(sql)
    except (sqlread.ReadError, ValueError) as e:
        res['read_error'] = repr(e)
        res['read_error_owner'] = read_error_owner(db)
        return res
    res['nstmts'] = len(got)
    # table order actually used (join tables of <> refs come after all declared tables)
    ntab = len(db.tables)
    names = sqlread.table_order(got)
    declared = names[:ntab]
    by_name = {}
    for t in db.tables:
        by_name.setdefault((t.schema, t.name), []).append(t)
    order = []
    ok = True
    for n in declared:
        if by_name.get(n):
            order.append(by_name[n].pop(0))
        else:
            ok = False
    if not ok or len(order) != ntab or any(by_name[k] for k in by_name):
        res['perm_ok'] = False
        order = list(db.tables)
    want = sqlread.spec_ddl(db, order=order, qualify=True)
    diffs = diff_stmts(got, want)
    if diffs:
        want2 = sqlread.spec_ddl(db, order=order, qualify=False)
        if not diff_stmts(got, want2):
            res['d2'] = True          # differs only by the dropped schema in CREATE INDEX ON / COMMENT ON
            diffs = []
    res['diffs'] = diffs
    # C18: targets of inline FOREIGN KEY clauses before their holders (acyclic graphs only)
    edges = []
    for ref in db.refs:
        if ref.inline and ref.type in ('>', '<', '-'):
            holder, _, target, _ = sqlread.fk_of(ref)
            if holder is not target and holder is not None and target is not None:
                edges.append((holder, target))
    res['has_inline'] = bool(edges)
    if edges and res['perm_ok'] and acyclic(edges):
        pos = {id(t): i for i, t in enumerate(order)}
        bad = [(h.name, t.name) for h, t in edges if id(t) in pos and id(h) in pos and pos[id(t)] > pos[id(h)]]
        if bad:
            res['order_violation'] = bad
            if model_sql is not None:
                try:
                    mnames = sqlread.table_order(sqlread.read_ddl(unhexs(model_sql)))[:ntab]
                    res['order_equals_model'] = (mnames == declared)
                except Exception:   # noqa
                    res['order_equals_model'] = False
    # the same clause read off the emitted text: which CREATE TABLE actually carries a FOREIGN KEY clause, and where the
    # table it names is created (independent of which side the objects say holds the key)
    bad_t = text_order_violations(got, ntab)
    if bad_t:
        res['text_violation'] = bad_t
        res['text_equals_model'] = False
        if model_sql is not None:
            try:
                res['text_equals_model'] = (text_order_violations(sqlread.read_ddl(unhexs(model_sql)), ntab) == bad_t)
            except Exception:   # noqa
                pass
    return res


def text_order_violations(stmts, ntab):
    tabs = [s for s in stmts if s['stmt'] == 'table'][:ntab]
    pos = {}
    for i, s in enumerate(tabs):
        pos.setdefault(s['name'], i)
    edges = []
    for i, s in enumerate(tabs):
        for fk in s.get('fks') or []:
            if fk['ref_table'] != s['name']:
                edges.append((i, fk['ref_table']))
    # only acyclic graphs can be ordered
    g = {}
    for i, tn in edges:
        if tn in pos:
            g.setdefault(i, set()).add(pos[tn])
    state = {}

    def dfs(u):
        state[u] = 1
        for w in g.get(u, ()):
            if state.get(w) == 1:
                return False
            if w not in state and not dfs(w):
                return False
        state[u] = 2
        return True
    for u in list(g):
        if u not in state and not dfs(u):
            return []
    return sorted((tabs[i]['name'], tn) for i, tn in edges if tn in pos and pos[tn] > i)


def acyclic(edges):
    g = {}
    for h, t in edges:
        g.setdefault(id(h), set()).add(id(t))
    state = {}

    def dfs(u):
        state[u] = 1
        for v in g.get(u, ()):
            if state.get(v) == 1:
                return False
            if v not in state and not dfs(v):
                return False
        state[u] = 2
        return True
    return all(dfs(u) for u in list(g) if u not in state)
