(* Main.v — single entry point of the extracted model: one case in, observation text out. *)
From PyDBML Require Import PyStr Py Sx Tools Script.
Import ListNotations.

Definition bad : pystr := s2l "BAD-CASE".

Definition on1 (f : pystr -> pystr) (args : list sx) : pystr :=
  match args with
  | [a] => match dec_str a with Some s => s2l "ok " ++ show_str (f s) | None => bad end
  | _ => bad
  end.
Definition on1r (f : pystr -> res pystr) (args : list sx) : pystr :=
  match args with
  | [a] => match dec_str a with Some s => show_res_str (f s) | None => bad end
  | _ => bad
  end.
Definition on2 (f : pystr -> pystr -> pystr) (args : list sx) : pystr :=
  match args with
  | [a; b] => match dec_str a, dec_str b with
              | Some s, Some t => s2l "ok " ++ show_str (f s t)
              | _, _ => bad
              end
  | _ => bad
  end.

(* stream `text`: (1 fn args...) *)
Definition run_text (fn : N) (args : list sx) : pystr :=
  match fn with
  | 1 => on2 comment args
  | 2 => match args with
         | [a; n] => match dec_str a, dec_nat n with
                     | Some s, Some k => s2l "ok " ++ show_str (indent s k)
                     | _, _ => bad
                     end
         | _ => bad
         end
  | 3 => on1 remove_bom args
  | 4 => on1 strip_empty_lines args
  | 5 => on1r doublequote_string args
  | 6 => on1r remove_indentation args
  | 7 => on1r preformat args
  | 8 => on1 prepare_text_for_dbml args
  | 9 => on1 quote_string args
  | 10 => on1 note_option_to_dbml args
  | 11 => on1 prepare_text_for_sql args
  | 12 => on2 textwrap_indent args
  | 13 => on1 expandtabs args
  | 14 => match args with
          | [a] => match dec_str a with Some s => s2l "ok " ++ show_strs (split_on cLF s) | None => bad end
          | _ => bad
          end
  | 15 => on2 (fun cs s => strip_chars cs s) args
  | 16 => match args with
          | [a] => match dec_str a with Some s => s2l "ok " ++ show_strs (splitlines_keep s) | None => bad end
          | _ => bad
          end
  | 17 => on1 upper args
  | 18 => on1 lower args
  | 19 => on1 strip_ws args
  | 20 => match args with
          | [a] => match dec_str a with Some s => s2l "ok " ++ show_bool (str_isspace s) | None => bad end
          | _ => bad
          end
  | 21 => on1 comment_to_dbml args
  | 22 => on1 comment_to_sql args
  | 23 => on2 (fun cs s => rstrip_chars cs s) args
  | _ => bad
  end%N.

Definition run_case (c : sx) : pystr :=
  match c with
  | SL (SA 1%N :: SA fn :: args) => run_text fn args
  | SL [SA 2%N; rdefs; ops] => run_script rdefs ops
  | _ => bad
  end.
