From Coq Require Extraction.
From Coq Require Import ExtrOcamlBasic.
From PyDBML Require Import Main.
Extraction Language OCaml.
Extraction "model.ml" run_case.
