(* PyStr.v — Python `str` as a list of Unicode code points, and the `str`/`re`/`textwrap`
   operations the PyDBML code base uses, as total structural functions.
   Definitions only (plus tiny computational lemmas); proofs live in proofs/. *)
From Coq Require Export Ascii String.
From Coq Require Export List NArith ZArith Bool.
From Coq Require Decimal.
Import ListNotations.

Definition ch := N.
Definition pystr := list ch.

Fixpoint s2l (s : string) : pystr :=
  match s with
  | EmptyString => []
  | String a r => N_of_ascii a :: s2l r
  end.

Arguments s2l _%string_scope.

(* named characters *)
Definition cTAB : ch := 9%N.
Definition cLF  : ch := 10%N.
Definition cCR  : ch := 13%N.
Definition cSP  : ch := 32%N.
Definition cDQ  : ch := 34%N.   (* double quote *)
Definition cSQ  : ch := 39%N.   (* single quote *)
Definition cBSL : ch := 92%N.   (* backslash *)
Definition cBT  : ch := 96%N.   (* backtick *)
Definition cBOM : ch := 65279%N. (* U+FEFF *)

Definition ch_eqb (a b : ch) : bool := N.eqb a b.

Fixpoint str_eqb (a b : pystr) : bool :=
  match a, b with
  | [], [] => true
  | x :: a', y :: b' => N.eqb x y && str_eqb a' b'
  | _, _ => false
  end.

Fixpoint mem (c : ch) (cs : pystr) : bool :=
  match cs with
  | [] => false
  | x :: r => N.eqb c x || mem c r
  end.

Definition is_nil {A} (l : list A) : bool := match l with [] => true | _ => false end.

(* ---- option equality helpers ---- *)
Definition opt_eqb {A} (f : A -> A -> bool) (a b : option A) : bool :=
  match a, b with
  | None, None => true
  | Some x, Some y => f x y
  | _, _ => false
  end.

Fixpoint list_eqb {A} (f : A -> A -> bool) (a b : list A) : bool :=
  match a, b with
  | [], [] => true
  | x :: a', y :: b' => f x y && list_eqb f a' b'
  | _, _ => false
  end.

(* ---- str.split(c) for a one-character separator: never empty ---- *)
Fixpoint split_on (c : ch) (s : pystr) : list pystr :=
  match s with
  | [] => [[]]
  | x :: r =>
      if N.eqb x c then [] :: split_on c r
      else match split_on c r with
           | l :: ls => (x :: l) :: ls
           | [] => [[x]]
           end
  end.

(* sep.join(l) *)
Fixpoint join (sep : pystr) (l : list pystr) : pystr :=
  match l with
  | [] => []
  | x :: r => match r with
              | [] => x
              | _ => x ++ sep ++ join sep r
              end
  end.

(* s.replace(c, new) for a one-character `old` *)
Fixpoint replace_c (c : ch) (new : pystr) (s : pystr) : pystr :=
  match s with
  | [] => []
  | x :: r => if N.eqb x c then new ++ replace_c c new r else x :: replace_c c new r
  end.

(* s.lstrip(cs) / s.rstrip(cs) / s.strip(cs) with an explicit character set *)
Fixpoint lstrip_chars (cs : pystr) (s : pystr) : pystr :=
  match s with
  | [] => []
  | x :: r => if mem x cs then lstrip_chars cs r else s
  end.

Fixpoint rstrip_chars (cs : pystr) (s : pystr) : pystr :=
  match s with
  | [] => []
  | x :: r =>
      let r' := rstrip_chars cs r in
      if is_nil r' && mem x cs then [] else x :: r'
  end.

Definition strip_chars (cs : pystr) (s : pystr) : pystr :=
  rstrip_chars cs (lstrip_chars cs s).

(* str.isspace() per character: CPython's _PyUnicode_IsWhitespace table *)
Definition py_isspace (c : ch) : bool :=
  ((9 <=? c) && (c <=? 13) || (28 <=? c) && (c <=? 32)
   || (c =? 133) || (c =? 160) || (c =? 5760)
   || (8192 <=? c) && (c <=? 8202) || (c =? 8232) || (c =? 8233)
   || (c =? 8239) || (c =? 8287) || (c =? 12288))%N.

(* s.isspace(): non-empty and all whitespace *)
Definition str_isspace (s : pystr) : bool := negb (is_nil s) && forallb py_isspace s.

(* bool(s.strip()) : some character is not whitespace *)
Definition has_nonspace (s : pystr) : bool := existsb (fun c => negb (py_isspace c)) s.

(* s.strip() (whitespace) *)
Fixpoint lstrip_ws (s : pystr) : pystr :=
  match s with [] => [] | x :: r => if py_isspace x then lstrip_ws r else s end.
Fixpoint rstrip_ws (s : pystr) : pystr :=
  match s with
  | [] => []
  | x :: r => let r' := rstrip_ws r in if is_nil r' && py_isspace x then [] else x :: r'
  end.
Definition strip_ws (s : pystr) : pystr := rstrip_ws (lstrip_ws s).

(* line boundaries of str.splitlines() *)
Definition is_linebreak (c : ch) : bool :=
  ((c =? 10) || (c =? 13) || (c =? 11) || (c =? 12) || (c =? 28) || (c =? 29) || (c =? 30)
   || (c =? 133) || (c =? 8232) || (c =? 8233))%N.

(* s.splitlines(keepends=True); `acc` is the current line, reversed *)
Fixpoint splitlines_keep_aux (s : pystr) (acc : pystr) : list pystr :=
  match s with
  | [] => if is_nil acc then [] else [rev acc]
  | x :: r =>
      if is_linebreak x then
        match r with
        | y :: r' =>
            if N.eqb x cCR && N.eqb y cLF
            then rev (y :: x :: acc) :: splitlines_keep_aux r' []
            else rev (x :: acc) :: splitlines_keep_aux r []
        | [] => [rev (x :: acc)]
        end
      else splitlines_keep_aux r (x :: acc)
  end.
Definition splitlines_keep (s : pystr) : list pystr := splitlines_keep_aux s [].

(* textwrap.indent(text, prefix) with the default predicate (line.strip()) *)
Definition textwrap_indent (text prefix : pystr) : pystr :=
  concat (map (fun line => if has_nonspace line then prefix ++ line else line)
              (splitlines_keep text)).

(* ASCII case mapping (identity elsewhere; see DESIGN §3.1 for the scope) *)
Definition upper_c (c : ch) : ch := if ((97 <=? c) && (c <=? 122))%N then (c - 32)%N else c.
Definition lower_c (c : ch) : ch := if ((65 <=? c) && (c <=? 90))%N then (c + 32)%N else c.
Definition upper (s : pystr) : pystr := map upper_c s.
Definition lower (s : pystr) : pystr := map lower_c s.

(* s.startswith(p) *)
Fixpoint startswith (p s : pystr) : bool :=
  match p, s with
  | [], _ => true
  | x :: p', y :: s' => N.eqb x y && startswith p' s'
  | _, [] => false
  end.

(* substring test  p in s *)
Fixpoint contains (p s : pystr) : bool :=
  startswith p s || match s with [] => false | _ :: r => contains p r end.

(* s.expandtabs() with tabsize 8; column is reset by \n and \r *)
Fixpoint expandtabs_aux (s : pystr) (col : nat) : pystr :=
  match s with
  | [] => []
  | x :: r =>
      if N.eqb x cTAB then
        let n := 8 - Nat.modulo col 8 in
        repeat cSP n ++ expandtabs_aux r (col + n)
      else if N.eqb x cLF || N.eqb x cCR then x :: expandtabs_aux r 0
      else x :: expandtabs_aux r (S col)
  end.
Definition expandtabs (s : pystr) : pystr := expandtabs_aux s 0.

(* ---- numbers ---- *)
Fixpoint uint_chars (u : Decimal.uint) : pystr :=
  match u with
  | Decimal.Nil => []
  | Decimal.D0 r => 48%N :: uint_chars r
  | Decimal.D1 r => 49%N :: uint_chars r
  | Decimal.D2 r => 50%N :: uint_chars r
  | Decimal.D3 r => 51%N :: uint_chars r
  | Decimal.D4 r => 52%N :: uint_chars r
  | Decimal.D5 r => 53%N :: uint_chars r
  | Decimal.D6 r => 54%N :: uint_chars r
  | Decimal.D7 r => 55%N :: uint_chars r
  | Decimal.D8 r => 56%N :: uint_chars r
  | Decimal.D9 r => 57%N :: uint_chars r
  end.

Definition str_of_N (n : N) : pystr := uint_chars (N.to_uint n).
Definition str_of_Z (z : Z) : pystr :=
  match z with
  | Z0 => [48%N]
  | Zpos p => str_of_N (Npos p)
  | Zneg p => 45%N :: str_of_N (Npos p)
  end.
Definition str_of_nat (n : nat) : pystr := str_of_N (N.of_nat n).

(* int(s) for a non-empty string of ASCII digits *)
Definition is_digit (c : ch) : bool := ((48 <=? c) && (c <=? 57))%N.
Fixpoint N_of_digits_aux (s : pystr) (acc : N) : N :=
  match s with
  | [] => acc
  | c :: r => N_of_digits_aux r (acc * 10 + (c - 48))%N
  end.
Definition N_of_digits (s : pystr) : N := N_of_digits_aux s 0%N.

(* lower-case hex of a code point, used by Show *)
Definition hex_digit (n : N) : ch := if (n <? 10)%N then (48 + n)%N else (87 + n)%N.
Fixpoint hex_pos (p : positive) (fuel : nat) (acc : pystr) : pystr :=
  match fuel with
  | O => acc
  | S f =>
      let n := Npos p in
      let d := hex_digit (N.modulo n 16) in
      match N.div n 16 with
      | N0 => d :: acc
      | Npos q => hex_pos q f (d :: acc)
      end
  end.
Definition hex_of_N (n : N) : pystr :=
  match n with
  | N0 => [48%N]
  | Npos p => hex_pos p 16 []
  end.

(* character classes of pyparsing *)
Definition is_alpha (c : ch) : bool := ((65 <=? c) && (c <=? 90) || (97 <=? c) && (c <=? 122))%N.
Definition is_alnum (c : ch) : bool := is_alpha c || is_digit c.
Definition is_hexdigit (c : ch) : bool :=
  (is_digit c || (65 <=? c) && (c <=? 70) || (97 <=? c) && (c <=? 102))%N.
Definition is_octdigit (c : ch) : bool := ((48 <=? c) && (c <=? 55))%N.

(* list helpers with Python semantics *)
Fixpoint drop {A} (n : nat) (l : list A) : list A :=
  match n, l with
  | O, _ => l
  | S n', [] => []
  | S n', _ :: r => drop n' r
  end.
Fixpoint take {A} (n : nat) (l : list A) : list A :=
  match n, l with
  | O, _ => []
  | S n', [] => []
  | S n', x :: r => x :: take n' r
  end.

Fixpoint list_min (l : list nat) : option nat :=
  match l with
  | [] => None
  | x :: r => match list_min r with
              | None => Some x
              | Some m => Some (Nat.min x m)
              end
  end.

(* remove element at index (list.pop(i) for 0 <= i < len) *)
Fixpoint remove_nth {A} (n : nat) (l : list A) : list A :=
  match n, l with
  | _, [] => []
  | O, _ :: r => r
  | S n', x :: r => x :: remove_nth n' r
  end.

Fixpoint replace_nth {A} (n : nat) (v : A) (l : list A) : list A :=
  match n, l with
  | _, [] => []
  | O, _ :: r => v :: r
  | S n', x :: r => x :: replace_nth n' v r
  end.
