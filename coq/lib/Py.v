(* Py.v — exceptions and the result monad of the model.  Every partial Python operation
   in the modelled code is an explicit [Raise]; nothing is defaulted. *)
From Coq Require Import List NArith.
From PyDBML Require Import PyStr.
Import ListNotations.

Inductive exc :=
| ETableNotFound | EColumnNotFound | EIndexNotFound | EAttributeMissing
| EDuplicateReference | EUnknownDatabase | EDBML | EDatabaseValidation | EValidation
| EValueError | EKeyError | EIndexError | ETypeError | EAttributeError
| ESyntaxError | ERuntimeError
| EParse | EParseSyntax            (* pyparsing.ParseException / ParseSyntaxException *)
| EStuck (site : nat).             (* the model itself is stuck (ill-typed heap, fuel): never a Python outcome *)

Definition exc_eqb (a b : exc) : bool :=
  match a, b with
  | ETableNotFound, ETableNotFound | EColumnNotFound, EColumnNotFound
  | EIndexNotFound, EIndexNotFound | EAttributeMissing, EAttributeMissing
  | EDuplicateReference, EDuplicateReference | EUnknownDatabase, EUnknownDatabase
  | EDBML, EDBML | EDatabaseValidation, EDatabaseValidation | EValidation, EValidation
  | EValueError, EValueError | EKeyError, EKeyError | EIndexError, EIndexError
  | ETypeError, ETypeError | EAttributeError, EAttributeError
  | ESyntaxError, ESyntaxError | ERuntimeError, ERuntimeError
  | EParse, EParse | EParseSyntax, EParseSyntax => true
  | EStuck n, EStuck m => Nat.eqb n m
  | _, _ => false
  end.

(* exceptions PyDBML itself defines (pydbml.exceptions) *)
Definition is_pydbml_exc (e : exc) : bool :=
  match e with
  | ETableNotFound | EColumnNotFound | EIndexNotFound | EAttributeMissing
  | EDuplicateReference | EUnknownDatabase | EDBML | EDatabaseValidation | EValidation => true
  | _ => false
  end.

Definition exc_name (e : exc) : pystr :=
  match e with
  | ETableNotFound => s2l "pydbml.exceptions.TableNotFoundError"
  | EColumnNotFound => s2l "pydbml.exceptions.ColumnNotFoundError"
  | EIndexNotFound => s2l "pydbml.exceptions.IndexNotFoundError"
  | EAttributeMissing => s2l "pydbml.exceptions.AttributeMissingError"
  | EDuplicateReference => s2l "pydbml.exceptions.DuplicateReferenceError"
  | EUnknownDatabase => s2l "pydbml.exceptions.UnknownDatabaseError"
  | EDBML => s2l "pydbml.exceptions.DBMLError"
  | EDatabaseValidation => s2l "pydbml.exceptions.DatabaseValidationError"
  | EValidation => s2l "pydbml.exceptions.ValidationError"
  | EValueError => s2l "builtins.ValueError"
  | EKeyError => s2l "builtins.KeyError"
  | EIndexError => s2l "builtins.IndexError"
  | ETypeError => s2l "builtins.TypeError"
  | EAttributeError => s2l "builtins.AttributeError"
  | ESyntaxError => s2l "builtins.SyntaxError"
  | ERuntimeError => s2l "builtins.RuntimeError"
  | EParse => s2l "pyparsing.ParseException"
  | EParseSyntax => s2l "pyparsing.ParseSyntaxException"
  | EStuck n => s2l "MODEL-STUCK-" ++ str_of_nat n
  end.

Inductive res (A : Type) : Type :=
| Ok (a : A)
| Raise (e : exc).
Arguments Ok {A} a.
Arguments Raise {A} e.

Definition bind {A B} (r : res A) (f : A -> res B) : res B :=
  match r with
  | Ok a => f a
  | Raise e => Raise e
  end.

Notation "'do' x <- r ; k" := (bind r (fun x => k))
  (at level 200, x pattern, r at level 100, k at level 200, right associativity).

Definition of_opt {A} (e : exc) (o : option A) : res A :=
  match o with Some a => Ok a | None => Raise e end.

Fixpoint mapM {A B} (f : A -> res B) (l : list A) : res (list B) :=
  match l with
  | [] => Ok []
  | x :: r => do y <- f x; do ys <- mapM f r; Ok (y :: ys)
  end.

Definition is_ok {A} (r : res A) : bool := match r with Ok _ => true | Raise _ => false end.
