(* C15 — arbitrary properties are honoured exactly when enabled.  PARTIAL: static facts about the two
   regenerated grammars; storage, rejection and round trip rest on the tie and the option oracle. *)
From PyDBML Require Import PyStr Py Heap PP Analyses GenClasses GenGrammar GrammarFacts.
Import ListNotations.

(* the option replaces the table rule only; every other top-level rule is shared *)
Theorem C15_option_changes_only_the_table_rule :
  match top_alternatives gen_top_off, top_alternatives gen_top_on with
  | _ :: r1, _ :: r2 => r1 = r2
  | _, _ => False
  end.
Proof. exact option_changes_only_the_table_rule. Qed.
Print Assumptions C15_option_changes_only_the_table_rule.

(* the default of the Database constructor is "off" *)
Theorem C15_default_is_off : gen_database_default_allow_properties = false.
Proof. reflexivity. Qed.
Print Assumptions C15_default_is_off.

(* the results name `property` — the only place the build actions read arbitrary properties from — occurs nowhere in the grammar
   used with the option off (nor in a Forward body), and at three places with the option on *)
Theorem C15_property_name_only_with_the_option :
  count_rname 60 (s2l "property") gen_top_off = 0 /\ count_rname 60 (s2l "property") gen_top_on = 3
  /\ forallb (fun e => Nat.eqb (count_rname 60 (s2l "property") e) 0) forward_bodies = true.
Proof. exact property_name_only_with_the_option. Qed.
Print Assumptions C15_property_name_only_with_the_option.
