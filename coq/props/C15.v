(* C15 — arbitrary properties are honoured exactly when enabled.  PARTIAL: static facts about the two
   regenerated grammars; storage, rejection and round trip rest on the tie and the option oracle. *)
From PyDBML Require Import PyStr Py Heap PP Analyses GenClasses GenGrammar GrammarFacts.
Import ListNotations.

(* the option replaces the table rule only; every other top-level rule is shared *)
Theorem C15_option_changes_only_the_table_rule :
  match top_alternatives gen_top_off, top_alternatives gen_top_on with
  | _ :: r1, _ :: r2 => r1 = r2
  | _, _ => False
  end.
Proof. exact option_changes_only_the_table_rule. Qed.
Print Assumptions C15_option_changes_only_the_table_rule.

(* the default of the Database constructor is "off" *)
Theorem C15_default_is_off : gen_database_default_allow_properties = false.
Proof. reflexivity. Qed.
Print Assumptions C15_default_is_off.

(* the results name `property` — the only place the build actions read arbitrary properties from — occurs nowhere in the grammar
   used with the option off (nor in a Forward body), and at three places with the option on *)
Theorem C15_property_name_only_with_the_option :
  count_rname 60 (s2l "property") gen_top_off = 0 /\ count_rname 60 (s2l "property") gen_top_on = 3
  /\ forallb (fun e => Nat.eqb (count_rname 60 (s2l "property") e) 0) forward_bodies = true.
Proof. exact property_name_only_with_the_option. Qed.
Print Assumptions C15_property_name_only_with_the_option.

(* ---- semantics: with the option off no parse result carries properties ---- *)
(* proofs/Names.v: [noname k n e] — the results name k is attached to no element under e; [names_sound] — then no result of running e
   (for every fuel, input, action table) has the key k, by induction on the fuel through every combinator of PP.run (ParseResults
   construction [wrap] adds at most the element's own name, [+=] only keys of its argument).  The name `property` occurs nowhere in the
   grammar of the option off nor in a Forward body, so [properties_of] — the only place the build actions read arbitrary properties
   from — is None for the result of the whole grammar and of every element under it. *)
From PyDBML Require Import Actions Names.
Theorem C15_no_parse_result_carries_properties_when_off :
  noname PROPERTY 60 gen_top_off = true /\
  forall act src f n doact e p cp p' r eff,
    noname PROPERTY n e = true -> run gen_env act src f doact e p cp = POk p' r eff -> properties_of r = None.
Proof. split; [exact no_property_name_off|exact no_properties_when_off]. Qed.
Print Assumptions C15_no_parse_result_carries_properties_when_off.

Theorem C15_results_names_are_those_of_the_grammar :
  forall env act src k, (forall id body, env id = Some body -> exists n, noname k n body = true) ->
  forall f n doact e p cp p' r eff, noname k n e = true -> run env act src f doact e p cp = POk p' r eff -> has_key r k = false.
Proof. intros env act src k Henv f n doact e p cp p' r eff Hn H. exact (names_sound env act src k Henv f n doact e p cp Hn _ _ _ H). Qed.
Print Assumptions C15_results_names_are_those_of_the_grammar.
