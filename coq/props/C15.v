(* C15 — arbitrary properties are honoured exactly when enabled.  PARTIAL: static facts about the two
   regenerated grammars; storage, rejection and round trip rest on the tie and the option oracle. *)
From PyDBML Require Import PyStr Py Heap PP Analyses GenClasses GenGrammar GrammarFacts.
Import ListNotations.

(* the option replaces the table rule only; every other top-level rule is shared *)
Theorem C15_option_changes_only_the_table_rule :
  match top_alternatives gen_top_off, top_alternatives gen_top_on with
  | _ :: r1, _ :: r2 => r1 = r2
  | _, _ => False
  end.
Proof. exact option_changes_only_the_table_rule. Qed.
Print Assumptions C15_option_changes_only_the_table_rule.

(* the default of the Database constructor is "off" *)
Theorem C15_default_is_off : gen_database_default_allow_properties = false.
Proof. reflexivity. Qed.
Print Assumptions C15_default_is_off.

(* the results name `property` — the only place the build actions read arbitrary properties from — occurs nowhere in the grammar
   used with the option off (nor in a Forward body), and at three places with the option on *)
Theorem C15_property_name_only_with_the_option :
  count_rname 60 (s2l "property") gen_top_off = 0 /\ count_rname 60 (s2l "property") gen_top_on = 3
  /\ forallb (fun e => Nat.eqb (count_rname 60 (s2l "property") e) 0) forward_bodies = true.
Proof. exact property_name_only_with_the_option. Qed.
Print Assumptions C15_property_name_only_with_the_option.

(* ---- semantics: with the option off no parse result carries properties ---- *)
(* proofs/Names.v: [noname k n e] — the results name k is attached to no element under e; [names_sound] — then no result of running e
   (for every fuel, input, action table) has the key k, by induction on the fuel through every combinator of PP.run (ParseResults
   construction [wrap] adds at most the element's own name, [+=] only keys of its argument).  The name `property` occurs nowhere in the
   grammar of the option off nor in a Forward body, so [properties_of] — the only place the build actions read arbitrary properties
   from — is None for the result of the whole grammar and of every element under it. *)
From PyDBML Require Import Actions Names.
Theorem C15_no_parse_result_carries_properties_when_off :
  noname PROPERTY 60 gen_top_off = true /\
  forall act src f n doact e p cp p' r eff,
    noname PROPERTY n e = true -> run gen_env act src f doact e p cp = POk p' r eff -> properties_of r = None.
Proof. split; [exact no_property_name_off|exact no_properties_when_off]. Qed.
Print Assumptions C15_no_parse_result_carries_properties_when_off.

Theorem C15_results_names_are_those_of_the_grammar :
  forall env act src k, (forall id body, env id = Some body -> exists n, noname k n body = true) ->
  forall f n doact e p cp p' r eff, noname k n e = true -> run env act src f doact e p cp = POk p' r eff -> has_key r k = false.
Proof. intros env act src k Henv f n doact e p cp p' r eff Hn H. exact (names_sound env act src k Henv f n doact e p cp Hn _ _ _ H). Qed.
Print Assumptions C15_results_names_are_those_of_the_grammar.

(* ---- the option lives in the flag of the Database object (proofs/FlagC.v) ---- *)
From PyDBML Require Import PyStr Py Heap Classes Tools RenderSQL RenderDBML Entry DdlText DbmlText FlagC.
(* the database returned by a parse carries exactly the option that was passed: every write to the database object during the
   build keeps the flag (typed stores: what is stored over a database is a database with the same flag) *)
Theorem C15_parsed_database_carries_the_option :
  forall source allow sq dq h h' d, parser_parse source allow sq dq h = (h', Ok d) ->
    exists db, h_database h' d = Some db /\ d_allow_properties db = allow.
Proof. exact parser_parse_keeps_the_option. Qed.
Print Assumptions C15_parsed_database_carries_the_option.

(* rendering follows the flag as it is now: a column line lists the column's arbitrary properties exactly when the flag of its
   table's database is set, whatever the column carries; a table block has no properties when the flag is off *)
Theorem C15_column_properties_are_rendered_exactly_when_the_flag_is_set :
  forall rd h cid c s, dbml_column rd h cid c = Ok s ->
  exists inl dflt nt ty,
    s = with_comment_dbml (c_comment c)
          (q2 (fstr (c_name c)) ++ cSP :: ty
           ++ settings (inl ++ flag (c_pk c) (s2l "pk") ++ flag (c_autoinc c) (s2l "increment") ++ dflt
                        ++ flag (c_unique c) (s2l "unique") ++ flag (c_not_null c) (s2l "not null")
                        ++ (if is_nil nt then [] else [note_option_to_dbml nt])
                        ++ (if column_flag h c then props_items (c_properties c) else []))).
Proof. exact column_properties_follow_the_flag. Qed.
Print Assumptions C15_column_properties_are_rendered_exactly_when_the_flag_is_set.

Theorem C15_table_block_has_no_properties_when_the_flag_is_off :
  forall rd h t s, dbml_table rd h t = Ok s -> table_flag h t = false ->
  exists rows notes idx,
    s = with_comment_dbml (t_comment t)
          ((s2l "Table " ++ full_name_for_dbml (t_schema t) (t_name t) ++ [cSP]
            ++ (if truthy (t_alias t) then s2l "as " ++ q2 (fstr (t_alias t)) ++ [cSP] else [])
            ++ (if truthy (t_header_color t) then s2l "[headercolor: " ++ fstr (t_header_color t) ++ s2l "] " else []))
           ++ s2l "{" ++ cLF :: textwrap_indent (join [cLF] rows) (s2l "    ") ++ cLF :: [] ++ notes ++ idx ++ s2l "}").
Proof. exact table_properties_follow_the_flag. Qed.
Print Assumptions C15_table_block_has_no_properties_when_the_flag_is_off.
