(* C10 — renderings reflect the current state.  PARTIAL: in the model every rendering is a function
   of the current heap (no cache exists to go stale), and an assignment touches the assigned object
   only; the statement "equal to a freshly built database with the final content" (invariance of the
   renderers under heap isomorphism) is not proved and rests on the tie + the rebuild oracle. *)
From PyDBML Require Import PyStr Py Heap Classes RenderSQL RenderDBML Script ApiFacts.
Import ListNotations.

Theorem C10_rendering_is_a_function_of_the_current_state_partial :
  forall rs s1 s2 o, st_heap s1 = st_heap s2 -> slot s1 o = slot s2 o ->
    snd (exec_op rs s1 (OSql o)) = snd (exec_op rs s2 (OSql o)) /\
    snd (exec_op rs s1 (ODbml o)) = snd (exec_op rs s2 (ODbml o)).
Proof. intros rs s1 s2 o Hh Hs. cbn. rewrite Hh, Hs. destruct (slot s2 o); split; reflexivity. Qed.
Print Assumptions C10_rendering_is_a_function_of_the_current_state_partial.

Theorem C10_store_touches_one_object :
  forall o ob h m, o <> m -> nth_error (fst (store o ob h)) m = nth_error h m.
Proof. exact store_other. Qed.
Print Assumptions C10_store_touches_one_object.
