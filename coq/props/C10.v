(* C10 — renderings reflect the current state.  PARTIAL: in the model every rendering is a function
   of the current heap (no cache exists to go stale), and an assignment touches the assigned object
   only; the statement "equal to a freshly built database with the final content" (invariance of the
   renderers under heap isomorphism) is not proved and rests on the tie + the rebuild oracle.
   Proved in addition (LiveLinks.v): every name a rendering takes from a LINKED object — the columns of an index or of
   a reference, the table of a reference or of an index, the enum of a column type, the tables of a group, the owner of a
   note — is the name in that object's CURRENT record, so the rendering after a rename shows the new name. *)
From PyDBML Require Import PyStr Py Heap Classes Tools RenderSQL RenderDBML Script ApiFacts LiveLinks.
Import ListNotations.

Theorem C10_rendering_is_a_function_of_the_current_state_partial :
  forall rs s1 s2 o, st_heap s1 = st_heap s2 -> slot s1 o = slot s2 o ->
    snd (exec_op rs s1 (OSql o)) = snd (exec_op rs s2 (OSql o)) /\
    snd (exec_op rs s1 (ODbml o)) = snd (exec_op rs s2 (ODbml o)).
Proof. intros rs s1 s2 o Hh Hs. cbn. rewrite Hh, Hs. destruct (slot s2 o); split; reflexivity. Qed.
Print Assumptions C10_rendering_is_a_function_of_the_current_state_partial.

Theorem C10_store_touches_one_object :
  forall o ob h m, o <> m -> nth_error (fst (store o ob h)) m = nth_error h m.
Proof. exact store_other. Qed.
Print Assumptions C10_store_touches_one_object.

(* ---- no stale names: linked names come from the current records ---- *)
Theorem C10_index_ddl_names_columns_as_they_are_called_now :
  forall h c cc, h_column h c = Some cc -> sql_subject h (SubCol c) = Ok (q2 (fstr (c_name cc))).
Proof. exact sql_index_subject_current. Qed.
Print Assumptions C10_index_ddl_names_columns_as_they_are_called_now.

Theorem C10_index_ddl_names_its_table_as_it_is_called_now :
  forall h i t tb s, i_pk i = false -> i_table i = Some t -> h_table h t = Some tb -> sql_index h i = Ok s ->
  exists pre post, s = pre ++ s2l "ON " ++ full_name_for_sql (t_schema tb) (t_name tb) ++ cSP :: post.
Proof. exact sql_index_table_current. Qed.
Print Assumptions C10_index_ddl_names_its_table_as_it_is_called_now.

Theorem C10_reference_ddl_names_columns_and_tables_as_they_are_called_now :
  (forall h cols ccs, Forall2 (fun c cc => h_column h c = Some cc) cols ccs ->
     col_names h cols = Ok (join (s2l ", ") (map (fun cc => q2 (fstr (c_name cc))) ccs))) /\
  (forall h c rest cc t tb, h_column h c = Some cc -> c_table cc = Some t -> h_table h t = Some tb ->
     first_table_full_name h (c :: rest) = Ok (full_name_for_sql (t_schema tb) (t_name tb))).
Proof. split; [exact sql_col_names_current|exact sql_ref_table_current]. Qed.
Print Assumptions C10_reference_ddl_names_columns_and_tables_as_they_are_called_now.

Theorem C10_enum_typed_column_names_the_enum_as_it_is_called_now :
  forall h c e en s, c_type c = CTEnum e -> h_enum h e = Some en -> sql_column h c = Ok s ->
  exists pre post, s = pre ++ q2 (fstr (c_name c)) ++ cSP :: full_name_for_sql (e_schema en) (e_name en) ++ post.
Proof. exact sql_column_enum_current. Qed.
Print Assumptions C10_enum_typed_column_names_the_enum_as_it_is_called_now.

Theorem C10_sql_comment_addresses_its_owner_as_it_is_called_now :
  (forall h n p t, n_text n <> [] -> n_parent n = Some p -> h_table h p = Some t ->
     sql_note h n = Ok (s2l "COMMENT ON TABLE " ++ full_name_for_sql (t_schema t) (t_name t) ++ s2l " IS " ++ cSQ :: prepare_text_for_sql (n_text n) ++ [cSQ; 59%N])) /\
  (forall h n p c, n_text n <> [] -> n_parent n = Some p -> h_column h p = Some c ->
     sql_note h n = Ok (s2l "COMMENT ON COLUMN " ++ q2 (fstr (c_name c)) ++ s2l " IS " ++ cSQ :: prepare_text_for_sql (n_text n) ++ [cSQ; 59%N])).
Proof. split; [exact sql_note_owner_table_current|exact sql_note_owner_column_current]. Qed.
Print Assumptions C10_sql_comment_addresses_its_owner_as_it_is_called_now.

Theorem C10_dbml_reference_and_group_name_tables_and_columns_as_they_are_called_now :
  (forall h cols ccs, Forall2 (fun c cc => h_column h c = Some cc) cols ccs ->
     render_col h cols = Ok (match map (fun cc => q2 (fstr (c_name cc))) ccs with [n] => n | ns => 40%N :: join (s2l ", ") ns ++ [41%N] end)) /\
  (forall h t tb, h_table h t = Some tb -> otable_full_name_dbml h (Some t) = Ok (full_name_for_dbml (t_schema tb) (t_name tb))) /\
  (forall h g ts s, Forall2 (fun t tb => h_table h t = Some tb) (g_items g) ts -> dbml_group h g = Ok s ->
     exists pre post, s = pre ++ concat (map (fun tb => s2l "    " ++ full_name_for_dbml (t_schema tb) (t_name tb) ++ [cLF]) ts) ++ post).
Proof. split; [exact dbml_ref_columns_current|split; [exact dbml_table_name_current|exact dbml_group_items_current]]. Qed.
Print Assumptions C10_dbml_reference_and_group_name_tables_and_columns_as_they_are_called_now.

(* the record `obj.name = v` stores (Script.set_attr), and what the next rendering then shows *)
Theorem C10_rename_is_what_the_next_rendering_shows :
  (forall s o x v n, nth_error (st_heap s) o = Some (OColumn x) -> ostr_of v = Some n ->
     set_attr s o 1 v = Some (store o (OColumn (with_cname n x)))) /\
  (forall s o x v n, nth_error (st_heap s) o = Some (OTable x) -> ostr_of v = Some n ->
     set_attr s o 1 v = Some (store o (OTable (with_tname n (t_schema x) x)))) /\
  (forall s o x v n, nth_error (st_heap s) o = Some (OEnum x) -> ostr_of v = Some n ->
     set_attr s o 1 v = Some (store o (OEnum (with_ename n (e_schema x) x)))) /\
  (forall h c cc nm, h_column h c = Some cc -> c < length h ->
     sql_subject (fst (store c (OColumn (with_cname nm cc)) h)) (SubCol c) = Ok (q2 (fstr nm))) /\
  (forall h c rest cc t tb nm sc, h_column h c = Some cc -> c_table cc = Some t -> h_table h t = Some tb -> c <> t -> t < length h ->
     first_table_full_name (fst (store t (OTable (with_tname nm sc tb)) h)) (c :: rest) = Ok (full_name_for_sql sc nm)) /\
  (forall h c e en nm sc s, c_type c = CTEnum e -> h_enum h e = Some en -> e < length h ->
     sql_column (fst (store e (OEnum (with_ename nm sc en)) h)) c = Ok s ->
     exists pre post, s = pre ++ q2 (fstr (c_name c)) ++ cSP :: full_name_for_sql sc nm ++ post) /\
  (forall h t tb nm sc, h_table h t = Some tb -> t < length h ->
     otable_full_name_dbml (fst (store t (OTable (with_tname nm sc tb)) h)) (Some t) = Ok (full_name_for_dbml sc nm)).
Proof.
  repeat split.
  - exact set_attr_column_name.
  - exact set_attr_table_name.
  - exact set_attr_enum_name.
  - exact renamed_column_in_index_sql.
  - exact renamed_table_in_reference_sql.
  - exact renamed_enum_in_column_sql.
  - exact renamed_table_in_group_dbml.
Qed.
Print Assumptions C10_rename_is_what_the_next_rendering_shows.

Theorem C10_renamed_column_example :
  sql_index ll_heap ll_idx = Ok (s2l "CREATE INDEX ON ""t"" (""old"");") /\
  sql_index (fst (store 1 (OColumn (with_cname (Some (s2l "new")) ll_col)) ll_heap)) ll_idx = Ok (s2l "CREATE INDEX ON ""t"" (""new"");").
Proof. exact renamed_column_example. Qed.
Print Assumptions C10_renamed_column_example.
