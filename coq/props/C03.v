(* C03 — SQL DDL states exactly the model.  PARTIAL: the database-level composition is proved, and (proofs/DdlText.v) the
   statement-level text each renderer of the model emits is characterised exactly, for every heap: column line with its flags
   and DEFAULT exactly when set, CREATE [UNIQUE] INDEX / PRIMARY KEY clause, CREATE TYPE with one line per item in order,
   CREATE TABLE with one row per column in order, COMMENT ON addressing the current names (LiveLinks.v).  That the model's
   renderers are the implementation's rests on the tie; the inverse reading (DDL reader applied to the text gives back the
   statement list) is the check's independent DDL reader, not a theorem. *)
From PyDBML Require Import PyStr Py Heap Classes RenderSQL SqlFacts GenClasses GenTie.
From Coq Require Import Permutation.
Import ListNotations.

(* Every enum, every table and every non-inline reference contributes exactly one component to the
   database text, tables as a permutation of the database's tables, joined by blank lines; nothing
   else is rendered at database level. *)
Theorem C03_database_statement_list_partial :
  forall render h d s, sql_render_db_with render h d = Ok s ->
    exists order comps,
      Permutation order (d_tables d) /\
      mapM (render h) (d_enums d ++ order ++ noninline_refs h d) = Ok comps /\
      s = join [cLF; cLF] comps.
Proof. exact sql_render_db_structure. Qed.
Print Assumptions C03_database_statement_list_partial.

(* the SQL registry of the default renderer handles exactly these classes (regenerated from the source) *)
Theorem C03_sql_registry :
  gen_sql_registry = [s2l "Column"; s2l "Enum"; s2l "EnumItem"; s2l "Expression"; s2l "Index"; s2l "Note"; s2l "Reference"; s2l "Table"].
Proof. exact (proj1 registries_expected). Qed.
Print Assumptions C03_sql_registry.

(* the SQL of an enum item is the check of the required attributes followed by the registered renderer function, which is
   regenerated from its source text on every run (coq/gen/GenFns.v, tools/translate_fns.py) *)
From PyDBML Require Import Heap Classes GenFns GenFnTie.
Theorem C03_enum_item_renderer_regenerated_from_source :
  forall i, sql_enum_item i = do _ <- check_attributes (OEnumItem i); Ok (gen_render_enum_item_sql i).
Proof. exact gen_render_enum_item_sql_is_model. Qed.
Print Assumptions C03_enum_item_renderer_regenerated_from_source.

(* ---- statement-level text (proofs/DdlText.v) ---- *)
From PyDBML Require Import Tools LiveLinks DdlText.
Theorem C03_column_line_text :
  forall h c s, sql_column h c = Ok s ->
  exists ty dflt, type_text h (c_type c) ty /\ default_clause h (c_default c) dflt /\
    s = with_comment (c_comment c)
          (join [cSP] ([q2 (fstr (c_name c)); ty]
                       ++ flag (c_pk c && negb (table_composite_pk h (c_table c))) (s2l "PRIMARY KEY")
                       ++ flag (c_autoinc c) (s2l "AUTOINCREMENT") ++ flag (c_unique c) (s2l "UNIQUE")
                       ++ flag (c_not_null c) (s2l "NOT NULL") ++ dflt)).
Proof. exact sql_column_text. Qed.
Print Assumptions C03_column_line_text.

Theorem C03_column_flags_and_default_exactly_when_set :
  forall h c s, sql_column h c = Ok s -> c_comment c = None ->
  exists ty dflt, s = join [cSP] ([q2 (fstr (c_name c)); ty] ++ flag (c_pk c && negb (table_composite_pk h (c_table c))) (s2l "PRIMARY KEY")
                                  ++ flag (c_autoinc c) (s2l "AUTOINCREMENT") ++ flag (c_unique c) (s2l "UNIQUE")
                                  ++ flag (c_not_null c) (s2l "NOT NULL") ++ dflt) /\ (dflt = [] <-> c_default c = DNone).
Proof. exact sql_column_flags. Qed.
Print Assumptions C03_column_flags_and_default_exactly_when_set.

Theorem C03_index_statement_text :
  forall h i t tb subs ks,
  i_subjects i = Some subs -> i_table i = Some t -> h_table h t = Some tb -> mapM (sql_subject h) subs = Ok ks ->
  sql_index h i = Ok (with_comment (i_comment i)
    (if i_pk i then s2l "PRIMARY KEY (" ++ join (s2l ", ") ks ++ [41%N]
     else s2l "CREATE " ++ (if i_unique i then s2l "UNIQUE " else []) ++ s2l "INDEX "
          ++ (if truthy (i_name i) then q2 (fstr (i_name i)) ++ [cSP] else [])
          ++ s2l "ON " ++ full_name_for_sql (t_schema tb) (t_name tb) ++ [cSP]
          ++ (if truthy (i_type i) then s2l "USING " ++ upper (fstr (i_type i)) ++ [cSP] else [])
          ++ 40%N :: join (s2l ", ") ks ++ s2l ");")).
Proof. exact sql_index_text. Qed.
Print Assumptions C03_index_statement_text.

Theorem C03_enum_statement_text :
  forall h e s, sql_enum h e = Ok s ->
  exists items rows, e_items e = Some items /\
    Forall2 (fun i row => exists it s0, h_enumitem h i = Some it /\ sql_enum_item it = Ok s0 /\ row = textwrap_indent s0 (s2l "  ")) items rows /\
    s = with_comment (e_comment e)
          (s2l "CREATE TYPE " ++ full_name_for_sql (e_schema e) (e_name e) ++ s2l " AS ENUM (" ++ [cLF]
           ++ rstrip_chars [44%N] (join [cLF] rows) ++ cLF :: s2l ");").
Proof. exact sql_enum_text. Qed.
Print Assumptions C03_enum_statement_text.

Theorem C03_table_statement_lists_its_columns_in_order :
  forall h tid t s, sql_table h tid t = Ok s ->
  exists colrows idxs pkrows fkrows cpk others notes,
    Forall2 (fun c row => exists cc s0, h_column h c = Some cc /\ sql_column h cc = Ok s0 /\ row = textwrap_indent s0 (s2l "  ")) (t_columns t) colrows /\
    Forall2 (fun i p => exists ix, h_index h i = Some ix /\ p = (i, ix)) (t_indexes t) idxs /\
    Forall2 (fun p row => exists s0, sql_index h (snd p) = Ok s0 /\ row = textwrap_indent s0 (s2l "  ")) (filter (fun p => i_pk (snd p)) idxs) pkrows /\
    Forall2 (fun p st => exists s0, sql_index h (snd p) = Ok s0 /\ st = cLF :: s0) (filter (fun p => negb (i_pk (snd p))) idxs) others /\
    s = join [cLF] ((if truthy (t_comment t) then [comment_to_sql (fstr (t_comment t))] else [])
                    ++ [s2l "CREATE TABLE " ++ full_name_for_sql (t_schema t) (t_name t) ++ s2l " (";
                        join (s2l "," ++ [cLF]) (colrows ++ pkrows ++ fkrows ++ cpk); s2l ");"]
                    ++ others) ++ notes /\
    length cpk <= 1 /\ (cpk = [] <-> has_composite_pk h t = false).
Proof. exact sql_table_text. Qed.
Print Assumptions C03_table_statement_lists_its_columns_in_order.

Theorem C03_comment_on_addresses_current_names :
  (forall h n p t, n_text n <> [] -> n_parent n = Some p -> h_table h p = Some t ->
     sql_note h n = Ok (s2l "COMMENT ON TABLE " ++ full_name_for_sql (t_schema t) (t_name t) ++ s2l " IS " ++ cSQ :: prepare_text_for_sql (n_text n) ++ [cSQ; 59%N])) /\
  (forall h n p c, n_text n <> [] -> n_parent n = Some p -> h_column h p = Some c ->
     sql_note h n = Ok (s2l "COMMENT ON COLUMN " ++ q2 (fstr (c_name c)) ++ s2l " IS " ++ cSQ :: prepare_text_for_sql (n_text n) ++ [cSQ; 59%N])).
Proof. split; [exact sql_note_owner_table_current|exact sql_note_owner_column_current]. Qed.
Print Assumptions C03_comment_on_addresses_current_names.

Theorem C03_table_text_example :
  sql_table dt_heap 3 dt_tab = Ok (s2l "CREATE TABLE ""t"" (
  ""id"" int PRIMARY KEY AUTOINCREMENT,
  ""n"" int UNIQUE NOT NULL DEFAULT 0
);

CREATE UNIQUE INDEX ON ""t"" (""n"");").
Proof. exact table_text_example. Qed.
Print Assumptions C03_table_text_example.

(* the qualified name used by CREATE TABLE / CREATE TYPE / CREATE INDEX ON / COMMENT ON / REFERENCES (and by the DBML renderer) is
   regenerated from the source text of get_full_name_for_sql / get_full_name_for_dbml on every run *)
From PyDBML Require Import RenderDBML.
Theorem C03_qualified_name_regenerated_from_source :
  (forall s n, gen_get_full_name_for_sql (mkNamed s n) = full_name_for_sql s n) /\
  (forall s n, gen_get_full_name_for_dbml (mkNamed s n) = full_name_for_dbml s n).
Proof. split; [exact gen_get_full_name_for_sql_is_model|exact gen_get_full_name_for_dbml_is_model]. Qed.
Print Assumptions C03_qualified_name_regenerated_from_source.

(* the PRIMARY KEY clause of a pk index is the one render_pk writes (regenerated from its source text) *)
Theorem C03_pk_clause_regenerated_from_source :
  forall i keys, with_comment (i_comment i) (s2l "PRIMARY KEY (" ++ keys ++ [41%N]) = gen_render_pk_sql i keys.
Proof. exact gen_render_pk_sql_is_model. Qed.
Print Assumptions C03_pk_clause_regenerated_from_source.
