(* C03 — SQL DDL states exactly the model.  PARTIAL: the database-level composition is proved;
   the statement-level reading (columns, flags, defaults, keys, indexes, comments) rests on the
   model/implementation tie plus the independent DDL reader of the check (see DESIGN 6). *)
From PyDBML Require Import PyStr Py Heap Classes RenderSQL SqlFacts GenClasses GenTie.
From Coq Require Import Permutation.
Import ListNotations.

(* Every enum, every table and every non-inline reference contributes exactly one component to the
   database text, tables as a permutation of the database's tables, joined by blank lines; nothing
   else is rendered at database level. *)
Theorem C03_database_statement_list_partial :
  forall render h d s, sql_render_db_with render h d = Ok s ->
    exists order comps,
      Permutation order (d_tables d) /\
      mapM (render h) (d_enums d ++ order ++ noninline_refs h d) = Ok comps /\
      s = join [cLF; cLF] comps.
Proof. exact sql_render_db_structure. Qed.
Print Assumptions C03_database_statement_list_partial.

(* the SQL registry of the default renderer handles exactly these classes (regenerated from the source) *)
Theorem C03_sql_registry :
  gen_sql_registry = [s2l "Column"; s2l "Enum"; s2l "EnumItem"; s2l "Expression"; s2l "Index"; s2l "Note"; s2l "Reference"; s2l "Table"].
Proof. exact (proj1 registries_expected). Qed.
Print Assumptions C03_sql_registry.

(* the SQL of an enum item is the check of the required attributes followed by the registered renderer function, which is
   regenerated from its source text on every run (coq/gen/GenFns.v, tools/translate_fns.py) *)
From PyDBML Require Import Heap Classes GenFns GenFnTie.
Theorem C03_enum_item_renderer_regenerated_from_source :
  forall i, sql_enum_item i = do _ <- check_attributes (OEnumItem i); Ok (gen_render_enum_item_sql i).
Proof. exact gen_render_enum_item_sql_is_model. Qed.
Print Assumptions C03_enum_item_renderer_regenerated_from_source.
