(* C12 — all documented ways of supplying the source give the same database. *)
From PyDBML Require Import PyStr Py Heap Classes Tools PP Entry EntryFacts.
Import ListNotations.

(* In the model a file is the text open(p, encoding='utf8').read() returns (the function fs);
   decoding and newline translation are CPython's and outside the model. *)
Theorem C12_routes_with_options :
  forall fs p s allow sq db, fs p = Some s -> at_most_one_bom s = true ->
    pydbml_new fs (SStr s) allow sq db = pydbml_parse s allow sq db
    /\ pydbml_new fs (SPath p) allow sq db = pydbml_parse s allow sq db
    /\ pydbml_new fs (SFile s) allow sq db = pydbml_parse s allow sq db.
Proof. exact routes_with_options. Qed.
Print Assumptions C12_routes_with_options.

Theorem C12_parse_file_routes :
  forall fs p s, fs p = Some s -> at_most_one_bom s = true ->
    pydbml_parse_file fs (SPath p) = pydbml_new fs (SStr s) false 0 1
    /\ pydbml_parse_file fs (SStr p) = pydbml_new fs (SStr s) false 0 1
    /\ pydbml_parse_file fs (SFile s) = pydbml_new fs (SStr s) false 0 1.
Proof. exact parse_file_routes. Qed.
Print Assumptions C12_parse_file_routes.

Theorem C12_leading_bom_ignored :
  forall s allow sq db, match s with c :: _ => N.eqb c cBOM = false | [] => True end ->
    pydbml_parse (cBOM :: s) allow sq db = pydbml_parse s allow sq db.
Proof. exact bom_ignored. Qed.
Print Assumptions C12_leading_bom_ignored.

Theorem C12_other_source_type_refused :
  forall fs allow sq db h, pydbml_new fs SOther allow sq db h = (h, Raise ETypeError).
Proof. exact other_source_type. Qed.
Print Assumptions C12_other_source_type_refused.

(* without the bound on the number of byte-order marks the routes disagree (defect D17) *)
Definition C12_full : Prop :=
  forall fs s allow sq db, pydbml_new fs (SStr s) allow sq db = pydbml_parse s allow sq db.

Definition d17_text : pystr := cBOM :: cBOM :: s2l "Table t {" ++ [cLF] ++ s2l " id int" ++ [cLF] ++ s2l "}".

Theorem C12_full_refuted_D17 : ~ C12_full.
Proof.
  intro H. specialize (H (fun _ => None) d17_text false 0 1).
  apply (f_equal (fun m => is_ok (snd (m [])))) in H. vm_compute in H. discriminate H.
Qed.
Print Assumptions C12_full_refuted_D17.

Example C12_one_bom_is_in_the_domain : at_most_one_bom (cBOM :: s2l "Table") = true.
Proof. reflexivity. Qed.

(* remove_bom, which every route applies, is regenerated from its source text on every run *)
From PyDBML Require Import Tools GenFns GenFnTie.
Theorem C12_remove_bom_regenerated_from_source : forall s, gen_remove_bom s = remove_bom s.
Proof. exact gen_remove_bom_is_model. Qed.
Print Assumptions C12_remove_bom_regenerated_from_source.
