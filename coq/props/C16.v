(* C16 — element and database renderings agree and use the configured renderers. *)
From PyDBML Require Import PyStr Py Heap Classes RenderSQL RenderDBML Script GenClasses GenTie ApiFacts.
Import ListNotations.

(* attached elements render through the database's classes, detached ones through the defaults *)
Theorem C16_sql_uses_configured_renderer :
  forall rs h o ob d db, nth_error h o = Some ob -> obj_database h ob = Some d -> h_database h d = Some db ->
    match ob with ODatabase _ | OSticky _ | OProject _ | OGroup _ => True
    | _ => obj_sql rs h o = render_via rs (d_sql_renderer db) h o end.
Proof. exact obj_sql_uses_database_renderer. Qed.
Print Assumptions C16_sql_uses_configured_renderer.

Theorem C16_dbml_uses_configured_renderer :
  forall rs h o ob d db, nth_error h o = Some ob -> obj_database h ob = Some d -> h_database h d = Some db ->
    match ob with ODatabase _ => True | _ => obj_dbml rs h o = render_via rs (d_dbml_renderer db) h o end.
Proof. exact obj_dbml_uses_database_renderer. Qed.
Print Assumptions C16_dbml_uses_configured_renderer.

Theorem C16_detached_uses_default :
  forall rs h o ob, nth_error h o = Some ob -> obj_database h ob = None ->
    match ob with ODatabase _ => True | _ => obj_dbml rs h o = render_via rs 1 h o end.
Proof. exact obj_dbml_detached_uses_default. Qed.
Print Assumptions C16_detached_uses_default.

(* for an arbitrary registry: no handler renders the empty string, a handler is what is used *)
Theorem C16_unsupported_type_renders_empty :
  forall rd rs k def h o ob, nth_error rs k = Some def -> nth_error h o = Some ob ->
    assocN (kind_code ob) (rd_handlers def) = None -> render_generic rd rs (S (S k)) h o = Ok [].
Proof. exact custom_renderer_unsupported. Qed.
Print Assumptions C16_unsupported_type_renders_empty.

Theorem C16_handler_is_used :
  forall rd rs k def h o ob s, nth_error rs k = Some def -> nth_error h o = Some ob ->
    assocN (kind_code ob) (rd_handlers def) = Some (HConst s) -> render_generic rd rs (S (S k)) h o = Ok s.
Proof. exact custom_renderer_const. Qed.
Print Assumptions C16_handler_is_used.

(* the database DBML is the join of the elements' own .dbml, each exactly once, in the stated order *)
Theorem C16_database_text_is_join_of_elements :
  forall rs h did d, h_database h did = Some d ->
    (forall o, In o (dbml_items h d) -> exists ob, nth_error h o = Some ob /\ obj_database h ob = Some did
                                                 /\ match ob with ODatabase _ => False | _ => True end) ->
    render_db rs (d_dbml_renderer d) h d = dbml_render_db_with (render_via rs (d_dbml_renderer d)) h d ->
    render_db rs (d_dbml_renderer d) h d =
      do comps <- mapM (obj_dbml rs h) (dbml_items h d); Ok (join [cLF; cLF] comps).
Proof. exact database_dbml_is_join. Qed.
Print Assumptions C16_database_text_is_join_of_elements.

(* purity: renderings are functions of the heap; the script interpreter returns the state it was given *)
Theorem C16_rendering_does_not_change_the_state :
  forall rs s o, fst (exec_op rs s (OSql o)) = s /\ fst (exec_op rs s (ODbml o)) = s.
Proof. intros rs s o. cbn. destruct (slot s o); split; reflexivity. Qed.
Print Assumptions C16_rendering_does_not_change_the_state.

(* the DBML renderer of a sticky note is regenerated from its source text on every run *)
From PyDBML Require Import GenFns GenFnTie.
Theorem C16_sticky_note_renderer_regenerated_from_source : forall s, gen_render_sticky_note_dbml s = dbml_sticky s.
Proof. exact gen_render_sticky_note_dbml_is_model. Qed.
Print Assumptions C16_sticky_note_renderer_regenerated_from_source.
