(* C05 — a parsed database is one consistently linked object graph.  PARTIAL: resolution lemmas for
   every heap; the invariant over the whole build (Linked) is not proved and rests on the tie (identities
   are part of the compared dump) + the identity oracle. *)
From PyDBML Require Import PyStr Py Heap Classes Database Build RuleFacts.
Import ListNotations.

(* a table addressed by alias, by bare name or by schema.name resolves to a value of the name index *)
Theorem C05_located_table_is_indexed :
  forall h d db (schema name : pystr) t h', h_database h d = Some db -> locate_table d schema name h = (h', Ok t) ->
    h' = h /\ (dict_get name (d_table_dict db) = Some t \/ dict_get (schema ++ 46%N :: name) (d_table_dict db) = Some t).
Proof. exact locate_table_in_dict. Qed.
Print Assumptions C05_located_table_is_indexed.

(* a reference endpoint / index subject obtained from a table is that table's own column object (an id of its list) *)
Theorem C05_endpoint_is_own_column :
  forall h t tb k c h', h_table h t = Some tb -> table_getitem t k h = (h', Ok c) -> h' = h /\ In c (t_columns tb).
Proof. exact table_getitem_is_own_column. Qed.
Print Assumptions C05_endpoint_is_own_column.
