(* C05 — a parsed database is one consistently linked object graph.
   Proved: for EVERY source text and every option setting, the database the parser returns is [Linked]: every
   contained top-level object is of its class and points back to the Database; lookup by full name or alias
   returns the very Table objects positional lookup lists, and nothing else; every column and index points back
   to its owner and is listed by exactly the table it points to.  (Side condition = defect D36: no table's
   alias equals its own full name.)  Plus the resolution lemmas for reference endpoints and index subjects.
   And [LinkedMore]: both endpoint lists of every contained reference are Column objects held by one listed
   Table (the one the address was resolved to), table groups hold listed Table objects, a column whose type is an
   Enum object holds a listed Enum, the column subjects of every index are Column objects of the owning table.
   Consequences proved for every state satisfying both invariants: Reference.table1 / table2 succeed and are the listed
   tables holding the whole side; Table.get_refs of a listed table returns exactly the contained references whose left
   side is that table; a reference that is not many-to-many has exactly one listed table as its SQL key holder.
   An inline reference starts at the column that declared it (the registered blueprint carries the declaring table and column).
   Notes: every owner the constructors build (table, column, index, enum item, project) is the parent of its own note when the
   constructor returns (C05_constructed_owner_is_parent_of_its_note_partial), and no later step of the build stores a note or an
   owner's note field: in the database the parser returns, every table, column, index, enum item and project is the parent of
   its note (C05_parsed_notes_point_back, invariant NoteBack of proofs/NoteInv.v, kept by the build whatever its outcome). *)
From PyDBML Require Import PyStr Py Heap Classes Database Tools PP Actions Build GenClasses GenGrammar Entry
  RenderSQL RuleFacts ContainerInv ContainerFull TableInv BuildInv BuildLinks.
Import ListNotations.

Theorem C05_parsed_database_is_linked :
  forall source allow sq dq h0 h1 d,
    WW h0 -> (forall t tb, h_table h0 t = Some tb -> NoDup (names_of tb)) ->
    parser_parse source allow sq dq h0 = (h1, Ok d) ->
    (forall st, blueprints_of source allow h0 = (h0, Ok st) -> Forall good_table_bp (ps_tables st)) ->
    d = length h0 /\ Linked h1 d.
Proof. exact parser_parse_linked. Qed.
Print Assumptions C05_parsed_database_is_linked.

(* reference endpoints, table-group items and enum-typed columns: what the addresses were resolved to is still in
   place in the database that is returned *)
Theorem C05_addresses_stay_resolved :
  forall source allow sq dq h0 h1 d,
    WW h0 -> (forall t tb, h_table h0 t = Some tb -> NoDup (names_of tb)) ->
    parser_parse source allow sq dq h0 = (h1, Ok d) ->
    (forall st, blueprints_of source allow h0 = (h0, Ok st) -> Forall good_table_bp (ps_tables st)) ->
    exists db, Inv h1 d db /\ LinkedMore h1 d db.
Proof. exact parser_parse_linked_more. Qed.
Print Assumptions C05_addresses_stay_resolved.

Theorem C05_build_database_keeps_links :
  forall s allow sq dq h0 h1 r,
    WW h0 -> (forall t tb, h_table h0 t = Some tb -> NoDup (names_of tb)) -> Forall good_table_bp (ps_tables s) ->
    build_database s allow sq dq h0 = (h1, r) ->
    exists db, Inv h1 (length h0) db /\ LinkedMore h1 (length h0) db.
Proof. exact build_database_linked_more. Qed.
Print Assumptions C05_build_database_keeps_links.

(* Reference.table1 / table2 of a contained reference *)
Theorem C05_reference_sides_resolve :
  forall h d db r rr, Inv h d db -> LinkedMore h d db -> In r (d_refs db) -> h_reference h r = Some rr ->
  exists t1 tb1 t2 tb2 cs1 cs2,
    r_col1 rr = Some cs1 /\ r_col2 rr = Some cs2 /\
    ref_table1 h rr = Ok (Some t1) /\ ref_table2 h rr = Ok (Some t2) /\
    In t1 (d_tables db) /\ In t2 (d_tables db) /\ h_table h t1 = Some tb1 /\ h_table h t2 = Some tb2 /\
    incl cs1 (t_columns tb1) /\ incl cs2 (t_columns tb2).
Proof. exact ref_tables_resolve. Qed.
Print Assumptions C05_reference_sides_resolve.

(* Table.get_refs: exactly the contained references whose left side is that table *)
Theorem C05_get_refs_exact :
  forall h d db t, Inv h d db -> LinkedMore h d db -> In t (d_tables db) ->
    table_get_refs t h = (h, Ok (filter (left_is h t) (d_refs db))).
Proof. exact get_refs_exact. Qed.
Print Assumptions C05_get_refs_exact.

(* every reference that is not many-to-many is assigned to exactly one table as its SQL key holder *)
Theorem C05_exactly_one_key_holder :
  forall h d db r rr, Inv h d db -> LinkedMore h d db -> In r (d_refs db) -> h_reference h r = Some rr ->
  (ostr_eqb (r_type rr) (Some MANY_TO_ONE) || ostr_eqb (r_type rr) (Some ONE_TO_ONE) || ostr_eqb (r_type rr) (Some ONE_TO_MANY)) = true ->
  exists holder, In holder (d_tables db) /\ forall t, In t (d_tables db) -> holds_key h rr t = Ok (Nat.eqb t holder).
Proof. exact key_holder_unique. Qed.
Print Assumptions C05_exactly_one_key_holder.

(* an inline reference starts at the column that declared it *)
Theorem C05_inline_reference_origin :
  forall td rb, In rb (table_ref_blueprints td) ->
  exists cd rd0, In (PVBlue 5 cd) (flist_of td "columns") /\ In rd0 (flist_of cd "ref_blueprints") /\
    match rd0 with
    | PVBlue 4 _ =>
        exists rd, rb = PVBlue 4 rd /\
          dget (K "col1") rd = Some (match dget (K "name") cd with Some v => v | None => PVNone end) /\
          dget (K "table1") rd = Some (match dget (K "name") td with Some v => v | None => PVNone end) /\
          dget (K "schema1") rd = Some (PVStr (match fstr_of td "schema" with Some s => s | None => K "public" end))
    | _ => rb = rd0
    end.
Proof. exact inline_ref_blueprint_origin. Qed.
Print Assumptions C05_inline_reference_origin.

(* notes point back to their owner, at construction *)
Theorem C05_constructed_owner_is_parent_of_its_note_partial :
  (forall n ty u nn pk ai d nt c p h h' x, new_column n ty u nn pk ai d nt c p h = (h', Ok x) -> note_points_back h' x) /\
  (forall s n u ty pk nt c h h' x, new_index s n u ty pk nt c h = (h', Ok x) -> note_points_back h' x) /\
  (forall n nt c h h' x, new_enumitem n nt c h = (h', Ok x) -> note_points_back h' x) /\
  (forall n i nt c h h' x, new_project n i nt c h = (h', Ok x) -> note_points_back h' x) /\
  (forall name schema alias nt hc c ab props h h' x, new_table name schema alias [] [] nt hc c ab props h = (h', Ok x) -> note_points_back h' x).
Proof. repeat split; [exact new_column_note|exact new_index_note|exact new_enumitem_note|exact new_project_note|exact new_table_note]. Qed.
Print Assumptions C05_constructed_owner_is_parent_of_its_note_partial.

(* ... and for every source text: in the heap the parser leaves (whatever its outcome), every object of a class that owns a note
   has a Note object whose parent is that very object *)
From PyDBML Require Import NoteInv.
Theorem C05_parsed_notes_point_back :
  forall source allow sq dq h r,
    parser_parse source allow sq dq [] = (h, r) ->
    forall x ob n, nth_error h x = Some ob -> note_of ob = Some n -> exists nn, h_note h n = Some nn /\ n_parent nn = Some x.
Proof. intros source allow sq dq h r H. exact (parser_parse_keeps_notes source allow sq dq [] h r NoteBack_nil H). Qed.
Print Assumptions C05_parsed_notes_point_back.

(* the invariant is kept from any heap that has it, by the build of any list of blueprints *)
Theorem C05_build_database_keeps_note_parents :
  forall s allow sq dq h h' r, NoteBack h -> build_database s allow sq dq h = (h', r) -> NoteBack h'.
Proof. intros s allow sq dq h h' r NB H. exact (build_database_keeps_notes s allow sq dq h h' r NB H). Qed.
Print Assumptions C05_build_database_keeps_note_parents.

(* non-vacuity: a document with a project, an enum item, a table, a column and an index, each with a note *)
Theorem C05_parsed_notes_example :
  match parser_parse note_example_text false 0 1 [] with
  | (h, Ok _) => noteback_b h = true /\ owners h = 5
  | _ => False
  end.
Proof. exact parsed_notes_example. Qed.
Print Assumptions C05_parsed_notes_example.

(* the same for any list of blueprints, whatever grammar produced them; also when the build fails half-way *)
Theorem C05_build_database_keeps_invariant :
  forall s allow sq dq h0 h1 r,
    WW h0 -> (forall t tb, h_table h0 t = Some tb -> NoDup (names_of tb)) -> Forall good_table_bp (ps_tables s) ->
    build_database s allow sq dq h0 = (h1, r) ->
    (exists db, Inv h1 (length h0) db) /\ forall d, r = Ok d -> d = length h0.
Proof. exact build_database_invariant. Qed.
Print Assumptions C05_build_database_keeps_invariant.

(* the hypotheses are satisfiable: the parser starts from an empty heap *)
Example C05_empty_heap_ok : WW [] /\ (forall t tb, h_table [] t = Some tb -> NoDup (names_of tb)).
Proof. split; [exact WW_empty|]. intros t tb H. destruct t; discriminate H. Qed.

(* a table addressed by alias, by bare name or by schema.name resolves to a value of the name index *)
Theorem C05_located_table_is_indexed :
  forall h d db (schema name : pystr) t h', h_database h d = Some db -> locate_table d schema name h = (h', Ok t) ->
    h' = h /\ (dict_get name (d_table_dict db) = Some t \/ dict_get (schema ++ 46%N :: name) (d_table_dict db) = Some t).
Proof. exact locate_table_in_dict. Qed.
Print Assumptions C05_located_table_is_indexed.

(* a reference endpoint / index subject obtained from a table is that table's own column object (an id of its list) *)
Theorem C05_endpoint_is_own_column :
  forall h t tb k c h', h_table h t = Some tb -> table_getitem t k h = (h', Ok c) -> h' = h /\ In c (t_columns tb).
Proof. exact table_getitem_is_own_column. Qed.
Print Assumptions C05_endpoint_is_own_column.
