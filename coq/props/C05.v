(* C05 — a parsed database is one consistently linked object graph.
   Proved: for EVERY source text and every option setting, the database the parser returns is [Linked]: every
   contained top-level object is of its class and points back to the Database; lookup by full name or alias
   returns the very Table objects positional lookup lists, and nothing else; every column and index points back
   to its owner and is listed by exactly the table it points to.  (Side condition = defect D36: no table's
   alias equals its own full name.)  Plus the resolution lemmas for reference endpoints and index subjects.
   Not proved (tie + identity oracle): the stability of reference endpoints / enum-typed columns / group items
   until the end of the build, get_refs and the SQL key holder. *)
From PyDBML Require Import PyStr Py Heap Classes Database Tools PP Actions Build GenClasses GenGrammar Entry
  RuleFacts ContainerInv ContainerFull TableInv BuildInv.
Import ListNotations.

Theorem C05_parsed_database_is_linked :
  forall source allow sq dq h0 h1 d,
    WW h0 -> (forall t tb, h_table h0 t = Some tb -> NoDup (names_of tb)) ->
    parser_parse source allow sq dq h0 = (h1, Ok d) ->
    (forall st, blueprints_of source allow h0 = (h0, Ok st) -> Forall good_table_bp (ps_tables st)) ->
    d = length h0 /\ Linked h1 d.
Proof. exact parser_parse_linked. Qed.
Print Assumptions C05_parsed_database_is_linked.

(* the same for any list of blueprints, whatever grammar produced them; also when the build fails half-way *)
Theorem C05_build_database_keeps_invariant :
  forall s allow sq dq h0 h1 r,
    WW h0 -> (forall t tb, h_table h0 t = Some tb -> NoDup (names_of tb)) -> Forall good_table_bp (ps_tables s) ->
    build_database s allow sq dq h0 = (h1, r) ->
    (exists db, Inv h1 (length h0) db) /\ forall d, r = Ok d -> d = length h0.
Proof. exact build_database_invariant. Qed.
Print Assumptions C05_build_database_keeps_invariant.

(* the hypotheses are satisfiable: the parser starts from an empty heap *)
Example C05_empty_heap_ok : WW [] /\ (forall t tb, h_table [] t = Some tb -> NoDup (names_of tb)).
Proof. split; [exact WW_empty|]. intros t tb H. destruct t; discriminate H. Qed.

(* a table addressed by alias, by bare name or by schema.name resolves to a value of the name index *)
Theorem C05_located_table_is_indexed :
  forall h d db (schema name : pystr) t h', h_database h d = Some db -> locate_table d schema name h = (h', Ok t) ->
    h' = h /\ (dict_get name (d_table_dict db) = Some t \/ dict_get (schema ++ 46%N :: name) (d_table_dict db) = Some t).
Proof. exact locate_table_in_dict. Qed.
Print Assumptions C05_located_table_is_indexed.

(* a reference endpoint / index subject obtained from a table is that table's own column object (an id of its list) *)
Theorem C05_endpoint_is_own_column :
  forall h t tb k c h', h_table h t = Some tb -> table_getitem t k h = (h', Ok c) -> h' = h /\ In c (t_columns tb).
Proof. exact table_getitem_is_own_column. Qed.
Print Assumptions C05_endpoint_is_own_column.
