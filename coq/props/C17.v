(* C17 — inconsistent models are refused at render time. *)
From PyDBML Require Import PyStr Py Heap Classes RenderSQL RenderDBML Script GenClasses GenTie ApiFacts.
Import ListNotations.

(* For every object of an SQL class and every attribute the SOURCE lists as required for that class
   (coq/gen/GenClasses.v is regenerated on every run), SQL rendering of the object with that
   attribute unset raises the attribute-missing error. *)
Theorem C17_missing_required_attribute :
  forall h o ob, nth_error h o = Some ob -> is_sql_class ob = true ->
    check_generic gen_required_attributes ob = Raise EAttributeMissing ->
    sql_render h o = Raise EAttributeMissing.
Proof. exact sql_render_missing_attribute. Qed.
Print Assumptions C17_missing_required_attribute.

(* the hand-written check of the model is the generic check over the regenerated table *)
Theorem C17_required_attributes_from_source :
  forall o, match o with ODatabase _ | OSticky _ | OProject _ | OGroup _ => True
            | _ => check_attributes o = check_generic gen_required_attributes o end.
Proof. exact check_attributes_matches_source. Qed.
Print Assumptions C17_required_attributes_from_source.

Theorem C17_detached_column_sql :
  forall h rid r c1 c2 ty, r_type r = Some ty -> r_col1 r = Some c1 -> r_col2 r = Some c2 ->
    forallb (is_col h) (c1 ++ c2) = true -> existsb (detached h) (c1 ++ c2) = true ->
    sql_reference h rid r = Raise ETableNotFound.
Proof. exact sql_reference_detached. Qed.
Print Assumptions C17_detached_column_sql.

Theorem C17_detached_column_dbml :
  forall h r c1 c2, r_col1 r = Some c1 -> r_col2 r = Some c2 ->
    forallb (is_col h) (c1 ++ c2) = true -> existsb (detached h) (c1 ++ c2) = true ->
    dbml_reference h r = Raise ETableNotFound.
Proof. exact dbml_reference_detached. Qed.
Print Assumptions C17_detached_column_dbml.

(* "different tables" is structural inequality (Table.__ne__), as the code tests it *)
Theorem C17_mixed_tables_table1 :
  forall h r c0 rest t0, r_col1 r = Some (c0 :: rest) -> col_table h c0 = Ok t0 ->
    (exists ts, mapM (col_table h) (c0 :: rest) = Ok ts /\ existsb (fun t => negb (otable_eqb h t t0)) ts = true) ->
    ref_table1 h r = Raise EDBML.
Proof. exact ref_table1_mixed. Qed.
Print Assumptions C17_mixed_tables_table1.

Theorem C17_mixed_tables_dbml :
  forall h r c0 rest t0 c2, r_col1 r = Some (c0 :: rest) -> r_col2 r = Some c2 -> col_table h c0 = Ok t0 ->
    (exists ts, mapM (col_table h) (c0 :: rest) = Ok ts /\ existsb (fun t => negb (otable_eqb h t t0)) ts = true) ->
    validate_ref_cols h r = Ok (c0 :: rest, c2) -> ref_inline r = false ->
    dbml_reference h r = Raise EDBML.
Proof. exact dbml_reference_mixed. Qed.
Print Assumptions C17_mixed_tables_dbml.

Theorem C17_composite_inline_dbml :
  forall h r c1 a b rest, validate_ref_cols h r = Ok (c1, a :: b :: rest) -> ref_inline r = true ->
    dbml_reference h r = Raise EDBML.
Proof. exact dbml_reference_composite_inline. Qed.
Print Assumptions C17_composite_inline_dbml.

Theorem C17_detached_table_get_refs :
  forall h t tb, h_table h t = Some tb -> t_database tb = None -> table_get_refs t h = (h, Raise EUnknownDatabase).
Proof. exact table_get_refs_detached. Qed.
Print Assumptions C17_detached_table_get_refs.

Theorem C17_detached_column_get_refs :
  forall h c cc, h_column h c = Some cc -> c_table cc = None -> column_get_refs c h = (h, Raise ETableNotFound).
Proof. exact column_get_refs_detached. Qed.
Print Assumptions C17_detached_column_get_refs.

(* non-vacuity: a table without a name exists and is refused *)
Example C17_example :
  let '(h, _) := new_table None (Some (s2l "public")) None [] [] NAnone None None false [] [] in
  sql_render h 1 = Raise EAttributeMissing.
Proof. vm_compute. reflexivity. Qed.
