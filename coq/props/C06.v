(* C06 — rule-breaking documents are rejected with the error belonging to the rule.  PARTIAL: the rules
   are stated where they are enforced (container and blueprint level, for every heap); lifting them to
   documents in every spelling needs the rule-level derivations of C01 and rests on the tie + injection oracle. *)
From PyDBML Require Import PyStr Py Heap Classes Database Tools PP Actions Build GenClasses RuleFacts.
Import ListNotations.

Theorem C06_duplicate_table_name_or_alias :
  forall h d db o t, h_database h d = Some db -> h_table h o = Some t ->
    (dict_has (table_full_name t) (d_table_dict db) = true
     \/ (truthy (t_alias t) = true /\ dict_has (fstr (t_alias t)) (d_table_dict db) = true)) ->
    db_add_table d o h = (h, Raise EDatabaseValidation).
Proof. exact add_table_name_clash. Qed.
Print Assumptions C06_duplicate_table_name_or_alias.

Theorem C06_duplicate_enum :
  forall h d db o e, h_database h d = Some db -> h_enum h o = Some e ->
    existsb (fun e2 => match h_enum h e2 with
                       | Some ee => ostr_eqb (e_name ee) (e_name e) && ostr_eqb (e_schema ee) (e_schema e)
                       | None => false end) (d_enums db) = true ->
    db_add_enum d o h = (h, Raise EDatabaseValidation).
Proof. exact add_enum_clash. Qed.
Print Assumptions C06_duplicate_enum.

Theorem C06_duplicate_table_group :
  forall h d db o g, h_database h d = Some db -> h_group h o = Some g ->
    existsb (fun g2 => match h_group h g2 with Some gg => str_eqb (g_name gg) (g_name g) | None => false end) (d_table_groups db) = true ->
    db_add_table_group d o h = (h, Raise EDatabaseValidation).
Proof. exact add_group_clash. Qed.
Print Assumptions C06_duplicate_table_group.

(* a repeated reference is rejected whether each copy was inline, short or block form: equality ignores
   the inline flag and the owner (the excluded fields are read from the source) *)
Theorem C06_reference_equality_ignores_inline :
  forall h a b ra rb, h_reference h a = Some ra -> h_reference h b = Some rb ->
    r_type ra = r_type rb -> r_col1 ra = r_col1 rb -> r_col2 ra = r_col2 rb -> r_name ra = r_name rb ->
    r_comment ra = r_comment rb -> r_on_update ra = r_on_update rb -> r_on_delete ra = r_on_delete rb ->
    (forall c, column_eqb h c c = true) -> ref_eqb h a b = true.
Proof. exact ref_eqb_ignores_inline_and_owner. Qed.
Print Assumptions C06_reference_equality_ignores_inline.

Theorem C06_dont_compare_fields_of_reference :
  dict_get (s2l "Reference") gen_dont_compare_fields = Some [s2l "database"; s2l "_inline"].
Proof. exact dont_compare_reference_fields. Qed.
Print Assumptions C06_dont_compare_fields_of_reference.

Theorem C06_duplicate_reference :
  forall h d db o r, h_database h d = Some db -> h_reference h o = Some r ->
    list_has (ref_eqb h) o (d_refs db) = true ->
    db_add_reference d o h = (h, Raise EDatabaseValidation) \/ db_add_reference d o h = (h, Raise ETypeError).
Proof. exact add_reference_duplicate. Qed.
Print Assumptions C06_duplicate_reference.

Theorem C06_unknown_table :
  forall h d db (schema name : pystr), h_database h d = Some db ->
    dict_get name (d_table_dict db) = None -> dict_get (schema ++ 46%N :: name) (d_table_dict db) = None ->
    locate_table d schema name h = (h, Raise ETableNotFound).
Proof. exact locate_table_missing. Qed.
Print Assumptions C06_unknown_table.

Theorem C06_unknown_column :
  forall h t tb s, h_table h t = Some tb ->
    find (fun c => match h_column h c with Some cc => ostr_eqb (c_name cc) (Some s) | None => false end) (t_columns tb) = None ->
    table_getitem t (KStr s) h = (h, Raise EColumnNotFound).
Proof. exact table_getitem_missing. Qed.
Print Assumptions C06_unknown_column.

Theorem C06_table_without_columns :
  forall src loc r, (exists n, pr_getitem r (K "name") = Some n) ->
    pr_getitem r (K "settings") = None -> pr_getitem r (K "alias") = None -> pr_getitem r (K "note") = None ->
    pr_getitem r (K "indexes") = None -> pr_getitem r (K "columns") = None ->
    act 13 src loc r = ARRaise ESyntaxError.
Proof. exact empty_table_rejected. Qed.
Print Assumptions C06_table_without_columns.

(* ---- at the level of documents ---- *)
From PyDBML Require Import Tools PP Actions GenClasses GenGrammar Entry ContainerInv ContainerFull TableInv BuildInv BuildRules.

(* Whatever else the document contains — any enums, other tables, indexes, references, groups, notes, in any order —
   if two of its table blueprints share a key ([bp_keys]: schema.name and, if present, the alias) — the same schema and name, the
   same alias, or the alias of one equal to the full name of the other — the build never returns a database (side condition D36). *)
Theorem C06_document_with_duplicate_table_never_builds :
  forall s allow sq dq h0 h1 dd l1 bp1 l2 bp2 l3 nm,
    WW h0 -> (forall t tb, h_table h0 t = Some tb -> NoDup (names_of tb)) -> Forall good_table_bp (ps_tables s) ->
    ps_tables s = l1 ++ bp1 :: l2 ++ bp2 :: l3 -> In nm (bp_keys bp1) -> In nm (bp_keys bp2) ->
    build_database s allow sq dq h0 <> (h1, Ok dd).
Proof. exact build_database_rejects_duplicate_tables. Qed.
Print Assumptions C06_document_with_duplicate_table_never_builds.

Theorem C06_source_with_duplicate_table_never_parses :
  forall source allow sq dq h0 h1 d st l1 bp1 l2 bp2 l3 nm,
    WW h0 -> (forall t tb, h_table h0 t = Some tb -> NoDup (names_of tb)) ->
    blueprints_of source allow h0 = (h0, Ok st) -> Forall good_table_bp (ps_tables st) ->
    ps_tables st = l1 ++ bp1 :: l2 ++ bp2 :: l3 -> In nm (bp_keys bp1) -> In nm (bp_keys bp2) ->
    parser_parse source allow sq dq h0 <> (h1, Ok d).
Proof. exact parser_rejects_duplicate_tables. Qed.
Print Assumptions C06_source_with_duplicate_table_never_parses.

(* the same for enums: two enum blueprints with the same schema and name *)
Theorem C06_document_with_duplicate_enum_never_builds :
  forall s allow sq dq h0 h1 dd l1 bp1 l2 bp2 l3 key,
    WW h0 -> (forall t tb, h_table h0 t = Some tb -> NoDup (names_of tb)) ->
    ps_enums s = l1 ++ bp1 :: l2 ++ bp2 :: l3 -> bp_enum_key bp1 = Some key -> bp_enum_key bp2 = Some key ->
    build_database s allow sq dq h0 <> (h1, Ok dd).
Proof. exact build_database_rejects_duplicate_enums. Qed.
Print Assumptions C06_document_with_duplicate_enum_never_builds.

(* and for table groups: two group blueprints with the same name *)
Theorem C06_document_with_duplicate_group_never_builds :
  forall s allow sq dq h0 h1 dd l1 bp1 l2 bp2 l3 key,
    WW h0 -> (forall t tb, h_table h0 t = Some tb -> NoDup (names_of tb)) -> Forall good_table_bp (ps_tables s) ->
    ps_groups s = l1 ++ bp1 :: l2 ++ bp2 :: l3 -> bp_group_key bp1 = Some key -> bp_group_key bp2 = Some key ->
    build_database s allow sq dq h0 <> (h1, Ok dd).
Proof. exact build_database_rejects_duplicate_groups. Qed.
Print Assumptions C06_document_with_duplicate_group_never_builds.

(* a reference (standalone or inline, any position) naming a table under a name that no table blueprint provides — neither
   as an alias or bare key nor as schema.name — never builds: the table index only ever holds keys of table blueprints *)
Theorem C06_document_with_reference_to_unknown_table_never_builds :
  forall s allow sq dq h0 h1 dd l1 rb l2,
    WW h0 -> (forall t tb, h_table h0 t = Some tb -> NoDup (names_of tb)) -> Forall good_table_bp (ps_tables s) ->
    ps_refs s = l1 ++ rb :: l2 -> ref_names_missing (flat_map bp_keys (ps_tables s)) rb ->
    build_database s allow sq dq h0 <> (h1, Ok dd).
Proof. exact build_database_rejects_unknown_table. Qed.
Print Assumptions C06_document_with_reference_to_unknown_table_never_builds.

From PyDBML Require Import BuildDocs.
From Coq Require Import String.
Open Scope string_scope.
Open Scope list_scope.

(* a reference (standalone or inline, any position, either side, composite or not) naming a column that no table blueprint
   answering to that side's table name declares never builds.  [TabCols]: every table in the name index was built from a table
   blueprint whose keys include the index key, and has exactly that blueprint's column names, through every later step. *)
Theorem C06_document_with_reference_to_unknown_column_never_builds :
  forall s allow sq dq h0 h1 dd l1 rb l2,
    WW h0 -> (forall t tb, h_table h0 t = Some tb -> NoDup (names_of tb)) -> Forall good_table_bp (ps_tables s) ->
    ps_refs s = l1 ++ rb :: l2 -> ref_col_missing (ps_tables s) rb ->
    build_database s allow sq dq h0 <> (h1, Ok dd).
Proof. exact build_database_rejects_unknown_column. Qed.
Print Assumptions C06_document_with_reference_to_unknown_column_never_builds.

(* an index over a column name its own table does not declare never builds (no side condition on the rest of the document) *)
Theorem C06_document_with_index_over_unknown_column_never_builds :
  forall s allow sq dq h0 h1 dd l1 bp l2,
    ps_tables s = l1 ++ bp :: l2 -> index_col_missing bp -> build_database s allow sq dq h0 <> (h1, Ok dd).
Proof. exact build_database_rejects_index_over_unknown_column. Qed.
Print Assumptions C06_document_with_index_over_unknown_column_never_builds.

(* a table group naming a table no table blueprint provides never builds *)
Theorem C06_document_with_group_of_unknown_table_never_builds :
  forall s allow sq dq h0 h1 dd l1 gb l2,
    WW h0 -> (forall t tb, h_table h0 t = Some tb -> NoDup (names_of tb)) -> Forall good_table_bp (ps_tables s) ->
    ps_groups s = l1 ++ gb :: l2 -> group_names_missing (flat_map bp_keys (ps_tables s)) gb ->
    build_database s allow sq dq h0 <> (h1, Ok dd).
Proof. exact build_database_rejects_group_of_unknown_table. Qed.
Print Assumptions C06_document_with_group_of_unknown_table_never_builds.

(* a table group listing the same name twice never builds *)
Theorem C06_document_with_group_listing_a_name_twice_never_builds :
  forall s allow sq dq h0 h1 dd l1 gb l2,
    WW h0 -> (forall t tb, h_table h0 t = Some tb -> NoDup (names_of tb)) -> Forall good_table_bp (ps_tables s) ->
    ps_groups s = l1 ++ gb :: l2 -> group_repeats gb ->
    build_database s allow sq dq h0 <> (h1, Ok dd).
Proof. exact build_database_rejects_group_listing_a_name_twice. Qed.
Print Assumptions C06_document_with_group_listing_a_name_twice_never_builds.

(* a reference repeated — two reference blueprints (standalone or registered from an inline setting, any positions) that agree on
   kind, both addresses as written, name, comment and actions; the inline flag is not compared — never builds: both copies resolve to
   the same Column objects (the name index and every table's columns stay as they are while references are added), the first copy
   stays in the database with its data, and the structural equality of the second with it makes add_reference refuse *)
From PyDBML Require Import BuildRefs.
Theorem C06_document_with_repeated_reference_never_builds :
  forall s allow sq dq h0 h1 dd l1 dd1 l2 dd2 l3,
    WW h0 -> (forall t tb, h_table h0 t = Some tb -> NoDup (names_of tb)) -> Forall good_table_bp (ps_tables s) ->
    ps_refs s = l1 ++ PVBlue 4 dd1 :: l2 ++ PVBlue 4 dd2 :: l3 -> samekey dd1 dd2 ->
    build_database s allow sq dq h0 <> (h1, Ok dd).
Proof. exact build_database_rejects_duplicate_references. Qed.
Print Assumptions C06_document_with_repeated_reference_never_builds.

Theorem C06_repeated_reference_example :
  samekey (ex_ref_dd "b" "a_id" "a" "id") (ex_ref_inline "b" "a_id" "a" "id")
  /\ snd (build_database ex_doc_dupref false 0 1 []) = Raise EDatabaseValidation.
Proof. exact duplicate_reference_example. Qed.
Print Assumptions C06_repeated_reference_example.

(* ... however each copy addresses its tables: by alias, by a key written bare, or as schema.name when no table answers to the bare
   name (PyDBMLParser.locate_table) — in any combination, on either side.  [names_bp allk bp sch n]: the address (sch, n) names the
   table of blueprint bp *)
From PyDBML Require Import BuildSpell.
Theorem C06_document_with_same_reference_in_any_spelling_never_builds :
  forall s allow sq dq h0 h1 dd l1 dd1 l2 dd2 l3,
    WW h0 -> (forall t tb, h_table h0 t = Some tb -> NoDup (names_of tb)) -> Forall good_table_bp (ps_tables s) ->
    ps_refs s = l1 ++ PVBlue 4 dd1 :: l2 ++ PVBlue 4 dd2 :: l3 -> sameref (flat_map bp_keys (ps_tables s)) (ps_tables s) dd1 dd2 ->
    build_database s allow sq dq h0 <> (h1, Ok dd).
Proof. exact build_database_rejects_same_references. Qed.
Print Assumptions C06_document_with_same_reference_in_any_spelling_never_builds.

(* a table group listing one table twice, under whatever two spellings *)
Theorem C06_document_with_group_listing_a_table_twice_never_builds :
  forall s allow sq dq h0 h1 dd l1 gb l2,
    WW h0 -> (forall t tb, h_table h0 t = Some tb -> NoDup (names_of tb)) -> Forall good_table_bp (ps_tables s) ->
    ps_groups s = l1 ++ gb :: l2 -> group_repeats_table (flat_map bp_keys (ps_tables s)) (ps_tables s) gb ->
    build_database s allow sq dq h0 <> (h1, Ok dd).
Proof. exact build_database_rejects_group_listing_a_table_twice. Qed.
Print Assumptions C06_document_with_group_listing_a_table_twice_never_builds.

Theorem C06_spelling_examples :
  (sameref (flat_map bp_keys (ps_tables ex_doc_spell)) (ps_tables ex_doc_spell) (ex_ref_dd "b" "a_id" "a" "id") (ex_ref_inline "b" "a_id" "al" "id")
   /\ snd (build_database ex_doc_spell_refs_only false 0 1 []) = Raise EDatabaseValidation)
  /\ (group_repeats_table (flat_map bp_keys (ps_tables ex_doc_spell)) (ps_tables ex_doc_spell) (ex_group "g" ["b"; "a"; "al"])
      /\ snd (build_database (mkPState (ps_tables ex_doc_spell) [] [] (ps_groups ex_doc_spell) None []) false 0 1 []) = Raise EValidation).
Proof. exact (conj same_reference_other_spelling_example group_table_twice_example). Qed.
Print Assumptions C06_spelling_examples.

(* each of the document-level theorems above lifts to source texts: whatever blueprints the grammar produced for the text *)
Theorem C06_source_never_parses_when_its_blueprints_never_build :
  forall source allow sq dq h0 st,
    blueprints_of source allow h0 = (h0, Ok st) -> (forall h1 dd, build_database st allow sq dq h0 <> (h1, Ok dd)) ->
    forall h1 d, parser_parse source allow sq dq h0 <> (h1, Ok d).
Proof. exact parser_rejects_when_build_rejects. Qed.
Print Assumptions C06_source_never_parses_when_its_blueprints_never_build.

(* the hypotheses are satisfiable, and on such documents the model raises the error of the rule *)
Theorem C06_document_rules_examples :
  (ref_col_missing (ps_tables ex_doc_col) (ex_ref "b" "a_id" "a" "zz") /\ Forall good_table_bp (ps_tables ex_doc_col)
   /\ snd (build_database ex_doc_col false 0 1 []) = Raise EColumnNotFound)
  /\ (index_col_missing (ex_table "a" ["id"] [ex_index ["id"; "nope"]]) /\ snd (build_database ex_doc_idx false 0 1 []) = Raise EColumnNotFound)
  /\ (group_names_missing (flat_map bp_keys (ps_tables ex_doc_grp)) (ex_group "g" ["a"; "ghost"]) /\ snd (build_database ex_doc_grp false 0 1 []) = Raise ETableNotFound)
  /\ (group_repeats (ex_group "g" ["a"; "b"; "a"]) /\ snd (build_database ex_doc_grp2 false 0 1 []) = Raise EValidation).
Proof. exact (conj unknown_column_example (conj index_unknown_column_example (conj group_unknown_table_example group_repeat_example))). Qed.
Print Assumptions C06_document_rules_examples.
