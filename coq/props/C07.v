(* C07 — malformed text is never accepted.  PARTIAL: (a) whole-input consumption and (c) closed
   vocabularies are proved against the regenerated grammar; (b)/(d) (rejection of every injected
   fault in every printed document) need the rule-level derivations of C01 and rest on the tie. *)
From PyDBML Require Import PyStr Py Heap PP Analyses Actions Entry EntryFacts GenClasses GenGrammar GrammarFacts.
Import ListNotations.

(* (a) a database is returned only if the top-level match plus trailing whitespace reaches the end of
   the text; the parse_all flag and the final StringEnd are read off the regenerated grammar *)
Theorem C07_whole_input_consumed :
  forall source allow sq db h h' d, parser_parse source allow sq db h = (h', Ok d) ->
    exists p r eff,
      parse_string gen_env act (expandtabs source) (parse_fuel (expandtabs source))
                   (if allow then gen_top_on else gen_top_off) gen_default_whitespace true = POk p r eff
      /\ p_rest p = [].
Proof. exact parser_parse_consumes_everything. Qed.
Print Assumptions C07_whole_input_consumed.

Theorem C07_parse_all_and_string_end :
  (gen_parse_all_off = true /\ gen_parse_all_on = true)
  /\ (ends_with_string_end gen_top_off = true /\ ends_with_string_end gen_top_on = true).
Proof. exact (conj parse_all_is_on top_ends_with_string_end). Qed.
Print Assumptions C07_parse_all_and_string_end.

(* (c) the accepted words are exactly the listed ones *)
Theorem C07_reference_operators : e_core g_reference__relation = PAltLits [s2l ">"; s2l "-"; s2l "<>"; s2l "<"].
Proof. exact relation_operators. Qed.
Print Assumptions C07_reference_operators.

Theorem C07_referential_actions :
  vocabulary g_reference__on_option = [s2l "no action"; s2l "restrict"; s2l "cascade"; s2l "set null"; s2l "set default"].
Proof. exact referential_actions. Qed.
Print Assumptions C07_referential_actions.

Theorem C07_column_setting_words :
  filter (fun w => match w with c :: _ => is_alpha c | [] => false end) (vocabulary g_column__column_setting)
  = [s2l "not null"; s2l "null"; s2l "primary key"; s2l "pk"; s2l "unique"; s2l "increment"; s2l "note:"; s2l "ref:";
     s2l "default:"; s2l "true"; s2l "false"; s2l "NULL"].
Proof. exact column_setting_keywords. Qed.
Print Assumptions C07_column_setting_words.

Theorem C07_index_setting_words :
  filter (fun w => match w with c :: _ => is_alpha c | [] => false end) (vocabulary g_index__index_setting)
  = [s2l "unique"; s2l "type:"; s2l "brin"; s2l "btree"; s2l "gin"; s2l "gist"; s2l "hash"; s2l "spgist"; s2l "name:"; s2l "note:"; s2l "pk"].
Proof. exact index_setting_keywords. Qed.
Print Assumptions C07_index_setting_words.

Theorem C07_ref_setting_words :
  filter (fun w => match w with c :: _ => is_alpha c | [] => false end) (vocabulary g_reference__ref_setting)
  = [s2l "update:"; s2l "no action"; s2l "restrict"; s2l "cascade"; s2l "set null"; s2l "set default"; s2l "delete:"].
Proof. exact ref_setting_keywords. Qed.
Print Assumptions C07_ref_setting_words.

Theorem C07_table_setting_words :
  filter (fun w => match w with c :: _ => is_alpha c | [] => false end) (vocabulary g_table__table_setting)
  = [s2l "note:"; s2l "headercolor:"].
Proof. exact table_setting_keywords. Qed.
Print Assumptions C07_table_setting_words.

(* ---- a stray character at the very beginning: rejected whatever follows ---- *)
(* proofs/FirstChar.v: [look] is a first-character analysis of grammar expressions (cannot succeed / can only succeed without
   consuming / unknown), proved sound against the interpreter PP.run for every fuel, input, option and parse-action table
   ([look_sound], by induction on the fuel through every combinator: And, MatchFirst, Or with its trial pass and longest-match
   loop, ZeroOrMore / OneOrMore, Optional, Combine, Suppress, Group, Forward, originalTextFor, NotAny, FollowedBy, and the 13
   terminals).  Evaluated on the regenerated grammar of either option it leaves only  /  E N P R T  e n p r t  undecided. *)
From PyDBML Require Import FirstChar.
Theorem C07_first_character_analysis_is_sound :
  forall env act src c f k doact e p cp, at_c c p -> sem (look env c k e) p (run env act src f doact e p cp).
Proof. intros. apply look_sound. assumption. Qed.
Print Assumptions C07_first_character_analysis_is_sound.

Theorem C07_document_beginning_with_a_stray_character_is_rejected :
  forall (c : ch) (rest : pystr) allow sq dq h h' d,
    In c printable -> ~ In c may_begin -> parser_parse (c :: rest) allow sq dq h <> (h', Ok d).
Proof. exact stray_first_character_rejected. Qed.
Print Assumptions C07_document_beginning_with_a_stray_character_is_rejected.

Theorem C07_stray_character_example : In 64%N printable /\ ~ In 64%N may_begin /\ first_ok false 84%N = true.
Proof. exact stray_example. Qed.
Print Assumptions C07_stray_character_example.

(* ... and for EVERY character: the analysis looks at the character only through finitely many membership tests read off the
   grammar (proofs/FirstCharAll.v: [mentioned], 86 distinct characters for the regenerated grammar); two characters outside all of them
   get the same verdict ([look_generic]); the 86 are decided by computation and one generic character decides all the others.
   A document whose first character is none of  / E N P R T e n p r t  and not blank (LF, space, CR, TAB) is rejected. *)
From PyDBML Require Import FirstCharAll.
Theorem C07_document_beginning_with_any_stray_character_is_rejected :
  forall (c : ch) (rest : pystr) allow sq dq h h' d,
    ~ In c may_begin_or_blank -> parser_parse (c :: rest) allow sq dq h <> (h', Ok d).
Proof. exact any_stray_first_character_rejected. Qed.
Print Assumptions C07_document_beginning_with_any_stray_character_is_rejected.
