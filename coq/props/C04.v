(* C04 — every relationship becomes exactly one correctly directed FOREIGN KEY. *)
From PyDBML Require Import PyStr Py Heap Classes RenderSQL SqlFacts.
Import ListNotations.

(* Direction and placement: the inline FOREIGN KEY clauses of a table's CREATE TABLE are exactly the
   database's references for which this table holds the key: the left side for > and -, the right
   side for <, never for <> — for every heap on which the reference sides resolve. *)
Theorem C04_key_holder_hosts_the_clause :
  forall h tid t d db l,
    t_database t = Some d -> h_database h d = Some db ->
    references_for_sql h tid t = Ok l ->
    forall rid, In rid l <->
      In rid (d_refs db) /\ exists r, h_reference h rid = Some r /\ holds_key h r tid = Ok true.
Proof. exact references_for_sql_char. Qed.
Print Assumptions C04_key_holder_hosts_the_clause.

(* Never both: what is rendered inside a CREATE TABLE is inline (and the table is not a synthetic
   join table); the database-level list keeps exactly the others (RenderSQL.sql_render_db_with
   filters on [negb (ref_inline r)]); a many-to-many reference never counts as inline. *)
Theorem C04_inside_table_only_inline :
  forall h tid t l, inline_references_for_sql h tid t = Ok l ->
    forall rid, In rid l -> exists r, h_reference h rid = Some r /\ ref_inline r = true /\ t_abstract t = false.
Proof. exact inline_refs_subset. Qed.
Print Assumptions C04_inside_table_only_inline.

Theorem C04_many_to_many_never_inline :
  forall r, ostr_eqb (r_type r) (Some MANY_TO_MANY) = true -> ref_inline r = false.
Proof. exact m2m_never_inline. Qed.
Print Assumptions C04_many_to_many_never_inline.

(* ---- exactly one ---- *)
From PyDBML Require Import Database ContainerInv ContainerFull TableInv BuildInv BuildLinks.

(* On every database with the invariants the parser establishes (C05: Inv, LinkedMore — in particular on every parsed
   database), a contained reference that is not many-to-many is listed by get_references_for_sql of exactly one table:
   the question has an answer for every table (no exception), and the answer is yes for one listed table only. *)
Theorem C04_exactly_one_table_hosts_the_key :
  forall h d db r rr, Inv h d db -> LinkedMore h d db -> In r (d_refs db) -> h_reference h r = Some rr ->
  (ostr_eqb (r_type rr) (Some MANY_TO_ONE) || ostr_eqb (r_type rr) (Some ONE_TO_ONE) || ostr_eqb (r_type rr) (Some ONE_TO_MANY)) = true ->
  exists holder, In holder (d_tables db) /\
    forall t tb, In t (d_tables db) -> h_table h t = Some tb ->
      exists l, references_for_sql h t tb = Ok l /\ (In r l <-> t = holder).
Proof. exact exactly_one_table_hosts_the_key. Qed.
Print Assumptions C04_exactly_one_table_hosts_the_key.
