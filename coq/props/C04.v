(* C04 — every relationship becomes exactly one correctly directed FOREIGN KEY. *)
From PyDBML Require Import PyStr Py Heap Classes RenderSQL SqlFacts.
Import ListNotations.

(* Direction and placement: the inline FOREIGN KEY clauses of a table's CREATE TABLE are exactly the
   database's references for which this table holds the key: the left side for > and -, the right
   side for <, never for <> — for every heap on which the reference sides resolve. *)
Theorem C04_key_holder_hosts_the_clause :
  forall h tid t d db l,
    t_database t = Some d -> h_database h d = Some db ->
    references_for_sql h tid t = Ok l ->
    forall rid, In rid l <->
      In rid (d_refs db) /\ exists r, h_reference h rid = Some r /\ holds_key h r tid = Ok true.
Proof. exact references_for_sql_char. Qed.
Print Assumptions C04_key_holder_hosts_the_clause.

(* Never both: what is rendered inside a CREATE TABLE is inline (and the table is not a synthetic
   join table); the database-level list keeps exactly the others (RenderSQL.sql_render_db_with
   filters on [negb (ref_inline r)]); a many-to-many reference never counts as inline. *)
Theorem C04_inside_table_only_inline :
  forall h tid t l, inline_references_for_sql h tid t = Ok l ->
    forall rid, In rid l -> exists r, h_reference h rid = Some r /\ ref_inline r = true /\ t_abstract t = false.
Proof. exact inline_refs_subset. Qed.
Print Assumptions C04_inside_table_only_inline.

Theorem C04_many_to_many_never_inline :
  forall r, ostr_eqb (r_type r) (Some MANY_TO_MANY) = true -> ref_inline r = false.
Proof. exact m2m_never_inline. Qed.
Print Assumptions C04_many_to_many_never_inline.

(* ---- exactly one ---- *)
From PyDBML Require Import Database ContainerInv ContainerFull TableInv BuildInv BuildLinks.

(* On every database with the invariants the parser establishes (C05: Inv, LinkedMore — in particular on every parsed
   database), a contained reference that is not many-to-many is listed by get_references_for_sql of exactly one table:
   the question has an answer for every table (no exception), and the answer is yes for one listed table only. *)
Theorem C04_exactly_one_table_hosts_the_key :
  forall h d db r rr, Inv h d db -> LinkedMore h d db -> In r (d_refs db) -> h_reference h r = Some rr ->
  (ostr_eqb (r_type rr) (Some MANY_TO_ONE) || ostr_eqb (r_type rr) (Some ONE_TO_ONE) || ostr_eqb (r_type rr) (Some ONE_TO_MANY)) = true ->
  exists holder, In holder (d_tables db) /\
    forall t tb, In t (d_tables db) -> h_table h t = Some tb ->
      exists l, references_for_sql h t tb = Ok l /\ (In r l <-> t = holder).
Proof. exact exactly_one_table_hosts_the_key. Qed.
Print Assumptions C04_exactly_one_table_hosts_the_key.

(* ---- the full text of the statement (proofs/RefText.v) ---- *)
(* For every heap and every `>`, `-` or `<` reference whose names, comment and actions contain no brace (the complement of
   defect D5): the DDL of the reference is, character for character,
     [-- comment]  ALTER TABLE <key table> ADD [CONSTRAINT "name" ]FOREIGN KEY (<key columns>) REFERENCES <other table> (<other columns>)[ ON UPDATE X][ ON DELETE Y];
   with the key side = col1 for `>` and `-`, col2 for `<` (key_side); inline: the same clause without ALTER TABLE .. ADD and
   without the semicolon.  The column lists are the columns of each side in order and by their current names, the tables the
   current full names of the first column's table (C04_sides_are_listed_in_order_by_current_names). *)
From PyDBML Require Import Tools CommentFacts LiveLinks RefText.
Theorem C04_non_inline_reference_statement_text :
  forall h r c1 c2 st sn rt rn,
  check_attributes (OReference r) = Ok tt -> validate_ref_cols h r = Ok (c1, c2) -> direct_kind r = true -> ref_inline r = false ->
  first_table_full_name h (fst (key_side r c1 c2)) = Ok st -> col_names h (fst (key_side r c1 c2)) = Ok sn ->
  first_table_full_name h (snd (key_side r c1 c2)) = Ok rt -> col_names h (snd (key_side r c1 c2)) = Ok rn ->
  nobrace (fstr (r_comment r)) -> nobrace st -> nobrace sn -> nobrace rt -> nobrace rn -> on_ok r ->
  sql_reference_simple h r =
    Ok (with_comment (r_comment r)
          (s2l "ALTER TABLE " ++ st ++ s2l " ADD " ++ constraint_text r ++ s2l "FOREIGN KEY (" ++ sn ++ s2l ") REFERENCES " ++ rt
           ++ s2l " (" ++ rn ++ [41%N] ++ on_clauses r ++ [59%N])).
Proof. exact sql_reference_text_alter. Qed.
Print Assumptions C04_non_inline_reference_statement_text.

Theorem C04_inline_reference_clause_text :
  forall h r c1 c2 sn rt rn,
  check_attributes (OReference r) = Ok tt -> validate_ref_cols h r = Ok (c1, c2) -> direct_kind r = true -> ref_inline r = true ->
  col_names h (fst (key_side r c1 c2)) = Ok sn ->
  first_table_full_name h (snd (key_side r c1 c2)) = Ok rt -> col_names h (snd (key_side r c1 c2)) = Ok rn ->
  nobrace (fstr (r_comment r)) -> nobrace sn -> nobrace rt -> nobrace rn -> on_ok r ->
  sql_reference_simple h r =
    Ok (with_comment (r_comment r)
          (constraint_text r ++ s2l "FOREIGN KEY (" ++ sn ++ s2l ") REFERENCES " ++ rt ++ s2l " (" ++ rn ++ [41%N] ++ on_clauses r)).
Proof. exact sql_reference_text_inline. Qed.
Print Assumptions C04_inline_reference_clause_text.

Theorem C04_sides_are_listed_in_order_by_current_names :
  (forall h cols ccs, Forall2 (fun c cc => h_column h c = Some cc) cols ccs ->
     col_names h cols = Ok (join (s2l ", ") (map (fun cc => q2 (fstr (c_name cc))) ccs))) /\
  (forall h c rest cc t tb, h_column h c = Some cc -> c_table cc = Some t -> h_table h t = Some tb ->
     first_table_full_name h (c :: rest) = Ok (full_name_for_sql (t_schema tb) (t_name tb))).
Proof. split; [exact sql_col_names_current|exact sql_ref_table_current]. Qed.
Print Assumptions C04_sides_are_listed_in_order_by_current_names.

(* the template mechanism: text without braces passes through str.format(c=...) unchanged and {c} becomes the CONSTRAINT text *)
Theorem C04_format_replaces_the_one_placeholder :
  forall cval pre post, nobrace pre -> nobrace post -> py_format_c cval (pre ++ s2l "{c}" ++ post) = Ok (pre ++ cval ++ post).
Proof. exact py_format_c_template. Qed.
Print Assumptions C04_format_replaces_the_one_placeholder.

Theorem C04_reference_text_example :
  sql_reference_simple rt_heap rt_ref =
  Ok (s2l "-- why
ALTER TABLE ""child"" ADD CONSTRAINT ""fk"" FOREIGN KEY (""x"", ""y"") REFERENCES ""parent"" (""a"", ""b"") ON UPDATE CASCADE;").
Proof. exact reference_text_example. Qed.
Print Assumptions C04_reference_text_example.

(* ---- the join table of a many-to-many reference (proofs/JoinTable.v) ---- *)
(* For every heap in which both sides of a `<>` reference resolve, Reference.join_table (a new abstract Table on every access):
   leaves every existing object as it is; the table is named <left table>_<right table>, lives in the left table's schema, has no
   indexes, and lists exactly one column per referenced column — left side first, in order — each named <its table>_<its name>,
   typed like the referenced column, NOT NULL and pk (so the CREATE TABLE carries a primary key over all of them, C03), not
   unique, not autoincrement, without default, attached to the join table.  [join_table_exact] gives the final heap as an equation. *)
From PyDBML Require Import JoinTable.
Theorem C04_join_table_of_a_many_to_many_reference :
  forall h rid r c1 c2 t1id t2id tt1 tt2 extN cols,
  h_reference h rid = Some r -> ostr_eqb (r_type r) (Some MANY_TO_MANY) = true ->
  ref_table1 h r = Ok (Some t1id) -> ref_table2 h r = Ok (Some t2id) -> h_table h t1id = Some tt1 -> h_table h t2id = Some tt2 ->
  r_col1 r = Some c1 -> r_col2 r = Some c2 -> jt_ext h (length h) None (c1 ++ c2) = Some (extN, cols) ->
  exists h' t tb,
    ref_join_table rid h = (h', Ok (Some t)) /\ h_table h' t = Some tb /\
    (forall x, x < length h -> nth_error h' x = nth_error h x) /\
    t_name tb = Some (fstr (t_name tt1) ++ 95%N :: fstr (t_name tt2)) /\ t_schema tb = t_schema tt1 /\ t_abstract tb = true /\
    t_indexes tb = [] /\ t_columns tb = cols /\ length cols = length c1 + length c2 /\
    Forall2 (fun c jc => exists cc tc tcc jcc, h_column h c = Some cc /\ c_table cc = Some tc /\ h_table h tc = Some tcc /\ h_column h' jc = Some jcc /\
               c_name jcc = Some (fstr (t_name tcc) ++ 95%N :: fstr (c_name cc)) /\ c_type jcc = c_type cc /\
               c_not_null jcc = true /\ c_pk jcc = true /\ c_unique jcc = false /\ c_autoinc jcc = false /\ c_default jcc = DNone /\
               c_table jcc = Some t) (c1 ++ c2) cols.
Proof. exact join_table_spec. Qed.
Print Assumptions C04_join_table_of_a_many_to_many_reference.

(* the hypothesis "the columns resolve" (jt_ext = Some) holds exactly when every referenced column is a column of a table *)
Theorem C04_join_table_example :
  match ref_join_table 6 jx_heap with
  | (h', Ok (Some t)) =>
      firstn 7 h' = jx_heap /\
      option_map (fun tb => (t_name tb, t_schema tb, t_abstract tb, t_columns tb)) (h_table h' t)
        = Some (Some (s2l "posts_tags"), Some (s2l "blog"), true, [8; 10; 12]) /\
      map (fun c => option_map (fun cc => (c_name cc, c_type cc, c_not_null cc, c_pk cc, c_table cc)) (h_column h' c)) [8; 10; 12]
        = [Some (Some (s2l "posts_a"), CTStr (s2l "int"), true, true, Some t);
           Some (Some (s2l "posts_b"), CTStr (s2l "text"), true, true, Some t);
           Some (Some (s2l "tags_x"), CTStr (s2l "uuid"), true, true, Some t)]
  | _ => False
  end.
Proof. exact join_table_example. Qed.
Print Assumptions C04_join_table_example.

(* ---- the DDL of a many-to-many reference (proofs/M2MText.v) ---- *)
(* CREATE TABLE of the join table, then one ALTER TABLE per side: the first |col1| columns of the join table reference col1, the
   others col2; both statements carry the reference's comment and actions, never a CONSTRAINT name ({c} is filled with ''). *)
From PyDBML Require Import M2MText.
Theorem C04_many_to_many_reference_text :
  forall h rid r c1 c2 h' jt jtt table_sql st1 sn1 rt1 rn1 st2 sn2 rt2 rn2,
  ref_join_table rid h = (h', Ok (Some jt)) -> h_table h' jt = Some jtt -> r_col1 r = Some c1 -> r_col2 r = Some c2 ->
  sql_table h' jt jtt = Ok table_sql ->
  first_table_full_name h' (take (length c1) (t_columns jtt)) = Ok st1 -> col_names h' (take (length c1) (t_columns jtt)) = Ok sn1 ->
  first_table_full_name h' c1 = Ok rt1 -> col_names h' c1 = Ok rn1 ->
  first_table_full_name h' (drop (length c1) (t_columns jtt)) = Ok st2 -> col_names h' (drop (length c1) (t_columns jtt)) = Ok sn2 ->
  first_table_full_name h' c2 = Ok rt2 -> col_names h' c2 = Ok rn2 ->
  nobrace table_sql -> nobrace (fstr (r_comment r)) -> on_ok r ->
  nobrace st1 -> nobrace sn1 -> nobrace rt1 -> nobrace rn1 -> nobrace st2 -> nobrace sn2 -> nobrace rt2 -> nobrace rn2 ->
  sql_reference_m2m h rid r = Ok (table_sql ++ [cLF; cLF] ++ alter_text r st1 sn1 rt1 rn1 ++ [cLF; cLF] ++ alter_text r st2 sn2 rt2 rn2).
Proof. exact sql_m2m_text. Qed.
Print Assumptions C04_many_to_many_reference_text.

Theorem C04_many_to_many_text_example :
  sql_reference_m2m jx_heap 6 jx_ref = Ok (s2l "CREATE TABLE ""blog"".""posts_tags"" (
  ""posts_a"" int NOT NULL,
  ""posts_b"" text NOT NULL,
  ""tags_x"" uuid NOT NULL,
  PRIMARY KEY (""posts_a"", ""posts_b"", ""tags_x"")
);

ALTER TABLE ""blog"".""posts_tags"" ADD FOREIGN KEY (""posts_a"", ""posts_b"") REFERENCES ""blog"".""posts"" (""a"", ""b"");

ALTER TABLE ""blog"".""posts_tags"" ADD FOREIGN KEY (""tags_x"") REFERENCES ""tags"" (""x"");").
Proof. exact m2m_text_example. Qed.
Print Assumptions C04_many_to_many_text_example.
