(* C09 — the container stays consistent under any sequence of add, delete and rename. *)
From PyDBML Require Import PyStr Py Sx Heap Classes Database Script ScriptFacts.
Import ListNotations.

(* Rejected operations: for every state whatsoever (any heap, any slots), every container
   operation of the script language and every library exception, a rejected call changes nothing. *)
Theorem C09_rejected_leaves_state_unchanged :
  forall rs s o s' e, is_container_op o = true -> is_pydbml_exc e = true ->
    exec_op rs s o = (s', OutRaise e) -> s' = s.
Proof. exact container_op_atomic. Qed.
Print Assumptions C09_rejected_leaves_state_unchanged.

(* The full statement of the property has no restriction on the exception: *any* failing call
   must leave the state alone, and renames may be interleaved.  It is false of the faithful
   model (defects D6 and D23), with these histories as witnesses; both are replayed on the
   implementation by the check and listed in known_findings.json. *)
Definition C09_atomic_full : Prop :=
  forall rs s o s' e, is_container_op o = true -> exec_op rs s o = (s', OutRaise e) -> s' = s.

Definition pub := s2l "public".
Definition d6_history : list op :=
  [ ONewDatabase 0 1 false;
    ONewColumn (Some (s2l "id")) (SVStr (s2l "int")) false false false false SVNone SVNone None [];
    ONewTable (Some (s2l "t")) (Some pub) None [1] [] SVNone None None false [];
    ODbAdd 0 0 2;
    OSetAttr 2 1 (SVStr (s2l "y")) ].

Theorem C09_atomic_full_refuted_D6 : ~ C09_atomic_full.
Proof.
  intro H.
  pose (s := fst (run_ops [] init_st d6_history)).
  specialize (H [] s (ODbDelete 0 0 2) (fst (exec_op [] s (ODbDelete 0 0 2))) EKeyError eq_refl).
  assert (E : exec_op [] s (ODbDelete 0 0 2) = (fst (exec_op [] s (ODbDelete 0 0 2)), OutRaise EKeyError))
    by (vm_compute; reflexivity).
  specialize (H E). vm_compute in H. discriminate H.
Qed.
Print Assumptions C09_atomic_full_refuted_D6.

Definition d23_history : list op :=
  [ ONewColumn (Some (s2l "id")) (SVStr (s2l "int")) false false false false SVNone SVNone None [];
    ONewTable (Some (s2l "t")) (Some pub) None [0] [] SVNone None None false [];
    ONewColumn (Some (s2l "id")) (SVStr (s2l "int")) false false false false SVNone SVNone None [];
    ONewTable (Some (s2l "t")) (Some pub) None [2] [] SVNone None None false [] ].

Theorem C09_atomic_full_refuted_D23 : ~ C09_atomic_full.
Proof.
  intro H.
  pose (s := fst (run_ops [] init_st d23_history)).
  specialize (H [] s (OTDeleteColumn 1 (SVObj 2)) (fst (exec_op [] s (OTDeleteColumn 1 (SVObj 2)))) EValueError eq_refl).
  assert (E : exec_op [] s (OTDeleteColumn 1 (SVObj 2)) = (fst (exec_op [] s (OTDeleteColumn 1 (SVObj 2))), OutRaise EValueError))
    by (vm_compute; reflexivity).
  specialize (H E). vm_compute in H. discriminate H.
Qed.
Print Assumptions C09_atomic_full_refuted_D23.

(* non-vacuity: a reachable state and an operation that is rejected with a validation error *)
Example C09_rejection_happens :
  let s := fst (run_ops [] init_st (firstn 4 d6_history)) in
  snd (exec_op [] s (ODbAdd 0 0 2)) = OutRaise EDatabaseValidation.
Proof. vm_compute. reflexivity. Qed.
