(* C09 — the container stays consistent under any sequence of add, delete and rename. *)
From PyDBML Require Import PyStr Py Sx Heap Classes Database Script ScriptFacts.
Import ListNotations.

(* Rejected operations: for every state whatsoever (any heap, any slots), every container
   operation of the script language and every library exception, a rejected call changes nothing. *)
Theorem C09_rejected_leaves_state_unchanged :
  forall rs s o s' e, is_container_op o = true -> is_pydbml_exc e = true ->
    exec_op rs s o = (s', OutRaise e) -> s' = s.
Proof. exact container_op_atomic. Qed.
Print Assumptions C09_rejected_leaves_state_unchanged.

(* The full statement of the property has no restriction on the exception: *any* failing call
   must leave the state alone, and renames may be interleaved.  It is false of the faithful
   model (defects D6 and D23), with these histories as witnesses; both are replayed on the
   implementation by the check and listed in known_findings.json. *)
Definition C09_atomic_full : Prop :=
  forall rs s o s' e, is_container_op o = true -> exec_op rs s o = (s', OutRaise e) -> s' = s.

Definition pub := s2l "public".
Definition d6_history : list op :=
  [ ONewDatabase 0 1 false;
    ONewColumn (Some (s2l "id")) (SVStr (s2l "int")) false false false false SVNone SVNone None [];
    ONewTable (Some (s2l "t")) (Some pub) None [1] [] SVNone None None false [];
    ODbAdd 0 0 2;
    OSetAttr 2 1 (SVStr (s2l "y")) ].

Theorem C09_atomic_full_refuted_D6 : ~ C09_atomic_full.
Proof.
  intro H.
  pose (s := fst (run_ops [] init_st d6_history)).
  specialize (H [] s (ODbDelete 0 0 2) (fst (exec_op [] s (ODbDelete 0 0 2))) EKeyError eq_refl).
  assert (E : exec_op [] s (ODbDelete 0 0 2) = (fst (exec_op [] s (ODbDelete 0 0 2)), OutRaise EKeyError))
    by (vm_compute; reflexivity).
  specialize (H E). vm_compute in H. discriminate H.
Qed.
Print Assumptions C09_atomic_full_refuted_D6.

Definition d23_history : list op :=
  [ ONewColumn (Some (s2l "id")) (SVStr (s2l "int")) false false false false SVNone SVNone None [];
    ONewTable (Some (s2l "t")) (Some pub) None [0] [] SVNone None None false [];
    ONewColumn (Some (s2l "id")) (SVStr (s2l "int")) false false false false SVNone SVNone None [];
    ONewTable (Some (s2l "t")) (Some pub) None [2] [] SVNone None None false [] ].

Theorem C09_atomic_full_refuted_D23 : ~ C09_atomic_full.
Proof.
  intro H.
  pose (s := fst (run_ops [] init_st d23_history)).
  specialize (H [] s (OTDeleteColumn 1 (SVObj 2)) (fst (exec_op [] s (OTDeleteColumn 1 (SVObj 2)))) EValueError eq_refl).
  assert (E : exec_op [] s (OTDeleteColumn 1 (SVObj 2)) = (fst (exec_op [] s (OTDeleteColumn 1 (SVObj 2))), OutRaise EValueError))
    by (vm_compute; reflexivity).
  specialize (H E). vm_compute in H. discriminate H.
Qed.
Print Assumptions C09_atomic_full_refuted_D23.

(* non-vacuity: a reachable state and an operation that is rejected with a validation error *)
Example C09_rejection_happens :
  let s := fst (run_ops [] init_st (firstn 4 d6_history)) in
  snd (exec_op [] s (ODbAdd 0 0 2)) = OutRaise EDatabaseValidation.
Proof. vm_compute. reflexivity. Qed.

(* ---- the invariant, by induction over arbitrary histories ---- *)
From PyDBML Require Import ContainerInv.

(* After ANY sequence of add_table / delete_table calls on tables of the heap — accepted or rejected, with
   name, alias and content clashes — the table list and the name index describe the same set under the
   tables' names, every member points back to the database, no table is listed twice.  (Rename-free:
   renames are the refuted statement D6 above.  [it_good]: no table's alias equals its own full name — D36.) *)
Theorem C09_table_invariant_all_histories :
  forall d ops h db, InvT h d db -> Forall (fun op => is_table h (top_arg op)) ops ->
    exists db', InvT (fold_left (tstep d) ops h) d db'.
Proof. exact table_invariant_history. Qed.
Print Assumptions C09_table_invariant_all_histories.

(* base case / non-vacuity: a new Database satisfies it, whatever objects already exist *)
Theorem C09_invariant_holds_initially :
  forall h sq dq al, (forall t tb, h_table h t = Some tb -> NoDup (names_of tb)) ->
    InvT (h ++ [ODatabase (mkDatabase [] [] [] [] [] [] None al sq dq)]) (length h) (mkDatabase [] [] [] [] [] [] None al sq dq).
Proof. exact fresh_database_invariant. Qed.
Print Assumptions C09_invariant_holds_initially.

(* under the invariant, delete_table is either rejected with the validation error, leaving everything as it
   was, or succeeds: no KeyError, no half-done removal *)
Theorem C09_delete_table_all_or_nothing :
  forall h d db o t, InvT h d db -> h_table h o = Some t ->
    db_delete_table d o h = (h, Raise EDatabaseValidation)
    \/ exists n p ptb, nth_error (d_tables db) n = Some p /\ h_table h p = Some ptb /\ table_eqb h o p = true /\
         db_delete_table d o h = (del_heap h d p (del_db db n ptb) ptb, Ok p).
Proof. exact delete_table_total_under_invariant. Qed.
Print Assumptions C09_delete_table_all_or_nothing.

(* the removed table points to nothing and is no longer listed *)
Theorem C09_removed_table_is_detached :
  forall h d db n p ptb, InvT h d db -> nth_error (d_tables db) n = Some p -> h_table h p = Some ptb ->
    let db' := del_db db n ptb in let h' := del_heap h d p db' ptb in
    InvT h' d db' /\ h_table h' p = Some (set_t_database None ptb) /\ ~ In p (d_tables db').
Proof. exact delete_table_preserves. Qed.
Print Assumptions C09_removed_table_is_detached.

(* the side condition [it_good] is necessary (defect D36): a table whose alias equals its own full name
   can be added but not deleted *)
Definition d36_history : list op :=
  [ ONewDatabase 0 1 false;
    ONewColumn (Some (s2l "id")) (SVStr (s2l "int")) false false false false SVNone SVNone None [];
    ONewTable (Some (s2l "t")) (Some pub) (Some (s2l "public.t")) [1] [] SVNone None None false [];
    ODbAdd 0 0 2 ].
Theorem C09_atomic_full_refuted_D36 : ~ C09_atomic_full.
Proof.
  intro H.
  pose (s := fst (run_ops [] init_st d36_history)).
  specialize (H [] s (ODbDelete 0 0 2) (fst (exec_op [] s (ODbDelete 0 0 2))) EKeyError eq_refl).
  assert (E : exec_op [] s (ODbDelete 0 0 2) = (fst (exec_op [] s (ODbDelete 0 0 2)), OutRaise EKeyError))
    by (vm_compute; reflexivity).
  specialize (H E). vm_compute in H. discriminate H.
Qed.
Print Assumptions C09_atomic_full_refuted_D36.

(* ---- all six containers ---- *)
From PyDBML Require Import ContainerFull.

(* After ANY sequence of Database.add / Database.delete calls with ANY arguments (objects of any class, absent
   objects, objects owned elsewhere), the full invariant holds: InvT for the tables; every listed reference, enum,
   table group, sticky note and the project is an object of that class whose back-pointer is this database; no
   table / reference / enum / group is listed twice. *)
Theorem C09_database_invariant_all_histories :
  forall d ops h db, InvDB h d db -> exists db', InvDB (fold_left (dstep d) ops h) d db'.
Proof. exact database_invariant_history. Qed.
Print Assumptions C09_database_invariant_all_histories.

Theorem C09_full_invariant_holds_initially :
  forall h sq dq al, (forall t tb, h_table h t = Some tb -> NoDup (names_of tb)) ->
    InvDB (h ++ [ODatabase (mkDatabase [] [] [] [] [] [] None al sq dq)]) (length h) (mkDatabase [] [] [] [] [] [] None al sq dq).
Proof. exact fresh_database_full. Qed.
Print Assumptions C09_full_invariant_holds_initially.

(* one add: rejected leaving the heap as it was, or the object is the new last member of the list of its class
   (the project: the only member) and points back to the database *)
Theorem C09_add_appends_and_attaches :
  forall h d db o, InvDB h d db ->
    rejected h (db_add d o h) \/
    exists db' h' ob k, db_add d o h = (h', Ok tt) /\ InvDB h' d db' /\ nth_error h o = Some ob /\ okind ob = Some k /\
       member h' d k o /\ (k <> KProject -> klist k db' = klist k db ++ [o]) /\ (k = KProject -> klist k db' = [o]) /\
       (* the lists of the other classes are untouched, and no name of the index is lost *)
       others k db db' /\ dict_mono db db'.
Proof. exact db_add_step. Qed.
Print Assumptions C09_add_appends_and_attaches.

(* one delete: rejected leaving the heap as it was, or exactly one member is removed (order of the others kept),
   it points to nothing afterwards and is no longer listed *)
Theorem C09_delete_removes_and_detaches :
  forall h d db o, InvDB h d db -> rejected h (db_delete d o h) \/ exists k, deleted_ok k h d db (db_delete d o h).
Proof. exact db_delete_step. Qed.
Print Assumptions C09_delete_removes_and_detaches.

(* setting a new project replaces and detaches the old one *)
Theorem C09_new_project_replaces_old :
  forall h d db o p0, InvDB h d db -> nth_error h o = Some (OProject p0) ->
  exists db' h', db_add_project d o h = (h', Ok tt) /\ InvDB h' d db' /\ klist KProject db' = [o] /\ member h' d KProject o /\
    (forall q, d_project db = Some q -> q <> o -> exists ob, nth_error h' q = Some ob /\ okind ob = Some KProject /\ oowner ob = None) /\
    others KProject db db'.
Proof. exact add_project_step. Qed.
Print Assumptions C09_new_project_replaces_old.

(* lookup by any current name or alias of a listed table finds that table, and nothing else is found *)
Theorem C09_name_lookup_complete :
  forall h d db t tb k, InvDB h d db -> In t (d_tables db) -> h_table h t = Some tb -> In k (names_of tb) ->
    dict_get k (d_table_dict db) = Some t.
Proof. exact invariant_lookup. Qed.
Print Assumptions C09_name_lookup_complete.
Theorem C09_name_lookup_sound :
  forall h d db t k, InvDB h d db -> dict_get k (d_table_dict db) = Some t ->
    In t (d_tables db) /\ exists tb, h_table h t = Some tb /\ In k (names_of tb).
Proof. exact invariant_lookup_sound. Qed.
Print Assumptions C09_name_lookup_sound.

(* the same for the operation scripts that the correspondence check runs against pydbml *)
Theorem C09_script_histories :
  forall rs sd d ops s db, slot s sd = Some d -> InvDB (st_heap s) d db -> Forall (container_op sd) ops ->
    exists db', InvDB (st_heap (fst (run_ops rs s ops))) d db'.
Proof. exact script_container_histories. Qed.
Print Assumptions C09_script_histories.

(* ---- one level down: columns and indexes of a table; both levels together ---- *)
From PyDBML Require Import TableInv.

(* Inv = InvDB (above) + for every table of the heap: its column list and the `table` pointers of columns agree in both
   directions, likewise its index list, nothing listed twice.  After ANY history of Database.add / Database.delete (any
   arguments) interleaved with add_column / add_index / delete_column / delete_index (by position or by object) in which
   every table-level call respects [cguard] in the state it is made in — the receiver is a table, an added column or
   index is not attached anywhere (else defect D24), on deletion by object the first member equal to the argument is the
   argument itself (else defect D23) — Inv holds again. *)
Theorem C09_two_level_invariant_all_histories :
  forall d ops h db, Inv h d db -> guarded d ops h -> exists db', Inv (fold_left (fun h op => cexec d op h) ops h) d db'.
Proof. exact container_invariant_history. Qed.
Print Assumptions C09_two_level_invariant_all_histories.

(* base case for the table level: nothing attached yet *)
Theorem C09_table_level_invariant_initially :
  forall h, (forall t tb, h_table h t = Some tb -> t_columns tb = [] /\ t_indexes tb = []) ->
    (forall c cc, nth_error h c = Some (OColumn cc) -> c_table cc = None) ->
    (forall c cc, nth_error h c = Some (OIndex cc) -> i_table cc = None) -> WW h.
Proof. exact WW_detached. Qed.
Print Assumptions C09_table_level_invariant_initially.

(* an index over a foreign column is refused and nothing changes *)
Theorem C09_index_over_foreign_column_refused :
  forall h t i ix subs c cc, nth_error h i = Some (OIndex ix) -> i_subjects ix = Some subs -> In (SubCol c) subs ->
    h_column h c = Some cc -> c_table cc <> Some t -> table_add_index t i h = (h, Raise EColumnNotFound).
Proof. exact add_index_foreign_refused. Qed.
Print Assumptions C09_index_over_foreign_column_refused.

(* add_column of a detached column: it becomes the last column and points to the table *)
Theorem C09_add_column_appends_and_attaches :
  forall h t tb c cc, WW h -> h_table h t = Some tb -> nth_error h c = Some (OColumn cc) -> c_table cc = None ->
    let h' := tupd h t c (set_columns (t_columns tb ++ [c]) tb) (OColumn (set_c_table (Some t) cc)) in
    table_add_column t c h = (h', Ok tt) /\ WW h'.
Proof. exact add_column_step. Qed.
Print Assumptions C09_add_column_appends_and_attaches.

(* delete_column by position: rejected with the heap unchanged, or exactly that column is removed, detached and listed nowhere *)
Theorem C09_delete_column_by_position :
  forall h t tb z, WW h -> h_table h t = Some tb ->
    rejected h (table_delete_column t (DAint z) h) \/
    exists n c cc, py_index (length (t_columns tb)) z = Some n /\ nth_error (t_columns tb) n = Some c /\ nth_error h c = Some (OColumn cc) /\
      let h' := tupd h t c (set_columns (remove_nth n (t_columns tb)) tb) (OColumn (set_c_table None cc)) in
      table_delete_column t (DAint z) h = (h', Ok (Some c)) /\ WW h' /\
      (forall x xb, h_table h' x = Some xb -> ~ In c (t_columns xb)).
Proof. exact delete_column_int_step. Qed.
Print Assumptions C09_delete_column_by_position.
