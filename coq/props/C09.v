(* C09 — the container stays consistent under any sequence of add, delete and rename. *)
From PyDBML Require Import PyStr Py Sx Heap Classes Database Script ScriptFacts.
Import ListNotations.

(* Rejected operations: for every state whatsoever (any heap, any slots), every container
   operation of the script language and every library exception, a rejected call changes nothing. *)
Theorem C09_rejected_leaves_state_unchanged :
  forall rs s o s' e, is_container_op o = true -> is_pydbml_exc e = true ->
    exec_op rs s o = (s', OutRaise e) -> s' = s.
Proof. exact container_op_atomic. Qed.
Print Assumptions C09_rejected_leaves_state_unchanged.

(* The full statement of the property has no restriction on the exception: *any* failing call
   must leave the state alone, and renames may be interleaved.  It is false of the faithful
   model (defects D6 and D23), with these histories as witnesses; both are replayed on the
   implementation by the check and listed in known_findings.json. *)
Definition C09_atomic_full : Prop :=
  forall rs s o s' e, is_container_op o = true -> exec_op rs s o = (s', OutRaise e) -> s' = s.

Definition pub := s2l "public".
Definition d6_history : list op :=
  [ ONewDatabase 0 1 false;
    ONewColumn (Some (s2l "id")) (SVStr (s2l "int")) false false false false SVNone SVNone None [];
    ONewTable (Some (s2l "t")) (Some pub) None [1] [] SVNone None None false [];
    ODbAdd 0 0 2;
    OSetAttr 2 1 (SVStr (s2l "y")) ].

Theorem C09_atomic_full_refuted_D6 : ~ C09_atomic_full.
Proof.
  intro H.
  pose (s := fst (run_ops [] init_st d6_history)).
  specialize (H [] s (ODbDelete 0 0 2) (fst (exec_op [] s (ODbDelete 0 0 2))) EKeyError eq_refl).
  assert (E : exec_op [] s (ODbDelete 0 0 2) = (fst (exec_op [] s (ODbDelete 0 0 2)), OutRaise EKeyError))
    by (vm_compute; reflexivity).
  specialize (H E). vm_compute in H. discriminate H.
Qed.
Print Assumptions C09_atomic_full_refuted_D6.

Definition d23_history : list op :=
  [ ONewColumn (Some (s2l "id")) (SVStr (s2l "int")) false false false false SVNone SVNone None [];
    ONewTable (Some (s2l "t")) (Some pub) None [0] [] SVNone None None false [];
    ONewColumn (Some (s2l "id")) (SVStr (s2l "int")) false false false false SVNone SVNone None [];
    ONewTable (Some (s2l "t")) (Some pub) None [2] [] SVNone None None false [] ].

Theorem C09_atomic_full_refuted_D23 : ~ C09_atomic_full.
Proof.
  intro H.
  pose (s := fst (run_ops [] init_st d23_history)).
  specialize (H [] s (OTDeleteColumn 1 (SVObj 2)) (fst (exec_op [] s (OTDeleteColumn 1 (SVObj 2)))) EValueError eq_refl).
  assert (E : exec_op [] s (OTDeleteColumn 1 (SVObj 2)) = (fst (exec_op [] s (OTDeleteColumn 1 (SVObj 2))), OutRaise EValueError))
    by (vm_compute; reflexivity).
  specialize (H E). vm_compute in H. discriminate H.
Qed.
Print Assumptions C09_atomic_full_refuted_D23.

(* non-vacuity: a reachable state and an operation that is rejected with a validation error *)
Example C09_rejection_happens :
  let s := fst (run_ops [] init_st (firstn 4 d6_history)) in
  snd (exec_op [] s (ODbAdd 0 0 2)) = OutRaise EDatabaseValidation.
Proof. vm_compute. reflexivity. Qed.

(* ---- the invariant, by induction over arbitrary histories ---- *)
From PyDBML Require Import ContainerInv.

(* After ANY sequence of add_table / delete_table calls on tables of the heap — accepted or rejected, with
   name, alias and content clashes — the table list and the name index describe the same set under the
   tables' names, every member points back to the database, no table is listed twice.  (Rename-free:
   renames are the refuted statement D6 above.  [it_good]: no table's alias equals its own full name — D36.) *)
Theorem C09_table_invariant_all_histories :
  forall d ops h db, InvT h d db -> Forall (fun op => is_table h (top_arg op)) ops ->
    exists db', InvT (fold_left (tstep d) ops h) d db'.
Proof. exact table_invariant_history. Qed.
Print Assumptions C09_table_invariant_all_histories.

(* base case / non-vacuity: a new Database satisfies it, whatever objects already exist *)
Theorem C09_invariant_holds_initially :
  forall h sq dq al, (forall t tb, h_table h t = Some tb -> NoDup (names_of tb)) ->
    InvT (h ++ [ODatabase (mkDatabase [] [] [] [] [] [] None al sq dq)]) (length h) (mkDatabase [] [] [] [] [] [] None al sq dq).
Proof. exact fresh_database_invariant. Qed.
Print Assumptions C09_invariant_holds_initially.

(* under the invariant, delete_table is either rejected with the validation error, leaving everything as it
   was, or succeeds: no KeyError, no half-done removal *)
Theorem C09_delete_table_all_or_nothing :
  forall h d db o t, InvT h d db -> h_table h o = Some t ->
    db_delete_table d o h = (h, Raise EDatabaseValidation)
    \/ exists n p ptb, nth_error (d_tables db) n = Some p /\ h_table h p = Some ptb /\ table_eqb h o p = true /\
         db_delete_table d o h = (del_heap h d p (del_db db n ptb) ptb, Ok p).
Proof. exact delete_table_total_under_invariant. Qed.
Print Assumptions C09_delete_table_all_or_nothing.

(* the removed table points to nothing and is no longer listed *)
Theorem C09_removed_table_is_detached :
  forall h d db n p ptb, InvT h d db -> nth_error (d_tables db) n = Some p -> h_table h p = Some ptb ->
    let db' := del_db db n ptb in let h' := del_heap h d p db' ptb in
    InvT h' d db' /\ h_table h' p = Some (set_t_database None ptb) /\ ~ In p (d_tables db').
Proof. exact delete_table_preserves. Qed.
Print Assumptions C09_removed_table_is_detached.

(* the side condition [it_good] is necessary (defect D36): a table whose alias equals its own full name
   can be added but not deleted *)
Definition d36_history : list op :=
  [ ONewDatabase 0 1 false;
    ONewColumn (Some (s2l "id")) (SVStr (s2l "int")) false false false false SVNone SVNone None [];
    ONewTable (Some (s2l "t")) (Some pub) (Some (s2l "public.t")) [1] [] SVNone None None false [];
    ODbAdd 0 0 2 ].
Theorem C09_atomic_full_refuted_D36 : ~ C09_atomic_full.
Proof.
  intro H.
  pose (s := fst (run_ops [] init_st d36_history)).
  specialize (H [] s (ODbDelete 0 0 2) (fst (exec_op [] s (ODbDelete 0 0 2))) EKeyError eq_refl).
  assert (E : exec_op [] s (ODbDelete 0 0 2) = (fst (exec_op [] s (ODbDelete 0 0 2)), OutRaise EKeyError))
    by (vm_compute; reflexivity).
  specialize (H E). vm_compute in H. discriminate H.
Qed.
Print Assumptions C09_atomic_full_refuted_D36.
