(* C18 — SQL creates a table before any table that references it inline. *)
From PyDBML Require Import PyStr Py Sx Heap Classes RenderSQL Script SqlFacts.
From Coq Require Import Permutation Sorted.
Import ListNotations.

(* "Whatever the order chosen, it is a permutation of the database's tables" — for every heap. *)
Theorem C18_order_is_permutation :
  forall h tables refs order, reorder_tables_for_sql h tables refs = Ok order -> Permutation order tables.
Proof. exact reorder_tables_perm. Qed.
Print Assumptions C18_order_is_permutation.

(* Exact characterisation of the order the code computes: the stable sort of the declaration
   order by the inline-reference count, descending.  (Sorted + stable + permutation determine
   the list uniquely; this is what the known finding D1 is pinned to.) *)
Theorem C18_order_sorted_by_count :
  forall A (key : A -> nat) l, StronglySorted (ge_key key) (sort_desc key l).
Proof. exact @sort_desc_sorted. Qed.
Print Assumptions C18_order_sorted_by_count.

Theorem C18_order_stable :
  forall A (key : A -> nat) k l,
    filter (fun a => Nat.eqb (key a) k) (sort_desc key l) = filter (fun a => Nat.eqb (key a) k) l.
Proof. exact @sort_desc_stable. Qed.
Print Assumptions C18_order_stable.

(* ---- the ordering clause itself ---- *)
Definition pos_of (x : oid) (l : list oid) : nat :=
  match index_of (Nat.eqb x) l with Some n => n | None => length l end.

(* key holder and target of an inline FOREIGN KEY clause *)
Definition holder_target (h : heap) (r : reference) : option (oid * oid) :=
  if negb (ref_inline r) then None else
  match ref_table1 h r, ref_table2 h r with
  | Ok (Some t1), Ok (Some t2) =>
      if ostr_eqb (r_type r) (Some ONE_TO_MANY) then Some (t2, t1) else Some (t1, t2)
  | _, _ => None
  end.

Definition targets_first (h : heap) (order refs : list oid) : bool :=
  forallb (fun rid => match h_reference h rid with
                      | Some r => match holder_target h r with
                                  | Some (hd, tg) => Nat.eqb hd tg || Nat.ltb (pos_of tg order) (pos_of hd order)
                                  | None => true
                                  end
                      | None => true
                      end) refs.

(* full statement: whenever some order of the tables puts every target first (i.e. the inline
   references are acyclic), the order chosen by the renderer does. *)
Definition C18_full : Prop :=
  forall h tables refs order,
    (exists good, Permutation good tables /\ targets_first h good refs = true) ->
    reorder_tables_for_sql h tables refs = Ok order ->
    targets_first h order refs = true.

(* Table a { id int [ref: > b.id] }  Table b { id int } *)
Definition d1_script : list op :=
  [ ONewDatabase 0 1 false;
    ONewColumn (Some (s2l "id")) (SVStr (s2l "int")) false false false false SVNone SVNone None [];
    ONewTable (Some (s2l "a")) (Some (s2l "public")) None [1] [] SVNone None None false [];
    ONewColumn (Some (s2l "id")) (SVStr (s2l "int")) false false false false SVNone SVNone None [];
    ONewTable (Some (s2l "b")) (Some (s2l "public")) None [3] [] SVNone None None false [];
    ODbAdd 0 0 2; ODbAdd 0 0 4;
    ONewRef (Some (s2l ">")) (Some [1]) (Some [3]) None None None None true;
    ODbAdd 0 0 7 ].

Theorem C18_full_refuted : ~ C18_full.
Proof.
  intro H.
  pose (s := fst (run_ops [] init_st d1_script)).
  pose (h := st_heap s).
  (* heap ids: database 0, column 2 (note 1), table a = 4 (note 3), column 6, table b = 8, ref 9 *)
  assert (Hd : h_database h 0 = Some (mkDatabase [4; 8] [(s2l "public.a", 4); (s2l "public.b", 8)] [9] [] [] [] None false 0 1))
    by (vm_compute; reflexivity).
  specialize (H h [4; 8] [9] [4; 8]).
  assert (G : exists good, Permutation good [4; 8] /\ targets_first h good [9] = true).
  { exists [8; 4]. split; [apply perm_swap | vm_compute; reflexivity]. }
  specialize (H G). assert (R : reorder_tables_for_sql h [4; 8] [9] = Ok [4; 8]) by (vm_compute; reflexivity).
  specialize (H R). vm_compute in H. discriminate H.
Qed.
Print Assumptions C18_full_refuted.
