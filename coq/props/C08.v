(* C08 — no internal errors.  PARTIAL: totality of the text helpers (the crash sites D3 lived in) for every
   text; the remaining crash site D5 is exhibited; termination of the parser model (no OutOfFuel) and the
   enumeration of all partial operations are not proved and rest on the tie + fuzzing oracle. *)
From PyDBML Require Import PyStr Py Heap Tools Script RuleFacts.
Import ListNotations.

Theorem C08_note_normalisation_total : forall t, exists v, preformat t = Ok v.
Proof. exact preformat_total. Qed.
Print Assumptions C08_note_normalisation_total.

Theorem C08_doublequote_total_on_single_line : forall s, mem cLF s = false -> exists v, doublequote_string s = Ok v.
Proof. exact doublequote_total. Qed.
Print Assumptions C08_doublequote_total_on_single_line.

(* full statement for rendering: whenever a document parses, .sql of the database evaluates.  False (D5):
   a brace in a reference comment reaches str.format *)
Definition C08_render_full : Prop :=
  forall text, match run_ops [] init_st [OParse 0 false 0 1 text; OSql 0] with
               | (_, [o1; o2]) => o1 = s2l "obj" -> startswith (s2l "ok") o2 = true
               | _ => True
               end.

Definition d5_text : pystr :=
  s2l "Table t {" ++ [cLF] ++ s2l " id int" ++ [cLF] ++ s2l "}" ++ [cLF] ++ s2l "Ref: t.id > t.id // " ++ [123%N].

Theorem C08_render_full_refuted_D5 : ~ C08_render_full.
Proof. intro H. specialize (H d5_text). vm_compute in H. specialize (H eq_refl). discriminate H. Qed.
Print Assumptions C08_render_full_refuted_D5.

(* doublequote_string (total on single-line text, ValueError otherwise) is regenerated from its source text on every run *)
From PyDBML Require Import GenFns GenFnTie.
Theorem C08_doublequote_string_regenerated_from_source : forall s, gen_doublequote_string s = doublequote_string s.
Proof. exact gen_doublequote_string_is_model. Qed.
Print Assumptions C08_doublequote_string_regenerated_from_source.

(* ---- what the parsing phase can raise ---- *)
(* proofs/Raises.v: [run_raises] — for every grammar, fuel, input and action table, an outcome PRaise ex of the interpreter is an
   exception some parse action returned (or the model's own EStuck 300); [act_raises_only] — the parse actions of model/Actions.v raise
   only KeyError, SyntaxError, TypeError, ValueError (and the model's stuck markers outside its float window).  Hence the first phase
   of PyDBMLParser.parse (pyparsing run + parse_blueprint) raises nothing but: ParseException, ParseSyntaxException, those four,
   RuntimeError from parse_blueprint, and the model's markers (EStuck 500 = fuel, 300, 310, 311, 399). *)
From PyDBML Require Import PP Actions Build Entry Raises.
Theorem C08_parsing_phase_raises_only_listed_exceptions :
  forall (source : pystr) (allow : bool) (h h' : heap) ex,
    blueprints_of source allow h = (h', Raise ex) -> In ex parse_phase_excs.
Proof. exact blueprints_of_raises_only. Qed.
Print Assumptions C08_parsing_phase_raises_only_listed_exceptions.

Theorem C08_interpreter_raises_only_what_actions_raise :
  forall env act src (P : exc -> Prop),
    (forall fn s loc r ex, act fn s loc r = ARRaise ex -> P ex) -> P (EStuck 300) ->
    forall f doact e p cp ex, run env act src f doact e p cp = PRaise ex -> P ex.
Proof. intros env act src P Ha Hs f doact e p cp ex H. exact (run_raises env act src P Ha Hs f doact e p cp ex H). Qed.
Print Assumptions C08_interpreter_raises_only_what_actions_raise.

(* ---- what the build phase can raise ---- *)
(* proofs/BuildRaises.v: for every parser state (any list of blueprints), options and heap, build_database raises nothing but
   TableNotFoundError, ColumnNotFoundError, DatabaseValidationError, ValidationError — the library's own exceptions — or a marker
   EStuck k of the model ("outside the model", not a Python exception).  The TypeError / AttributeError branches of
   Table.add_column, Table.add_index, Enum.add_item and Database.add are unreachable from the build: what reaches them is a
   column, an index with a subject list, an enum with an item list, a reference with both column lists, a table. *)
From PyDBML Require Import BuildRaises.
Theorem C08_build_phase_raises_only_the_library_exceptions :
  forall st allow sq dq h h' e, build_database st allow sq dq h = (h', Raise e) ->
    e = ETableNotFound \/ e = EColumnNotFound \/ e = EDatabaseValidation \/ e = EValidation \/ exists k, e = EStuck k.
Proof. exact build_phase_raises_only. Qed.
Print Assumptions C08_build_phase_raises_only_the_library_exceptions.

(* the whole of PyDBMLParser.parse *)
Theorem C08_parse_raises_only_listed_exceptions :
  forall source allow sq dq h h' e, parser_parse source allow sq dq h = (h', Raise e) ->
    In e parse_phase_excs \/
    e = ETableNotFound \/ e = EColumnNotFound \/ e = EDatabaseValidation \/ e = EValidation \/ exists k, e = EStuck k.
Proof. exact parser_parse_raises_only. Qed.
Print Assumptions C08_parse_raises_only_listed_exceptions.

(* non-vacuity: each of the four is raised by an actual document *)
Example C08_build_phase_exceptions_occur :
  snd (parser_parse (s2l "Ref: a.x > b.y") false 0 1 []) = Raise ETableNotFound /\
  snd (parser_parse (s2l "Table a {
 x int
}
Ref: a.z > a.x") false 0 1 []) = Raise EColumnNotFound /\
  snd (parser_parse (s2l "Table a {
 x int
}
Table a {
 y int
}") false 0 1 []) = Raise EDatabaseValidation /\
  snd (parser_parse (s2l "Table a {
 x int
}
TableGroup g {
 a
 a
}") false 0 1 []) = Raise EValidation.
Proof. vm_compute. repeat split; reflexivity. Qed.
