(* C14 — comments.  PARTIAL: the rendering side (every line of a comment is prefixed, nothing of the
   comment text can start a line of its own) is proved for every text; capture and inertness on the parsing
   side rest on the tie + the metamorphic oracle. *)
From PyDBML Require Import PyStr Py Tools ToolsFacts.
Import ListNotations.

Theorem C14_dbml_comment_lines_prefixed :
  forall v, exists body, comment_to_dbml v = body ++ [cLF] /\
    split_on cLF body = map (fun cl => s2l "//" ++ cSP :: cl) (split_on cLF v).
Proof. intros v. apply comment_lines. reflexivity. Qed.
Print Assumptions C14_dbml_comment_lines_prefixed.

Theorem C14_sql_comment_lines_prefixed :
  forall v, exists body, comment_to_sql v = body ++ [cLF] /\
    split_on cLF body = map (fun cl => s2l "--" ++ cSP :: cl) (split_on cLF v).
Proof. intros v. apply comment_lines. reflexivity. Qed.
Print Assumptions C14_sql_comment_lines_prefixed.
