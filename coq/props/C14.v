(* C14 — comments.  PARTIAL: the rendering side (every line of a comment is prefixed, nothing of the
   comment text can start a line of its own) is proved for every text; capture and inertness on the parsing
   side rest on the tie + the metamorphic oracle. *)
From PyDBML Require Import PyStr Py Tools ToolsFacts.
Import ListNotations.

Theorem C14_dbml_comment_lines_prefixed :
  forall v, exists body, comment_to_dbml v = body ++ [cLF] /\
    split_on cLF body = map (fun cl => s2l "//" ++ cSP :: cl) (split_on cLF v).
Proof. intros v. apply comment_lines. reflexivity. Qed.
Print Assumptions C14_dbml_comment_lines_prefixed.

Theorem C14_sql_comment_lines_prefixed :
  forall v, exists body, comment_to_sql v = body ++ [cLF] /\
    split_on cLF body = map (fun cl => s2l "--" ++ cSP :: cl) (split_on cLF v).
Proof. intros v. apply comment_lines. reflexivity. Qed.
Print Assumptions C14_sql_comment_lines_prefixed.

(* ---- every renderer that emits an element emits its comment with it: the output begins with the comment lines ---- *)
From PyDBML Require Import Heap Classes RenderSQL RenderDBML CommentFacts.

Theorem C14_sql_elements_emit_their_comment_first :
  (forall i s, sql_enum_item i = Ok s -> truthy (ei_comment i) = true -> exists body, s = comment_to_sql (fstr (ei_comment i)) ++ body)
  /\ (forall h e s, sql_enum h e = Ok s -> truthy (e_comment e) = true -> exists body, s = comment_to_sql (fstr (e_comment e)) ++ body)
  /\ (forall h c s, sql_column h c = Ok s -> truthy (c_comment c) = true -> exists body, s = comment_to_sql (fstr (c_comment c)) ++ body)
  /\ (forall h i s, sql_index h i = Ok s -> truthy (i_comment i) = true -> exists body, s = comment_to_sql (fstr (i_comment i)) ++ body)
  /\ (forall h tid t s, sql_table h tid t = Ok s -> truthy (t_comment t) = true -> exists body, s = comment_to_sql (fstr (t_comment t)) ++ body).
Proof.
  exact (conj sql_enum_item_leads (conj sql_enum_leads (conj sql_column_leads (conj sql_index_leads sql_table_leads)))).
Qed.
Print Assumptions C14_sql_elements_emit_their_comment_first.

(* a reference's SQL text passes through str.format (defect D5: a brace in the comment raises); for a comment without
   braces the comment lines come out unchanged ahead of the statement, for the three directly rendered kinds *)
Theorem C14_sql_reference_emits_its_comment_first :
  forall h r s, direct_kind r = true -> nobrace (fstr (r_comment r)) -> sql_reference_simple h r = Ok s ->
    truthy (r_comment r) = true -> exists body, s = comment_to_sql (fstr (r_comment r)) ++ body.
Proof. exact sql_reference_simple_leads. Qed.
Print Assumptions C14_sql_reference_emits_its_comment_first.

Theorem C14_dbml_elements_emit_their_comment_first :
  (forall h i s, dbml_enum_item h i = Ok s -> truthy (ei_comment i) = true -> exists body, s = comment_to_dbml (fstr (ei_comment i)) ++ body)
  /\ (forall h e s, dbml_enum h e = Ok s -> truthy (e_comment e) = true -> exists body, s = comment_to_dbml (fstr (e_comment e)) ++ body)
  /\ (forall rd h cid c s, dbml_column rd h cid c = Ok s -> truthy (c_comment c) = true -> exists body, s = comment_to_dbml (fstr (c_comment c)) ++ body)
  /\ (forall h i s, dbml_index h i = Ok s -> truthy (i_comment i) = true -> exists body, s = comment_to_dbml (fstr (i_comment i)) ++ body)
  /\ (forall rd h t s, dbml_table rd h t = Ok s -> truthy (t_comment t) = true -> exists body, s = comment_to_dbml (fstr (t_comment t)) ++ body)
  /\ (forall h p s, dbml_project h p = Ok s -> truthy (p_comment p) = true -> exists body, s = comment_to_dbml (fstr (p_comment p)) ++ body)
  /\ (forall h g s, dbml_group h g = Ok s -> truthy (g_comment g) = true -> exists body, s = comment_to_dbml (fstr (g_comment g)) ++ body)
  /\ (forall h r s, ref_inline r = false -> dbml_reference h r = Ok s -> truthy (r_comment r) = true -> exists body, s = comment_to_dbml (fstr (r_comment r)) ++ body).
Proof.
  exact (conj dbml_enum_item_leads (conj dbml_enum_leads (conj dbml_column_leads (conj dbml_index_leads (conj dbml_table_leads
        (conj dbml_project_leads (conj dbml_group_leads dbml_reference_leads))))))).
Qed.
Print Assumptions C14_dbml_elements_emit_their_comment_first.

(* ---- the comment helpers these theorems are about are the ones in the source: regenerated from the source text of
   tools.comment, dbml utils.comment_to_dbml and sql utils.comment_to_sql on every run (coq/gen/GenFns.v) ---- *)
From PyDBML Require Import GenFns GenFnTie.
Theorem C14_comment_helpers_regenerated_from_source :
  (forall v c, gen_comment v c = comment v c) /\ (forall v, gen_comment_to_dbml v = comment_to_dbml v) /\ (forall v, gen_comment_to_sql v = comment_to_sql v).
Proof. exact (conj gen_comment_is_model (conj gen_comment_to_dbml_is_model gen_comment_to_sql_is_model)). Qed.
Print Assumptions C14_comment_helpers_regenerated_from_source.
