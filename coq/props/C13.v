(* C13 — free text survives.  Property theorems only; each closed by [exact] of a lemma
   proved in proofs/, followed by Print Assumptions. *)
From PyDBML Require Import PyStr Py Tools ToolsFacts.
Import ListNotations.

(* SQL clause: note text is put between single quotes after [prepare_text_for_sql];
   the prepared text never contains a single quote, for every text whatsoever. *)
Theorem C13_sql_quote_safe : forall t, mem cSQ (prepare_text_for_sql t) = false.
Proof. exact prepare_text_for_sql_no_quote. Qed.
Print Assumptions C13_sql_quote_safe.

(* a multi-line comment text: every rendered line carries the comment prefix (used by C14 too) *)
Theorem C13_comment_lines_prefixed : forall v comb, mem cLF comb = false ->
  exists body, comment v comb = body ++ [cLF] /\
    split_on cLF body = map (fun cl => comb ++ cSP :: cl) (split_on cLF v).
Proof. exact comment_lines. Qed.
Print Assumptions C13_comment_lines_prefixed.

(* ---- notes normalise idempotently ---- *)
From PyDBML Require Import PreformatFacts.

(* removing leading/trailing blank lines is idempotent for every text whatsoever *)
Theorem C13_strip_empty_lines_idempotent : forall s, strip_empty_lines (strip_empty_lines s) = strip_empty_lines s.
Proof. exact strip_empty_lines_idem. Qed.
Print Assumptions C13_strip_empty_lines_idempotent.

(* the stored form of a note is a fixed point of the normalisation, for every text whose whitespace
   characters are blank, TAB and LF *)
Theorem C13_normalisation_idempotent :
  forall t, ws_ok t -> forall v, preformat t = Ok v -> preformat v = Ok v.
Proof. exact preformat_idempotent. Qed.
Print Assumptions C13_normalisation_idempotent.

(* without the hypothesis the statement is false (defect D22): a carriage return on an otherwise empty line *)
Definition C13_idempotent_full : Prop := forall t v, preformat t = Ok v -> preformat v = Ok v.
Theorem C13_idempotent_full_refuted : ~ C13_idempotent_full.
Proof.
  intro H. specialize (H [cSP; 97%N; cLF; cCR] [97%N; cLF]).
  assert (E : preformat [cSP; 97%N; cLF; cCR] = Ok [97%N; cLF]) by (vm_compute; reflexivity).
  specialize (H E). vm_compute in H. discriminate H.
Qed.
Print Assumptions C13_idempotent_full_refuted.

Example C13_hypothesis_is_satisfiable : ws_ok ([cSP; cSP; 97%N; cLF; cSP; 98%N]).
Proof.
  intros c Hc Hs. cbn in Hc.
  destruct Hc as [<-|[<-|[<-|[<-|[<-|[<-|[]]]]]]]; first [ left; reflexivity | right; reflexivity | discriminate Hs ].
Qed.

(* ---- the same text written in any of the three string styles, with proper escapes, is read identically ---- *)
From PyDBML Require Import PP LexFacts GenGrammar.

(* the scanners of the regenerated string_literal rule *)
Theorem C13_string_literal_scanners :
  alternatives g_generic__string_literal =
  [PQuoted [cSQ] [cSQ] (Some cBSL) false true true;
   PQuoted [cDQ] [cDQ] (Some cBSL) false true true;
   PQuoted [cSQ; cSQ; cSQ] [cSQ; cSQ; cSQ] (Some cBSL) true true true].
Proof. exact string_literal_scanners. Qed.
Print Assumptions C13_string_literal_scanners.

(* single- and double-quoted style: every single-line text *)
Theorem C13_single_line_styles :
  forall q t rest, is_quote q -> no_nl t ->
    quoted_scan [q] [q] (Some cBSL) false true true (q :: escape q t ++ q :: rest) = Some (t, rest).
Proof. exact quoted_scan_single. Qed.
Print Assumptions C13_single_line_styles.

(* triple-quoted style: every text whatsoever, multi-line included *)
Theorem C13_triple_quoted_style :
  forall t rest,
    quoted_scan [cSQ; cSQ; cSQ] [cSQ; cSQ; cSQ] (Some cBSL) true true true
                (cSQ :: cSQ :: cSQ :: escape cSQ t ++ cSQ :: cSQ :: cSQ :: rest) = Some (t, rest).
Proof. exact quoted_scan_triple. Qed.
Print Assumptions C13_triple_quoted_style.

(* ---- the DBML string writers are the ones in the source: regenerated from the source text of dbml utils.quote_string and
   note_option_to_dbml on every run (coq/gen/GenFns.v); prepare_text_for_dbml is regular-expression based and stays tied by the
   differential text stream ---- *)
From PyDBML Require Import GenFns GenFnTie.
Theorem C13_string_writers_regenerated_from_source :
  (forall t, gen_quote_string t = quote_string t) /\ (forall t, gen_note_option_to_dbml t = note_option_to_dbml t).
Proof. exact (conj gen_quote_string_is_model gen_note_option_to_dbml_is_model). Qed.
Print Assumptions C13_string_writers_regenerated_from_source.

(* expression text is passed through verbatim: the two Expression renderers, regenerated from their source text *)
From PyDBML Require Import Heap RenderSQL RenderDBML.
Theorem C13_expression_renderers_regenerated_from_source :
  (forall x, gen_render_expression_sql x = 40%N :: x_text x ++ [41%N]) /\ (forall x, gen_render_expression_dbml x = 96%N :: x_text x ++ [96%N]).
Proof. split; intros x; reflexivity. Qed.
Print Assumptions C13_expression_renderers_regenerated_from_source.
