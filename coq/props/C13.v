(* C13 — free text survives.  Property theorems only; each closed by [exact] of a lemma
   proved in proofs/, followed by Print Assumptions. *)
From PyDBML Require Import PyStr Py Tools ToolsFacts.
Import ListNotations.

(* SQL clause: note text is put between single quotes after [prepare_text_for_sql];
   the prepared text never contains a single quote, for every text whatsoever. *)
Theorem C13_sql_quote_safe : forall t, mem cSQ (prepare_text_for_sql t) = false.
Proof. exact prepare_text_for_sql_no_quote. Qed.
Print Assumptions C13_sql_quote_safe.

(* a multi-line comment text: every rendered line carries the comment prefix (used by C14 too) *)
Theorem C13_comment_lines_prefixed : forall v comb, mem cLF comb = false ->
  exists body, comment v comb = body ++ [cLF] /\
    split_on cLF body = map (fun cl => comb ++ cSP :: cl) (split_on cLF v).
Proof. exact comment_lines. Qed.
Print Assumptions C13_comment_lines_prefixed.
