(* C11 — deterministic, history-independent, re-entrant.  PARTIAL by nature (DESIGN 10): threads and
   garbage collection are explored by the check, not proved.  Proved: the blueprint-collecting action
   sits exactly on the top-level alternatives of the regenerated grammar (so nothing is collected
   during backtracking inside an element), and the model is a function of its arguments.
   Proved in addition (proofs/Frame.v), for every source text, options and heap: a parse — successful or failing
   half-way — writes to no object that existed before the call; the database it returns is the first object it creates;
   so a later parse leaves every earlier result, and everything reachable from it, exactly as it was. *)
From PyDBML Require Import PyStr Py Heap PP Analyses Actions Entry GenGrammar GrammarFacts Frame.
Import ListNotations.

Theorem C11_blueprints_collected_at_top_level_only :
  length (top_alternatives gen_top_off) = 6 /\ length (top_alternatives gen_top_on) = 6
  /\ forallb (fun a => match rev (a_actions (e_attrs a)) with 30%N :: _ => true | _ => false end) (top_alternatives gen_top_off) = true
  /\ forallb (fun a => match rev (a_actions (e_attrs a)) with 30%N :: _ => true | _ => false end) (top_alternatives gen_top_on) = true
  /\ count_action 60 30%N gen_top_off = 6 /\ count_action 60 30%N gen_top_on = 6.
Proof. exact blueprint_action_placement. Qed.
Print Assumptions C11_blueprints_collected_at_top_level_only.

(* the result of a parse depends on the source, the options and the heap it allocates into, on nothing else *)
Theorem C11_result_is_a_function_of_the_arguments :
  forall s1 s2 allow sq db h, s1 = s2 -> parser_parse s1 allow sq db h = parser_parse s2 allow sq db h.
Proof. intros; subst; reflexivity. Qed.
Print Assumptions C11_result_is_a_function_of_the_arguments.

(* ---- no shared mutable state between parse calls ---- *)
Theorem C11_parse_writes_only_to_objects_it_created :
  forall source allow sq dq h h' r, parser_parse source allow sq dq h = (h', r) ->
  length h <= length h' /\ (forall x, x < length h -> nth_error h' x = nth_error h x) /\
  (forall d, r = Ok d -> d = length h /\ d < length h').
Proof. exact parser_parse_frame. Qed.
Print Assumptions C11_parse_writes_only_to_objects_it_created.

Theorem C11_later_parse_leaves_earlier_results :
  forall s1 a1 sq1 dq1 s2 a2 sq2 dq2 h0 h1 h2 r1 r2,
  parser_parse s1 a1 sq1 dq1 h0 = (h1, r1) -> parser_parse s2 a2 sq2 dq2 h1 = (h2, r2) ->
  (forall x, x < length h1 -> nth_error h2 x = nth_error h1 x) /\
  (forall x, x < length h0 -> nth_error h2 x = nth_error h0 x) /\
  (forall d1 d2, r1 = Ok d1 -> r2 = Ok d2 -> d1 < length h1 /\ length h1 <= d2).
Proof. exact later_parse_leaves_earlier_results. Qed.
Print Assumptions C11_later_parse_leaves_earlier_results.

(* every store of the parse goes above the frame: the judgement the proof runs on, for the record *)
Theorem C11_frame_judgement_of_parse :
  forall n d0 source allow sq dq, tri n d0 (le n) (parser_parse source allow sq dq).
Proof. exact t_parser_parse. Qed.
Print Assumptions C11_frame_judgement_of_parse.

(* the frame taken in the middle of a build: the remaining steps write only to the database object and to what they create, so an
   element that has been added keeps its content until the database is returned *)
Theorem C11_build_steps_write_only_to_the_database_and_new_objects :
  forall st db h h' r,
  db < length h -> (forall x, h_database h db = Some x -> d_project x = None) ->
  build_rest st db h = (h', r) ->
  forall x, x < length h -> x <> db -> nth_error h' x = nth_error h x.
Proof. exact build_steps_write_only_to_the_database_and_new_objects. Qed.
Print Assumptions C11_build_steps_write_only_to_the_database_and_new_objects.

(* non-vacuity: two actual parses, the second leaves the first database and its table untouched *)
Example C11_two_parses_example :
  let src1 := s2l "Table a {
 id int
}" in
  let src2 := s2l "Table b {
 x int
}
Ref: b.x > b.x" in
  match parser_parse src1 false 0 1 [] with
  | (h1, Ok d1) => match parser_parse src2 false 0 1 h1 with
                   | (h2, r2) => (firstn (length h1) h2 = h1) /\ d1 = 0 /\ 1 < length h1 /\ length h1 < length h2
                   end
  | _ => False
  end.
Proof. vm_compute. repeat split; reflexivity || (repeat constructor). Qed.
