(* C11 — deterministic, history-independent, re-entrant.  PARTIAL by nature (DESIGN 10): threads and
   garbage collection are explored by the check, not proved.  Proved: the blueprint-collecting action
   sits exactly on the top-level alternatives of the regenerated grammar (so nothing is collected
   during backtracking inside an element), and the model is a function of its arguments. *)
From PyDBML Require Import PyStr Py Heap PP Analyses Actions Entry GenGrammar GrammarFacts.
Import ListNotations.

Theorem C11_blueprints_collected_at_top_level_only :
  length (top_alternatives gen_top_off) = 6 /\ length (top_alternatives gen_top_on) = 6
  /\ forallb (fun a => match rev (a_actions (e_attrs a)) with 30%N :: _ => true | _ => false end) (top_alternatives gen_top_off) = true
  /\ forallb (fun a => match rev (a_actions (e_attrs a)) with 30%N :: _ => true | _ => false end) (top_alternatives gen_top_on) = true
  /\ count_action 60 30%N gen_top_off = 6 /\ count_action 60 30%N gen_top_on = 6.
Proof. exact blueprint_action_placement. Qed.
Print Assumptions C11_blueprints_collected_at_top_level_only.

(* the result of a parse depends on the source, the options and the heap it allocates into, on nothing else *)
Theorem C11_result_is_a_function_of_the_arguments :
  forall s1 s2 allow sq db h, s1 = s2 -> parser_parse s1 allow sq db h = parser_parse s2 allow sq db h.
Proof. intros; subst; reflexivity. Qed.
Print Assumptions C11_result_is_a_function_of_the_arguments.
