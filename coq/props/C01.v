(* C01 — parsing is faithful.  PARTIAL (lexical layer only): the two spellings of an identifier and the
   three spellings of a string are proved to yield the same token for every text, for the scanners the
   regenerated grammar uses; and (build layer, proofs/Counts.v) every list of the returned Database is, element by element and
   in order, what was built from the blueprints of that kind — nothing dropped, nothing invented, nothing twice.  The rule-level and whole-document theorems (DESIGN 3.6, C01_faithful) are not
   proved; they rest on the tie (every generated document is parsed by the Coq model and by the
   implementation and compared on the full dump) and on the independent expected-content oracle. *)
From PyDBML Require Import PyStr Py PP LexFacts GenGrammar.
Import ListNotations.

Theorem C01_identifier_scanners :
  alternatives g_generic__name =
  [PWord word_chars word_chars 1 0 false false true; PQuoted [cDQ] [cDQ] None false true false].
Proof. exact name_scanners. Qed.
Print Assumptions C01_identifier_scanners.

(* a bare identifier is read as itself ... *)
Theorem C01_bare_identifier_partial :
  forall (n rest : pystr) p, n <> [] -> forallb (fun x => mem x word_chars) n = true ->
    match rest with c :: _ => mem c word_chars = false | [] => True end ->
    p_rest p = n ++ rest ->
    run_terminal (PWord word_chars word_chars 1 0 false false true) p = IOk (advance (length n) p) (RStr n) [].
Proof. intros n rest p H1 H2 H3 H4. apply (word_token word_chars n rest p H1 H2 H3 H4). Qed.
Print Assumptions C01_bare_identifier_partial.

(* ... and the double-quoted spelling of any name (without quote and line break) is read as the same text *)
Theorem C01_quoted_identifier_partial :
  forall (n rest : pystr), ident_ok n ->
    quoted_scan [cDQ] [cDQ] None false true false (cDQ :: n ++ cDQ :: rest) = Some (n, rest).
Proof. exact quoted_identifier. Qed.
Print Assumptions C01_quoted_identifier_partial.

(* string values: the three styles (see C13) *)
Theorem C01_string_styles_partial :
  (forall q t rest, is_quote q -> no_nl t ->
     quoted_scan [q] [q] (Some cBSL) false true true (q :: escape q t ++ q :: rest) = Some (t, rest))
  /\ (forall t rest,
     quoted_scan [cSQ; cSQ; cSQ] [cSQ; cSQ; cSQ] (Some cBSL) true true true
                 (cSQ :: cSQ :: cSQ :: escape cSQ t ++ cSQ :: cSQ :: cSQ :: rest) = Some (t, rest)).
Proof. exact (conj quoted_scan_single quoted_scan_triple). Qed.
Print Assumptions C01_string_styles_partial.

(* ---- build layer: each declared element exactly once and in source order ---- *)
(* For every source text, options and (well-formed) heap on which PyDBMLParser.parse succeeds: the tables, enums, references,
   groups and sticky notes of the returned database are, element by element and in order, the objects built from the table,
   enum, reference, group and sticky-note blueprints the parse actions collected (references in the order parse_blueprint
   registered them: the inline ones of a table when the table is registered, a standalone one at its own place); there is a
   project exactly when a project blueprint was collected.  The hypothesis on the blueprints (no table whose alias equals its own full name) is the one of C05. *)
From PyDBML Require Import Heap Classes Database Actions Build Entry ContainerInv ContainerFull TableInv BuildInv Counts.
Theorem C01_database_lists_are_the_built_blueprints_in_order :
  forall source allow sq dq h0 h1 d,
    WW h0 -> (forall t tb, h_table h0 t = Some tb -> NoDup (names_of tb)) ->
    (forall st, blueprints_of source allow h0 = (h0, Ok st) -> Forall good_table_bp (ps_tables st)) ->
    parser_parse source allow sq dq h0 = (h1, Ok d) ->
    exists st db, blueprints_of source allow h0 = (h0, Ok st) /\ h_database h1 d = Some db /\
      Forall2 (built_by (build_table d)) (ps_tables st) (d_tables db) /\ Forall2 (built_by build_enum) (ps_enums st) (d_enums db) /\
      Forall2 (built_by (build_reference d)) (ps_refs st) (d_refs db) /\ Forall2 (built_by (build_group d)) (ps_groups st) (d_table_groups db) /\
      Forall2 (built_by build_sticky) (ps_stickies st) (d_sticky_notes db) /\ (d_project db = None <-> ps_project st = None).
Proof. exact parser_parse_counts. Qed.
Print Assumptions C01_database_lists_are_the_built_blueprints_in_order.

Theorem C01_one_element_per_blueprint :
  forall s allow sq dq h0 h1 dd,
    WW h0 -> (forall t tb, h_table h0 t = Some tb -> NoDup (names_of tb)) -> Forall good_table_bp (ps_tables s) ->
    build_database s allow sq dq h0 = (h1, Ok dd) ->
    exists db, h_database h1 dd = Some db /\
      length (d_tables db) = length (ps_tables s) /\ length (d_enums db) = length (ps_enums s) /\
      length (d_refs db) = length (ps_refs s) /\ length (d_table_groups db) = length (ps_groups s) /\
      length (d_sticky_notes db) = length (ps_stickies s) /\ (d_project db = None <-> ps_project s = None).
Proof. exact build_database_lengths. Qed.
Print Assumptions C01_one_element_per_blueprint.

(* non-vacuity: an actual document (two tables, an inline and a standalone reference, an enum, a group, a note, a project) *)
Definition c01_doc : pystr := s2l "Project p {
 x: 'y'
}
Enum e {
 a
 b
}
Table t1 as A {
 id int [pk]
 k e
}
Table t2 {
 id int [ref: > t1.id]
 j int
}
Ref: t2.j > A.id
TableGroup g {
 t1
 t2
}
Note n {
 'text'
}".
Example C01_counts_example :
  match parser_parse c01_doc false 0 1 [] with
  | (h1, Ok d) => match h_database h1 d, blueprints_of c01_doc false [] with
                  | Some db, (_, Ok st) =>
                      (length (d_tables db), length (d_enums db), length (d_refs db), length (d_table_groups db), length (d_sticky_notes db))
                      = (2, 1, 2, 1, 1) /\
                      (length (ps_tables st), length (ps_enums st), length (ps_refs st), length (ps_groups st), length (ps_stickies st))
                      = (2, 1, 2, 1, 1) /\ d_project db <> None /\
                      forallb (fun bp => match bp with PVBlue 7 _ => true | _ => false end) (ps_tables st) = true
                  | _, _ => False
                  end
  | _ => False
  end.
Proof. vm_compute. repeat split; discriminate. Qed.

(* ---- one kind of element followed from its blueprint to the returned database (proofs/Sticky.v) ---- *)
(* The sticky notes of the parsed database are, one per sticky-note blueprint and in order, objects holding exactly the declared
   name and the declared text after note normalisation (preformat), pointing back to the database.  The step that builds and adds
   a note fixes the object (computed exactly); the frame theorem taken in the middle of the build (Frame.v:
   build_steps_write_only_to_the_database_and_new_objects) keeps it unchanged until the database is returned. *)
From PyDBML Require Import Tools Sticky.
Theorem C01_sticky_notes_hold_the_declared_name_and_text :
  forall source allow sq dq h0 h1 d,
    WW h0 -> (forall t tb, h_table h0 t = Some tb -> NoDup (names_of tb)) ->
    (forall st, blueprints_of source allow h0 = (h0, Ok st) -> Forall good_table_bp (ps_tables st)) ->
    parser_parse source allow sq dq h0 = (h1, Ok d) ->
    exists st db, blueprints_of source allow h0 = (h0, Ok st) /\ h_database h1 d = Some db /\
      Forall2 (fun bp o => exists nm tx, declares_sticky bp nm tx /\ h_sticky h1 o = Some (mkSticky nm tx (Some d)))
              (ps_stickies st) (d_sticky_notes db).
Proof. exact parser_parse_sticky_notes. Qed.
Print Assumptions C01_sticky_notes_hold_the_declared_name_and_text.

Example C01_sticky_note_example :
  match parser_parse c01_doc false 0 1 [] with
  | (h1, Ok d) => match h_database h1 d with
                  | Some db => map (h_sticky h1) (d_sticky_notes db) = [Some (mkSticky (s2l "n") (s2l "text") (Some d))]
                  | None => False
                  end
  | _ => False
  end.
Proof. vm_compute. reflexivity. Qed.

(* ---- enums followed from their blueprints to the returned database (proofs/EnumC.v) ---- *)
(* The enums of the parsed database are, one per enum blueprint and in order, objects with exactly the declared name, schema
   (public when none is written) and comment, pointing back to the database, whose items are — one per declared item, in order —
   objects with the declared name and comment and a note holding the declared (normalised) note text and pointing back to the
   item.  Exact computation of Enum.__init__ / add_item / Database.add for the step, mid-build frame for the rest. *)
From PyDBML Require Import EnumC.
Theorem C01_enums_hold_the_declared_name_schema_and_items_in_order :
  forall source allow sq dq h0 h1 d,
    WW h0 -> (forall t tb, h_table h0 t = Some tb -> NoDup (names_of tb)) ->
    (forall st, blueprints_of source allow h0 = (h0, Ok st) -> Forall good_table_bp (ps_tables st)) ->
    parser_parse source allow sq dq h0 = (h1, Ok d) ->
    exists st db, blueprints_of source allow h0 = (h0, Ok st) /\ h_database h1 d = Some db /\
      Forall2 (fun bp e =>
        exists nm sc c items decl os, declares_enum bp nm sc c items /\
          Forall2 (fun ib dd => declares_item ib (fst (fst dd)) (snd (fst dd)) (snd dd)) items decl /\
          h_enum h1 e = Some (mkEnum (Some d) nm sc c (Some os)) /\
          Forall2 (fun dd o => nth_error h1 o = Some (OEnumItem (mkEnumItem (fst (fst dd)) (o - 1) (snd (fst dd)))) /\
                               nth_error h1 (o - 1) = Some (ONote (mkNote (snd dd) (Some o)))) decl os)
        (ps_enums st) (d_enums db).
Proof. exact parser_parse_enums. Qed.
Print Assumptions C01_enums_hold_the_declared_name_schema_and_items_in_order.

Example C01_enum_example :
  match parser_parse c01_doc false 0 1 [] with
  | (h1, Ok d) => match h_database h1 d with
                  | Some db => map (fun e => option_map (fun en => (e_name en, e_schema en, e_database en,
                                      option_map (map (fun i => option_map ei_name (h_enumitem h1 i))) (e_items en))) (h_enum h1 e)) (d_enums db)
                               = [Some (Some (s2l "e"), Some (s2l "public"), Some d, Some [Some (Some (s2l "a")); Some (Some (s2l "b"))])]
                  | None => False
                  end
  | _ => False
  end.
Proof. vm_compute. reflexivity. Qed.

(* ---- tables: keys and column names, at the end of the build (proofs/TablesC.v) ---- *)
(* Every table of the parsed database comes from a table blueprint, answers to that blueprint's keys — `schema.name`, and the
   alias when one is declared — and its columns are named as the blueprint declares, in order; conversely every table blueprint
   has its table in the database. *)
From PyDBML Require Import BuildRules BuildDocs BuildSpell TablesC.
Theorem C01_tables_have_the_declared_keys_and_column_names_in_order :
  forall source allow sq dq h0 h1 d,
    WW h0 -> (forall t tb, h_table h0 t = Some tb -> NoDup (names_of tb)) ->
    (forall st, blueprints_of source allow h0 = (h0, Ok st) -> Forall good_table_bp (ps_tables st)) ->
    parser_parse source allow sq dq h0 = (h1, Ok d) ->
    exists st, blueprints_of source allow h0 = (h0, Ok st) /\
      (forall db t, h_database h1 d = Some db -> In t (d_tables db) ->
         exists bp, In bp (ps_tables st) /\
           (exists tb, h_table h1 t = Some tb /\ names_of tb = bp_keys bp) /\
           (exists tb, h_table h1 t = Some tb /\
              Forall2 (fun c n => exists cc, h_column h1 c = Some cc /\ c_name cc = n) (t_columns tb) (bp_colnames bp))) /\
      (forall bp, In bp (ps_tables st) ->
         exists db t, h_database h1 d = Some db /\ In t (d_tables db) /\ exists tb, h_table h1 t = Some tb /\ names_of tb = bp_keys bp).
Proof. exact parser_parse_tables. Qed.
Print Assumptions C01_tables_have_the_declared_keys_and_column_names_in_order.
