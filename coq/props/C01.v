(* C01 — parsing is faithful.  PARTIAL (lexical layer only): the two spellings of an identifier and the
   three spellings of a string are proved to yield the same token for every text, for the scanners the
   regenerated grammar uses; and (build layer, proofs/Counts.v) every list of the returned Database is, element by element and
   in order, what was built from the blueprints of that kind — nothing dropped, nothing invented, nothing twice.  The rule-level and whole-document theorems (DESIGN 3.6, C01_faithful) are not
   proved; they rest on the tie (every generated document is parsed by the Coq model and by the
   implementation and compared on the full dump) and on the independent expected-content oracle. *)
From PyDBML Require Import PyStr Py PP LexFacts GenGrammar.
Import ListNotations.

Theorem C01_identifier_scanners :
  alternatives g_generic__name =
  [PWord word_chars word_chars 1 0 false false true; PQuoted [cDQ] [cDQ] None false true false].
Proof. exact name_scanners. Qed.
Print Assumptions C01_identifier_scanners.

(* a bare identifier is read as itself ... *)
Theorem C01_bare_identifier_partial :
  forall (n rest : pystr) p, n <> [] -> forallb (fun x => mem x word_chars) n = true ->
    match rest with c :: _ => mem c word_chars = false | [] => True end ->
    p_rest p = n ++ rest ->
    run_terminal (PWord word_chars word_chars 1 0 false false true) p = IOk (advance (length n) p) (RStr n) [].
Proof. intros n rest p H1 H2 H3 H4. apply (word_token word_chars n rest p H1 H2 H3 H4). Qed.
Print Assumptions C01_bare_identifier_partial.

(* ... and the double-quoted spelling of any name (without quote and line break) is read as the same text *)
Theorem C01_quoted_identifier_partial :
  forall (n rest : pystr), ident_ok n ->
    quoted_scan [cDQ] [cDQ] None false true false (cDQ :: n ++ cDQ :: rest) = Some (n, rest).
Proof. exact quoted_identifier. Qed.
Print Assumptions C01_quoted_identifier_partial.

(* string values: the three styles (see C13) *)
Theorem C01_string_styles_partial :
  (forall q t rest, is_quote q -> no_nl t ->
     quoted_scan [q] [q] (Some cBSL) false true true (q :: escape q t ++ q :: rest) = Some (t, rest))
  /\ (forall t rest,
     quoted_scan [cSQ; cSQ; cSQ] [cSQ; cSQ; cSQ] (Some cBSL) true true true
                 (cSQ :: cSQ :: cSQ :: escape cSQ t ++ cSQ :: cSQ :: cSQ :: rest) = Some (t, rest)).
Proof. exact (conj quoted_scan_single quoted_scan_triple). Qed.
Print Assumptions C01_string_styles_partial.

(* ---- build layer: each declared element exactly once and in source order ---- *)
(* For every source text, options and (well-formed) heap on which PyDBMLParser.parse succeeds: the tables, enums, references,
   groups and sticky notes of the returned database are, element by element and in order, the objects built from the table,
   enum, reference, group and sticky-note blueprints the parse actions collected (references in the order parse_blueprint
   registered them: the inline ones of a table when the table is registered, a standalone one at its own place); there is a
   project exactly when a project blueprint was collected.  The hypothesis on the blueprints (no table whose alias equals its own full name) is the one of C05. *)
From PyDBML Require Import Heap Classes Database Actions Build Entry ContainerInv ContainerFull TableInv BuildInv Counts.
Theorem C01_database_lists_are_the_built_blueprints_in_order :
  forall source allow sq dq h0 h1 d,
    WW h0 -> (forall t tb, h_table h0 t = Some tb -> NoDup (names_of tb)) ->
    (forall st, blueprints_of source allow h0 = (h0, Ok st) -> Forall good_table_bp (ps_tables st)) ->
    parser_parse source allow sq dq h0 = (h1, Ok d) ->
    exists st db, blueprints_of source allow h0 = (h0, Ok st) /\ h_database h1 d = Some db /\
      Forall2 (built_by (build_table d)) (ps_tables st) (d_tables db) /\ Forall2 (built_by build_enum) (ps_enums st) (d_enums db) /\
      Forall2 (built_by (build_reference d)) (ps_refs st) (d_refs db) /\ Forall2 (built_by (build_group d)) (ps_groups st) (d_table_groups db) /\
      Forall2 (built_by build_sticky) (ps_stickies st) (d_sticky_notes db) /\ (d_project db = None <-> ps_project st = None).
Proof. exact parser_parse_counts. Qed.
Print Assumptions C01_database_lists_are_the_built_blueprints_in_order.

Theorem C01_one_element_per_blueprint :
  forall s allow sq dq h0 h1 dd,
    WW h0 -> (forall t tb, h_table h0 t = Some tb -> NoDup (names_of tb)) -> Forall good_table_bp (ps_tables s) ->
    build_database s allow sq dq h0 = (h1, Ok dd) ->
    exists db, h_database h1 dd = Some db /\
      length (d_tables db) = length (ps_tables s) /\ length (d_enums db) = length (ps_enums s) /\
      length (d_refs db) = length (ps_refs s) /\ length (d_table_groups db) = length (ps_groups s) /\
      length (d_sticky_notes db) = length (ps_stickies s) /\ (d_project db = None <-> ps_project s = None).
Proof. exact build_database_lengths. Qed.
Print Assumptions C01_one_element_per_blueprint.

(* non-vacuity: an actual document (two tables, an inline and a standalone reference, an enum, a group, a note, a project) *)
Definition c01_doc : pystr := s2l "Project p {
 x: 'y'
}
Enum e {
 a
 b
}
Table t1 as A {
 id int [pk]
 k e
}
Table t2 {
 id int [ref: > t1.id]
 j int
}
Ref: t2.j > A.id
TableGroup g {
 t1
 t2
}
Note n {
 'text'
}".
Example C01_counts_example :
  match parser_parse c01_doc false 0 1 [] with
  | (h1, Ok d) => match h_database h1 d, blueprints_of c01_doc false [] with
                  | Some db, (_, Ok st) =>
                      (length (d_tables db), length (d_enums db), length (d_refs db), length (d_table_groups db), length (d_sticky_notes db))
                      = (2, 1, 2, 1, 1) /\
                      (length (ps_tables st), length (ps_enums st), length (ps_refs st), length (ps_groups st), length (ps_stickies st))
                      = (2, 1, 2, 1, 1) /\ d_project db <> None /\
                      forallb (fun bp => match bp with PVBlue 7 _ => true | _ => false end) (ps_tables st) = true
                  | _, _ => False
                  end
  | _ => False
  end.
Proof. vm_compute. repeat split; discriminate. Qed.
