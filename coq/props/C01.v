(* C01 — parsing is faithful.  PARTIAL (lexical layer only): the two spellings of an identifier and the
   three spellings of a string are proved to yield the same token for every text, for the scanners the
   regenerated grammar uses.  The rule-level and whole-document theorems (DESIGN 3.6, C01_faithful) are not
   proved; they rest on the tie (every generated document is parsed by the Coq model and by the
   implementation and compared on the full dump) and on the independent expected-content oracle. *)
From PyDBML Require Import PyStr Py PP LexFacts GenGrammar.
Import ListNotations.

Theorem C01_identifier_scanners :
  alternatives g_generic__name =
  [PWord word_chars word_chars 1 0 false false true; PQuoted [cDQ] [cDQ] None false true false].
Proof. exact name_scanners. Qed.
Print Assumptions C01_identifier_scanners.

(* a bare identifier is read as itself ... *)
Theorem C01_bare_identifier_partial :
  forall (n rest : pystr) p, n <> [] -> forallb (fun x => mem x word_chars) n = true ->
    match rest with c :: _ => mem c word_chars = false | [] => True end ->
    p_rest p = n ++ rest ->
    run_terminal (PWord word_chars word_chars 1 0 false false true) p = IOk (advance (length n) p) (RStr n) [].
Proof. intros n rest p H1 H2 H3 H4. apply (word_token word_chars n rest p H1 H2 H3 H4). Qed.
Print Assumptions C01_bare_identifier_partial.

(* ... and the double-quoted spelling of any name (without quote and line break) is read as the same text *)
Theorem C01_quoted_identifier_partial :
  forall (n rest : pystr), ident_ok n ->
    quoted_scan [cDQ] [cDQ] None false true false (cDQ :: n ++ cDQ :: rest) = Some (n, rest).
Proof. exact quoted_identifier. Qed.
Print Assumptions C01_quoted_identifier_partial.

(* string values: the three styles (see C13) *)
Theorem C01_string_styles_partial :
  (forall q t rest, is_quote q -> no_nl t ->
     quoted_scan [q] [q] (Some cBSL) false true true (q :: escape q t ++ q :: rest) = Some (t, rest))
  /\ (forall t rest,
     quoted_scan [cSQ; cSQ; cSQ] [cSQ; cSQ; cSQ] (Some cBSL) true true true
                 (cSQ :: cSQ :: cSQ :: escape cSQ t ++ cSQ :: cSQ :: cSQ :: rest) = Some (t, rest)).
Proof. exact (conj quoted_scan_single quoted_scan_triple). Qed.
Print Assumptions C01_string_styles_partial.
