(* C01 — parsing is faithful.  PARTIAL, two layers proved, one not:
   - lexical layer: the two spellings of an identifier and the three spellings of a string yield the same token for every text,
     for the scanners the regenerated grammar uses;
   - build layer (Counts, Sticky, EnumC, TablesC, ColumnsC, IndexesC, RefsC, SettingsC, ProjGroup): every list of the returned
     Database is, element by element and in order, what was built from the blueprints of that kind, and every kind of element —
     tables with their settings and notes, columns, indexes with their subjects, enums with their items, references with their
     resolved endpoints, groups, sticky notes, the project — holds exactly what its blueprint declares;
   - NOT proved: the rule level, i.e. that the blueprints the parse actions collect are what the document declares.  It rests on
     the tie (every generated document is parsed by the Coq model — regenerated grammar interpreted by PP.run, hand-modelled
     actions — and by the implementation and compared on the full dump) and on the independent expected-content oracle. *)
From PyDBML Require Import PyStr Py PP LexFacts GenGrammar.
Import ListNotations.

Theorem C01_identifier_scanners :
  alternatives g_generic__name =
  [PWord word_chars word_chars 1 0 false false true; PQuoted [cDQ] [cDQ] None false true false].
Proof. exact name_scanners. Qed.
Print Assumptions C01_identifier_scanners.

(* a bare identifier is read as itself ... *)
Theorem C01_bare_identifier_partial :
  forall (n rest : pystr) p, n <> [] -> forallb (fun x => mem x word_chars) n = true ->
    match rest with c :: _ => mem c word_chars = false | [] => True end ->
    p_rest p = n ++ rest ->
    run_terminal (PWord word_chars word_chars 1 0 false false true) p = IOk (advance (length n) p) (RStr n) [].
Proof. intros n rest p H1 H2 H3 H4. apply (word_token word_chars n rest p H1 H2 H3 H4). Qed.
Print Assumptions C01_bare_identifier_partial.

(* ... and the double-quoted spelling of any name (without quote and line break) is read as the same text *)
Theorem C01_quoted_identifier_partial :
  forall (n rest : pystr), ident_ok n ->
    quoted_scan [cDQ] [cDQ] None false true false (cDQ :: n ++ cDQ :: rest) = Some (n, rest).
Proof. exact quoted_identifier. Qed.
Print Assumptions C01_quoted_identifier_partial.

(* string values: the three styles (see C13) *)
Theorem C01_string_styles_partial :
  (forall q t rest, is_quote q -> no_nl t ->
     quoted_scan [q] [q] (Some cBSL) false true true (q :: escape q t ++ q :: rest) = Some (t, rest))
  /\ (forall t rest,
     quoted_scan [cSQ; cSQ; cSQ] [cSQ; cSQ; cSQ] (Some cBSL) true true true
                 (cSQ :: cSQ :: cSQ :: escape cSQ t ++ cSQ :: cSQ :: cSQ :: rest) = Some (t, rest)).
Proof. exact (conj quoted_scan_single quoted_scan_triple). Qed.
Print Assumptions C01_string_styles_partial.

(* ---- build layer: each declared element exactly once and in source order ---- *)
(* For every source text, options and (well-formed) heap on which PyDBMLParser.parse succeeds: the tables, enums, references,
   groups and sticky notes of the returned database are, element by element and in order, the objects built from the table,
   enum, reference, group and sticky-note blueprints the parse actions collected (references in the order parse_blueprint
   registered them: the inline ones of a table when the table is registered, a standalone one at its own place); there is a
   project exactly when a project blueprint was collected.  The hypothesis on the blueprints (no table whose alias equals its own full name) is the one of C05. *)
From PyDBML Require Import Heap Classes Database Actions Build Entry ContainerInv ContainerFull TableInv BuildInv Counts.
Theorem C01_database_lists_are_the_built_blueprints_in_order :
  forall source allow sq dq h0 h1 d,
    WW h0 -> (forall t tb, h_table h0 t = Some tb -> NoDup (names_of tb)) ->
    (forall st, blueprints_of source allow h0 = (h0, Ok st) -> Forall good_table_bp (ps_tables st)) ->
    parser_parse source allow sq dq h0 = (h1, Ok d) ->
    exists st db, blueprints_of source allow h0 = (h0, Ok st) /\ h_database h1 d = Some db /\
      Forall2 (built_by (build_table d)) (ps_tables st) (d_tables db) /\ Forall2 (built_by build_enum) (ps_enums st) (d_enums db) /\
      Forall2 (built_by (build_reference d)) (ps_refs st) (d_refs db) /\ Forall2 (built_by (build_group d)) (ps_groups st) (d_table_groups db) /\
      Forall2 (built_by build_sticky) (ps_stickies st) (d_sticky_notes db) /\ (d_project db = None <-> ps_project st = None).
Proof. exact parser_parse_counts. Qed.
Print Assumptions C01_database_lists_are_the_built_blueprints_in_order.

Theorem C01_one_element_per_blueprint :
  forall s allow sq dq h0 h1 dd,
    WW h0 -> (forall t tb, h_table h0 t = Some tb -> NoDup (names_of tb)) -> Forall good_table_bp (ps_tables s) ->
    build_database s allow sq dq h0 = (h1, Ok dd) ->
    exists db, h_database h1 dd = Some db /\
      length (d_tables db) = length (ps_tables s) /\ length (d_enums db) = length (ps_enums s) /\
      length (d_refs db) = length (ps_refs s) /\ length (d_table_groups db) = length (ps_groups s) /\
      length (d_sticky_notes db) = length (ps_stickies s) /\ (d_project db = None <-> ps_project s = None).
Proof. exact build_database_lengths. Qed.
Print Assumptions C01_one_element_per_blueprint.

(* non-vacuity: an actual document (two tables, an inline and a standalone reference, an enum, a group, a note, a project) *)
Definition c01_doc : pystr := s2l "Project p {
 x: 'y'
}
Enum e {
 a
 b
}
Table t1 as A {
 id int [pk]
 k e
}
Table t2 {
 id int [ref: > t1.id]
 j int
}
Ref: t2.j > A.id
TableGroup g {
 t1
 t2
}
Note n {
 'text'
}".
Example C01_counts_example :
  match parser_parse c01_doc false 0 1 [] with
  | (h1, Ok d) => match h_database h1 d, blueprints_of c01_doc false [] with
                  | Some db, (_, Ok st) =>
                      (length (d_tables db), length (d_enums db), length (d_refs db), length (d_table_groups db), length (d_sticky_notes db))
                      = (2, 1, 2, 1, 1) /\
                      (length (ps_tables st), length (ps_enums st), length (ps_refs st), length (ps_groups st), length (ps_stickies st))
                      = (2, 1, 2, 1, 1) /\ d_project db <> None /\
                      forallb (fun bp => match bp with PVBlue 7 _ => true | _ => false end) (ps_tables st) = true
                  | _, _ => False
                  end
  | _ => False
  end.
Proof. vm_compute. repeat split; discriminate. Qed.

(* ---- one kind of element followed from its blueprint to the returned database (proofs/Sticky.v) ---- *)
(* The sticky notes of the parsed database are, one per sticky-note blueprint and in order, objects holding exactly the declared
   name and the declared text after note normalisation (preformat), pointing back to the database.  The step that builds and adds
   a note fixes the object (computed exactly); the frame theorem taken in the middle of the build (Frame.v:
   build_steps_write_only_to_the_database_and_new_objects) keeps it unchanged until the database is returned. *)
From PyDBML Require Import Tools Sticky.
Theorem C01_sticky_notes_hold_the_declared_name_and_text :
  forall source allow sq dq h0 h1 d,
    WW h0 -> (forall t tb, h_table h0 t = Some tb -> NoDup (names_of tb)) ->
    (forall st, blueprints_of source allow h0 = (h0, Ok st) -> Forall good_table_bp (ps_tables st)) ->
    parser_parse source allow sq dq h0 = (h1, Ok d) ->
    exists st db, blueprints_of source allow h0 = (h0, Ok st) /\ h_database h1 d = Some db /\
      Forall2 (fun bp o => exists nm tx, declares_sticky bp nm tx /\ h_sticky h1 o = Some (mkSticky nm tx (Some d)))
              (ps_stickies st) (d_sticky_notes db).
Proof. exact parser_parse_sticky_notes. Qed.
Print Assumptions C01_sticky_notes_hold_the_declared_name_and_text.

Example C01_sticky_note_example :
  match parser_parse c01_doc false 0 1 [] with
  | (h1, Ok d) => match h_database h1 d with
                  | Some db => map (h_sticky h1) (d_sticky_notes db) = [Some (mkSticky (s2l "n") (s2l "text") (Some d))]
                  | None => False
                  end
  | _ => False
  end.
Proof. vm_compute. reflexivity. Qed.

(* ---- enums followed from their blueprints to the returned database (proofs/EnumC.v) ---- *)
(* The enums of the parsed database are, one per enum blueprint and in order, objects with exactly the declared name, schema
   (public when none is written) and comment, pointing back to the database, whose items are — one per declared item, in order —
   objects with the declared name and comment and a note holding the declared (normalised) note text and pointing back to the
   item.  Exact computation of Enum.__init__ / add_item / Database.add for the step, mid-build frame for the rest. *)
From PyDBML Require Import EnumC.
Theorem C01_enums_hold_the_declared_name_schema_and_items_in_order :
  forall source allow sq dq h0 h1 d,
    WW h0 -> (forall t tb, h_table h0 t = Some tb -> NoDup (names_of tb)) ->
    (forall st, blueprints_of source allow h0 = (h0, Ok st) -> Forall good_table_bp (ps_tables st)) ->
    parser_parse source allow sq dq h0 = (h1, Ok d) ->
    exists st db, blueprints_of source allow h0 = (h0, Ok st) /\ h_database h1 d = Some db /\
      Forall2 (fun bp e =>
        exists nm sc c items decl os, declares_enum bp nm sc c items /\
          Forall2 (fun ib dd => declares_item ib (fst (fst dd)) (snd (fst dd)) (snd dd)) items decl /\
          h_enum h1 e = Some (mkEnum (Some d) nm sc c (Some os)) /\
          Forall2 (fun dd o => nth_error h1 o = Some (OEnumItem (mkEnumItem (fst (fst dd)) (o - 1) (snd (fst dd)))) /\
                               nth_error h1 (o - 1) = Some (ONote (mkNote (snd dd) (Some o)))) decl os)
        (ps_enums st) (d_enums db).
Proof. exact parser_parse_enums. Qed.
Print Assumptions C01_enums_hold_the_declared_name_schema_and_items_in_order.

Example C01_enum_example :
  match parser_parse c01_doc false 0 1 [] with
  | (h1, Ok d) => match h_database h1 d with
                  | Some db => map (fun e => option_map (fun en => (e_name en, e_schema en, e_database en,
                                      option_map (map (fun i => option_map ei_name (h_enumitem h1 i))) (e_items en))) (h_enum h1 e)) (d_enums db)
                               = [Some (Some (s2l "e"), Some (s2l "public"), Some d, Some [Some (Some (s2l "a")); Some (Some (s2l "b"))])]
                  | None => False
                  end
  | _ => False
  end.
Proof. vm_compute. reflexivity. Qed.

(* ---- tables: keys and column names, at the end of the build (proofs/TablesC.v) ---- *)
(* Every table of the parsed database comes from a table blueprint, answers to that blueprint's keys — `schema.name`, and the
   alias when one is declared — and its columns are named as the blueprint declares, in order; conversely every table blueprint
   has its table in the database. *)
From PyDBML Require Import BuildRules BuildDocs BuildSpell TablesC.
Theorem C01_tables_have_the_declared_keys_and_column_names_in_order :
  forall source allow sq dq h0 h1 d,
    WW h0 -> (forall t tb, h_table h0 t = Some tb -> NoDup (names_of tb)) ->
    (forall st, blueprints_of source allow h0 = (h0, Ok st) -> Forall good_table_bp (ps_tables st)) ->
    parser_parse source allow sq dq h0 = (h1, Ok d) ->
    exists st, blueprints_of source allow h0 = (h0, Ok st) /\
      (forall db t, h_database h1 d = Some db -> In t (d_tables db) ->
         exists bp, In bp (ps_tables st) /\
           (exists tb, h_table h1 t = Some tb /\ names_of tb = bp_keys bp) /\
           (exists tb, h_table h1 t = Some tb /\
              Forall2 (fun c n => exists cc, h_column h1 c = Some cc /\ c_name cc = n) (t_columns tb) (bp_colnames bp))) /\
      (forall bp, In bp (ps_tables st) ->
         exists db t, h_database h1 d = Some db /\ In t (d_tables db) /\ exists tb, h_table h1 t = Some tb /\ names_of tb = bp_keys bp).
Proof. exact parser_parse_tables. Qed.
Print Assumptions C01_tables_have_the_declared_keys_and_column_names_in_order.

(* ---- columns followed from their blueprints to the returned database (proofs/ColumnsC.v) ---- *)
(* Each table of the parsed database lists — one per column blueprint of its table blueprint, in order — column objects whose
   name, unique / not null / pk / increment flags, comment and arbitrary properties are exactly the declared ones, whose type is
   the declared type string or an Enum object (the one found for that string), whose default has the declared kind and value, and
   which point back to the table.  Column objects are written by nothing but Table.add_column (Rcol), the loop of the Table
   constructor is followed column by column (cols_loop_full), Database.add(table) and the rest of the build leave them alone
   (mid-build frame). *)
From PyDBML Require Import ColumnsC.
Theorem C01_columns_hold_the_declared_attributes_in_order :
  forall source allow sq dq h0 h1 d,
    WW h0 -> (forall t tb, h_table h0 t = Some tb -> NoDup (names_of tb)) ->
    (forall st, blueprints_of source allow h0 = (h0, Ok st) -> Forall good_table_bp (ps_tables st)) ->
    parser_parse source allow sq dq h0 = (h1, Ok d) ->
    exists st db, blueprints_of source allow h0 = (h0, Ok st) /\ h_database h1 d = Some db /\
      Forall2 (fun bp t => exists dd tb, bp = PVBlue 7 dd /\ h_table h1 t = Some tb /\
                 Forall2 (fun c cb => exists cc, nth_error h1 c = Some (OColumn cc) /\ col_declares cb cc /\ c_table cc = Some t)
                         (t_columns tb) (flist_of dd "columns"))
              (ps_tables st) (d_tables db).
Proof.
  intros source allow sq dq h0 h1 d HW Hg Hbp H. destruct (parser_parse_columns _ _ _ _ _ _ _ HW Hg Hbp H) as (st & db & A & B & F).
  exists st, db. split; [exact A|]. split; [exact B|]. eapply Forall2_impl_s; [|exact F].
  intros bp t (dd & -> & tb & Htb & FF). exists dd, tb. auto.
Qed.
Print Assumptions C01_columns_hold_the_declared_attributes_in_order.

Example C01_column_example :
  match parser_parse c01_doc false 0 1 [] with
  | (h1, Ok d) => match h_database h1 d with
                  | Some db => map (fun t => option_map (fun tb => map (fun c => option_map (fun cc => (c_name cc, c_pk cc, match c_type cc with CTEnum _ => true | _ => false end, c_table cc)) (h_column h1 c)) (t_columns tb)) (h_table h1 t)) (d_tables db)
                               = [Some [Some (Some (s2l "id"), true, false, Some (nth 0 (d_tables db) 0)); Some (Some (s2l "k"), false, true, Some (nth 0 (d_tables db) 0))];
                                  Some [Some (Some (s2l "id"), false, false, Some (nth 1 (d_tables db) 0)); Some (Some (s2l "j"), false, false, Some (nth 1 (d_tables db) 0))]]
                  | None => False
                  end
  | _ => False
  end.
Proof. vm_compute. reflexivity. Qed.

(* ---- indexes followed from their blueprints to the returned database (proofs/IndexesC.v) ---- *)
(* Each table of the parsed database lists — one per index blueprint of its table blueprint, in order — index objects with exactly
   the declared name, unique / pk flags, type and comment, pointing back to the table, whose subjects are, in order, the table's
   own column object with the declared name (it passed Table.add_index's check) or an expression object with the declared text.
   Later index steps of the same table write only to the table and to new objects (the frame judgement with the table as its
   exception), Database.add writes no inner object, the mid-build frame keeps the rest. *)
From PyDBML Require Import IndexesC.
Theorem C01_indexes_hold_the_declared_settings_and_subjects_in_order :
  forall source allow sq dq h0 h1 d,
    WW h0 -> (forall t tb, h_table h0 t = Some tb -> NoDup (names_of tb)) ->
    (forall st, blueprints_of source allow h0 = (h0, Ok st) -> Forall good_table_bp (ps_tables st)) ->
    parser_parse source allow sq dq h0 = (h1, Ok d) ->
    exists st db, blueprints_of source allow h0 = (h0, Ok st) /\ h_database h1 d = Some db /\
      Forall2 (fun bp t => exists dd tb, bp = PVBlue 7 dd /\ nth_error h1 t = Some (OTable tb) /\
                 Forall2 (idx_holds h1 t) (t_indexes tb) (flist_of dd "indexes"))
              (ps_tables st) (d_tables db).
Proof.
  intros source allow sq dq h0 h1 d HW Hg Hbp H. destruct (parser_parse_indexes _ _ _ _ _ _ _ HW Hg Hbp H) as (st & db & A & B & F).
  exists st, db. split; [exact A|]. split; [exact B|]. eapply Forall2_impl_s; [|exact F].
  intros bp t (dd & -> & tb & Htb & FF). exists dd, tb. auto.
Qed.
Print Assumptions C01_indexes_hold_the_declared_settings_and_subjects_in_order.

Example C01_index_example :
  let doc := s2l "Table t {
 a int
 b int
 indexes {
  (a, `lower(b)`) [unique, name: 'ix']
  b [pk]
 }
}" in
  match parser_parse doc false 0 1 [] with
  | (h1, Ok d) => match h_database h1 d with
                  | Some db => map (fun t => option_map (fun tb => map (fun i => option_map (fun ix => (i_name ix, i_unique ix, i_pk ix, i_table ix,
                                        option_map (map (fun s => match s with SubCol c => option_map c_name (h_column h1 c) | SubExpr x => option_map (fun e => Some (x_text e)) (h_expr h1 x) | SubStr _ => None end)) (i_subjects ix))) (h_index h1 i)) (t_indexes tb)) (h_table h1 t)) (d_tables db)
                               = [Some [Some (Some (s2l "ix"), true, false, Some (nth 0 (d_tables db) 0), Some [Some (Some (s2l "a")); Some (Some (s2l "lower(b)"))]);
                                        Some (None, false, true, Some (nth 0 (d_tables db) 0), Some [Some (Some (s2l "b"))])]]
                  | None => False
                  end
  | _ => False
  end.
Proof. vm_compute. reflexivity. Qed.

(* ---- references followed from their blueprints to the returned database (proofs/RefsC.v) ---- *)
(* The references of the parsed database are — one per reference blueprint, in the order parse_blueprint registered them — objects
   with exactly the declared kind, name, comment and update / delete actions whose two sides are the column lists the blueprint's
   table and column names resolve to in the returned database (locate_table: by alias, then by schema.name; the columns by name
   in the located table).  Res / stable are the resolution relation and its stability of C06's proofs (BuildRefs.v). *)
From PyDBML Require Import BuildRefs RefsC.
Theorem C01_references_hold_the_declared_kind_actions_and_resolved_endpoints :
  forall source allow sq dq h0 h1 d,
    WW h0 -> (forall t tb, h_table h0 t = Some tb -> NoDup (names_of tb)) ->
    (forall st, blueprints_of source allow h0 = (h0, Ok st) -> Forall good_table_bp (ps_tables st)) ->
    parser_parse source allow sq dq h0 = (h1, Ok d) ->
    exists st db, blueprints_of source allow h0 = (h0, Ok st) /\ h_database h1 d = Some db /\
      Forall2 (fun bp r => exists dd c1 c2 rr, bp = PVBlue 4 dd /\ Res d dd h1 c1 c2 /\ h_reference h1 r = Some rr /\
                 r_type rr = fstr_of dd "type" /\ r_col1 rr = Some c1 /\ r_col2 rr = Some c2 /\ r_name rr = or_none (fstr_of dd "name") /\
                 r_comment rr = fstr_of dd "comment" /\ r_on_update rr = fstr_of dd "on_update" /\ r_on_delete rr = fstr_of dd "on_delete")
              (ps_refs st) (d_refs db).
Proof.
  intros source allow sq dq h0 h1 d HW Hg Hbp H. destruct (parser_parse_references _ _ _ _ _ _ _ HW Hg Hbp H) as (st & db & A & B & F).
  exists st, db. split; [exact A|]. split; [exact B|]. eapply Forall2_impl_s; [|exact F].
  intros bp r (dd & c1 & c2 & rr & E1 & E2 & E3 & E4). exists dd, c1, c2, rr. unfold refdata_of, data_of in E4. inversion E4. repeat split; assumption.
Qed.
Print Assumptions C01_references_hold_the_declared_kind_actions_and_resolved_endpoints.

Example C01_reference_example :
  match parser_parse c01_doc false 0 1 [] with
  | (h1, Ok d) => match h_database h1 d with
                  | Some db => map (fun r => option_map (fun rr => (r_type rr, r_inline rr,
                                    option_map (map (fun c => option_map c_name (h_column h1 c))) (r_col1 rr),
                                    option_map (map (fun c => option_map c_name (h_column h1 c))) (r_col2 rr))) (h_reference h1 r)) (d_refs db)
                               = [Some (Some (s2l ">"), true, Some [Some (Some (s2l "id"))], Some [Some (Some (s2l "id"))]);
                                  Some (Some (s2l ">"), false, Some [Some (Some (s2l "j"))], Some [Some (Some (s2l "id"))])]
                  | None => False
                  end
  | _ => False
  end.
Proof. vm_compute. reflexivity. Qed.

(* ---- the settings of tables and the text of their notes (proofs/SettingsC.v) ---- *)
(* Each table of the parsed database has exactly the declared name, schema (public when none is written), alias, header colour,
   comment and arbitrary properties, is not abstract, and its note object holds the declared note text (normalised).  Table
   objects are written during the build only through their column list, index list and owner field, note objects only through
   their parent field (relation Rs, typed stores through all of Build.v). *)
From PyDBML Require Import SettingsC.
Theorem C01_tables_hold_the_declared_settings_and_note :
  forall source allow sq dq h0 h1 d,
    WW h0 -> (forall t tb, h_table h0 t = Some tb -> NoDup (names_of tb)) ->
    (forall st, blueprints_of source allow h0 = (h0, Ok st) -> Forall good_table_bp (ps_tables st)) ->
    parser_parse source allow sq dq h0 = (h1, Ok d) ->
    exists st db, blueprints_of source allow h0 = (h0, Ok st) /\ h_database h1 d = Some db /\
      Forall2 (fun bp t => exists dd tb nn a tx, bp = PVBlue 7 dd /\ nth_error h1 t = Some (OTable tb) /\
                 t_name tb = fstr_of dd "name" /\ t_schema tb = Some (match fstr_of dd "schema" with Some s => s | None => K "public" end) /\
                 t_alias tb = or_none (fstr_of dd "alias") /\ t_header_color tb = fstr_of dd "header_color" /\ t_comment tb = fstr_of dd "comment" /\
                 t_abstract tb = false /\ t_properties tb = fdict_of dd "properties" /\
                 nth_error h1 (t_note tb) = Some (ONote nn) /\ n_text nn = tx /\ note_text_of dd "note" = Ok a /\ note_arg_text a = Some tx)
              (ps_tables st) (d_tables db).
Proof. exact parser_parse_table_settings. Qed.
Print Assumptions C01_tables_hold_the_declared_settings_and_note.

(* ---- table groups, the project, and the inline flag of references (proofs/ProjGroup.v) ---- *)
(* The table groups of the parsed database hold, one per group blueprint and in order, the declared name, comment and colour and
   the tables the item names were resolved to when the group was built; the references hold the declared inline flag; and when a
   project blueprint was collected the database has a project with the declared name, items and comment.  These objects are written
   during the build only through their owner field (relation Rv, typed stores through all of Build.v). *)
From PyDBML Require Import ProjGroup.
Theorem C01_groups_project_and_inline_flag_hold_what_was_declared :
  forall source allow sq dq h0 h1 d,
    WW h0 -> (forall t tb, h_table h0 t = Some tb -> NoDup (names_of tb)) ->
    (forall st, blueprints_of source allow h0 = (h0, Ok st) -> Forall good_table_bp (ps_tables st)) ->
    parser_parse source allow sq dq h0 = (h1, Ok d) ->
    exists st db, blueprints_of source allow h0 = (h0, Ok st) /\ h_database h1 d = Some db /\
      Forall2 (fun bp g => exists dd nm items n gg, bp = PVBlue 11 dd /\ fstr_of dd "name" = Some nm /\ h_group h1 g = Some gg /\
                 g_name gg = nm /\ g_items gg = items /\ g_comment gg = fstr_of dd "comment" /\ g_note gg = n /\ g_color gg = fstr_of dd "color" /\
                 (exists hk, group_items d (flist_of dd "items") [] hk = (hk, Ok items)))
              (ps_groups st) (d_table_groups db) /\
      Forall2 (fun bp r => exists dd rr, bp = PVBlue 4 dd /\ h_reference h1 r = Some rr /\ r_inline rr = fbool_of dd "inline") (ps_refs st) (d_refs db) /\
      (forall bp, ps_project st = Some bp -> exists p dd nm pp, d_project db = Some p /\ bp = PVBlue 10 dd /\ fstr_of dd "name" = Some nm /\
         h_project h1 p = Some pp /\ p_name pp = nm /\ p_items pp = fdict_of dd "items" /\ p_comment pp = fstr_of dd "comment").
Proof.
  intros source allow sq dq h0 h1 d HW Hg Hbp H. destruct (parser_parse_groups_project_inline _ _ _ _ _ _ _ HW Hg Hbp H) as (st & db & A & B & FG & FR & FP).
  exists st, db. split; [exact A|]. split; [exact B|]. split; [|split].
  - eapply Forall2_impl_s; [|exact FG]. intros bp g (dd & nm & items & n & ob & E1 & E2 & E3 & E4 & E5).
    destruct ob as [t0|c0|i0|rf0|en0|ei0|n0|s0|x0|p0|g0|d0]; try discriminate E4. cbn in E4. inversion E4. exists dd, nm, items, n, g0. unfold h_group. rewrite E3. repeat split; try assumption; try reflexivity.
  - eapply Forall2_impl_s; [|exact FR]. intros bp r (dd & ob & data & E1 & E2 & E3). destruct ob as [t0|c0|i0|rf0|en0|ei0|n0|s0|x0|p0|g0|d0]; try discriminate E3. cbn in E3. inversion E3.
    exists dd, rf0. unfold h_reference. rewrite E2. repeat split; try assumption; reflexivity.
  - intros bp Hp. destruct (FP bp Hp) as (p & Hdp & dd & nm & n & ob & E1 & E2 & E3 & E4). destruct ob as [t0|c0|i0|rf0|en0|ei0|n0|s0|x0|p0|g0|d0]; try discriminate E4. cbn in E4. inversion E4.
    exists p, dd, nm, p0. unfold h_project. rewrite E3. repeat split; try assumption; reflexivity.
Qed.
Print Assumptions C01_groups_project_and_inline_flag_hold_what_was_declared.
