(* C02 — DBML round trip and fixpoint.  PARTIAL (lexical core only): what the DBML renderer writes for a
   name and for a single-line text is read back as the same value by the scanners of the regenerated
   grammar, for every name / text in the stated classes.  The element-level theorems (R_dbml, C02_roundtrip,
   C02_fixpoint) are not proved: they rest on the tie (parse -> render -> parse -> render scripts compared
   with the model) and on the round-trip oracle inside the DBML-expressible domain; the refuted full
   statement has 18 witnesses in known_findings.json. *)
From PyDBML Require Import PyStr Py PP Tools RenderSQL LexFacts GenGrammar.
Import ListNotations.

Theorem C02_name_roundtrip_partial :
  forall n rest, ident_ok n -> quoted_scan [cDQ] [cDQ] None false true false (q2 n ++ rest) = Some (n, rest).
Proof. exact quoted_name_roundtrip. Qed.
Print Assumptions C02_name_roundtrip_partial.

Theorem C02_single_line_text_roundtrip_partial :
  forall t rest, no_nl t -> mem cBSL t = false -> no_triple t = true ->
    quoted_scan [cSQ] [cSQ] (Some cBSL) false true true (quote_string t ++ rest) = Some (t, rest).
Proof. exact single_line_text_roundtrip. Qed.
Print Assumptions C02_single_line_text_roundtrip_partial.

(* both hypotheses on the text are necessary (defects D10 and D33) *)
Theorem C02_text_roundtrip_full_refuted :
  ~ (forall t rest, no_nl t -> quoted_scan [cSQ] [cSQ] (Some cBSL) false true true (quote_string t ++ rest) = Some (t, rest)).
Proof.
  intro H. specialize (H [cBSL; cBSL] []).
  assert (Hn : no_nl [cBSL; cBSL]) by (intros c [<-|[<-|[]]]; split; discriminate).
  specialize (H Hn). vm_compute in H. discriminate H.
Qed.
Print Assumptions C02_text_roundtrip_full_refuted.

(* quote_string, whose output the round-trip theorem above reads back, is regenerated from its source text on every run *)
From PyDBML Require Import GenFns GenFnTie.
Theorem C02_quote_string_regenerated_from_source : forall t, gen_quote_string t = quote_string t.
Proof. exact gen_quote_string_is_model. Qed.
Print Assumptions C02_quote_string_regenerated_from_source.
