(* C02 — DBML round trip and fixpoint.  PARTIAL (lexical core only): what the DBML renderer writes for a
   name and for a single-line text is read back as the same value by the scanners of the regenerated
   grammar, for every name / text in the stated classes.  The element-level theorems (R_dbml, C02_roundtrip,
   C02_fixpoint) are not proved: they rest on the tie (parse -> render -> parse -> render scripts compared
   with the model) and on the round-trip oracle inside the DBML-expressible domain; the refuted full
   statement has 18 witnesses in known_findings.json. *)
From PyDBML Require Import PyStr Py PP Tools RenderSQL LexFacts GenGrammar.
Import ListNotations.

Theorem C02_name_roundtrip_partial :
  forall n rest, ident_ok n -> quoted_scan [cDQ] [cDQ] None false true false (q2 n ++ rest) = Some (n, rest).
Proof. exact quoted_name_roundtrip. Qed.
Print Assumptions C02_name_roundtrip_partial.

Theorem C02_single_line_text_roundtrip_partial :
  forall t rest, no_nl t -> mem cBSL t = false -> no_triple t = true ->
    quoted_scan [cSQ] [cSQ] (Some cBSL) false true true (quote_string t ++ rest) = Some (t, rest).
Proof. exact single_line_text_roundtrip. Qed.
Print Assumptions C02_single_line_text_roundtrip_partial.

(* both hypotheses on the text are necessary (defects D10 and D33) *)
Theorem C02_text_roundtrip_full_refuted :
  ~ (forall t rest, no_nl t -> quoted_scan [cSQ] [cSQ] (Some cBSL) false true true (quote_string t ++ rest) = Some (t, rest)).
Proof.
  intro H. specialize (H [cBSL; cBSL] []).
  assert (Hn : no_nl [cBSL; cBSL]) by (intros c [<-|[<-|[]]]; split; discriminate).
  specialize (H Hn). vm_compute in H. discriminate H.
Qed.
Print Assumptions C02_text_roundtrip_full_refuted.

(* quote_string, whose output the round-trip theorem above reads back, is regenerated from its source text on every run *)
From PyDBML Require Import GenFns GenFnTie.
Theorem C02_quote_string_regenerated_from_source : forall t, gen_quote_string t = quote_string t.
Proof. exact gen_quote_string_is_model. Qed.
Print Assumptions C02_quote_string_regenerated_from_source.

(* the Note { ... } block of tables, projects (and of Note.dbml) is the one render_note writes (regenerated from its source text) *)
From PyDBML Require Import RenderDBML.
Theorem C02_note_block_regenerated_from_source : forall t, gen_render_note t = dbml_note t.
Proof. exact gen_render_note_is_model. Qed.
Print Assumptions C02_note_block_regenerated_from_source.

(* ---- writer side of the round trip (proofs/DbmlText.v): what exactly the DBML renderer emits, for every heap ---- *)
From PyDBML Require Import Heap Classes DdlText DbmlText.
Theorem C02_column_line_text :
  forall rd h cid c s, dbml_column rd h cid c = Ok s ->
  exists inl dflt nt ty,
    (dflt = [] <-> defval_truthy (c_default c) = false) /\ note_text h (c_note c) = Ok nt /\
    (match c_type c with
     | CTEnum e => exists en, h_enum h e = Some en /\ ty = full_name_for_sql (e_schema en) (e_name en)
     | CTStr t => ty = t | CTNone => False end) /\
    exists props,
    s = with_comment_dbml (c_comment c)
          (q2 (fstr (c_name c)) ++ cSP :: ty
           ++ settings (inl ++ flag (c_pk c) (s2l "pk") ++ flag (c_autoinc c) (s2l "increment") ++ dflt
                        ++ flag (c_unique c) (s2l "unique") ++ flag (c_not_null c) (s2l "not null")
                        ++ (if is_nil nt then [] else [note_option_to_dbml nt]) ++ props)) /\
    (props = [] \/ props = props_items (c_properties c)).
Proof. exact dbml_column_text. Qed.
Print Assumptions C02_column_line_text.

Theorem C02_enum_block_lists_items_in_order :
  forall h e s, dbml_enum h e = Ok s ->
  exists items rows, e_items e = Some items /\
    Forall2 (fun i row => exists it, h_enumitem h i = Some it /\ dbml_enum_item h it = Ok row) items rows /\
    s = with_comment_dbml (e_comment e)
          (s2l "Enum " ++ full_name_for_sql (e_schema e) (e_name e) ++ s2l " {" ++ cLF
           :: textwrap_indent (join [cLF] rows) (s2l "    ") ++ cLF :: s2l "}").
Proof. exact dbml_enum_text. Qed.
Print Assumptions C02_enum_block_lists_items_in_order.

Theorem C02_table_block_lists_columns_and_indexes_in_order :
  forall rd h t s, dbml_table rd h t = Ok s ->
  exists rows props notes idx,
    Forall2 (fun c row => exists cc, h_column h c = Some cc /\ dbml_column rd h c cc = Ok row) (t_columns t) rows /\
    (t_indexes t = [] -> idx = []) /\
    (t_indexes t <> [] -> exists irows, Forall2 (fun i row => exists ix, h_index h i = Some ix /\ dbml_index h ix = Ok row) (t_indexes t) irows /\
        idx = cLF :: s2l "    indexes {" ++ cLF :: textwrap_indent (join [cLF] irows) (s2l "        ") ++ cLF :: s2l "    }" ++ [cLF]) /\
    s = with_comment_dbml (t_comment t)
          ((s2l "Table " ++ full_name_for_dbml (t_schema t) (t_name t) ++ [cSP]
            ++ (if truthy (t_alias t) then s2l "as " ++ q2 (fstr (t_alias t)) ++ [cSP] else [])
            ++ (if truthy (t_header_color t) then s2l "[headercolor: " ++ fstr (t_header_color t) ++ s2l "] " else []))
           ++ s2l "{" ++ cLF :: textwrap_indent (join [cLF] rows) (s2l "    ") ++ cLF :: props ++ notes ++ idx ++ s2l "}").
Proof. exact dbml_table_text. Qed.
Print Assumptions C02_table_block_lists_columns_and_indexes_in_order.
