(* RefText.v — C04: the full text of the DDL of a reference.  For every heap and every `>`, `-` or `<` reference whose
   names, comment and actions contain no brace (the complement of defect D5): the statement is, character for character,
     [comment lines] ALTER TABLE <key table> ADD [CONSTRAINT "name" ]FOREIGN KEY (<key columns>) REFERENCES <other table> (<other columns>)[ ON UPDATE X][ ON DELETE Y];
   (inline: the same clause without ALTER TABLE … ADD and without the semicolon), where for `>` and `-` the key side is the
   left-hand side (col1) and for `<` the right-hand side (col2), the columns of each side are listed in their order, and table
   and column names are the current ones (LiveLinks.v). *)
From PyDBML Require Import PyStr Py Heap Classes Tools RenderSQL CommentFacts LiveLinks.
From Coq Require Import Lia.
Import ListNotations.

Lemma nobrace_cons c p : nobrace (c :: p) -> (N.eqb c 123 = false /\ N.eqb c 125 = false) /\ nobrace p.
Proof.
  unfold nobrace. cbn [forallb]. intros H. apply andb_true_iff in H as [Hc Hp]. apply andb_true_iff in Hc as [C1 C2].
  apply negb_true_iff in C1, C2. auto.
Qed.

(* text without braces passes through str.format unchanged *)
Lemma format_c_plain cval : forall p fuel, nobrace p -> length p < fuel -> format_c fuel cval p = Ok p.
Proof.
  induction p as [|c p IH]; intros fuel Hp L; (destruct fuel as [|f]; [cbn in L; lia|]); [reflexivity|].
  apply nobrace_cons in Hp as [[C1 C2] Hp]. cbn [format_c]. rewrite C1, C2. rewrite (IH f Hp) by (cbn in L; lia). reflexivity.
Qed.

(* … and the one placeholder {c} is replaced by the CONSTRAINT text *)
Lemma format_c_template cval post : nobrace post -> forall pre fuel, nobrace pre -> length pre + length post + 1 < fuel ->
  format_c fuel cval (pre ++ s2l "{c}" ++ post) = Ok (pre ++ cval ++ post).
Proof.
  intros Hpost. induction pre as [|c p IH]; intros fuel Hp L.
  - destruct fuel as [|f]; [lia|]. cbn [app length] in *. change (s2l "{c}" ++ post) with (123%N :: 99%N :: 125%N :: post).
    cbn [format_c]. change (N.eqb 123 123) with true. cbv beta iota. change (N.eqb 99 123) with false. cbv beta iota.
    cbn [span]. change (negb (N.eqb 99 125) && negb (N.eqb 99 123)) with true. cbv beta iota. cbn [span].
    change (negb (N.eqb 125 125) && negb (N.eqb 125 123)) with false. cbv beta iota.
    change (N.eqb 125 123) with false. cbv beta iota. cbn. rewrite (format_c_plain cval post f Hpost) by lia. reflexivity.
  - destruct fuel as [|f]; [cbn in L; lia|]. apply nobrace_cons in Hp as [[C1 C2] Hp]. cbn [app format_c]. rewrite C1, C2.
    rewrite (IH f Hp) by (cbn in L; lia). reflexivity.
Qed.

Lemma py_format_c_template cval pre post : nobrace pre -> nobrace post ->
  py_format_c cval (pre ++ s2l "{c}" ++ post) = Ok (pre ++ cval ++ post).
Proof.
  intros A B. unfold py_format_c. apply format_c_template; [exact B|exact A|]. rewrite !app_length. cbn. lia.
Qed.

Lemma with_comment_app c a b : with_comment c (a ++ b) = with_comment c a ++ b.
Proof. unfold with_comment. destruct (truthy c); [rewrite app_assoc|]; reflexivity. Qed.
Lemma nobrace_with_comment c a : nobrace (fstr c) -> nobrace a -> nobrace (with_comment c a).
Proof. intros A B. unfold with_comment. destruct (truthy c); [apply nobrace_app; [apply nobrace_comment_sql; exact A|exact B]|exact B]. Qed.

Definition constraint_text (r : reference) : pystr := if truthy (r_name r) then s2l "CONSTRAINT " ++ q2 (fstr (r_name r)) ++ [cSP] else [].
(* the key side and the other side of a reference of kind > - < *)
Definition key_side (r : reference) (c1 c2 : list oid) : list oid * list oid :=
  if ostr_eqb (r_type r) (Some MANY_TO_ONE) || ostr_eqb (r_type r) (Some ONE_TO_ONE) then (c1, c2) else (c2, c1).

Lemma nobrace_upper s : nobrace s -> nobrace (upper s).
Proof.
  unfold nobrace, upper. induction s as [|c s IH]; [reflexivity|]. cbn [map forallb]. intros H. apply andb_true_iff in H as [Hc Hs].
  apply andb_true_iff. split; [|exact (IH Hs)].
  unfold upper_c. destruct ((97 <=? c) && (c <=? 122))%N eqn:E; [|exact Hc].
  apply andb_true_iff in E as [E1 E2]. apply N.leb_le in E1, E2.
  assert (c - 32 <> 123 /\ c - 32 <> 125)%N as [N1 N2] by lia.
  apply N.eqb_neq in N1, N2. rewrite N1, N2. reflexivity.
Qed.

Definition on_ok (r : reference) : Prop := nobrace (fstr (r_on_update r)) /\ nobrace (fstr (r_on_delete r)).
Lemma nobrace_on_clauses r : on_ok r -> nobrace (on_clauses r).
Proof.
  intros [A B]. unfold on_clauses. apply nobrace_app.
  - destruct (truthy (r_on_update r)); [|reflexivity]. apply nobrace_app; [reflexivity|apply nobrace_upper; exact A].
  - destruct (truthy (r_on_delete r)); [|reflexivity]. apply nobrace_app; [reflexivity|apply nobrace_upper; exact B].
Qed.

Lemma split_tpl {A} (a st m1 c m2 rest : list A) : a ++ st ++ (m1 ++ c ++ m2) ++ rest = (a ++ st ++ m1) ++ c ++ (m2 ++ rest).
Proof. rewrite <- !app_assoc. reflexivity. Qed.
Lemma join_tpl {A} (a st m1 c m2 rest : list A) : (a ++ st ++ m1) ++ c ++ (m2 ++ rest) = a ++ st ++ m1 ++ c ++ m2 ++ rest.
Proof. rewrite <- !app_assoc. reflexivity. Qed.

(* which side holds the key *)
Lemma direction r (func : list oid -> list oid -> res pystr) c1 c2 : direct_kind r = true ->
  (if ostr_eqb (r_type r) (Some MANY_TO_ONE) || ostr_eqb (r_type r) (Some ONE_TO_ONE) then func c1 c2
   else if ostr_eqb (r_type r) (Some ONE_TO_MANY) then func c2 c1 else Ok []) =
  func (fst (key_side r c1 c2)) (snd (key_side r c1 c2)).
Proof.
  unfold direct_kind, key_side. intros Hk. destruct (ostr_eqb (r_type r) (Some MANY_TO_ONE) || ostr_eqb (r_type r) (Some ONE_TO_ONE)); [reflexivity|].
  cbn [orb] in Hk. rewrite Hk. reflexivity.
Qed.

(* the ALTER TABLE statement of a non-inline reference *)
Theorem sql_reference_text_alter h r c1 c2 st sn rt rn :
  check_attributes (OReference r) = Ok tt -> validate_ref_cols h r = Ok (c1, c2) -> direct_kind r = true -> ref_inline r = false ->
  first_table_full_name h (fst (key_side r c1 c2)) = Ok st -> col_names h (fst (key_side r c1 c2)) = Ok sn ->
  first_table_full_name h (snd (key_side r c1 c2)) = Ok rt -> col_names h (snd (key_side r c1 c2)) = Ok rn ->
  nobrace (fstr (r_comment r)) -> nobrace st -> nobrace sn -> nobrace rt -> nobrace rn -> on_ok r ->
  sql_reference_simple h r =
    Ok (with_comment (r_comment r)
          (s2l "ALTER TABLE " ++ st ++ s2l " ADD " ++ constraint_text r ++ s2l "FOREIGN KEY (" ++ sn ++ s2l ") REFERENCES " ++ rt
           ++ s2l " (" ++ rn ++ [41%N] ++ on_clauses r ++ [59%N])).
Proof.
  intros Hc Hv Hk Hi H1 H2 H3 H4 Ncm Nst Nsn Nrt Nrn Non.
  unfold sql_reference_simple. rewrite Hc. cbn [bind]. rewrite Hv. cbn [bind]. rewrite Hi.
  rewrite (direction r (generate_not_inline_sql h r) c1 c2 Hk).
  unfold generate_not_inline_sql. rewrite H1. cbn [bind]. rewrite H2. cbn [bind]. rewrite H3. cbn [bind]. rewrite H4. cbn [bind].
  fold (constraint_text r).
  change (s2l " ADD {c}FOREIGN KEY (") with (s2l " ADD " ++ s2l "{c}" ++ s2l "FOREIGN KEY (").
  rewrite split_tpl. rewrite with_comment_app.
  rewrite py_format_c_template.
  - rewrite <- with_comment_app. rewrite join_tpl. reflexivity.
  - apply nobrace_with_comment; [exact Ncm|]. apply nobrace_app; [reflexivity|]. apply nobrace_app; [exact Nst|reflexivity].
  - apply nobrace_app; [reflexivity|]. apply nobrace_app; [exact Nsn|]. apply nobrace_app; [reflexivity|]. apply nobrace_app; [exact Nrt|].
    apply nobrace_app; [reflexivity|]. apply nobrace_app; [exact Nrn|]. apply nobrace_app; [reflexivity|]. apply nobrace_app; [apply nobrace_on_clauses; exact Non|reflexivity].
Qed.

(* the FOREIGN KEY clause of an inline reference (inside the CREATE TABLE of the key table) *)
Theorem sql_reference_text_inline h r c1 c2 sn rt rn :
  check_attributes (OReference r) = Ok tt -> validate_ref_cols h r = Ok (c1, c2) -> direct_kind r = true -> ref_inline r = true ->
  col_names h (fst (key_side r c1 c2)) = Ok sn ->
  first_table_full_name h (snd (key_side r c1 c2)) = Ok rt -> col_names h (snd (key_side r c1 c2)) = Ok rn ->
  nobrace (fstr (r_comment r)) -> nobrace sn -> nobrace rt -> nobrace rn -> on_ok r ->
  sql_reference_simple h r =
    Ok (with_comment (r_comment r)
          (constraint_text r ++ s2l "FOREIGN KEY (" ++ sn ++ s2l ") REFERENCES " ++ rt ++ s2l " (" ++ rn ++ [41%N] ++ on_clauses r)).
Proof.
  intros Hc Hv Hk Hi H2 H3 H4 Ncm Nsn Nrt Nrn Non.
  unfold sql_reference_simple. rewrite Hc. cbn [bind]. rewrite Hv. cbn [bind]. rewrite Hi.
  rewrite (direction r (generate_inline_sql h r) c1 c2 Hk).
  unfold generate_inline_sql. rewrite H2. cbn [bind]. rewrite H3. cbn [bind]. rewrite H4. cbn [bind].
  fold (constraint_text r).
  change (s2l "{c}FOREIGN KEY (") with (s2l "{c}" ++ s2l "FOREIGN KEY (").
  match goal with |- py_format_c _ (with_comment ?c ((?t ++ ?a) ++ ?b)) = _ =>
    replace (with_comment c ((t ++ a) ++ b)) with (with_comment c [] ++ t ++ (a ++ b)) by (rewrite <- with_comment_app; cbn [app]; rewrite <- app_assoc; reflexivity) end.
  rewrite py_format_c_template.
  - rewrite <- with_comment_app. cbn [app]. reflexivity.
  - apply nobrace_with_comment; [exact Ncm|reflexivity].
  - apply nobrace_app; [reflexivity|]. apply nobrace_app; [exact Nsn|]. apply nobrace_app; [reflexivity|]. apply nobrace_app; [exact Nrt|].
    apply nobrace_app; [reflexivity|]. apply nobrace_app; [exact Nrn|]. apply nobrace_app; [reflexivity|]. apply nobrace_on_clauses; exact Non.
Qed.

(* evaluated: a named composite `<` reference with actions — the key is on the right-hand side, columns in order *)
Definition rt_note : obj := ONote (mkNote [] None).
Definition rt_col (nm : string) (t : oid) : obj := OColumn (mkColumn (Some (s2l nm)) (CTStr (s2l "int")) false false false false None 0 [] DNone (Some t)).
Definition rt_tab (nm : string) (cols : list oid) : obj := OTable (mkTable None (Some (s2l nm)) (Some (s2l "public")) cols [] None 0 None None false []).
Definition rt_ref : reference := mkReference None (Some (s2l "<")) (Some [1; 2]) (Some [4; 5]) (Some (s2l "fk")) (Some (s2l "why")) (Some (s2l "cascade")) None false.
Definition rt_heap : heap := [rt_note; rt_col "a" 3; rt_col "b" 3; rt_tab "parent" [1; 2]; rt_col "x" 6; rt_col "y" 6; rt_tab "child" [4; 5]; OReference rt_ref].
Example reference_text_example :
  sql_reference_simple rt_heap rt_ref =
  Ok (s2l "-- why
ALTER TABLE ""child"" ADD CONSTRAINT ""fk"" FOREIGN KEY (""x"", ""y"") REFERENCES ""parent"" (""a"", ""b"") ON UPDATE CASCADE;").
Proof. vm_compute. reflexivity. Qed.
