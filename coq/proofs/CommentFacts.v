(* CommentFacts.v — C14: every element renderer emits the element's comment, as comment lines, ahead of the element. *)
From PyDBML Require Import PyStr Py Heap Classes Tools RenderSQL RenderDBML.
Import ListNotations.

(* every element renderer that emits an element with a comment emits the comment lines first *)
Definition leads (prefix : pystr -> pystr) (c : option pystr) (s : pystr) : Prop :=
  truthy c = true -> exists body, s = prefix (fstr c) ++ body.

Lemma leads_sql c body : leads comment_to_sql c (with_comment c body).
Proof. intros T. unfold with_comment. rewrite T. eexists. reflexivity. Qed.
Lemma leads_dbml c body : leads comment_to_dbml c (with_comment_dbml c body).
Proof. intros T. unfold with_comment_dbml. rewrite T. eexists. reflexivity. Qed.

Ltac peel H :=
  repeat match type of H with
         | bind ?m _ = Ok _ => let E := fresh "E" in destruct m eqn:E; cbn [bind] in H; [|discriminate H]
         | (match ?x with _ => _ end) = Ok _ => let E := fresh "E" in destruct x eqn:E; try discriminate H
         | (if ?x then _ else _) = Ok _ => let E := fresh "E" in destruct x eqn:E; try discriminate H
         | (let '(_, _) := ?x in _) = Ok _ => let E := fresh "E" in destruct x eqn:E
         end.
Ltac fin H := injection H as <-; first [apply leads_sql | apply leads_dbml].

Lemma sql_enum_item_leads i s : sql_enum_item i = Ok s -> leads comment_to_sql (ei_comment i) s.
Proof. intros H. unfold sql_enum_item in H. peel H. fin H. Qed.
Lemma sql_enum_leads h e s : sql_enum h e = Ok s -> leads comment_to_sql (e_comment e) s.
Proof. intros H. unfold sql_enum in H. peel H. fin H. Qed.
Lemma sql_column_leads h c s : sql_column h c = Ok s -> leads comment_to_sql (c_comment c) s.
Proof. intros H. unfold sql_column in H. peel H; fin H. Qed.
Lemma sql_index_leads h i s : sql_index h i = Ok s -> leads comment_to_sql (i_comment i) s.
Proof. intros H. unfold sql_index in H. peel H; fin H. Qed.

Lemma dbml_enum_item_leads h i s : dbml_enum_item h i = Ok s -> leads comment_to_dbml (ei_comment i) s.
Proof. intros H. unfold dbml_enum_item in H. peel H; fin H. Qed.
Lemma dbml_enum_leads h e s : dbml_enum h e = Ok s -> leads comment_to_dbml (e_comment e) s.
Proof. intros H. unfold dbml_enum in H. peel H; fin H. Qed.
Lemma dbml_reference_leads h r s : ref_inline r = false -> dbml_reference h r = Ok s -> leads comment_to_dbml (r_comment r) s.
Proof. intros Hi H. unfold dbml_reference in H. rewrite Hi in H. peel H; fin H. Qed.
Lemma dbml_column_leads rd h cid c s : dbml_column rd h cid c = Ok s -> leads comment_to_dbml (c_comment c) s.
Proof. intros H. unfold dbml_column in H. peel H; fin H. Qed.
Lemma dbml_index_leads h i s : dbml_index h i = Ok s -> leads comment_to_dbml (i_comment i) s.
Proof. intros H. unfold dbml_index in H. peel H; fin H. Qed.
Lemma dbml_table_leads rd h t s : dbml_table rd h t = Ok s -> leads comment_to_dbml (t_comment t) s.
Proof. intros H. unfold dbml_table in H. peel H; fin H. Qed.
Lemma dbml_project_leads h p s : dbml_project h p = Ok s -> leads comment_to_dbml (p_comment p) s.
Proof. intros H. unfold dbml_project in H. peel H; fin H. Qed.
Lemma dbml_group_leads h g s : dbml_group h g = Ok s -> leads comment_to_dbml (g_comment g) s.
Proof. intros H. unfold dbml_group in H. peel H; fin H. Qed.

(* ---- SQL of a table: the comment is the first component ---- *)
Lemma join_cons_app sep x y l : join sep (x :: y :: l) = x ++ sep ++ join sep (y :: l).
Proof. reflexivity. Qed.

Lemma sql_table_leads h tid t s : sql_table h tid t = Ok s -> leads comment_to_sql (t_comment t) s.
Proof.
  intros H T. unfold sql_table in H. peel H. injection H as <-. rewrite T.
  cbn [app]. rewrite join_cons_app. rewrite <- !app_assoc. eexists. reflexivity.
Qed.

(* ---- SQL of a reference: the text goes through str.format; a comment without braces passes unchanged ---- *)
Definition nobrace (s : pystr) : Prop := forallb (fun c => negb (N.eqb c 123) && negb (N.eqb c 125)) s = true.

Lemma format_c_prefix cval : forall p fuel rest t, nobrace p -> format_c fuel cval (p ++ rest) = Ok t -> exists t', t = p ++ t'.
Proof.
  induction p as [|c p IH]; intros fuel rest t Hp H; [exists t; reflexivity|].
  unfold nobrace in Hp. cbn [forallb] in Hp. apply andb_true_iff in Hp as [Hc Hp]. apply andb_true_iff in Hc as [C1 C2].
  apply negb_true_iff in C1, C2.
  destruct fuel as [|f]; [discriminate H|]. cbn [app format_c] in H. rewrite C1, C2 in H.
  destruct (format_c f cval (p ++ rest)) as [t0|e] eqn:E; cbn [bind] in H; [|discriminate H]. injection H as <-.
  destruct (IH f rest t0 Hp E) as (t' & ->). exists t'. reflexivity.
Qed.

Lemma nobrace_app a b : nobrace a -> nobrace b -> nobrace (a ++ b).
Proof. unfold nobrace. intros A B. rewrite forallb_app. apply andb_true_iff. split; assumption. Qed.

Lemma nobrace_split c : forall v, nobrace v -> Forall nobrace (split_on c v).
Proof.
  induction v as [|x v IH]; intros Hv; [repeat constructor|].
  unfold nobrace in Hv. cbn [forallb] in Hv. apply andb_true_iff in Hv as [Hx Hv]. specialize (IH Hv).
  cbn [split_on]. destruct (N.eqb x c).
  - constructor; [reflexivity|exact IH].
  - destruct (split_on c v) as [|l ls]; [repeat constructor; unfold nobrace; cbn; rewrite Hx; reflexivity|].
    inversion IH as [|? ? Hl Hls]; subst. constructor; [|exact Hls]. unfold nobrace. cbn [forallb]. rewrite Hx. exact Hl.
Qed.

Lemma nobrace_join sep l : nobrace sep -> Forall nobrace l -> nobrace (join sep l).
Proof.
  intros Hs. induction l as [|x l IH]; intros HF; [reflexivity|]. inversion HF as [|? ? Hx Hl]; subst.
  destruct l as [|y l]; [exact Hx|]. rewrite join_cons_app. apply nobrace_app; [exact Hx|]. apply nobrace_app; [exact Hs|]. apply IH. exact Hl.
Qed.

Lemma nobrace_comment_sql v : nobrace v -> nobrace (comment_to_sql v).
Proof.
  intros Hv. unfold comment_to_sql, comment. apply nobrace_app; [|reflexivity]. apply nobrace_join; [reflexivity|].
  apply Forall_forall. intros l Hin. apply in_map_iff in Hin as (cl & <- & Hcl).
  apply nobrace_app; [reflexivity|]. change (nobrace ([cSP] ++ cl)). apply nobrace_app; [reflexivity|].
  pose proof (nobrace_split cLF v Hv) as F. rewrite Forall_forall in F. exact (F _ Hcl).
Qed.

Lemma py_format_c_leads cval c body s : truthy c = true -> nobrace (fstr c) ->
  py_format_c cval (with_comment c body) = Ok s -> exists b', s = comment_to_sql (fstr c) ++ b'.
Proof.
  intros T Hn H. unfold with_comment in H. rewrite T in H. unfold py_format_c in H.
  exact (format_c_prefix cval _ _ _ _ (nobrace_comment_sql _ Hn) H).
Qed.

Definition direct_kind (r : reference) : bool :=
  ostr_eqb (r_type r) (Some MANY_TO_ONE) || ostr_eqb (r_type r) (Some ONE_TO_ONE) || ostr_eqb (r_type r) (Some ONE_TO_MANY).

Lemma sql_reference_simple_leads h r s : direct_kind r = true -> nobrace (fstr (r_comment r)) ->
  sql_reference_simple h r = Ok s -> leads comment_to_sql (r_comment r) s.
Proof.
  intros Hk Hn H T. unfold sql_reference_simple in H. unfold direct_kind in Hk.
  destruct (check_attributes (OReference r)); cbn [bind] in H; [|discriminate H].
  destruct (validate_ref_cols h r) as [[c1 c2]|]; cbn [bind] in H; [|discriminate H].
  assert (G : forall a b body, (if ref_inline r then generate_inline_sql h r else generate_not_inline_sql h r) a b = Ok body ->
              exists b0, body = with_comment (r_comment r) b0).
  { intros xa xb body Hb. destruct (ref_inline r); [unfold generate_inline_sql in Hb|unfold generate_not_inline_sql in Hb]; peel Hb; injection Hb as <-; eexists; reflexivity. }
  destruct (ostr_eqb (r_type r) (Some MANY_TO_ONE) || ostr_eqb (r_type r) (Some ONE_TO_ONE)) eqn:E1.
  - match type of H with bind ?m _ = _ => destruct m as [body|] eqn:Eb end; cbn [bind] in H; [|discriminate H].
    destruct (G _ _ _ Eb) as (b0 & ->). exact (py_format_c_leads _ _ _ _ T Hn H).
  - cbn [orb] in Hk. rewrite Hk in H.
    match type of H with bind ?m _ = _ => destruct m as [body|] eqn:Eb end; cbn [bind] in H; [|discriminate H].
    destruct (G _ _ _ Eb) as (b0 & ->). exact (py_format_c_leads _ _ _ _ T Hn H).
Qed.
