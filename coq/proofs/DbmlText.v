(* DbmlText.v — C02, writer side: the exact DBML text of a column line, an enum block and a table block, for every heap:
   the settings of a column appear in the fixed order  inline refs, pk, increment, default, unique, not null, note, properties,
   each exactly when set (the default only when it is truthy: defect D14 is visible here); an enum lists its items in order;
   a table lists its columns in order, then properties, note and the indexes block (present iff the table has indexes). *)
From PyDBML Require Import PyStr Py Heap Classes Tools RenderSQL RenderDBML DdlText.
Import ListNotations.

Definition settings (opts : list pystr) : pystr := match opts with [] => [] | _ => s2l " [" ++ join (s2l ", ") opts ++ s2l "]" end.

Theorem dbml_column_text rd h cid c s : dbml_column rd h cid c = Ok s ->
  exists inl dflt nt ty,
    (dflt = [] <-> defval_truthy (c_default c) = false) /\ note_text h (c_note c) = Ok nt /\
    (match c_type c with
     | CTEnum e => exists en, h_enum h e = Some en /\ ty = full_name_for_sql (e_schema en) (e_name en)
     | CTStr t => ty = t | CTNone => False end) /\
    exists props,
    s = with_comment_dbml (c_comment c)
          (q2 (fstr (c_name c)) ++ cSP :: ty
           ++ settings (inl ++ flag (c_pk c) (s2l "pk") ++ flag (c_autoinc c) (s2l "increment") ++ dflt
                        ++ flag (c_unique c) (s2l "unique") ++ flag (c_not_null c) (s2l "not null")
                        ++ (if is_nil nt then [] else [note_option_to_dbml nt]) ++ props)) /\
    (props = [] \/ props = props_items (c_properties c)).
Proof.
  unfold dbml_column.
  match goal with |- bind ?m _ = _ -> _ => destruct m as [refs|x]; [|discriminate] end. cbn [bind].
  match goal with |- bind ?m _ = _ -> _ => destruct m as [inl|x]; [|discriminate] end. cbn [bind].
  intros H.
  assert (D : exists dflt, (dflt = [] <-> defval_truthy (c_default c) = false) /\
              (if defval_truthy (c_default c) then do s0 <- default_to_str h (c_default c); Ok [s2l "default: " ++ s0] else Ok []) = Ok dflt).
  { destruct (defval_truthy (c_default c)).
    - destruct (default_to_str h (c_default c)) as [s0|x]; cbn [bind] in H |- *; [|discriminate H]. eexists. split; [|reflexivity]. split; intros X; discriminate X.
    - exists []. split; [tauto|reflexivity]. }
  destruct D as (dflt & HD & ED). rewrite ED in H. cbn [bind] in H.
  destruct (note_text h (c_note c)) as [nt|x] eqn:En; cbn [bind] in H; [|discriminate H].
  match type of H with bind ?m _ = _ => destruct m as [ty|x] eqn:Et; [|discriminate H] end. cbn [bind] in H. apply ok_inj in H.
  exists inl, dflt, nt, ty. split; [exact HD|]. split; [reflexivity|]. split.
  { destruct (c_type c) as [|t|e]; [discriminate Et|inversion Et; reflexivity|]. destruct (h_enum h e) as [en|]; [|discriminate Et]. inversion Et. exists en. auto. }
  eexists. split; [symmetry; exact H|].
  match goal with |- (if ?b then _ else _) = [] \/ _ => destruct b; [right; reflexivity|left; reflexivity] end.
Qed.

Theorem dbml_enum_text h e s : dbml_enum h e = Ok s ->
  exists items rows, e_items e = Some items /\
    Forall2 (fun i row => exists it, h_enumitem h i = Some it /\ dbml_enum_item h it = Ok row) items rows /\
    s = with_comment_dbml (e_comment e)
          (s2l "Enum " ++ full_name_for_sql (e_schema e) (e_name e) ++ s2l " {" ++ cLF
           :: textwrap_indent (join [cLF] rows) (s2l "    ") ++ cLF :: s2l "}").
Proof.
  unfold dbml_enum. destruct (e_items e) as [items|]; [|discriminate].
  match goal with |- bind (mapM ?f items) _ = _ -> _ => destruct (mapM f items) as [rows|x] eqn:E end; cbn [bind]; [|discriminate].
  intros H. apply ok_inj in H. exists items, rows. split; [reflexivity|]. split; [|symmetry; exact H].
  apply mapM_Forall2 in E. eapply Forall2_impl_simple; [|exact E]. intros i row Hr. cbv beta in Hr.
  destruct (h_enumitem h i) as [it|]; [|discriminate Hr]. exists it. auto.
Qed.

Theorem dbml_table_text rd h t s : dbml_table rd h t = Ok s ->
  exists rows props notes idx,
    Forall2 (fun c row => exists cc, h_column h c = Some cc /\ dbml_column rd h c cc = Ok row) (t_columns t) rows /\
    (t_indexes t = [] -> idx = []) /\
    (t_indexes t <> [] -> exists irows, Forall2 (fun i row => exists ix, h_index h i = Some ix /\ dbml_index h ix = Ok row) (t_indexes t) irows /\
        idx = cLF :: s2l "    indexes {" ++ cLF :: textwrap_indent (join [cLF] irows) (s2l "        ") ++ cLF :: s2l "    }" ++ [cLF]) /\
    s = with_comment_dbml (t_comment t)
          ((s2l "Table " ++ full_name_for_dbml (t_schema t) (t_name t) ++ [cSP]
            ++ (if truthy (t_alias t) then s2l "as " ++ q2 (fstr (t_alias t)) ++ [cSP] else [])
            ++ (if truthy (t_header_color t) then s2l "[headercolor: " ++ fstr (t_header_color t) ++ s2l "] " else []))
           ++ s2l "{" ++ cLF :: textwrap_indent (join [cLF] rows) (s2l "    ") ++ cLF :: props ++ notes ++ idx ++ s2l "}").
Proof.
  unfold dbml_table. cbv zeta.
  match goal with |- bind (mapM ?f (t_columns t)) _ = _ -> _ => destruct (mapM f (t_columns t)) as [rows|x] eqn:Ec end; cbn [bind]; [|discriminate].
  destruct (note_text h (t_note t)) as [nt|x]; cbn [bind]; [|discriminate].
  match goal with |- bind ?m _ = _ -> _ => destruct m as [idx|x] eqn:Ei; [|discriminate] end. cbn [bind].
  intros H. apply ok_inj in H. eexists rows, _, _, idx. split.
  { apply mapM_Forall2 in Ec. eapply Forall2_impl_simple; [|exact Ec]. intros c row Hr. cbv beta in Hr.
    destruct (h_column h c) as [cc|]; [|discriminate Hr]. exists cc. auto. }
  split.
  { intros Hn. rewrite Hn in Ei. inversion Ei. reflexivity. }
  split.
  { intros Hn. destruct (t_indexes t) as [|i0 il] eqn:El; [contradiction|].
    match type of Ei with bind (mapM ?f ?l) _ = _ => destruct (mapM f l) as [irows|x] eqn:Em; [|discriminate Ei] end. cbn [bind] in Ei. apply ok_inj in Ei.
    exists irows. split; [|symmetry; exact Ei].
    apply mapM_Forall2 in Em. eapply Forall2_impl_simple; [|exact Em]. intros i row Hr. cbv beta in Hr.
    destruct (h_index h i) as [ix|]; [|discriminate Hr]. exists ix. auto. }
  symmetry. exact H.
Qed.
