(* ContainerFull.v — C09 for all six containers of a Database: the invariant InvDB (table invariant InvT; every listed
   reference / enum / table group / sticky note / project is an object of that class pointing back to the database; no
   object listed twice) is preserved by every Database.add / Database.delete call with any argument, hence holds
   after every finite history; each successful call appends / removes exactly one member and attaches / detaches it. *)
From PyDBML Require Import PyStr Py Heap Classes Database Script MonadFacts RuleFacts ContainerInv.
From Coq Require Import Lia.
Import ListNotations.

(* ====================== part 1 ====================== *)

(* ---- the six kinds of top-level objects and their owner back-pointer ---- *)
Inductive kind := KTable | KRef | KEnum | KGroup | KSticky | KProject.
Definition kind_eq_dec (a b : kind) : {a = b} + {a <> b}. Proof. decide equality. Defined.

Definition okind (ob : obj) : option kind :=
  match ob with
  | OTable _ => Some KTable | OReference _ => Some KRef | OEnum _ => Some KEnum | OGroup _ => Some KGroup
  | OSticky _ => Some KSticky | OProject _ => Some KProject | _ => None
  end.
Definition oowner (ob : obj) : option oid :=
  match ob with
  | OTable x => t_database x | OReference x => r_database x | OEnum x => e_database x | OGroup x => g_database x
  | OSticky x => sn_database x | OProject x => p_database x | _ => None
  end.
Definition set_owner (v : option oid) (ob : obj) : obj :=
  match ob with
  | OTable x => OTable (set_t_database v x)
  | OReference x => OReference (mkReference v (r_type x) (r_col1 x) (r_col2 x) (r_name x)
                                   (r_comment x) (r_on_update x) (r_on_delete x) (r_inline x))
  | OEnum x => OEnum (mkEnum v (e_name x) (e_schema x) (e_comment x) (e_items x))
  | OSticky x => OSticky (mkSticky (sn_name x) (sn_text x) v)
  | OProject x => OProject (mkProject v (p_name x) (p_items x) (p_note x) (p_comment x))
  | OGroup x => OGroup (mkGroup v (g_name x) (g_items x) (g_comment x) (g_note x) (g_color x))
  | other => other
  end.

Lemma okind_set_owner v ob : okind (set_owner v ob) = okind ob. Proof. destruct ob; reflexivity. Qed.
Lemma oowner_set_owner v ob k : okind ob = Some k -> oowner (set_owner v ob) = v.
Proof. destruct ob; try discriminate; reflexivity. Qed.

Lemma set_obj_database_ok h o ob v k : nth_error h o = Some ob -> okind ob = Some k ->
  set_obj_database o v h = (replace_nth o (set_owner v ob) h, Ok tt).
Proof.
  intros H K. unfold set_obj_database, bindM. rewrite (lookup_ok _ _ _ H). destruct ob; try discriminate K; reflexivity.
Qed.

(* the members of kind k of database value db (the project is a list of at most one element) *)
Definition klist (k : kind) (db : database) : list oid :=
  match k with
  | KTable => d_tables db | KRef => d_refs db | KEnum => d_enums db | KGroup => d_table_groups db
  | KSticky => d_sticky_notes db | KProject => match d_project db with Some p => [p] | None => [] end
  end.

Definition member (h : heap) (d : oid) (k : kind) (o : oid) : Prop :=
  exists ob, nth_error h o = Some ob /\ okind ob = Some k /\ oowner ob = Some d.

Record InvDB (h : heap) (d : oid) (db : database) : Prop := {
  id_tables : InvT h d db;
  id_members : forall k o, In o (klist k db) -> member h d k o;
  id_nodup : forall k, k <> KSticky -> NoDup (klist k db) }.

(* ---- frames ---- *)
Lemma nth_replace_same' {A} n (v : A) l x : nth_error l n = Some x -> nth_error (replace_nth n v l) n = Some v.
Proof. intros H. apply nth_replace_same. eapply nth_some_lt; eauto. Qed.

Lemma member_frame h h' d k o : nth_error h' o = nth_error h o -> member h d k o -> member h' d k o.
Proof. intros E (ob & A & B & C). exists ob. rewrite E. auto. Qed.

Definition is_tab (ob : obj) : bool := match ob with OTable _ => true | _ => false end.
Definition is_dbo (ob : obj) : bool := match ob with ODatabase _ => true | _ => false end.

Lemma h_table_replace_nontable h o ob ob' t : nth_error h o = Some ob -> is_tab ob = false -> is_tab ob' = false ->
  h_table (replace_nth o ob' h) t = h_table h t.
Proof.
  intros H A B. unfold h_table. destruct (Nat.eq_dec o t) as [->|N].
  - rewrite (nth_replace_same' _ _ _ _ H), H. destruct ob, ob'; try discriminate; reflexivity.
  - rewrite nth_replace_other by exact N. reflexivity.
Qed.
Lemma h_database_replace_nondb h o ob ob' t : nth_error h o = Some ob -> is_dbo ob = false -> is_dbo ob' = false ->
  h_database (replace_nth o ob' h) t = h_database h t.
Proof.
  intros H A B. unfold h_database. destruct (Nat.eq_dec o t) as [->|N].
  - rewrite (nth_replace_same' _ _ _ _ H), H. destruct ob, ob'; try discriminate; reflexivity.
  - rewrite nth_replace_other by exact N. reflexivity.
Qed.

Lemma InvT_ext h h' d db db' : InvT h d db -> (forall t, h_table h' t = h_table h t) -> h_database h' d = Some db' ->
  d_tables db' = d_tables db -> d_table_dict db' = d_table_dict db -> InvT h' d db'.
Proof.
  intros [A B C D E F] Ht Hd E1 E2. split; rewrite ?E1, ?E2; auto.
  - intros t tb. rewrite Ht. apply D.
  - intros t Hin. destruct (E t Hin) as (tb & X & Y & Z). exists tb. rewrite Ht. auto.
  - intros k t Hg. destruct (F k t Hg) as (X & tb & Y & Z). split; auto. exists tb. rewrite Ht; auto.
Qed.

Lemma h_database_nth h d db : h_database h d = Some db -> nth_error h d = Some (ODatabase db).
Proof. unfold h_database. destruct (nth_error h d) as [[]|]; try discriminate. intros H; inversion H; reflexivity. Qed.
Lemma h_table_nth h d db : h_table h d = Some db -> nth_error h d = Some (OTable db).
Proof. unfold h_table. destruct (nth_error h d) as [[]|]; try discriminate. intros H; inversion H; reflexivity. Qed.

Lemma member_not_db h d k o db : member h d k o -> h_database h d = Some db -> o <> d.
Proof. intros (ob & A & B & C) H ->. rewrite (h_database_nth _ _ _ H) in A. inversion A; subst. discriminate B. Qed.

(* ---- a non-table object o receives owner v, and the database value is replaced, in either order ---- *)
Definition upd2 (h : heap) (d o : oid) (db' : database) (ob' : obj) : heap :=
  replace_nth d (ODatabase db') (replace_nth o ob' h).

Lemma upd2_comm h d o db' ob' : o <> d -> replace_nth o ob' (replace_nth d (ODatabase db') h) = upd2 h d o db' ob'.
Proof. intros N. unfold upd2. apply replace_comm. exact N. Qed.

Lemma upd2_nth_other h d o db' ob' x : x <> d -> x <> o -> nth_error (upd2 h d o db' ob') x = nth_error h x.
Proof. intros A B. unfold upd2. rewrite !nth_replace_other by congruence. reflexivity. Qed.
Lemma upd2_nth_o h d o db' ob' ob : nth_error h o = Some ob -> o <> d -> nth_error (upd2 h d o db' ob') o = Some ob'.
Proof. intros A B. unfold upd2. rewrite nth_replace_other by congruence. eapply nth_replace_same'; eauto. Qed.
Lemma upd2_db h d o db db' ob ob' : h_database h d = Some db -> nth_error h o = Some ob -> o <> d ->
  h_database (upd2 h d o db' ob') d = Some db'.
Proof.
  intros A B C. unfold upd2. apply h_database_store_db. rewrite length_replace_nth. eapply h_database_lt; eauto.
Qed.
Lemma upd2_table h d o db db' ob ob' t : h_database h d = Some db -> nth_error h o = Some ob -> o <> d ->
  is_tab ob = false -> is_tab ob' = false -> h_table (upd2 h d o db' ob') t = h_table h t.
Proof.
  intros A B C D E. unfold upd2. rewrite h_table_store_db.
  - eapply h_table_replace_nontable; eauto.
  - unfold h_database. rewrite nth_replace_other by congruence. rewrite (h_database_nth _ _ _ A). discriminate.
Qed.

Lemma okind_nontab ob k : okind ob = Some k -> k <> KTable -> is_tab ob = false.
Proof. destruct ob; cbn; try discriminate; try reflexivity. intros H; inversion H; congruence. Qed.
Lemma okind_nodb ob k : okind ob = Some k -> is_dbo ob = false.
Proof. destruct ob; cbn; try discriminate; reflexivity. Qed.

(* ---- generic add: o (of kind k, not a table) is appended to list k and made to point to d ---- *)
Theorem add_generic_preserves h d db db' o ob k :
  InvDB h d db -> nth_error h o = Some ob -> okind ob = Some k -> k <> KTable ->
  d_tables db' = d_tables db -> d_table_dict db' = d_table_dict db ->
  klist k db' = klist k db ++ [o] -> (forall k', k' <> k -> klist k' db' = klist k' db) ->
  (k <> KSticky -> ~ In o (klist k db)) ->
  InvDB (upd2 h d o db' (set_owner (Some d) ob)) d db'.
Proof.
  intros [IT IM IN] Ho Hk Hnt E1 E2 El Eo Hfresh. pose proof IT as [Idb _ _ _ _ _].
  assert (Hod : o <> d). { intros ->. rewrite (h_database_nth _ _ _ Idb) in Ho. inversion Ho; subst. discriminate Hk. }
  split.
  - eapply InvT_ext; [exact IT| |eapply upd2_db; eauto|exact E1|exact E2].
    intros t. eapply upd2_table; eauto.
    + eapply okind_nontab; eauto.
    + eapply okind_nontab; [rewrite okind_set_owner; eauto|exact Hnt].
  - intros k' x Hin.
    destruct (Nat.eq_dec x o) as [->|Nx].
    + (* the added object itself: whatever list it is in, it has kind k and now points to d *)
      assert (k' = k).
      { destruct (kind_eq_dec k' k) as [|Nk]; [assumption|]. rewrite (Eo k' Nk) in Hin.
        destruct (IM k' o Hin) as (ob0 & A & B & _). rewrite Ho in A. inversion A; subst. congruence. }
      subst k'. exists (set_owner (Some d) ob). split; [eapply upd2_nth_o; eauto|].
      split; [rewrite okind_set_owner; exact Hk|eapply oowner_set_owner; eauto].
    + assert (Hm : member h d k' x).
      { destruct (kind_eq_dec k' k) as [->|Nk].
        - rewrite El in Hin. apply in_app_or in Hin as [Hin|[->|[]]]; [apply IM; exact Hin|congruence].
        - rewrite (Eo k' Nk) in Hin. apply IM; exact Hin. }
      eapply member_frame; [|exact Hm]. apply upd2_nth_other; [eapply member_not_db; eauto|exact Nx].
  - intros k' Hs. destruct (kind_eq_dec k' k) as [->|Nk].
    + rewrite El. apply NoDup_snoc; [apply IN; exact Hs|apply Hfresh; exact Hs].
    + rewrite (Eo k' Nk). apply IN; exact Hs.
Qed.

(* ---- generic delete: the n-th member p of list k is removed and detached ---- *)
Theorem del_generic_preserves h d db db' n p pob k :
  InvDB h d db -> k <> KTable -> k <> KSticky -> nth_error (klist k db) n = Some p -> nth_error h p = Some pob ->
  d_tables db' = d_tables db -> d_table_dict db' = d_table_dict db ->
  klist k db' = remove_nth n (klist k db) -> (forall k', k' <> k -> klist k' db' = klist k' db) ->
  let h' := upd2 h d p db' (set_owner None pob) in
  InvDB h' d db' /\ (exists ob, nth_error h' p = Some ob /\ okind ob = Some k /\ oowner ob = None) /\ ~ In p (klist k db').
Proof.
  intros [IT IM IN] Hnt Hns Hp Hpob E1 E2 El Eo h'. pose proof IT as [Idb _ _ _ _ _].
  assert (Hpin : In p (klist k db)) by (eapply nth_error_In; eauto).
  destruct (IM k p Hpin) as (ob0 & A & Hk & Hown). rewrite Hpob in A. inversion A; subst ob0. clear A.
  assert (Hpd : p <> d) by (eapply member_not_db; eauto; exists pob; auto).
  assert (Hnotin : ~ In p (klist k db')).
  { rewrite El. intros Hin. apply (In_remove_nth _ _ _ _ (IN k Hns) Hp) in Hin. tauto. }
  split; [|split].
  - split.
    + eapply InvT_ext; [exact IT| |eapply upd2_db; eauto|exact E1|exact E2].
      intros t. eapply upd2_table; eauto.
      * eapply okind_nontab; eauto.
      * eapply okind_nontab; [rewrite okind_set_owner; eauto|exact Hnt].
    + intros k' x Hin.
      assert (Hx : In x (klist k' db) /\ x <> p).
      { destruct (kind_eq_dec k' k) as [->|Nk].
        - split; [|intros ->; exact (Hnotin Hin)]. rewrite El in Hin. apply (In_remove_nth _ _ _ _ (IN k Hns) Hp) in Hin. tauto.
        - rewrite (Eo k' Nk) in Hin. split; [exact Hin|]. intros ->.
          destruct (IM k' p Hin) as (ob0 & A & B & _). rewrite Hpob in A. inversion A; subst. congruence. }
      destruct Hx as [Hin0 Nx]. eapply member_frame; [|apply IM; exact Hin0].
      apply upd2_nth_other; [eapply member_not_db; eauto|exact Nx].
    + intros k' Hs. destruct (kind_eq_dec k' k) as [->|Nk].
      * rewrite El. apply NoDup_remove_nth. apply IN; exact Hs.
      * rewrite (Eo k' Nk). apply IN; exact Hs.
  - exists (set_owner None pob). split; [eapply upd2_nth_o; eauto|].
    split; [rewrite okind_set_owner; exact Hk|eapply oowner_set_owner; eauto].
  - exact Hnotin.
Qed.

(* ====================== part 2 ====================== *)

Definition rejected {A} (h : heap) (r : heap * res A) : Prop := exists e, r = (h, Raise e).

Lemma list_has_refl_notin (eq : oid -> oid -> bool) o l : (forall x, eq x x = true) -> list_has eq o l = false -> ~ In o l.
Proof.
  intros R H Hin. unfold list_has in H. assert (existsb (eq o) l = true) by (apply existsb_exists; exists o; auto). congruence.
Qed.
Lemma ref_eqb_refl h x : ref_eqb h x x = true. Proof. unfold ref_eqb. rewrite Nat.eqb_refl. reflexivity. Qed.
Lemma enum_eqb_refl h x : enum_eqb h x x = true. Proof. unfold enum_eqb. rewrite Nat.eqb_refl. reflexivity. Qed.

Lemma InvT_member h d db o : InvT h d db -> In o (d_tables db) -> member h d KTable o.
Proof.
  intros [_ _ _ _ F _] Hin. destruct (F o Hin) as (tb & A & B & _). exists (OTable tb).
  split; [apply h_table_nth; exact A|]. split; [reflexivity|exact B].
Qed.

(* a table operation: the new table invariant plus a frame for every non-table object *)
Lemma InvDB_table_step h h' d db db' :
  InvDB h d db -> InvT h' d db' -> (forall k, k <> KTable -> klist k db' = klist k db) ->
  (forall x ob, nth_error h x = Some ob -> is_tab ob = false -> is_dbo ob = false -> nth_error h' x = Some ob) ->
  InvDB h' d db'.
Proof.
  intros [IT IM IN] IT' Ek Hfr. split; [exact IT'| |].
  - intros k o Hin. destruct (kind_eq_dec k KTable) as [->|Nk]; [eapply InvT_member; eauto|].
    rewrite (Ek k Nk) in Hin. destruct (IM k o Hin) as (ob & A & B & C). exists ob. split; [|auto].
    apply Hfr; [exact A|eapply okind_nontab; eauto|eapply okind_nodb; eauto].
  - intros k Hs. destruct (kind_eq_dec k KTable) as [->|Nk]; [destruct IT'; assumption|]. rewrite (Ek k Nk). apply IN; exact Hs.
Qed.

Lemma upd2_frame h d o db db' ob0 ob' x ob :
  h_database h d = Some db -> nth_error h o = Some ob0 -> is_tab ob0 = true ->
  nth_error h x = Some ob -> is_tab ob = false -> is_dbo ob = false -> nth_error (upd2 h d o db' ob') x = Some ob.
Proof.
  intros Hd Ho Ht Hx A B. rewrite upd2_nth_other; [exact Hx| |].
  - intros ->. rewrite (h_database_nth _ _ _ Hd) in Hx. inversion Hx; subst. discriminate B.
  - intros ->. rewrite Ho in Hx. inversion Hx; subst. congruence.
Qed.

(* what else a successful add leaves alone *)
Definition others (k : kind) (db db' : database) : Prop :=
  (forall k', k' <> k -> klist k' db' = klist k' db) /\ (k <> KTable -> d_table_dict db' = d_table_dict db).
Definition dict_mono (db db' : database) : Prop :=
  forall key t0, dict_get key (d_table_dict db) = Some t0 -> dict_get key (d_table_dict db') = Some t0.

Lemma add_table_step_db h d db o t : InvDB h d db -> nth_error h o = Some (OTable t) ->
  rejected h (db_add_table d o h) \/
  exists db' h', db_add_table d o h = (h', Ok tt) /\ InvDB h' d db' /\ klist KTable db' = klist KTable db ++ [o] /\ member h' d KTable o /\
    others KTable db db' /\ dict_mono db db'.
Proof.
  intros I Ho. pose proof (id_tables _ _ _ I) as IT. pose proof IT as [Idb _ _ _ _ _].
  assert (Ht : h_table h o = Some t) by (unfold h_table; rewrite Ho; reflexivity).
  destruct (list_has (table_eqb h) o (d_tables db)) eqn:E1.
  { left. unfold db_add_table, bindM. rewrite (get_database_ok _ _ _ Idb), (get_table_ok _ _ _ Ht).
    cbv beta iota. unfold get_heap. cbv beta iota. rewrite E1. eexists; reflexivity. }
  destruct (dict_has (table_full_name t) (d_table_dict db)) eqn:E2.
  { left. eexists. eapply add_table_name_clash; eauto. }
  destruct (truthy (t_alias t) && dict_has (fstr (t_alias t)) (d_table_dict db)) eqn:E3.
  { left. apply andb_true_iff in E3 as [Ea Eb]. eexists. eapply add_table_name_clash; eauto. }
  right. eexists. eexists. split; [apply db_add_table_success; eassumption|].
  pose proof (add_table_preserves h d db o t IT Ht E1 E2 E3) as IT'. cbv zeta in IT'.
  assert (ID : InvDB (replace_nth d (ODatabase (db_with_tables (d_tables db ++ [o]) (add_table_dict t o (d_table_dict db)) db))
                        (replace_nth o (OTable (set_t_database (Some d) t)) h)) d
                     (db_with_tables (d_tables db ++ [o]) (add_table_dict t o (d_table_dict db)) db)).
  { eapply InvDB_table_step; [exact I|exact IT'| |].
    - intros k Nk. destruct k; try reflexivity. congruence.
    - intros x ob Hx A B. eapply (upd2_frame h d o db); eauto. }
  split; [exact ID|]. split; [reflexivity|].
  split; [apply (id_members _ _ _ ID KTable o); cbn; apply in_or_app; right; left; reflexivity|].
  split; [split; [intros k Nk; destruct k; try reflexivity; congruence|intros X; congruence]|].
  intros key t0 Hg. cbn [d_table_dict db_with_tables]. rewrite add_table_dict_get_old; [exact Hg|].
  unfold names_of. intros [X|X].
  - subst key. apply dict_has_false in E2. congruence.
  - destruct (truthy (t_alias t)) eqn:Ea; [|destruct X]. destruct X as [X|[]]. subst key.
    cbn in E3. apply dict_has_false in E3. congruence.
Qed.

Lemma delete_table_step_db h d db o t : InvDB h d db -> nth_error h o = Some (OTable t) ->
  rejected h (db_delete_table d o h) \/
  exists db' h' p n ob, db_delete_table d o h = (h', Ok p) /\ InvDB h' d db' /\
     nth_error (klist KTable db) n = Some p /\ klist KTable db' = remove_nth n (klist KTable db) /\
     nth_error h' p = Some ob /\ okind ob = Some KTable /\ oowner ob = None /\ ~ In p (klist KTable db') /\ others KTable db db'.
Proof.
  intros I Ho. pose proof (id_tables _ _ _ I) as IT. pose proof IT as [Idb _ _ _ _ _].
  assert (Ht : h_table h o = Some t) by (unfold h_table; rewrite Ho; reflexivity).
  destruct (delete_table_total_under_invariant h d db o t IT Ht) as [H|[n [p [ptb [Hp [Hptb [Heq Hrun]]]]]]].
  { left. eexists; exact H. }
  right. destruct (delete_table_preserves h d db n p ptb IT Hp Hptb) as [IT' [Hpt Hnot]].
  exists (del_db db n ptb). eexists. exists p, n, (OTable (set_t_database None ptb)). split; [exact Hrun|].
  split; [|split; [exact Hp|split; [reflexivity|split; [apply h_table_nth; exact Hpt|split; [reflexivity|split; [reflexivity|split; [exact Hnot|split; [intros k Nk; destruct k; try reflexivity; congruence|intros X; congruence]]]]]]]].
  eapply InvDB_table_step; [exact I|exact IT'| |].
  - intros k Nk. destruct k; try reflexivity. congruence.
  - intros x ob Hx A B. unfold del_heap. eapply (upd2_frame h d p db); eauto. apply h_table_nth; exact Hptb. reflexivity.
Qed.

(* ---- the other add operations ---- *)
Ltac kl_others := let k := fresh "k" in let N := fresh "N" in intros k N; destruct k; try reflexivity; congruence.

Lemma hdb_after_set h d db o ob ob' : h_database h d = Some db -> nth_error h o = Some ob -> is_dbo ob = false -> is_dbo ob' = false ->
  h_database (replace_nth o ob' h) d = Some db.
Proof. intros A B C D. rewrite (h_database_replace_nondb _ _ _ _ _ B C D). exact A. Qed.

Lemma add_enum_step h d db o e : InvDB h d db -> nth_error h o = Some (OEnum e) ->
  rejected h (db_add_enum d o h) \/
  exists db' h', db_add_enum d o h = (h', Ok tt) /\ InvDB h' d db' /\ klist KEnum db' = klist KEnum db ++ [o] /\ member h' d KEnum o /\ others KEnum db db'.
Proof.
  intros I Ho. pose proof (id_tables _ _ _ I) as [Idb _ _ _ _ _].
  assert (He : h_enum h o = Some e) by (unfold h_enum; rewrite Ho; reflexivity).
  unfold db_add_enum, bindM. rewrite (get_database_ok _ _ _ Idb), (get_enum_ok _ _ _ He). cbv beta iota. unfold get_heap. cbv beta iota.
  destruct (list_has (enum_eqb h) o (d_enums db)) eqn:E1; [left; eexists; reflexivity|].
  match goal with |- context [existsb ?f ?l] => destruct (existsb f l) eqn:E2 end; [left; eexists; reflexivity|].
  right. rewrite (set_obj_database_ok _ _ _ _ KEnum Ho eq_refl). cbv beta iota.
  rewrite (upd_db_ok _ _ db) by (eapply hdb_after_set; eauto).
  assert (ID : InvDB (upd2 h d o (db_with_enums (d_enums db ++ [o]) db) (set_owner (Some d) (OEnum e))) d (db_with_enums (d_enums db ++ [o]) db)).
  { eapply add_generic_preserves with (k := KEnum); eauto; try reflexivity; try congruence; try kl_others.
    intros _. eapply list_has_refl_notin; [apply enum_eqb_refl|exact E1]. }
  eexists. eexists. split; [reflexivity|]. split; [exact ID|]. split; [reflexivity|].
  split; [apply (id_members _ _ _ ID KEnum o); cbn; apply in_or_app; right; left; reflexivity|].
  split; [kl_others|reflexivity].
Qed.

Lemma add_group_step h d db o g : InvDB h d db -> nth_error h o = Some (OGroup g) ->
  rejected h (db_add_table_group d o h) \/
  exists db' h', db_add_table_group d o h = (h', Ok tt) /\ InvDB h' d db' /\ klist KGroup db' = klist KGroup db ++ [o] /\ member h' d KGroup o /\ others KGroup db db'.
Proof.
  intros I Ho. pose proof (id_tables _ _ _ I) as [Idb _ _ _ _ _].
  assert (He : h_group h o = Some g) by (unfold h_group; rewrite Ho; reflexivity).
  unfold db_add_table_group, bindM. rewrite (get_database_ok _ _ _ Idb), (get_group_ok _ _ _ He). cbv beta iota. unfold get_heap. cbv beta iota.
  destruct (list_has Nat.eqb o (d_table_groups db)) eqn:E1; [left; eexists; reflexivity|].
  match goal with |- context [existsb ?f ?l] => destruct (existsb f l) eqn:E2 end; [left; eexists; reflexivity|].
  right. rewrite (set_obj_database_ok _ _ _ _ KGroup Ho eq_refl). cbv beta iota.
  rewrite (upd_db_ok _ _ db) by (eapply hdb_after_set; eauto).
  assert (ID : InvDB (upd2 h d o (db_with_groups (d_table_groups db ++ [o]) db) (set_owner (Some d) (OGroup g))) d (db_with_groups (d_table_groups db ++ [o]) db)).
  { eapply add_generic_preserves with (k := KGroup); eauto; try reflexivity; try congruence; try kl_others.
    intros _. eapply list_has_refl_notin; [apply Nat.eqb_refl|exact E1]. }
  eexists. eexists. split; [reflexivity|]. split; [exact ID|]. split; [reflexivity|].
  split; [apply (id_members _ _ _ ID KGroup o); cbn; apply in_or_app; right; left; reflexivity|].
  split; [kl_others|reflexivity].
Qed.

Lemma add_sticky_step h d db o s : InvDB h d db -> nth_error h o = Some (OSticky s) ->
  exists db' h', db_add_sticky_note d o h = (h', Ok tt) /\ InvDB h' d db' /\ klist KSticky db' = klist KSticky db ++ [o] /\ member h' d KSticky o /\ others KSticky db db'.
Proof.
  intros I Ho. pose proof (id_tables _ _ _ I) as [Idb _ _ _ _ _].
  unfold db_add_sticky_note, get_sticky, bindM. rewrite (lookup_ok _ _ _ Ho). cbv beta iota. unfold ret. cbv beta iota.
  rewrite (set_obj_database_ok _ _ _ _ KSticky Ho eq_refl). cbv beta iota.
  rewrite (upd_db_ok _ _ db) by (eapply hdb_after_set; eauto).
  assert (ID : InvDB (upd2 h d o (db_with_sticky (d_sticky_notes db ++ [o]) db) (set_owner (Some d) (OSticky s))) d (db_with_sticky (d_sticky_notes db ++ [o]) db)).
  { eapply add_generic_preserves with (k := KSticky); eauto; try reflexivity; try congruence; try kl_others. }
  eexists. eexists. split; [reflexivity|]. split; [exact ID|]. split; [reflexivity|].
  split; [apply (id_members _ _ _ ID KSticky o); cbn; apply in_or_app; right; left; reflexivity|].
  split; [kl_others|reflexivity].
Qed.

Lemma add_reference_step h d db o r : InvDB h d db -> nth_error h o = Some (OReference r) ->
  rejected h (db_add_reference d o h) \/
  exists db' h', db_add_reference d o h = (h', Ok tt) /\ InvDB h' d db' /\ klist KRef db' = klist KRef db ++ [o] /\ member h' d KRef o /\ others KRef db db'.
Proof.
  intros I Ho. pose proof (id_tables _ _ _ I) as [Idb _ _ _ _ _].
  assert (He : h_reference h o = Some r) by (unfold h_reference; rewrite Ho; reflexivity).
  unfold db_add_reference, bindM. rewrite (get_database_ok _ _ _ Idb), (get_reference_ok _ _ _ He). cbv beta iota. unfold get_heap. cbv beta iota.
  destruct (r_col1 r) as [c1|]; [|left; eexists; reflexivity].
  destruct (r_col2 r) as [c2|]; [|left; eexists; reflexivity].
  match goal with |- context [existsb ?f ?l] => destruct (existsb f l) eqn:E2 end; [|left; eexists; reflexivity].
  destruct (list_has (ref_eqb h) o (d_refs db)) eqn:E1; [left; eexists; reflexivity|].
  right. rewrite (set_obj_database_ok _ _ _ _ KRef Ho eq_refl). cbv beta iota.
  rewrite (upd_db_ok _ _ db) by (eapply hdb_after_set; eauto).
  assert (ID : InvDB (upd2 h d o (db_with_refs (d_refs db ++ [o]) db) (set_owner (Some d) (OReference r))) d (db_with_refs (d_refs db ++ [o]) db)).
  { eapply add_generic_preserves with (k := KRef); eauto; try reflexivity; try congruence; try kl_others.
    intros _. eapply list_has_refl_notin; [apply ref_eqb_refl|exact E1]. }
  eexists. eexists. split; [reflexivity|]. split; [exact ID|]. split; [reflexivity|].
  split; [apply (id_members _ _ _ ID KRef o); cbn; apply in_or_app; right; left; reflexivity|].
  split; [kl_others|reflexivity].
Qed.

(* ====================== part 3 ====================== *)

(* ---- delete of a reference / enum / table group ---- *)
Lemma delete_generic_step get set eq k h d db o :
  InvDB h d db -> k <> KTable -> k <> KSticky ->
  (forall x, get x = klist k x) ->
  (forall l x, klist k (set l x) = l) ->
  (forall l x k', k' <> k -> klist k' (set l x) = klist k' x) ->
  (forall l x, d_tables (set l x) = d_tables x) -> (forall l x, d_table_dict (set l x) = d_table_dict x) ->
  rejected h (db_delete_generic get set eq d o h) \/
  exists db' h' p n ob, db_delete_generic get set eq d o h = (h', Ok p) /\ InvDB h' d db' /\
     nth_error (klist k db) n = Some p /\ klist k db' = remove_nth n (klist k db) /\
     nth_error h' p = Some ob /\ okind ob = Some k /\ oowner ob = None /\ ~ In p (klist k db') /\ others k db db'.
Proof.
  intros I Nt Ns Eg Es Eo Et Ed. pose proof (id_tables _ _ _ I) as [Idb _ _ _ _ _].
  unfold db_delete_generic, bindM. rewrite (get_database_ok _ _ _ Idb). cbv beta iota. unfold get_heap. cbv beta iota.
  destruct (list_index (eq h) o (get db)) as [n|] eqn:Ei; [|left; eexists; reflexivity].
  destruct (nth_error (get db) n) as [p|] eqn:Hp.
  2:{ exfalso. unfold list_index in Ei. destruct (index_of_spec _ _ _ Ei) as [x [Hx _]]. congruence. }
  right. rewrite Eg in Hp.
  assert (Hpin : In p (klist k db)) by (eapply nth_error_In; eauto).
  destruct (id_members _ _ _ I k p Hpin) as (pob & Hpob & Hk & Hown).
  assert (Hpd : p <> d) by (apply (member_not_db h d k p db); [exists pob; auto|exact Idb]).
  rewrite (upd_db_ok _ _ db) by exact Idb. cbv beta iota.
  rewrite (set_obj_database_ok _ _ pob _ k) by (try exact Hk; rewrite nth_replace_other by congruence; exact Hpob).
  cbv beta iota. unfold ret. rewrite upd2_comm by exact Hpd.
  destruct (del_generic_preserves h d db (set (remove_nth n (get db)) db) n p pob k I Nt Ns Hp Hpob) as [ID [Hob Hnot]];
    try (rewrite ?Et, ?Ed; reflexivity).
  { rewrite Es, Eg. reflexivity. }
  { intros k' Nk. apply Eo; exact Nk. }
  destruct Hob as (ob & A & B & C).
  exists (set (remove_nth n (get db)) db). eexists. exists p, n, ob. split; [reflexivity|]. split; [exact ID|].
  split; [exact Hp|]. split; [rewrite Es, Eg; reflexivity|]. split; [exact A|]. split; [exact B|]. split; [exact C|]. split; [exact Hnot|].
  split; [intros k' Nk; apply Eo; exact Nk|intros _; apply Ed].
Qed.

Definition deleted_ok (k : kind) (h : heap) (d : oid) (db : database) (r : heap * res oid) : Prop :=
  rejected h r \/
  exists db' h' p n ob, r = (h', Ok p) /\ InvDB h' d db' /\
     nth_error (klist k db) n = Some p /\ klist k db' = remove_nth n (klist k db) /\
     nth_error h' p = Some ob /\ okind ob = Some k /\ oowner ob = None /\ ~ In p (klist k db') /\ others k db db'.

Lemma delete_reference_step h d db o : InvDB h d db -> deleted_ok KRef h d db (db_delete_reference d o h).
Proof.
  intros I. unfold db_delete_reference, deleted_ok.
  apply delete_generic_step; try congruence; try reflexivity; auto.
  intros l x k' N; destruct k'; try reflexivity; congruence.
Qed.
Lemma delete_enum_step h d db o : InvDB h d db -> deleted_ok KEnum h d db (db_delete_enum d o h).
Proof.
  intros I. unfold db_delete_enum, deleted_ok.
  apply delete_generic_step; try congruence; try reflexivity; auto.
  intros l x k' N; destruct k'; try reflexivity; congruence.
Qed.
Lemma delete_group_step h d db o : InvDB h d db -> deleted_ok KGroup h d db (db_delete_table_group d o h).
Proof.
  intros I. unfold db_delete_table_group, deleted_ok.
  apply delete_generic_step; try congruence; try reflexivity; auto.
  intros l x k' N; destruct k'; try reflexivity; congruence.
Qed.

(* ---- project ---- *)
Lemma delete_project_step h d db : InvDB h d db -> deleted_ok KProject h d db (db_delete_project d h).
Proof.
  intros I. pose proof (id_tables _ _ _ I) as [Idb _ _ _ _ _]. unfold deleted_ok.
  unfold db_delete_project, bindM. rewrite (get_database_ok _ _ _ Idb). cbv beta iota.
  destruct (d_project db) as [p|] eqn:Ep; [|left; eexists; reflexivity].
  right.
  assert (Hpin : In p (klist KProject db)) by (cbn; rewrite Ep; left; reflexivity).
  destruct (id_members _ _ _ I KProject p Hpin) as (pob & Hpob & Hk & Hown).
  assert (Hpd : p <> d) by (apply (member_not_db h d KProject p db); [exists pob; auto|exact Idb]).
  rewrite (upd_db_ok _ _ db) by exact Idb. cbv beta iota.
  rewrite (set_obj_database_ok _ _ pob _ KProject) by (try exact Hk; rewrite nth_replace_other by congruence; exact Hpob).
  cbv beta iota. unfold ret. rewrite upd2_comm by exact Hpd.
  assert (Hp : nth_error (klist KProject db) 0 = Some p) by (cbn; rewrite Ep; reflexivity).
  destruct (del_generic_preserves h d db (db_with_project None db) 0 p pob KProject I) as [ID [Hob Hnot]];
    try congruence; try reflexivity; try exact Hp; try exact Hpob.
  { cbn. rewrite Ep. reflexivity. }
  { intros k' N; destruct k'; try reflexivity; congruence. }
  destruct Hob as (ob & A & B & C).
  exists (db_with_project None db). eexists. exists p, 0, ob. split; [reflexivity|]. split; [exact ID|].
  split; [exact Hp|]. split; [cbn; rewrite Ep; reflexivity|]. split; [exact A|]. split; [exact B|]. split; [exact C|]. split; [exact Hnot|].
  split; [intros k' N; destruct k'; try reflexivity; congruence|reflexivity].
Qed.

Lemma add_project_fresh h d db o ob : InvDB h d db -> nth_error h o = Some ob -> okind ob = Some KProject -> d_project db = None ->
  InvDB (upd2 h d o (db_with_project (Some o) db) (set_owner (Some d) ob)) d (db_with_project (Some o) db).
Proof.
  intros I Ho Hk Ep. eapply add_generic_preserves with (k := KProject); eauto; try reflexivity; try congruence.
  - cbn. rewrite Ep. reflexivity.
  - intros k' N; destruct k'; try reflexivity; congruence.
  - cbn. rewrite Ep. intros _ [].
Qed.

Lemma add_project_step h d db o p0 : InvDB h d db -> nth_error h o = Some (OProject p0) ->
  exists db' h', db_add_project d o h = (h', Ok tt) /\ InvDB h' d db' /\ klist KProject db' = [o] /\ member h' d KProject o /\
    (forall q, d_project db = Some q -> q <> o -> exists ob, nth_error h' q = Some ob /\ okind ob = Some KProject /\ oowner ob = None) /\
    others KProject db db'.
Proof.
  intros I Ho. pose proof (id_tables _ _ _ I) as [Idb _ _ _ _ _].
  assert (Hod : o <> d). { intros ->. rewrite (h_database_nth _ _ _ Idb) in Ho. discriminate Ho. }
  unfold db_add_project, get_project. unfold bindM at 1 2. rewrite (lookup_ok _ _ _ Ho). cbv beta iota. unfold ret at 1. cbv beta iota.
  unfold bindM at 1. rewrite (get_database_ok _ _ _ Idb). cbv beta iota.
  destruct (d_project db) as [q|] eqn:Ep.
  - (* replace: the old project is deleted first *)
    destruct (delete_project_step h d db I) as [[e He]|(db1 & h1 & p & n & pob' & Hrun & I1 & Hn & Hl & Hp1 & Hk1 & Ho1 & Hnot & Hoth1)].
    { exfalso. unfold db_delete_project, bindM in He. rewrite (get_database_ok _ _ _ Idb) in He. cbv beta iota in He. rewrite Ep in He.
      rewrite (upd_db_ok _ _ db) in He by exact Idb. cbv beta iota in He.
      assert (Hqin : In q (klist KProject db)) by (cbn; rewrite Ep; left; reflexivity).
      destruct (id_members _ _ _ I KProject q Hqin) as (qob & Hq & Hk & _).
      assert (Hqd : q <> d) by (apply (member_not_db h d KProject q db); [apply (id_members _ _ _ I); exact Hqin|exact Idb]).
      rewrite (set_obj_database_ok _ _ qob _ KProject) in He by (try exact Hk; rewrite nth_replace_other by congruence; exact Hq).
      cbv beta iota in He. discriminate He. }
    unfold bindM. rewrite Hrun. cbv beta iota. unfold ret. cbv beta iota.
    assert (Hpq : p = q /\ n = 0). { cbn in Hn. rewrite Ep in Hn. destruct n as [|[|n]]; cbn in Hn; split; congruence. }
    destruct Hpq as [-> ->].
    pose proof (id_tables _ _ _ I1) as [Idb1 _ _ _ _ _].
    assert (Ep1 : d_project db1 = None).
    { cbn in Hl. rewrite Ep in Hl. destruct (d_project db1); [|reflexivity]. cbn in Hl. discriminate Hl. }
    (* o in the intermediate heap is still a project *)
    assert (Ho1' : exists ob1, nth_error h1 o = Some ob1 /\ okind ob1 = Some KProject).
    { inversion Hrun. destruct (Nat.eq_dec o q) as [->|Noq].
      - exists pob'. split; [exact Hp1|exact Hk1].
      - exists (OProject p0). split; [|reflexivity].
        (* h1 is h with d and q replaced *)
        unfold db_delete_project, bindM in Hrun. rewrite (get_database_ok _ _ _ Idb) in Hrun. cbv beta iota in Hrun. rewrite Ep in Hrun.
        rewrite (upd_db_ok _ _ db) in Hrun by exact Idb. cbv beta iota in Hrun.
        assert (Hqin : In q (klist KProject db)) by (cbn; rewrite Ep; left; reflexivity).
        destruct (id_members _ _ _ I KProject q Hqin) as (qob & Hq & Hk & Hw).
        assert (Hqd : q <> d) by (apply (member_not_db h d KProject q db); [exists qob; auto|exact Idb]).
        rewrite (set_obj_database_ok _ _ qob _ KProject) in Hrun by (try exact Hk; rewrite nth_replace_other by congruence; exact Hq).
        cbv beta iota in Hrun. unfold ret in Hrun. inversion Hrun as [Hh1].
        rewrite !nth_replace_other by congruence. exact Ho. }
    destruct Ho1' as (ob1 & Hob1 & Hkob1).
    rewrite (set_obj_database_ok _ _ ob1 _ KProject Hob1 Hkob1). cbv beta iota.
    rewrite (upd_db_ok _ _ db1) by (eapply hdb_after_set; eauto; [eapply okind_nodb; eauto|eapply okind_nodb; rewrite okind_set_owner; eauto]).
    pose proof (add_project_fresh h1 d db1 o ob1 I1 Hob1 Hkob1 Ep1) as ID.
    eexists. eexists. split; [reflexivity|]. split; [exact ID|]. split; [reflexivity|].
    split; [apply (id_members _ _ _ ID KProject o); cbn; left; reflexivity|].
    split.
    2:{ destruct Hoth1 as [Ho1k Ho1d]. split.
        - intros k' Nk. rewrite <- (Ho1k k' Nk). destruct k'; try reflexivity; congruence.
        - intros _. cbn [d_table_dict db_with_project]. apply Ho1d. discriminate. }
    intros q' Eq' Nq. inversion Eq'; subst q'. exists pob'. split; [|auto].
    assert (Hqd : q <> d). { intros ->. rewrite (h_database_nth _ _ _ Idb1) in Hp1. inversion Hp1; subst. discriminate Hk1. }
    rewrite !nth_replace_other by congruence. exact Hp1.
  - unfold bindM, ret. cbv beta iota.
    rewrite (set_obj_database_ok _ _ _ _ KProject Ho eq_refl). cbv beta iota.
    rewrite (upd_db_ok _ _ db) by (eapply hdb_after_set; eauto).
    pose proof (add_project_fresh h d db o (OProject p0) I Ho eq_refl Ep) as ID.
    eexists. eexists. split; [reflexivity|]. split; [exact ID|]. split; [reflexivity|].
    split; [apply (id_members _ _ _ ID KProject o); cbn; left; reflexivity|]. split; [intros q Eq; discriminate Eq|].
    split; [intros k' N; destruct k'; try reflexivity; congruence|reflexivity].
Qed.

(* ====================== part 4 ====================== *)

Lemma db_add_dispatch h d o ob : nth_error h o = Some ob ->
  db_add d o h = match ob with
                 | OTable _ => db_add_table d o h | OReference _ => db_add_reference d o h | OEnum _ => db_add_enum d o h
                 | OGroup _ => db_add_table_group d o h | OProject _ => db_add_project d o h | OSticky _ => db_add_sticky_note d o h
                 | _ => (h, Raise EDatabaseValidation)
                 end.
Proof. intros H. unfold db_add, bindM. rewrite (lookup_ok _ _ _ H). destruct ob; reflexivity. Qed.
Lemma db_add_missing h d o : nth_error h o = None -> db_add d o h = (h, Raise (EStuck 1)).
Proof. intros H. unfold db_add, bindM, lookup. rewrite H. reflexivity. Qed.
Lemma db_delete_dispatch h d o ob : nth_error h o = Some ob ->
  db_delete d o h = match ob with
                 | OTable _ => db_delete_table d o h | OReference _ => db_delete_reference d o h | OEnum _ => db_delete_enum d o h
                 | OGroup _ => db_delete_table_group d o h | OProject _ => db_delete_project d h
                 | _ => (h, Raise EDatabaseValidation)
                 end.
Proof. intros H. unfold db_delete, bindM. rewrite (lookup_ok _ _ _ H). destruct ob; reflexivity. Qed.
Lemma db_delete_missing h d o : nth_error h o = None -> db_delete d o h = (h, Raise (EStuck 1)).
Proof. intros H. unfold db_delete, bindM, lookup. rewrite H. reflexivity. Qed.

Ltac fin Hrun I' Hm Hl Hoth :=
  split; [exact Hrun|split; [exact I'|split; [reflexivity|split; [reflexivity|split; [exact Hm|
    split; [try (intros _; exact Hl); try (intros X; exfalso; apply X; reflexivity)|
    split; [try (intros _; exact Hl); try (intros X; discriminate X)|
    split; [exact Hoth|try (let key := fresh in let t0 := fresh in let G := fresh in
                             intros key t0 G; destruct Hoth as [_ Hd0]; rewrite Hd0 by discriminate; exact G)]]]]]]]].
(* Database.add(obj): whatever obj is, the call is either rejected leaving the heap as it was, or obj (of kind k)
   is now the last member of its list (the project: the only one) and points to the database; the invariant holds again *)
Theorem db_add_step h d db o : InvDB h d db ->
  rejected h (db_add d o h) \/
  exists db' h' ob k, db_add d o h = (h', Ok tt) /\ InvDB h' d db' /\ nth_error h o = Some ob /\ okind ob = Some k /\
     member h' d k o /\ (k <> KProject -> klist k db' = klist k db ++ [o]) /\ (k = KProject -> klist k db' = [o]) /\
     others k db db' /\ dict_mono db db'.
Proof.
  intros I. destruct (nth_error h o) as [ob|] eqn:Ho; [|left; rewrite (db_add_missing _ _ _ Ho); eexists; reflexivity].
  rewrite (db_add_dispatch _ _ _ _ Ho). destruct ob; try (left; eexists; reflexivity).
  - destruct (add_table_step_db h d db o t I Ho) as [R|(db' & h' & Hrun & I' & Hl & Hm & Hoth & Hdm)]; [left; exact R|].
    right. exists db', h', (OTable t), KTable. fin Hrun I' Hm Hl Hoth. exact Hdm.
  - destruct (add_reference_step h d db o r I Ho) as [R|(db' & h' & Hrun & I' & Hl & Hm & Hoth)]; [left; exact R|].
    right. exists db', h', (OReference r), KRef. fin Hrun I' Hm Hl Hoth.
  - destruct (add_enum_step h d db o e I Ho) as [R|(db' & h' & Hrun & I' & Hl & Hm & Hoth)]; [left; exact R|].
    right. exists db', h', (OEnum e), KEnum. fin Hrun I' Hm Hl Hoth.
  - destruct (add_sticky_step h d db o s I Ho) as (db' & h' & Hrun & I' & Hl & Hm & Hoth).
    right. exists db', h', (OSticky s), KSticky. fin Hrun I' Hm Hl Hoth.
  - destruct (add_project_step h d db o p I Ho) as (db' & h' & Hrun & I' & Hl & Hm & _ & Hoth).
    right. exists db', h', (OProject p), KProject. fin Hrun I' Hm Hl Hoth.
  - destruct (add_group_step h d db o g I Ho) as [R|(db' & h' & Hrun & I' & Hl & Hm & Hoth)]; [left; exact R|].
    right. exists db', h', (OGroup g), KGroup. fin Hrun I' Hm Hl Hoth.
Qed.

(* Database.delete(obj): rejected leaving the heap as it was, or exactly one member is removed from one list, it
   points to nothing afterwards and is no longer listed; the invariant holds again *)
Theorem db_delete_step h d db o : InvDB h d db ->
  rejected h (db_delete d o h) \/ exists k, deleted_ok k h d db (db_delete d o h).
Proof.
  intros I. destruct (nth_error h o) as [ob|] eqn:Ho; [|left; rewrite (db_delete_missing _ _ _ Ho); eexists; reflexivity].
  rewrite (db_delete_dispatch _ _ _ _ Ho). destruct ob; try (left; eexists; reflexivity).
  - right. exists KTable. unfold deleted_ok. destruct (delete_table_step_db h d db o t I Ho) as [R|R]; [left; exact R|right; exact R].
  - right. exists KRef. apply delete_reference_step; exact I.
  - right. exists KEnum. apply delete_enum_step; exact I.
  - right. exists KProject. apply delete_project_step; exact I.
  - right. exists KGroup. apply delete_group_step; exact I.
Qed.

Inductive dop := DAdd (o : oid) | DDel (o : oid).
Definition dstep (d : oid) (h : heap) (op : dop) : heap :=
  match op with
  | DAdd o => fst (db_add d o h)
  | DDel o => fst (db_delete d o h)
  end.

(* C09, all six containers: after ANY sequence of Database.add / Database.delete calls with ANY arguments, the invariant holds *)
Theorem database_invariant_history d : forall ops h db, InvDB h d db -> exists db', InvDB (fold_left (dstep d) ops h) d db'.
Proof.
  induction ops as [|op ops IH]; intros h db I; [exists db; exact I|]. cbn [fold_left].
  destruct op as [o|o]; cbn [dstep].
  - destruct (db_add_step h d db o I) as [[e R]|(db' & h' & ob & k & Hrun & I' & _)]; rewrite ?R, ?Hrun; cbn [fst]; eauto.
  - destruct (db_delete_step h d db o I) as [[e R]|[k [[e R]|(db' & h' & p & n & ob & Hrun & I' & _)]]]; rewrite ?R, ?Hrun; cbn [fst]; eauto.
Qed.

Lemma fresh_database_full h sq dq al :
  (forall t tb, h_table h t = Some tb -> NoDup (names_of tb)) ->
  let db := mkDatabase [] [] [] [] [] [] None al sq dq in
  InvDB (h ++ [ODatabase db]) (length h) db.
Proof.
  intros Hg db. split.
  - apply fresh_database_invariant. exact Hg.
  - intros k o Hin. destruct k; destruct Hin.
  - intros k _. destruct k; constructor.
Qed.

(* what the invariant says about observation: lookup by any current name or alias of a listed table finds that table *)
Lemma invariant_lookup h d db t tb k : InvDB h d db -> In t (d_tables db) -> h_table h t = Some tb -> In k (names_of tb) ->
  dict_get k (d_table_dict db) = Some t.
Proof.
  intros [[_ _ _ _ F _] _ _] Hin Ht Hk. destruct (F t Hin) as (tb' & A & _ & C). rewrite Ht in A. inversion A; subst. apply C; exact Hk.
Qed.
Lemma invariant_lookup_sound h d db t k : InvDB h d db -> dict_get k (d_table_dict db) = Some t ->
  In t (d_tables db) /\ exists tb, h_table h t = Some tb /\ In k (names_of tb).
Proof. intros [[_ _ _ _ _ B] _ _] Hg. apply B; exact Hg. Qed.

(* ====================== part 5 ====================== *)

(* the same statement for the operation scripts the correspondence check runs against pydbml:
   any history of db.add(x) / db.delete(x) script operations on the database held in slot sd *)
Definition container_op (sd : nat) (o : op) : Prop := exists so, o = ODbAdd 0 sd so \/ o = ODbDelete 0 sd so.

Lemma run_ops_cons rs s o r : fst (run_ops rs s (o :: r)) = fst (run_ops rs (fst (step rs s o)) r).
Proof. cbn [run_ops]. destruct (step rs s o) as [s1 t]. cbn [fst]. destruct (run_ops rs s1 r). reflexivity. Qed.

Lemma step_slot rs s o sd d : slot s sd = Some d -> st_slots (fst (exec_op rs s o)) = st_slots s -> slot (fst (step rs s o)) sd = Some d.
Proof.
  intros H E. unfold step. destruct (exec_op rs s o) as [s' out]. cbn [fst] in *. unfold slot in *. cbn [st_slots].
  rewrite E. destruct (nth_error (st_slots s) sd) as [x|] eqn:N; [|discriminate].
  rewrite nth_error_app1 by (apply nth_error_Some; congruence). rewrite N. exact H.
Qed.
Lemma step_heap rs s o : st_heap (fst (step rs s o)) = st_heap (fst (exec_op rs s o)).
Proof. unfold step. destruct (exec_op rs s o). reflexivity. Qed.

Lemma run_M_fst {A} s (m : M A) k : fst (run_M s m k) = mkSt (fst (m (st_heap s))) (st_slots s).
Proof. unfold run_M. destruct (m (st_heap s)). reflexivity. Qed.

Theorem script_container_histories rs sd d : forall ops s db,
  slot s sd = Some d -> InvDB (st_heap s) d db -> Forall (container_op sd) ops ->
  exists db', InvDB (st_heap (fst (run_ops rs s ops))) d db'.
Proof.
  induction ops as [|o r IH]; intros s db Hs I Hall; [exists db; exact I|].
  inversion Hall as [|? ? [so [Ho|Ho]] Hrest]; subst; rewrite run_ops_cons.
  - assert (Hx : st_slots (fst (exec_op rs s (ODbAdd 0 sd so))) = st_slots s /\
                 exists db', InvDB (st_heap (fst (exec_op rs s (ODbAdd 0 sd so)))) d db').
    { cbn [exec_op]. rewrite Hs. destruct (slot s so) as [o'|]; [|split; [reflexivity|exists db; exact I]].
      rewrite run_M_fst. cbn [st_slots st_heap]. split; [reflexivity|].
      destruct (db_add_step (st_heap s) d db o' I) as [[e R]|(db' & h' & ob & k & Hrun & I' & _)]; rewrite ?R, ?Hrun; cbn [fst]; eauto. }
    destruct Hx as [Hsl [db' I']]. eapply IH; [apply step_slot; eassumption|rewrite step_heap; exact I'|exact Hrest].
  - assert (Hx : st_slots (fst (exec_op rs s (ODbDelete 0 sd so))) = st_slots s /\
                 exists db', InvDB (st_heap (fst (exec_op rs s (ODbDelete 0 sd so)))) d db').
    { cbn [exec_op]. rewrite Hs. destruct (slot s so) as [o'|]; [|split; [reflexivity|exists db; exact I]].
      rewrite run_M_fst. cbn [st_slots st_heap]. split; [reflexivity|].
      destruct (db_delete_step (st_heap s) d db o' I) as [[e R]|[k [[e R]|(db' & h' & p & n & ob & Hrun & I' & _)]]]; rewrite ?R, ?Hrun; cbn [fst]; eauto. }
    destruct Hx as [Hsl [db' I']]. eapply IH; [apply step_slot; eassumption|rewrite step_heap; exact I'|exact Hrest].
Qed.
