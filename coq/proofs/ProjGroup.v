(* ProjGroup.v — C01, the project, the table groups and the inline flag of references: these objects keep their declared content
   through everything the build does (they are written only through their owner field), so the parsed database holds a project
   with the declared name, items, note and comment, groups with the declared name, comment, colour, note and the located tables,
   and references with the declared inline flag. *)
From PyDBML Require Import PyStr Py Heap Classes Database Tools PP Actions Build Entry MonadFacts RuleFacts ContainerInv ContainerFull TableInv BuildInv BuildLinks BuildRules BuildDocs BuildRefs BuildRaises Frame Counts Sticky EnumC ColumnsC SettingsC.
From Coq Require Import Lia.
Import ListNotations.

Inductive pview :=
| VwP (name : pystr) (items : pdict) (note : oid) (comment : option pystr)
| VwG (name : pystr) (items : list oid) (comment : option pystr) (note : option oid) (color : option pystr)
| VwR (data : refdata) (inline : bool)
| VwNone.
Definition vw (ob : obj) : pview :=
  match ob with
  | OProject p => VwP (p_name p) (p_items p) (p_note p) (p_comment p)
  | OGroup g => VwG (g_name g) (g_items g) (g_comment g) (g_note g) (g_color g)
  | OReference r => VwR (refdata_of r) (r_inline r)
  | _ => VwNone
  end.
Definition Rv (h h' : heap) : Prop := forall x ob, nth_error h x = Some ob -> exists ob', nth_error h' x = Some ob' /\ vw ob' = vw ob.
Lemma Rv_refl h : Rv h h. Proof. intros x ob H. eauto. Qed.
Lemma Rv_trans a b c : Rv a b -> Rv b c -> Rv a c.
Proof. intros H1 H2 x ob H. destruct (H1 _ _ H) as (o1 & A & B). destruct (H2 _ _ A) as (o2 & C & D). exists o2. split; [exact C|congruence]. Qed.
Lemma Rv_alloc h ob : Rv h (h ++ [ob]).
Proof. intros x o H. exists o. split; [rewrite nth_error_app1 by (eapply nth_some_lt; exact H); exact H|reflexivity]. Qed.
Lemma Rv_store h i ob0 ob1 : nth_error h i = Some ob0 -> vw ob1 = vw ob0 -> Rv h (replace_nth i ob1 h).
Proof.
  intros Hi E x o H. destruct (Nat.eq_dec i x) as [->|Ne].
  - rewrite Hi in H. inversion H; subst. exists ob1. split; [apply nth_replace_same; eapply nth_some_lt; exact Hi|exact E].
  - exists o. split; [rewrite nth_replace_other by exact Ne; exact H|reflexivity].
Qed.
Lemma gv_alloc ob : guar Rv (alloc ob). Proof. intros h h' r H. unfold alloc in H. inversion H; subst. apply Rv_alloc. Qed.
Ltac vstore Hrun Heq :=
  unfold bindM, lookup in Hrun;
  match type of Hrun with context [nth_error ?h ?i] => destruct (nth_error h i) as [ob|] eqn:Heq end;
  [|inversion Hrun; subst; apply Rv_refl].
Ltac vdone o Hr Heq := destruct o; inversion Hr; subst; try apply Rv_refl; (eapply Rv_store; [exact Heq|reflexivity]).
Lemma gv_set_note_parent k p : guar Rv (set_note_parent k p).
Proof. intros h h' r H. unfold set_note_parent, get_note in H. vstore H E. vdone ob H E. Qed.
Lemma gv_upd_table t f : guar Rv (upd_table t f).
Proof. intros h h' r H. unfold upd_table, get_table in H. vstore H E. vdone ob H E. Qed.
Lemma gv_upd_column t f : guar Rv (upd_column t f).
Proof. intros h h' r H. unfold upd_column, get_column in H. vstore H E. vdone ob H E. Qed.
Lemma gv_upd_index t f : guar Rv (upd_index t f).
Proof. intros h h' r H. unfold upd_index, get_index in H. vstore H E. vdone ob H E. Qed.
Lemma gv_upd_db t f : guar Rv (upd_db t f).
Proof. intros h h' r H. unfold upd_db, get_database in H. vstore H E. vdone ob H E. Qed.
Lemma gv_set_obj_database o v : guar Rv (set_obj_database o v).
Proof. intros h h' r H. unfold set_obj_database in H. vstore H E. vdone ob H E. Qed.
Lemma gv_enum_store e f : guar Rv (do! x <- get_enum e ;; match e_items x with
                                    | Some its => store e (OEnum (mkEnum (e_database x) (e_name x) (e_schema x) (e_comment x) (Some (f its))))
                                    | None => raise EAttributeError end).
Proof.
  intros h h' r H. unfold get_enum in H. vstore H E. destruct ob; inversion H; subst; try apply Rv_refl.
  cbv beta iota in H. unfold ret in H. destruct (e_items e0); inversion H; subst; try apply Rv_refl. eapply Rv_store; [exact E|reflexivity].
Qed.
Lemma gv_new_note_from a : guar Rv (new_note_from a).
Proof. unfold new_note_from. destruct a; try apply gv_alloc. apply (g_bind _ Rv_trans); [apply (g_ro _ Rv_refl), ro_get_note|intros x; apply gv_alloc]. Qed.
Ltac gv :=
  repeat first [ apply gv_new_note_from | apply gv_alloc | apply gv_set_note_parent | apply gv_upd_table | apply gv_upd_column | apply gv_upd_index | apply gv_upd_db | apply gv_set_obj_database
               | apply (g_ro _ Rv_refl); solve [ro_any | apply ro_lift | apply ro_locate_table | apply ro_group_items | apply ro_table_getitem]
               | apply (g_bind _ Rv_trans); [|intros ?]
               | apply (g_iterM _ Rv_refl Rv_trans); intros ?
               | apply (g_mapMM _ Rv_refl Rv_trans); intros ?
               | match goal with |- guar _ (match ?x with _ => _ end) => destruct x end
               | match goal with |- guar _ (if ?x then _ else _) => destruct x end ].
Lemma gv_enum_add_item e a : guar Rv (enum_add_item e a).
Proof.
  unfold enum_add_item. destruct a as [o|s].
  - apply (g_bind _ Rv_trans); [apply (g_ro _ Rv_refl), ro_lookup|intros ob]. destruct ob; try (apply (g_ro _ Rv_refl), ro_ret). apply (gv_enum_store e (fun its => its ++ [o])).
  - apply (g_bind _ Rv_trans); [unfold new_enumitem; gv|intros i]. apply (gv_enum_store e (fun its => its ++ [i])).
Qed.
Lemma gv_db_add d o : guar Rv (db_add d o).
Proof.
  unfold db_add. apply (g_bind _ Rv_trans); [apply (g_ro _ Rv_refl), ro_lookup|intros ob].
  destruct ob; try (apply (g_ro _ Rv_refl), ro_raise).
  - unfold db_add_table. gv.
  - unfold db_add_reference. gv.
  - unfold db_add_enum. gv.
  - unfold db_add_sticky_note. gv.
  - unfold db_add_project, db_delete_project. gv.
  - unfold db_add_table_group. gv.
Qed.
Lemma gv_build_enum bp : guar Rv (build_enum bp).
Proof. unfold build_enum, build_enum_item, new_enum, new_enumitem. gv; apply gv_enum_add_item. Qed.
Lemma gv_build_table d bp : guar Rv (build_table d bp).
Proof. unfold build_table, new_table, build_column, build_index, new_column, new_index, new_expr, table_add_column, table_add_index. cbn [iterM]. gv. Qed.
Lemma gv_build_sticky bp : guar Rv (build_sticky bp). Proof. unfold build_sticky, new_sticky. gv. Qed.
Lemma gv_build_project bp : guar Rv (build_project bp). Proof. unfold build_project, new_project. gv. Qed.
Lemma gv_build_group d bp : guar Rv (build_group d bp). Proof. unfold build_group, new_group. gv. Qed.
Lemma gv_build_reference d bp : guar Rv (build_reference d bp). Proof. unfold build_reference, new_reference. gv. Qed.

Lemma gv_build_rest st d : guar Rv (build_rest st d).
Proof.
  unfold build_rest.
  apply (g_bind _ Rv_trans); [apply (g_iterM _ Rv_refl Rv_trans); intros bp; apply (g_bind _ Rv_trans); [apply gv_build_enum|intros x; apply gv_db_add]|intros _].
  apply (g_bind _ Rv_trans); [apply (g_iterM _ Rv_refl Rv_trans); intros bp; apply (g_bind _ Rv_trans); [apply gv_build_table|intros x; apply gv_db_add]|intros _].
  apply (g_bind _ Rv_trans); [apply (g_iterM _ Rv_refl Rv_trans); intros bp; apply (g_bind _ Rv_trans); [apply gv_build_group|intros x; apply gv_db_add]|intros _].
  apply (g_bind _ Rv_trans); [apply (g_iterM _ Rv_refl Rv_trans); intros bp; apply (g_bind _ Rv_trans); [apply gv_build_sticky|intros x; apply gv_db_add]|intros _].
  apply (g_bind _ Rv_trans); [destruct (ps_project st); [apply (g_bind _ Rv_trans); [apply gv_build_project|intros x; apply gv_db_add]|apply (g_ro _ Rv_refl), ro_ret]|intros _].
  apply (g_bind _ Rv_trans); [apply (g_iterM _ Rv_refl Rv_trans); intros bp; apply (g_bind _ Rv_trans); [apply gv_build_reference|intros x; apply gv_db_add]|intros _].
  apply (g_ro _ Rv_refl), ro_ret.
Qed.

(* a phase, with the content of each built object fixed at its creation and carried by a relation the whole build guarantees *)
Lemma phase_content d k (stepf : pyv -> M unit) (b : pyv -> M oid) (P : heap -> pyv -> oid -> Prop) (R : heap -> heap -> Prop) :
  (forall h, R h h) -> (forall a b0 c, R a b0 -> R b0 c -> R a c) ->
  (forall h h' bp o, R h h' -> P h bp o -> P h' bp o) ->
  (forall bp h hx o, b bp h = (hx, Ok o) -> P hx bp o) ->
  (forall o, guar R (db_add d o)) -> (forall bp, guar R (stepf bp)) ->
  (forall bp, stepf bp = (do! x <- b bp ;; db_add d x)) ->
  forall l,
  (forall bp h h', In bp l -> J d h -> stepf bp h = (h', Ok tt) ->
     J d h' /\ forall db, h_database h d = Some db ->
       exists db' o, h_database h' d = Some db' /\ klist k db' = klist k db ++ [o] /\ (forall k', k' <> k -> klist k' db' = klist k' db) /\
                     (exists hx, b bp h = (hx, Ok o))) ->
  forall h hm hfin db, J d h -> h_database h d = Some db -> iterM stepf l h = (hm, Ok tt) -> R hm hfin ->
    exists os dbm, h_database hm d = Some dbm /\ klist k dbm = klist k db ++ os /\ Forall2 (P hfin) l os.
Proof.
  intros Rr Rt PR Pb Gadd Gstep Estep. induction l as [|bp l IH]; intros Hs h hm hfin db HJ Hdb H HR.
  - cbn in H. inversion H; subst. exists [], db. rewrite app_nil_r. split; [exact Hdb|]. split; [reflexivity|constructor].
  - cbn [iterM] in H. apply bindM_inv in H as [[e [_ H]]|[[] [h1 [H1 H2]]]]; [discriminate H|].
    destruct (Hs bp h h1 (or_introl eq_refl) HJ H1) as [HJ1 G]. destruct (G db Hdb) as (db1 & o & Hdb1 & L1 & _ & (hx & Bx)).
    assert (Hadd : db_add d o hx = (h1, Ok tt)) by (rewrite Estep in H1; unfold bindM in H1; rewrite Bx in H1; exact H1).
    pose proof (PR _ _ _ _ (Gadd o _ _ _ Hadd) (Pb _ _ _ _ Bx)) as P1.
    assert (R1f : R h1 hfin) by (eapply Rt; [exact (g_iterM _ Rr Rt stepf l Gstep _ _ _ H2)|exact HR]).
    destruct (IH (fun bp0 a b0 Hin => Hs bp0 a b0 (or_intror Hin)) h1 hm hfin db1 HJ1 Hdb1 H2 HR) as (os & dbm & Hdbm & Lm & F).
    exists (o :: os), dbm. split; [exact Hdbm|]. split; [rewrite Lm, L1, <- app_assoc; reflexivity|]. constructor; [exact (PR _ _ _ _ R1f P1)|exact F].
Qed.

(* ---- what the blueprints declare ---- *)
Definition group_holds (d : oid) (h : heap) (bp : pyv) (g : oid) : Prop :=
  exists dd nm items n ob, bp = PVBlue 11 dd /\ fstr_of dd "name" = Some nm /\ nth_error h g = Some ob /\
    vw ob = VwG nm items (fstr_of dd "comment") n (fstr_of dd "color") /\
    (exists hk, group_items d (flist_of dd "items") [] hk = (hk, Ok items)).
Definition inline_holds (h : heap) (bp : pyv) (r : oid) : Prop :=
  exists dd ob data, bp = PVBlue 4 dd /\ nth_error h r = Some ob /\ vw ob = VwR data (fbool_of dd "inline").
Definition project_holds (h : heap) (bp : pyv) (p : oid) : Prop :=
  exists dd nm n ob, bp = PVBlue 10 dd /\ fstr_of dd "name" = Some nm /\ nth_error h p = Some ob /\
    vw ob = VwP nm (fdict_of dd "items") n (fstr_of dd "comment").

Lemma Rv_keep h h' o V : Rv h h' -> (exists ob, nth_error h o = Some ob /\ vw ob = V) -> exists ob', nth_error h' o = Some ob' /\ vw ob' = V.
Proof. intros R (ob & A & B). destruct (R _ _ A) as (ob' & A' & B'). exists ob'. split; [exact A'|congruence]. Qed.

Lemma group_holds_Rv d h h' bp g : Rv h h' -> group_holds d h bp g -> group_holds d h' bp g.
Proof.
  intros R (dd & nm & items & n & ob & A & B & C & D & E). destruct (R _ _ C) as (ob' & C' & D').
  exists dd, nm, items, n, ob'. split; [exact A|]. split; [exact B|]. split; [exact C'|]. split; [congruence|exact E].
Qed.
Lemma inline_holds_Rv h h' bp r : Rv h h' -> inline_holds h bp r -> inline_holds h' bp r.
Proof. intros R (dd & ob & data & A & B & C). destruct (R _ _ B) as (ob' & B' & C'). exists dd, ob', data. split; [exact A|]. split; [exact B'|congruence]. Qed.
Lemma project_holds_Rv h h' bp p : Rv h h' -> project_holds h bp p -> project_holds h' bp p.
Proof. intros R (dd & nm & n & ob & A & B & C & D). destruct (R _ _ C) as (ob' & C' & D'). exists dd, nm, n, ob'. split; [exact A|]. split; [exact B|]. split; [exact C'|congruence]. Qed.

Lemma build_group_post d bp h hx o : build_group d bp h = (hx, Ok o) -> group_holds d hx bp o.
Proof.
  intros H. destruct bp as [| | | | | | |tag dd]; try (cbn in H; discriminate H).
  assert (T : tag = 11%N \/ build_group d (PVBlue tag dd) h = (h, Raise (EStuck 414))).
  { destruct tag as [|p]; [right; reflexivity|]. destruct p as [q|q|]; [|right; destruct q; reflexivity|right; reflexivity].
    destruct q as [r0|r0|]; [|right; destruct r0; reflexivity|right; reflexivity]. destruct r0 as [s0|s0|]; [right; reflexivity| |right; reflexivity].
    destruct s0; [right; reflexivity|right; reflexivity|left; reflexivity]. }
  destruct T as [->|T]; [|rewrite T in H; discriminate H].
  unfold build_group in H. apply bindM_inv in H as [[e [_ H]]|[items [h1 [H1 H]]]]; [discriminate H|].
  pose proof (ro_group_items _ _ _ _ _ _ H1) as ->.
  apply bindM_inv in H as [[e [_ H]]|[nt [h2 [H2 H]]]]; [discriminate H|]. pose proof (ro_lift _ _ _ _ H2) as ->.
  apply bindM_inv in H as [[e [_ H]]|[n [h3 [H3 H]]]]; [discriminate H|].
  destruct (fstr_of dd "name") as [nm|] eqn:En; [|discriminate H]. unfold new_group, alloc in H. inversion H; subst.
  exists dd, nm, items, n, (OGroup (mkGroup None nm items (fstr_of dd "comment") n (fstr_of dd "color"))).
  split; [reflexivity|]. split; [exact En|]. split; [rewrite nth_error_app2 by lia; rewrite Nat.sub_diag; reflexivity|]. split; [reflexivity|]. exists h. exact H1.
Qed.
Lemma build_reference_post d bp h hx o : build_reference d bp h = (hx, Ok o) -> inline_holds hx bp o.
Proof.
  intros H. destruct bp as [| | | | | | |tag dd]; try (cbn in H; discriminate H).
  assert (T4 : tag = 4%N \/ build_reference d (PVBlue tag dd) h = (h, Raise (EStuck 419))).
  { destruct tag as [|p]; [right; reflexivity|]. destruct p as [q|q|]; [right; destruct q; reflexivity| |right; reflexivity].
    destruct q as [r0|r0|]; [right; reflexivity| |right; reflexivity]. destruct r0; [right; reflexivity|right; reflexivity|left; reflexivity]. }
  destruct T4 as [->|T4]; [|rewrite T4 in H; discriminate H].
  destruct (build_reference_shape d dd h hx o H) as (c1 & c2 & _ & -> & ->).
  eexists dd, _, _. split; [reflexivity|]. split; [rewrite nth_error_app2 by lia; rewrite Nat.sub_diag; reflexivity|]. reflexivity.
Qed.
Lemma build_project_post bp h hx o : build_project bp h = (hx, Ok o) -> project_holds hx bp o.
Proof.
  intros H. destruct bp as [| | | | | | |tag dd]; try (cbn in H; discriminate H).
  assert (T : tag = 10%N \/ build_project (PVBlue tag dd) h = (h, Raise (EStuck 418))).
  { destruct tag as [|p]; [right; reflexivity|]. destruct p as [q|q|]; [right; destruct q; reflexivity| |right; reflexivity].
    destruct q as [r0|r0|]; [|right; destruct r0; reflexivity|right; reflexivity]. destruct r0 as [s0|s0|]; [right; reflexivity| |right; reflexivity].
    destruct s0; [right; reflexivity|right; reflexivity|left; reflexivity]. }
  destruct T as [->|T]; [|rewrite T in H; discriminate H].
  unfold build_project in H. apply bindM_inv in H as [[e [_ H]]|[nt [h2 [H2 H]]]]; [discriminate H|]. pose proof (ro_lift _ _ _ _ H2) as ->.
  destruct (fstr_of dd "name") as [nm|] eqn:En; [|discriminate H].
  unfold new_project in H. apply bindM_inv in H as [[e [_ H]]|[n [h3 [H3 H]]]]; [discriminate H|].
  unfold bindM at 1 in H. unfold alloc in H. cbv beta iota in H.
  apply bindM_inv in H as [[e [_ H]]|[u [h4 [H4 H]]]]; [discriminate H|]. inversion H; subst.
  destruct (gv_set_note_parent _ _ _ _ _ H4 (length h3) (OProject (mkProject None nm (fdict_of dd "items") n (fstr_of dd "comment")))) as (ob' & A & B).
  { rewrite nth_error_app2 by lia. rewrite Nat.sub_diag. reflexivity. }
  exists dd, nm, n, ob'. split; [reflexivity|]. split; [exact En|]. split; [exact A|exact B].
Qed.

Lemma gv_step d (b : pyv -> M oid) bp : guar Rv (b bp) -> guar Rv (do! x <- b bp ;; db_add d x).
Proof. intros G. apply (g_bind _ Rv_trans); [exact G|intros x; apply gv_db_add]. Qed.

Theorem build_database_groups_project_inline s allow sq dq h0 h1 dd :
  WW h0 -> (forall t tb, h_table h0 t = Some tb -> NoDup (names_of tb)) -> Forall good_table_bp (ps_tables s) ->
  build_database s allow sq dq h0 = (h1, Ok dd) ->
  exists db, h_database h1 dd = Some db /\
    Forall2 (group_holds dd h1) (ps_groups s) (d_table_groups db) /\
    Forall2 (inline_holds h1) (ps_refs s) (d_refs db) /\
    (forall bp, ps_project s = Some bp -> exists p, d_project db = Some p /\ project_holds h1 bp p).
Proof.
  intros HW Hgood Hg H. set (d := length h0).
  destruct (build_database_runs _ _ _ _ _ _ _ H) as (ha & hb & hc & hd & he & -> & A1 & B1 & C1 & D1 & E1 & F1). fold d in A1, B1, C1, D1, E1, F1 |- *.
  set (db0 := mkDatabase [] [] [] [] [] [] None allow sq dq) in *.
  destruct (JTC_initial [] [] h0 allow sq dq HW Hgood) as [HJ0 _]. fold d in HJ0. fold db0 in HJ0.
  assert (Hdb0 : h_database (h0 ++ [ODatabase db0]) d = Some db0).
  { unfold h_database, d. rewrite nth_error_app2 by lia. rewrite Nat.sub_diag. reflexivity. }
  (* enums *)
  destruct (phase_grows d KEnum (estep d) build_enum (ps_enums s)) with (h := h0 ++ [ODatabase db0]) (h' := ha) (db := db0) as [HJa (dba & osa & Hdba & La & Lena & Oa & Fa)]; [|exact HJ0|exact Hdb0|exact A1|].
  { intros bp h h' _ HJ Hst. apply (add_built_grows d (build_enum bp) KEnum h h' HJ); [|apply gdb_of_Rext, gR_build_enum|apply post_build_enum|discriminate|exact Hst].
    intros h1' r Hb. eapply J_Rext; [eapply gR_build_enum; exact Hb|exact HJ]. }
  (* tables *)
  rewrite Forall_forall in Hg.
  destruct (phase_grows d KTable (step d) (build_table d) (ps_tables s)) with (h := ha) (h' := hb) (db := dba) as [HJb (dbb & osb & Hdbb & Lb & Lenb & Ob & Fb)]; [|exact HJa|exact Hdba|exact B1|].
  { intros bp h h' Hin HJ Hst. apply (add_built_grows d (build_table d bp) KTable h h' HJ); [|apply gdb_build_table, Hg, Hin| |discriminate|exact Hst].
    - intros h1' r Hb. exact (proj1 (build_table_keeps_J d bp h h1' r (Hg bp Hin) HJ Hb)).
    - intros hx hy t Hb. apply kind_of_tbl. eapply post_build_table_tbl; exact Hb. }
  (* groups *)
  destruct (phase_grows d KGroup (gstep d) (build_group d) (ps_groups s)) with (h := hb) (h' := hc) (db := dbb) as [HJc (dbc & osc & Hdbc & Lc & Lenc & Oc & Fc)]; [|exact HJb|exact Hdbb|exact C1|].
  { intros bp h h' _ HJ Hst. apply (add_built_grows d (build_group d bp) KGroup h h' HJ); [|apply gdb_of_Rext, gR_build_group|apply post_build_group|discriminate|exact Hst].
    intros h1' r Hb. eapply J_Rext; [eapply gR_build_group; exact Hb|exact HJ]. }
  (* sticky notes *)
  destruct (phase_grows d KSticky (sstep d) build_sticky (ps_stickies s)) with (h := hc) (h' := hd) (db := dbc) as [HJd (dbd & osd & Hdbd & Ld & Lend & Od & Fd)]; [|exact HJc|exact Hdbc|exact D1|].
  { intros bp h h' _ HJ Hst. apply (add_built_grows d (build_sticky bp) KSticky h h' HJ); [|apply gdb_of_Rext, gR_build_sticky|apply post_build_sticky|discriminate|exact Hst].
    intros h1' r Hb. eapply J_Rext; [eapply gR_build_sticky; exact Hb|exact HJ]. }
  (* project *)
  assert (P : J d he /\ exists dbe, h_database he d = Some dbe /\ (forall k', k' <> KProject -> klist k' dbe = klist k' dbd) /\
                                 (d_project dbe = None <-> ps_project s = None /\ d_project dbd = None)).
  { unfold pstep in E1. destruct (ps_project s) as [bp|].
    - apply bindM_inv in E1 as [[e [_ E1]]|[x [hp [X1 X2]]]]; [discriminate E1|].
      assert (HJ1 : J d hp) by (eapply J_Rext; [eapply gR_build_project; exact X1|exact HJd]).
      split; [exact (proj1 (pres_db_add d x _ _ _ HJ1 Logic.I X2))|].
      destruct (J_InvDB _ _ HJ1) as (db1 & ID1 & Hdb1). pose proof (gdb_of_Rext d _ (gR_build_project bp) _ _ _ X1 dbd Hdbd) as Hdb1'. rewrite Hdb1 in Hdb1'. inversion Hdb1'; subst db1.
      destruct (db_add_step hp d dbd x ID1) as [[e R]|(db' & h2 & ob & k0 & Hrun & ID' & Ho & Hk & _ & _ & Hl2 & [Hoth _] & _)].
      { rewrite R in X2. discriminate X2. }
      rewrite Hrun in X2. inversion X2; subst h2.
      destruct (post_build_project _ _ _ _ X1) as (ob' & Hn & Hk'). rewrite Ho in Hn. inversion Hn; subst ob'. rewrite Hk in Hk'. inversion Hk'; subst k0.
      exists db'. split; [destruct ID' as [[A _ _ _ _ _] _ _]; exact A|]. split; [exact Hoth|].
      pose proof (Hl2 eq_refl) as L2. cbn in L2. split; [intros Hn0; rewrite Hn0 in L2; discriminate L2|intros [Hn0 _]; discriminate Hn0].
    - inversion E1; subst. split; [exact HJd|]. exists dbd. split; [exact Hdbd|]. split; [reflexivity|]. tauto. }
  destruct P as [HJe (dbe & Hdbe & Oe & Pe)].
  (* references *)
  destruct (phase_grows d KRef (rstep d) (build_reference d) (ps_refs s)) with (h := he) (h' := h1) (db := dbe) as [HJf (dbf & osf & Hdbf & Lf & Lenf & Of & Ff)]; [|exact HJe|exact Hdbe|exact F1|].
  { intros bp h h' _ HJ Hst. apply (add_built_grows d (build_reference d bp) KRef h h' HJ); [|apply gdb_of_Rext, gR_build_reference|apply post_build_reference|discriminate|exact Hst].
    intros h1' r Hb. eapply J_Rext; [eapply gR_build_reference; exact Hb|exact HJ]. }
  (* relations from each intermediate heap to the final one *)
  assert (Ref : Rv he h1) by (exact (g_iterM _ Rv_refl Rv_trans (rstep d) _ (fun bp => gv_step d (build_reference d) bp (gv_build_reference d bp)) _ _ _ F1)).
  assert (Rde : Rv hd he).
  { unfold pstep in E1. destruct (ps_project s); [exact (gv_step d build_project _ (gv_build_project _) _ _ _ E1)|inversion E1; apply Rv_refl]. }
  assert (Rcd : Rv hc hd) by (exact (g_iterM _ Rv_refl Rv_trans (sstep d) _ (fun bp => gv_step d build_sticky bp (gv_build_sticky bp)) _ _ _ D1)).
  assert (Rcf : Rv hc h1) by (eapply Rv_trans; [exact Rcd|eapply Rv_trans; [exact Rde|exact Ref]]).
  (* groups *)
  destruct (phase_content d KGroup (gstep d) (build_group d) (group_holds d) Rv Rv_refl Rv_trans (fun h h' bp o => group_holds_Rv d h h' bp o) (build_group_post d)
              (gv_db_add d) (fun bp => gv_step d (build_group d) bp (gv_build_group d bp)) (fun bp => eq_refl) (ps_groups s)) with (h := hb) (hm := hc) (hfin := h1) (db := dbb)
    as (gs0 & dbc' & Hdbc' & Lg & FG); [|exact HJb|exact Hdbb|exact C1|exact Rcf|].
  { intros bp h h' _ HJ Hst. apply (add_built_grows d (build_group d bp) KGroup h h' HJ); [|apply gdb_of_Rext, gR_build_group|apply post_build_group|discriminate|exact Hst].
    intros h1' r Hb. eapply J_Rext; [eapply gR_build_group; exact Hb|exact HJ]. }
  rewrite Hdbc in Hdbc'. inversion Hdbc'; subst dbc'.
  (* references *)
  destruct (phase_content d KRef (rstep d) (build_reference d) (fun h bp o => inline_holds h bp o) Rv Rv_refl Rv_trans (fun h h' bp o => inline_holds_Rv h h' bp o) (build_reference_post d)
              (gv_db_add d) (fun bp => gv_step d (build_reference d) bp (gv_build_reference d bp)) (fun bp => eq_refl) (ps_refs s)) with (h := he) (hm := h1) (hfin := h1) (db := dbe)
    as (rs0 & dbf' & Hdbf' & Lr & FR); [|exact HJe|exact Hdbe|exact F1|apply Rv_refl|].
  { intros bp h h' _ HJ Hst. apply (add_built_grows d (build_reference d bp) KRef h h' HJ); [|apply gdb_of_Rext, gR_build_reference|apply post_build_reference|discriminate|exact Hst].
    intros h1' r Hb. eapply J_Rext; [eapply gR_build_reference; exact Hb|exact HJ]. }
  rewrite Hdbf in Hdbf'. inversion Hdbf'; subst dbf'.
  exists dbf. split; [exact Hdbf|]. split; [|split].
  - assert (Eg : d_table_groups dbf = gs0).
    { change (klist KGroup dbf = gs0). rewrite (Of KGroup ltac:(discriminate)), (Oe KGroup ltac:(discriminate)), (Od KGroup ltac:(discriminate)).
      change (klist KGroup dbc = gs0). rewrite Lg. rewrite (Ob KGroup ltac:(discriminate)), (Oa KGroup ltac:(discriminate)). reflexivity. }
    rewrite Eg. exact FG.
  - assert (Er : d_refs dbf = rs0).
    { change (klist KRef dbf = rs0). rewrite Lr. rewrite (Oe KRef ltac:(discriminate)), (Od KRef ltac:(discriminate)), (Oc KRef ltac:(discriminate)), (Ob KRef ltac:(discriminate)), (Oa KRef ltac:(discriminate)). reflexivity. }
    rewrite Er. exact FR.
  - intros bp Hbp. unfold pstep in E1. rewrite Hbp in E1.
    apply bindM_inv in E1 as [[e [_ E1]]|[x [hp [X1 X2]]]]; [discriminate E1|].
    assert (HJ1 : J d hp) by (eapply J_Rext; [eapply gR_build_project; exact X1|exact HJd]).
    destruct (J_InvDB _ _ HJ1) as (db1 & ID1 & Hdb1). pose proof (gdb_of_Rext d _ (gR_build_project bp) _ _ _ X1 dbd Hdbd) as Hdb1'. rewrite Hdb1 in Hdb1'. inversion Hdb1'; subst db1.
    destruct (db_add_step hp d dbd x ID1) as [[e R]|(db' & h2 & ob & k0 & Hrun & ID' & Ho & Hk & _ & _ & Hl2 & _)].
    { rewrite R in X2. discriminate X2. }
    rewrite Hrun in X2. inversion X2; subst h2.
    destruct (post_build_project _ _ _ _ X1) as (ob' & Hn & Hk'). rewrite Ho in Hn. inversion Hn; subst ob'. rewrite Hk in Hk'. inversion Hk'; subst k0.
    assert (Hdbe2 : h_database he d = Some db') by (destruct ID' as [[A _ _ _ _ _] _ _]; exact A). rewrite Hdbe in Hdbe2. inversion Hdbe2; subst db'.
    exists x. split.
    + pose proof (Of KProject ltac:(discriminate)) as Kp. rewrite (Hl2 eq_refl) in Kp. cbn in Kp. destruct (d_project dbf); inversion Kp. reflexivity.
    + apply (project_holds_Rv he h1 _ _ Ref). apply (project_holds_Rv hp he _ _ (gv_db_add _ _ _ _ _ Hrun)). exact (build_project_post _ _ _ _ X1).
Qed.

Theorem parser_parse_groups_project_inline source allow sq dq h0 h1 d :
  WW h0 -> (forall t tb, h_table h0 t = Some tb -> NoDup (names_of tb)) ->
  (forall st, blueprints_of source allow h0 = (h0, Ok st) -> Forall good_table_bp (ps_tables st)) ->
  parser_parse source allow sq dq h0 = (h1, Ok d) ->
  exists st db, blueprints_of source allow h0 = (h0, Ok st) /\ h_database h1 d = Some db /\
    Forall2 (group_holds d h1) (ps_groups st) (d_table_groups db) /\
    Forall2 (inline_holds h1) (ps_refs st) (d_refs db) /\
    (forall bp, ps_project st = Some bp -> exists p, d_project db = Some p /\ project_holds h1 bp p).
Proof.
  intros HW Hgood Hbp H. unfold parser_parse in H. apply bindM_inv in H as [[e [_ H]]|[st [hx [H1 H2]]]]; [discriminate H|].
  pose proof (ro_blueprints_of _ _ _ _ _ H1) as ->.
  destruct (build_database_groups_project_inline _ _ _ _ _ _ _ HW Hgood (Hbp st H1) H2) as (db & Hdb & C).
  exists st, db. split; [exact H1|]. split; [exact Hdb|exact C].
Qed.
