(* GrammarFacts.v — facts about the REGENERATED grammar (coq/gen/GenGrammar.v): closed vocabularies
   (C07 c), placement of the blueprint-collecting action (C11 a, C01 "exactly once"), shape of the
   top level (C07 a).  Every lemma is recomputed against what the source says now. *)
From PyDBML Require Import PyStr Py PP Analyses GenGrammar.
Import ListNotations.

Lemma depth_ok : depth 60 gen_top_on < 40 /\ depth 60 gen_top_off < 40.
Proof. split; vm_compute; repeat constructor. Qed.

(* reference operators *)
Lemma relation_operators : e_core g_reference__relation = PAltLits [s2l ">"; s2l "-"; s2l "<>"; s2l "<"].
Proof. reflexivity. Qed.

(* referential actions *)
Lemma referential_actions :
  vocabulary g_reference__on_option = [s2l "no action"; s2l "restrict"; s2l "cascade"; s2l "set null"; s2l "set default"].
Proof. reflexivity. Qed.

(* index types *)
Lemma index_types :
  vocabulary g_index__index_type = [s2l "type:"; s2l "
"; s2l "//"; s2l "/*"; s2l "*/"; s2l "brin"; s2l "btree"; s2l "gin"; s2l "gist"; s2l "hash"; s2l "spgist"].
Proof. reflexivity. Qed.

(* words a column setting can start with (besides the comment / newline skippers and what strings,
   names and references are made of) *)
Lemma column_setting_keywords :
  filter (fun w => match w with c :: _ => is_alpha c | [] => false end) (vocabulary g_column__column_setting)
  = [s2l "not null"; s2l "null"; s2l "primary key"; s2l "pk"; s2l "unique"; s2l "increment"; s2l "note:"; s2l "ref:";
     s2l "default:"; s2l "true"; s2l "false"; s2l "NULL"].
Proof. reflexivity. Qed.

Lemma index_setting_keywords :
  filter (fun w => match w with c :: _ => is_alpha c | [] => false end) (vocabulary g_index__index_setting)
  = [s2l "unique"; s2l "type:"; s2l "brin"; s2l "btree"; s2l "gin"; s2l "gist"; s2l "hash"; s2l "spgist"; s2l "name:"; s2l "note:"; s2l "pk"].
Proof. reflexivity. Qed.

Lemma ref_setting_keywords :
  filter (fun w => match w with c :: _ => is_alpha c | [] => false end) (vocabulary g_reference__ref_setting)
  = [s2l "update:"; s2l "no action"; s2l "restrict"; s2l "cascade"; s2l "set null"; s2l "set default"; s2l "delete:"].
Proof. reflexivity. Qed.

Lemma table_setting_keywords :
  filter (fun w => match w with c :: _ => is_alpha c | [] => false end) (vocabulary g_table__table_setting)
  = [s2l "note:"; s2l "headercolor:"].
Proof. reflexivity. Qed.

(* the action that registers a blueprint with the parser (id 30) is attached to the six top-level
   alternatives and nowhere else, in both option settings; no other element carries it *)
Definition top_alternatives (e : pexpr) : list pexpr :=
  match e_core e with
  | PAnd (IElem (PE (PZeroOrMore (PE (PMatchFirst alts) _)) _) :: _) => alts
  | _ => []
  end.

Lemma blueprint_action_placement :
  length (top_alternatives gen_top_off) = 6 /\ length (top_alternatives gen_top_on) = 6
  /\ forallb (fun a => match rev (a_actions (e_attrs a)) with 30%N :: _ => true | _ => false end) (top_alternatives gen_top_off) = true
  /\ forallb (fun a => match rev (a_actions (e_attrs a)) with 30%N :: _ => true | _ => false end) (top_alternatives gen_top_on) = true
  /\ count_action 60 30%N gen_top_off = 6 /\ count_action 60 30%N gen_top_on = 6.
Proof. repeat split; reflexivity. Qed.

(* both option settings share every top-level alternative except the table rule *)
Lemma option_changes_only_the_table_rule :
  match top_alternatives gen_top_off, top_alternatives gen_top_on with
  | _ :: r1, _ :: r2 => r1 = r2
  | _, _ => False
  end.
Proof. reflexivity. Qed.

(* ---- C15: the results name `property`, from which the build actions read the arbitrary properties (Actions.properties_of),
   is attached to no element of the grammar used with the option off, nor to a Forward body; with the option on it is attached
   at three places (table settings, table body, column settings) ---- *)
Fixpoint count_rname (fuel : nat) (name : pystr) (e : pexpr) : nat :=
  match fuel with
  | O => 0
  | S f => (match a_rname (e_attrs e) with Some n => if str_eqb n name then 1 else 0 | None => 0 end)
           + fold_right (fun c acc => count_rname f name c + acc) 0 (children_of (e_core e))
  end.
Definition forward_bodies : list pexpr :=
  flat_map (fun id => match gen_env id with Some e => [e] | None => [] end) [1%N; 2%N; 3%N; 4%N; 5%N; 6%N; 7%N; 8%N].
Lemma property_name_only_with_the_option :
  count_rname 60 (s2l "property") gen_top_off = 0 /\ count_rname 60 (s2l "property") gen_top_on = 3
  /\ forallb (fun e => Nat.eqb (count_rname 60 (s2l "property") e) 0) forward_bodies = true.
Proof. repeat split; reflexivity. Qed.
