(* BuildSpell.v — C06 at the level of documents: a repeated reference and a table listed twice in a group are refused however each copy addresses its table (alias, bare key, schema.name).  [BpIn]: every table blueprint that was built has its table in the database, carrying the blueprint's keys; an address naming a blueprint is located as that table. *)
From PyDBML Require Import PyStr Py Heap Classes Database Tools PP Actions Build GenClasses GenGrammar Entry MonadFacts ToolsFacts RuleFacts ContainerInv ContainerFull TableInv BuildInv BuildLinks BuildRules BuildDocs BuildRefs.
From Coq Require Import Lia.
Import ListNotations.

(* ---- every table blueprint that was built has its table in the database ---- *)
Definition BpIn (bp : pyv) (d : oid) (h : heap) : Prop :=
  exists db t, h_database h d = Some db /\ In t (d_tables db) /\ keys_eq (bp_keys bp) h t.

Lemma BpIn_gen bp d h h' db' : h_database h' d = Some db' -> Rn h h' ->
  (forall db, h_database h d = Some db -> incl (d_tables db) (d_tables db')) -> BpIn bp d h -> BpIn bp d h'.
Proof.
  intros Hdb' R Hincl (db & t & Hdb & Hin & Hk). exists db', t. split; [exact Hdb'|]. split; [apply (Hincl db Hdb); exact Hin|].
  eapply keys_eq_Rn; eauto.
Qed.

Lemma step_establishes_bp d bp h h' : J d h -> good_table_bp bp -> step d bp h = (h', Ok tt) -> BpIn bp d h'.
Proof.
  intros HJ Hg H. unfold step in H. apply bindM_inv in H as [[e [_ H]]|[t [h1 [H1 H2]]]]; [discriminate H|].
  destruct (build_table_keeps_J d bp h h1 (Ok t) Hg HJ H1) as [HJ1 _]. pose proof (build_table_keys d bp h h1 t Hg H1) as Hkeys.
  destruct (J_InvDB _ _ HJ1) as (db1 & ID1 & Hdb1).
  destruct (db_add_step h1 d db1 t ID1) as [[e R]|(db' & h2 & ob & k & Hrun & ID' & Ho & Hk & Hm & Hl1 & _)].
  { rewrite R in H2. discriminate H2. }
  rewrite Hrun in H2. inversion H2; subst h2. destruct Hkeys as (tb & Ht & En). pose proof (h_table_nth _ _ _ Ht) as Htn.
  rewrite Htn in Ho. inversion Ho; subst ob. cbn in Hk. inversion Hk; subst k.
  destruct ID' as [[Idb' _ _ _ _ _] _ _]. exists db', t. split; [exact Idb'|]. split.
  - change (In t (klist KTable db')). rewrite (Hl1 ltac:(discriminate)). apply in_or_app. right. left. reflexivity.
  - eapply keys_eq_Rn; [exact (gn_db_add d t _ _ _ Hrun)|]. exists tb. split; assumption.
Qed.

Lemma step_keeps_bp d bp0 bp h h' : J d h -> good_table_bp bp -> BpIn bp0 d h -> step d bp h = (h', Ok tt) -> BpIn bp0 d h'.
Proof.
  intros HJ Hg HB H. unfold step in H. apply bindM_inv in H as [[e [_ H]]|[t [h1 [H1 H2]]]]; [discriminate H|].
  destruct (build_table_keeps_J d bp h h1 (Ok t) Hg HJ H1) as [HJ1 _].
  destruct (J_InvDB _ _ HJ) as (db & _ & Hdb). pose proof (gdb_build_table d bp Hg _ _ _ H1 db Hdb) as Hdb1.
  destruct (J_InvDB _ _ HJ1) as (db1 & ID1 & Hdb1'). assert (db1 = db) by congruence. subst db1.
  destruct (db_add_step h1 d db t ID1) as [[e R]|(db' & h2 & ob & k & Hrun & ID' & Ho & Hk & Hm & Hl1 & _)].
  { rewrite R in H2. discriminate H2. }
  rewrite Hrun in H2. inversion H2; subst h2. destruct ID' as [[Idb' _ _ _ _ _] _ _].
  pose proof (build_table_keys d bp h h1 t Hg H1) as (tb & Ht & _). rewrite (h_table_nth _ _ _ Ht) in Ho. inversion Ho; subst ob. cbn in Hk. inversion Hk; subst k.
  eapply BpIn_gen; [exact Idb'|eapply Rn_trans; [exact (gn_build_table d bp Hg _ _ _ H1)|exact (gn_db_add d t _ _ _ Hrun)]| |exact HB].
  intros db0 Hdb0. rewrite Hdb in Hdb0. inversion Hdb0; subst db0.
  change (incl (klist KTable db) (klist KTable db')). rewrite (Hl1 ltac:(discriminate)). apply incl_appl, incl_refl.
Qed.

Lemma iter_steps_keep_bp d bp0 l : forall h h', Forall good_table_bp l -> J d h -> BpIn bp0 d h -> iterM (step d) l h = (h', Ok tt) -> BpIn bp0 d h'.
Proof.
  induction l as [|bp l IH]; intros h h' Hg HJ HB H; cbn [iterM] in H.
  - inversion H; subst. exact HB.
  - inversion Hg as [|? ? Hg1 Hg2]; subst. apply bindM_inv in H as [[e [_ H]]|[[] [h1 [H1 H]]]]; [discriminate H|].
    eapply IH; [exact Hg2| |eapply step_keeps_bp; eauto|exact H].
    destruct (pres_step d bp Hg1 _ _ _ HJ Logic.I H1) as [X _]. exact X.
Qed.

Lemma iter_steps_all_bp d l h h' : Forall good_table_bp l -> J d h -> iterM (step d) l h = (h', Ok tt) -> forall bp, In bp l -> BpIn bp d h'.
Proof.
  intros Hg HJ H bp Hin. apply in_split in Hin as (l1 & l2 & ->).
  apply Forall_app in Hg as [G1 Hg]. inversion Hg as [|? ? Gb G2]; subst.
  destruct (iterM_app_ok _ _ _ _ _ _ H) as (ha & A1 & A2).
  pose proof (iter_steps_J d l1 h ha tt G1 HJ A1) as HJa.
  cbn [iterM] in A2. apply bindM_inv in A2 as [[e [_ A2]]|[[] [hb [B1 A2]]]]; [discriminate A2|].
  pose proof (step_establishes_bp d bp ha hb HJa Gb B1) as HB.
  destruct (pres_step d bp Gb _ _ _ HJa Logic.I B1) as [HJb _].
  exact (iter_steps_keep_bp d bp l2 hb h' G2 HJb HB A2).
Qed.

(* the steps that add no table keep it *)
Lemma nontable_step_BpIn {A} bp0 d (b : A -> M oid) bp k h h' r :
  guar Rext (b bp) -> post (b bp) (kind_is k) -> k <> KTable -> J d h -> BpIn bp0 d h ->
  (do! x <- b bp ;; db_add d x) h = (h', r) -> BpIn bp0 d h'.
Proof.
  intros G P Nk HJ HB H. destruct HJ as (db & I). pose proof I as [[[Idb _ _ _ _ _] _ _] _].
  apply bindM_inv in H as [[e [H1 _]]|[x [h1 [H1 H2]]]].
  - pose proof (G _ _ _ H1) as R. eapply BpIn_gen; [exact (Rext_db _ _ _ _ R Idb)|exact (Rn_Rext _ _ R)| |exact HB].
    intros db0 Hdb0. rewrite Idb in Hdb0. inversion Hdb0; subst. apply incl_refl.
  - pose proof (G _ _ _ H1) as R.
    assert (HB1 : BpIn bp0 d h1).
    { eapply BpIn_gen; [exact (Rext_db _ _ _ _ R Idb)|exact (Rn_Rext _ _ R)| |exact HB].
      intros db0 Hdb0. rewrite Idb in Hdb0. inversion Hdb0; subst. apply incl_refl. }
    pose proof (Inv_Rext _ _ _ _ R I) as I1. pose proof I1 as [ID1 _]. pose proof ID1 as [[Idb1 _ _ _ _ _] _ _].
    destruct (P _ _ _ H1) as (ob & Hob & Hkind).
    destruct (db_add_step h1 d db x ID1) as [[e R']|(db' & h2 & ob' & k' & Hrun & ID' & Ho & Hkd & Hm & Hl1 & _ & Hoth & _)].
    { rewrite R' in H2. inversion H2; subst. exact HB1. }
    rewrite Hrun in H2. inversion H2; subst h2 r. destruct ID' as [[Idb' _ _ _ _ _] _ _].
    rewrite Hob in Ho. inversion Ho; subst ob'. rewrite Hkind in Hkd. inversion Hkd; subst k'.
    eapply BpIn_gen; [exact Idb'|exact (gn_db_add d x _ _ _ Hrun)| |exact HB1].
    intros db0 Hdb0. rewrite Idb1 in Hdb0. inversion Hdb0; subst db0.
    change (incl (klist KTable db) (klist KTable db')). destruct Hoth as [Hoo _]. rewrite (Hoo KTable) by congruence. apply incl_refl.
Qed.

Definition AllBp (tbl : list pyv) (d : oid) (h : heap) : Prop := forall bp, In bp tbl -> BpIn bp d h.
Definition Q (allk : list pystr) (tbl : list pyv) (d : oid) (h : heap) : Prop := JTC allk tbl d h /\ AllBp tbl d h.

Lemma keepsQ_nontable {A} allk tbl d (b : A -> M oid) bp k : guar Rext (b bp) -> post (b bp) (kind_is k) -> k <> KTable ->
  keeps (Q allk tbl d) (do! x <- b bp ;; db_add d x).
Proof.
  intros G P Nk h h' r (HJTC & HA) H. split; [exact (keeps_nontable allk tbl d b bp k G P Nk _ _ _ HJTC H)|].
  intros bp0 Hin. destruct HJTC as (HJ & _). exact (nontable_step_BpIn bp0 d b bp k h h' r G P Nk HJ (HA bp0 Hin) H).
Qed.

(* when the references phase begins: the invariants of BuildDocs and every table blueprint's table *)
Lemma Q_before_refs s allow sq dq h0 h1 dd :
  WW h0 -> (forall t tb, h_table h0 t = Some tb -> NoDup (names_of tb)) -> Forall good_table_bp (ps_tables s) ->
  build_database s allow sq dq h0 = (h1, Ok dd) ->
  exists he, Q (flat_map bp_keys (ps_tables s)) (ps_tables s) (length h0) he /\ iterM (rstep (length h0)) (ps_refs s) he = (h1, Ok tt).
Proof.
  intros HW Hgood Hg H. set (allk := flat_map bp_keys (ps_tables s)). set (tbl := ps_tables s). set (d := length h0).
  destruct (build_database_runs _ _ _ _ _ _ _ H) as (ha & hb & hc & hd & he & _ & A1 & B1 & C1 & D1 & E1 & F1).
  pose proof (JTC_initial allk tbl h0 allow sq dq HW Hgood) as Q0. pose proof Hg as Hg'. rewrite Forall_forall in Hg.
  pose proof (keeps_iterM_in _ (estep d) (ps_enums s) (fun bp _ => keeps_nontable allk tbl d build_enum bp KEnum (gR_build_enum bp) (post_build_enum bp) ltac:(discriminate)) _ _ _ Q0 A1) as Qa.
  assert (PT : forall bp, In bp (ps_tables s) -> keeps (JTC allk tbl d) (step d bp)).
  { intros bp Hin. apply keeps_table; [apply Hg; exact Hin| |exact Hin]. intros k Hk. unfold allk. apply in_flat_map. exists bp. split; assumption. }
  pose proof (keeps_iterM_in _ (step d) (ps_tables s) PT _ _ _ Qa B1) as Qb.
  assert (Ab : AllBp tbl d hb) by (destruct Qa as (HJa & _); exact (iter_steps_all_bp d (ps_tables s) ha hb Hg' HJa B1)).
  assert (Q1 : Q allk tbl d hb) by (split; assumption).
  pose proof (keeps_iterM_in _ (gstep d) (ps_groups s) (fun bp _ => keepsQ_nontable allk tbl d (build_group d) bp KGroup (gR_build_group d bp) (post_build_group d bp) ltac:(discriminate)) _ _ _ Q1 C1) as Q2.
  pose proof (keeps_iterM_in _ (sstep d) (ps_stickies s) (fun bp _ => keepsQ_nontable allk tbl d build_sticky bp KSticky (gR_build_sticky bp) (post_build_sticky bp) ltac:(discriminate)) _ _ _ Q2 D1) as Q3.
  assert (Q4 : Q allk tbl d he).
  { unfold pstep in E1. destruct (ps_project s) as [bp|].
    - exact (keepsQ_nontable allk tbl d build_project bp KProject (gR_build_project bp) (post_build_project bp) ltac:(discriminate) _ _ _ Q3 E1).
    - inversion E1; subst. exact Q3. }
  exists he. split; [exact Q4|exact F1].
Qed.

Lemma keepsQ_rstep allk tbl d bp : keeps (Q allk tbl d) (rstep d bp).
Proof. exact (keepsQ_nontable allk tbl d (build_reference d) bp KRef (gR_build_reference d bp) (post_build_reference d bp) ltac:(discriminate)). Qed.

(* ---- an address (schema, name) names the table of blueprint bp: by one of its keys directly (alias, or a key written bare),
   or — when no table answers to the bare name — as schema.name ---- *)
Definition names_bp (allk : list pystr) (bp : pyv) (sch n : pystr) : Prop :=
  In n (bp_keys bp) \/ (~ In n allk /\ In (sch ++ 46%N :: n) (bp_keys bp)).

Lemma locate_bp allk tbl d h bp sch n : Q allk tbl d h -> In bp tbl -> names_bp allk bp sch n ->
  exists t, locate_table d sch n h = (h, Ok t) /\ keys_eq (bp_keys bp) h t.
Proof.
  intros (((db & I) & HT & _) & HA) Hin Hn. pose proof I as [[[Idb _ _ _ If _] _ _] _].
  destruct (HA bp Hin) as (db0 & t & Hdb0 & Hl & Hk). rewrite Idb in Hdb0. inversion Hdb0; subst db0.
  exists t. split; [|exact Hk]. destruct (If t Hl) as (tb & Ht & _ & Hfw). destruct Hk as (tb' & Ht' & En). rewrite Ht in Ht'. inversion Ht'; subst tb'.
  unfold locate_table, bindM. rewrite (get_database_ok _ _ _ Idb). cbv beta iota.
  destruct Hn as [Hn|[Hno Hn]].
  - rewrite (Hfw n ltac:(rewrite En; exact Hn)). reflexivity.
  - assert (G : dict_get n (d_table_dict db) = None).
    { destruct (dict_get n (d_table_dict db)) as [t0|] eqn:G; [|reflexivity]. exfalso. apply Hno.
      eapply TabKeys_dict; [exact I|exact HT|exact G]. }
    rewrite G. rewrite (Hfw _ ltac:(rewrite En; exact Hn)). reflexivity.
Qed.

(* two reference blueprints that say the same thing: every compared field equal, and on each side both addresses name the table
   of one table blueprint (by alias, bare key or schema.name — in any combination) *)
Definition sameref (allk : list pystr) (tbl : list pyv) (dd dd' : list (pystr * pyv)) : Prop :=
  Forall (fun k => fstr_of dd k = fstr_of dd' k) ["type"; "col1"; "col2"; "name"; "comment"; "on_update"; "on_delete"]%string /\
  (exists bpA t1 t1', In bpA tbl /\ fstr_of dd "table1" = Some t1 /\ fstr_of dd' "table1" = Some t1' /\
      names_bp allk bpA (sch_of dd "schema1") t1 /\ names_bp allk bpA (sch_of dd' "schema1") t1') /\
  (exists bpB t2 t2', In bpB tbl /\ fstr_of dd "table2" = Some t2 /\ fstr_of dd' "table2" = Some t2' /\
      names_bp allk bpB (sch_of dd "schema2") t2 /\ names_bp allk bpB (sch_of dd' "schema2") t2').

Lemma Res_sameref allk tbl d dd dd' h c1 c2 : Q allk tbl d h -> sameref allk tbl dd dd' -> Res d dd h c1 c2 -> Res d dd' h c1 c2.
Proof.
  intros HQ (SK & (bpA & a1 & a1' & InA & EA & EA' & NA & NA') & (bpB & b2 & b2' & InB & EB & EB' & NB & NB'))
         (t1n & t2n & c1s & c2s & t1 & t2 & A1 & A2 & A3 & A4 & L1 & M1 & L2 & M2).
  rewrite EA in A1. inversion A1; subst t1n. rewrite EB in A2. inversion A2; subst t2n.
  repeat match type of SK with Forall _ (_ :: _) => let E := fresh "E" in inversion SK as [|? ? E SK']; clear SK; rename SK' into SK; subst end.
  destruct (locate_bp _ _ _ _ _ _ _ HQ InA NA) as (ta & La & Ka). rewrite La in L1. inversion L1; subst ta.
  destruct (locate_bp _ _ _ _ _ _ _ HQ InA NA') as (ta' & La' & Ka').
  destruct (locate_bp _ _ _ _ _ _ _ HQ InB NB) as (tb & Lb & Kb). rewrite Lb in L2. inversion L2; subst tb.
  destruct (locate_bp _ _ _ _ _ _ _ HQ InB NB') as (tb' & Lb' & Kb').
  (* the two answers on a side are the same table: both are the listed table carrying the blueprint's keys *)
  assert (U : forall bp x y, In bp tbl -> keys_eq (bp_keys bp) h x -> keys_eq (bp_keys bp) h y ->
              (exists s n, locate_table d s n h = (h, Ok x)) -> (exists s n, locate_table d s n h = (h, Ok y)) -> x = y).
  { intros bp x y Hin (tx & Hx & Ex) (ty & Hy & Ey) (s1 & n1 & Lx) (s2 & n2 & Ly).
    destruct HQ as (((db & I) & _ & _) & _). pose proof I as [[[Idb _ _ _ If Ib] _ _] _].
    assert (Listed : forall s n z, locate_table d s n h = (h, Ok z) -> In z (d_tables db)).
    { intros s n z Lz. unfold locate_table, bindM in Lz. rewrite (get_database_ok _ _ _ Idb) in Lz. cbv beta iota in Lz. unfold ret in Lz.
      destruct (dict_get n (d_table_dict db)) as [z0|] eqn:G1; [inversion Lz; subst; exact (proj1 (Ib _ _ G1))|].
      destruct (dict_get (s ++ 46%N :: n) (d_table_dict db)) as [z0|] eqn:G2; [inversion Lz; subst; exact (proj1 (Ib _ _ G2))|discriminate Lz]. }
    destruct (If x (Listed _ _ _ Lx)) as (tx' & Hx' & _ & Fx). destruct (If y (Listed _ _ _ Ly)) as (ty' & Hy' & _ & Fy).
    rewrite Hx in Hx'. inversion Hx'; subst tx'. rewrite Hy in Hy'. inversion Hy'; subst ty'.
    destruct bp as [s0|b0|z0|f0| |d0|l0|tag ddx]; try (cbn in Ex; unfold names_of in Ex; discriminate Ex).
    assert (K0 : exists k0, In k0 (names_of tx) /\ In k0 (names_of ty)).
    { rewrite Ex, Ey. destruct (bp_keys (PVBlue tag ddx)) as [|k0 ks] eqn:Ek; [unfold names_of in Ex; discriminate Ex|]. exists k0. split; left; reflexivity. }
    destruct K0 as (k0 & Kx & Ky). pose proof (Fx _ Kx) as G1. pose proof (Fy _ Ky) as G2. congruence. }
  assert (ta' = t1) by (apply (U bpA ta' t1 InA Ka' Ka); eauto). subst ta'.
  assert (tb' = t2) by (apply (U bpB tb' t2 InB Kb' Kb); eauto). subst tb'.
  exists a1', b2', c1s, c2s, t1, t2.
  repeat match goal with E : fstr_of dd ?k = fstr_of dd' ?k |- _ => try rewrite <- E; clear E end.
  repeat split; assumption.
Qed.

Lemma data_of_sameref allk tbl dd dd' c1 c2 : sameref allk tbl dd dd' -> data_of dd c1 c2 = data_of dd' c1 c2.
Proof.
  intros (SK & _ & _).
  repeat match type of SK with Forall _ (_ :: _) => let E := fresh "E" in inversion SK as [|? ? E SK']; clear SK; rename SK' into SK; subst end.
  unfold data_of. congruence.
Qed.

Lemma rsteps_Q allk tbl d l : forall h h' r, Q allk tbl d h -> iterM (rstep d) l h = (h', r) -> Q allk tbl d h'.
Proof. intros h h' r HQ H. exact (keeps_iterM_in _ (rstep d) l (fun bp _ => keepsQ_rstep allk tbl d bp) _ _ _ HQ H). Qed.

Theorem refs_phase_rejects_same_references allk tbl d l1 dd1 l2 dd2 l3 h h' :
  Q allk tbl d h -> sameref allk tbl dd1 dd2 ->
  iterM (rstep d) (l1 ++ PVBlue 4 dd1 :: l2 ++ PVBlue 4 dd2 :: l3) h <> (h', Ok tt).
Proof.
  intros HQ SR H.
  destruct (iterM_app_ok _ _ _ _ _ _ H) as (ha & G1 & G2).
  pose proof (rsteps_Q _ _ _ l1 _ _ _ HQ G1) as HQa. pose proof HQa as ((HJa & _) & _).
  cbn [iterM] in G2. apply bindM_inv in G2 as [[e [_ G2]]|[[] [hb [S1 G2]]]]; [discriminate G2|].
  destruct (rstep_establishes d dd1 ha hb HJa S1) as (c1 & c2 & HR & HIn).
  destruct (rstep_stable d _ _ _ _ HJa S1) as [HJb Sab].
  pose proof (keepsQ_rstep allk tbl d _ _ _ _ HQa S1) as HQb.
  destruct (iterM_app_ok _ _ _ _ _ _ G2) as (hc & G3 & G4).
  destruct (rsteps_stable d l2 _ _ _ HJb G3) as [HJc Sbc].
  pose proof (rsteps_Q _ _ _ l2 _ _ _ HQb G3) as HQc.
  cbn [iterM] in G4. apply bindM_inv in G4 as [[e [_ G4]]|[[] [hd [S2 _]]]]; [discriminate G4|].
  pose proof (stable_trans _ _ _ _ Sab Sbc) as Sac.
  pose proof (Res_sameref _ _ _ _ _ _ _ _ HQc SR (Res_stable d dd1 ha hc c1 c2 (J_WW _ _ HJa) Sac HR)) as HR2.
  pose proof (RefIn_stable _ d _ _ Sbc HIn) as HIn2. rewrite (data_of_sameref _ _ _ _ c1 c2 SR) in HIn2.
  exact (rstep_clashes d dd2 hc hd c1 c2 HJc HR2 HIn2 S2).
Qed.

(* a reference repeated, however each copy addresses its tables (alias, bare name, schema.name) and whether written inline,
   in short or in block form: the document never builds *)
Theorem build_database_rejects_same_references s allow sq dq h0 h1 dd l1 dd1 l2 dd2 l3 :
  WW h0 -> (forall t tb, h_table h0 t = Some tb -> NoDup (names_of tb)) -> Forall good_table_bp (ps_tables s) ->
  ps_refs s = l1 ++ PVBlue 4 dd1 :: l2 ++ PVBlue 4 dd2 :: l3 -> sameref (flat_map bp_keys (ps_tables s)) (ps_tables s) dd1 dd2 ->
  build_database s allow sq dq h0 <> (h1, Ok dd).
Proof.
  intros HW Hgood Hg Hl SR H.
  destruct (Q_before_refs _ _ _ _ _ _ _ HW Hgood Hg H) as (he & HQ & F1). rewrite Hl in F1.
  exact (refs_phase_rejects_same_references _ _ _ _ _ _ _ _ _ _ HQ SR F1).
Qed.

(* ---- the same for the members of a table group ---- *)
Lemma located_same allk tbl d h bp x y s1 n1 s2 n2 : Q allk tbl d h -> In bp tbl ->
  keys_eq (bp_keys bp) h x -> keys_eq (bp_keys bp) h y ->
  locate_table d s1 n1 h = (h, Ok x) -> locate_table d s2 n2 h = (h, Ok y) -> x = y.
Proof.
  intros HQ Hin (tx & Hx & Ex) (ty & Hy & Ey) Lx Ly.
  destruct HQ as (((db & I) & _ & _) & _). pose proof I as [[[Idb _ _ _ If Ib] _ _] _].
  assert (Listed : forall s n z, locate_table d s n h = (h, Ok z) -> In z (d_tables db)).
  { intros s n z Lz. unfold locate_table, bindM in Lz. rewrite (get_database_ok _ _ _ Idb) in Lz. cbv beta iota in Lz. unfold ret in Lz.
    destruct (dict_get n (d_table_dict db)) as [z0|] eqn:G1; [inversion Lz; subst; exact (proj1 (Ib _ _ G1))|].
    destruct (dict_get (s ++ 46%N :: n) (d_table_dict db)) as [z0|] eqn:G2; [inversion Lz; subst; exact (proj1 (Ib _ _ G2))|discriminate Lz]. }
  destruct (If x (Listed _ _ _ Lx)) as (tx' & Hx' & _ & Fx). destruct (If y (Listed _ _ _ Ly)) as (ty' & Hy' & _ & Fy).
  rewrite Hx in Hx'. inversion Hx'; subst tx'. rewrite Hy in Hy'. inversion Hy'; subst ty'.
  assert (K0 : exists k0, In k0 (names_of tx) /\ In k0 (names_of ty)).
  { rewrite Ex, Ey. destruct (bp_keys bp) as [|k0 ks] eqn:Ek; [unfold names_of in Ex; discriminate Ex|]. exists k0. split; left; reflexivity. }
  destruct K0 as (k0 & Kx & Ky). pose proof (Fx _ Kx) as G1. pose proof (Fy _ Ky) as G2. congruence.
Qed.

Definition group_repeats_table (allk : list pystr) (tbl : list pyv) (gb : pyv) : Prop :=
  match gb with
  | PVBlue 11 dd => exists l1 a l2 b l3 bp, flist_of dd "items" = l1 ++ PVStr a :: l2 ++ PVStr b :: l3 /\ In bp tbl /\
                      names_bp allk bp (fst (item_key a)) (snd (item_key a)) /\ names_bp allk bp (fst (item_key b)) (snd (item_key b))
  | _ => False
  end.

Lemma group_items_same_table allk tbl d h a b bp l3 : Q allk tbl d h -> In bp tbl ->
  names_bp allk bp (fst (item_key a)) (snd (item_key a)) -> names_bp allk bp (fst (item_key b)) (snd (item_key b)) ->
  forall l2 l1 acc h' x, group_items d (l1 ++ PVStr a :: l2 ++ PVStr b :: l3) acc h <> (h', Ok x).
Proof.
  intros HQ Hin Na Nb l2.
  destruct (locate_bp _ _ _ _ _ _ _ HQ Hin Na) as (ta & La & Ka). destruct (locate_bp _ _ _ _ _ _ _ HQ Hin Nb) as (tb & Lb & Kb).
  assert (tb = ta) by (exact (located_same _ _ _ _ _ _ _ _ _ _ _ HQ Hin Kb Ka Lb La)). subst tb.
  assert (Second : forall m2 acc h' x, In ta acc -> group_items d (m2 ++ PVStr b :: l3) acc h <> (h', Ok x)).
  { induction m2 as [|y m2 IH]; intros acc h' x Hacc H.
    - cbn [app] in H. rewrite group_items_cons in H. unfold bindM at 1 in H. rewrite Lb in H.
      unfold bindM at 1, get_heap in H. cbv beta iota in H.
      assert (E : list_has (table_eqb h) ta acc = true).
      { unfold list_has. apply existsb_exists. exists ta. split; [exact Hacc|apply table_eqb_refl]. }
      rewrite E in H. discriminate H.
    - cbn [app] in H. destruct y as [s0|b0|z0|f0| |d0|l0|tag dd]; try (cbn [group_items] in H; discriminate H).
      rewrite group_items_cons in H.
      apply bindM_inv in H as [[e [_ H]]|[t' [h1 [H1 H]]]]; [discriminate H|].
      pose proof (ro_locate_table _ _ _ _ _ _ H1) as ->.
      unfold bindM at 1, get_heap in H. cbv beta iota in H.
      destruct (list_has (table_eqb h) t' acc); [discriminate H|].
      apply (IH _ _ _ (in_or_app _ _ _ (or_introl Hacc)) H). }
  induction l1 as [|y l1 IH]; intros acc h' x H.
  - cbn [app] in H. rewrite group_items_cons in H. unfold bindM at 1 in H. rewrite La in H.
    unfold bindM at 1, get_heap in H. cbv beta iota in H.
    destruct (list_has (table_eqb h) ta acc); [discriminate H|].
    apply (Second l2 (acc ++ [ta]) h' x); [apply in_or_app; right; left; reflexivity|exact H].
  - cbn [app] in H. destruct y as [s0|b0|z0|f0| |d0|l0|tag dd]; try (cbn [group_items] in H; discriminate H).
    rewrite group_items_cons in H.
    apply bindM_inv in H as [[e [_ H]]|[t [h1 [H1 H]]]]; [discriminate H|].
    pose proof (ro_locate_table _ _ _ _ _ _ H1) as ->.
    unfold bindM at 1, get_heap in H. cbv beta iota in H.
    destruct (list_has (table_eqb h) t acc); [discriminate H|]. exact (IH _ _ _ H).
Qed.

Lemma Q_before_groups s allow sq dq h0 h1 dd :
  WW h0 -> (forall t tb, h_table h0 t = Some tb -> NoDup (names_of tb)) -> Forall good_table_bp (ps_tables s) ->
  build_database s allow sq dq h0 = (h1, Ok dd) ->
  exists hb hc, Q (flat_map bp_keys (ps_tables s)) (ps_tables s) (length h0) hb /\ iterM (gstep (length h0)) (ps_groups s) hb = (hc, Ok tt).
Proof.
  intros HW Hgood Hg H. set (allk := flat_map bp_keys (ps_tables s)). set (tbl := ps_tables s). set (d := length h0).
  destruct (build_database_runs _ _ _ _ _ _ _ H) as (ha & hb & hc & hd & he & _ & A1 & B1 & C1 & _).
  pose proof (JTC_initial allk tbl h0 allow sq dq HW Hgood) as Q0. pose proof Hg as Hg'. rewrite Forall_forall in Hg.
  pose proof (keeps_iterM_in _ (estep d) (ps_enums s) (fun bp _ => keeps_nontable allk tbl d build_enum bp KEnum (gR_build_enum bp) (post_build_enum bp) ltac:(discriminate)) _ _ _ Q0 A1) as Qa.
  assert (PT : forall bp, In bp (ps_tables s) -> keeps (JTC allk tbl d) (step d bp)).
  { intros bp Hin. apply keeps_table; [apply Hg; exact Hin| |exact Hin]. intros k Hk. unfold allk. apply in_flat_map. exists bp. split; assumption. }
  pose proof (keeps_iterM_in _ (step d) (ps_tables s) PT _ _ _ Qa B1) as Qb.
  assert (Ab : AllBp tbl d hb) by (destruct Qa as (HJa & _); exact (iter_steps_all_bp d (ps_tables s) ha hb Hg' HJa B1)).
  exists hb, hc. split; [split; assumption|exact C1].
Qed.

Theorem build_database_rejects_group_listing_a_table_twice s allow sq dq h0 h1 dd l1 gb l2 :
  WW h0 -> (forall t tb, h_table h0 t = Some tb -> NoDup (names_of tb)) -> Forall good_table_bp (ps_tables s) ->
  ps_groups s = l1 ++ gb :: l2 -> group_repeats_table (flat_map bp_keys (ps_tables s)) (ps_tables s) gb ->
  build_database s allow sq dq h0 <> (h1, Ok dd).
Proof.
  intros HW Hgood Hg Hl Hm H.
  destruct (Q_before_groups _ _ _ _ _ _ _ HW Hgood Hg H) as (hb & hc & HQ & C1). rewrite Hl in C1.
  destruct (keeps_reaches _ (gstep (length h0)) l1 gb l2 hb hc
              (fun bp _ => keepsQ_nontable _ _ _ (build_group (length h0)) bp KGroup (gR_build_group _ bp) (post_build_group _ bp) ltac:(discriminate)) HQ C1)
    as (hm & hn & HQm & R).
  unfold gstep in R. apply bindM_inv in R as [[e [_ R]]|[x [hx [K1 _]]]]; [discriminate R|].
  destruct gb as [s0|b0|z0|f0| |d0|l0|tag ddg]; try contradiction.
  destruct (N.eq_dec tag 11) as [->|Nt].
  2:{ destruct tag as [|p]; [contradiction|]. destruct p as [q|q|]; try contradiction. destruct q as [r0|r0|]; try contradiction. destruct r0 as [r1|r1|]; try contradiction; destruct r1; try contradiction; congruence. }
  destruct Hm as (m1 & a & m2 & b & m3 & bp & El & Hin & Na & Nb). unfold build_group in K1. rewrite El in K1.
  apply bindM_inv in K1 as [[e [_ K1]]|[items [h2 [K2 _]]]]; [discriminate K1|].
  exact (group_items_same_table _ _ _ hm a b bp m3 HQm Hin Na Nb m2 m1 [] h2 items K2).
Qed.

(* non-vacuity *)
From Coq Require Import String.
Open Scope string_scope.
Open Scope list_scope.
Definition ex_table_alias (n al : string) (cols : list string) : pyv :=
  PVBlue 7 [(K "name", PVStr (K n)); (K "alias", PVStr (K al)); (K "columns", PVList (map ex_col cols)); (K "indexes", PVList [])].
Definition ex_doc_spell : pstate :=
  mkPState [ex_table_alias "a" "al" ["id"]; ex_table "b" ["id"; "a_id"] []]
           [PVBlue 4 (ex_ref_dd "b" "a_id" "a" "id"); PVBlue 4 (ex_ref_inline "b" "a_id" "al" "id")] [] [ex_group "g" ["b"; "a"; "al"]] None [].
Definition ex_doc_spell_refs_only : pstate :=
  mkPState (ps_tables ex_doc_spell) (ps_refs ex_doc_spell) [] [] None [].
Example same_reference_other_spelling_example :
  sameref (flat_map bp_keys (ps_tables ex_doc_spell)) (ps_tables ex_doc_spell) (ex_ref_dd "b" "a_id" "a" "id") (ex_ref_inline "b" "a_id" "al" "id")
  /\ snd (build_database ex_doc_spell_refs_only false 0 1 []) = Raise EDatabaseValidation.
Proof.
  split; [|vm_compute; reflexivity]. split; [repeat constructor|]. split.
  - exists (ex_table "b" ["id"; "a_id"] []), (K "b"), (K "b"). split; [right; left; reflexivity|]. split; [reflexivity|]. split; [reflexivity|].
    split; right; (split; [vm_compute; intros [H|[H|[H|[]]]]; discriminate H|vm_compute; left; reflexivity]).
  - exists (ex_table_alias "a" "al" ["id"]), (K "a"), (K "al"). split; [left; reflexivity|]. split; [reflexivity|]. split; [reflexivity|]. split.
    + right. split; [vm_compute; intros [H|[H|[H|[]]]]; discriminate H|vm_compute; left; reflexivity].
    + left. vm_compute. right. left. reflexivity.
Qed.
Example group_table_twice_example :
  group_repeats_table (flat_map bp_keys (ps_tables ex_doc_spell)) (ps_tables ex_doc_spell) (ex_group "g" ["b"; "a"; "al"])
  /\ snd (build_database (mkPState (ps_tables ex_doc_spell) [] [] (ps_groups ex_doc_spell) None []) false 0 1 []) = Raise EValidation.
Proof.
  split; [|vm_compute; reflexivity].
  exists [PVStr (K "b")], (K "a"), [], (K "al"), [], (ex_table_alias "a" "al" ["id"]). split; [reflexivity|]. split; [left; reflexivity|]. split.
  - right. split; [vm_compute; intros [H|[H|[H|[]]]]; discriminate H|vm_compute; left; reflexivity].
  - left. vm_compute. right. left. reflexivity.
Qed.
