(* JoinTable.v — C04: the join table of a many-to-many reference, as an exact equation.  For every heap in which the two sides
   of a `<>` reference resolve, Reference.join_table allocates, after the existing objects and without touching them: one
   (empty note, column) pair per referenced column — left side first, in order — each column named <its table>_<its name>, typed
   like the referenced column, NOT NULL and pk, not unique, no default; then the table <left name>_<right name> in the left
   table's schema, abstract, listing exactly those columns in that order. *)
From PyDBML Require Import PyStr Py Heap Classes MonadFacts ContainerInv.
From Coq Require Import Lia.
Import ListNotations.

Lemma nth_app_len {A} (h r : list A) x : nth_error (h ++ x :: r) (length h) = Some x.
Proof. rewrite nth_error_app2 by lia. rewrite Nat.sub_diag. reflexivity. Qed.
Lemma replace_app_len {A} (h r : list A) x v : replace_nth (length h) v (h ++ x :: r) = h ++ v :: r.
Proof. induction h as [|a h IH]; cbn; [reflexivity|]. rewrite IH. reflexivity. Qed.
Lemma nth_app_len' {A} (h r : list A) x i : i = length h -> nth_error (h ++ x :: r) i = Some x.
Proof. intros ->. apply nth_app_len. Qed.
Lemma replace_app_len' {A} (h r : list A) x v i : i = length h -> replace_nth i v (h ++ x :: r) = h ++ v :: r.
Proof. intros ->. apply replace_app_len. Qed.
Lemma nth_app_old {A} (h r : list A) i : i < length h -> nth_error (h ++ r) i = nth_error h i.
Proof. intros L. apply nth_error_app1. exact L. Qed.

(* Column(name, type, not_null=True, pk=True): an empty note, then the column, then the note's parent *)
Lemma new_column_exact nm ty u nn pk ai d c p h :
  new_column nm ty u nn pk ai d NAnone c p h =
  (h ++ [ONote (mkNote [] (Some (S (length h)))); OColumn (mkColumn nm ty u nn pk ai c (length h) p d None)], Ok (S (length h))).
Proof.
  unfold new_column, new_note_from. unfold bindM at 1. unfold alloc at 1. cbv beta iota.
  unfold bindM at 1. unfold alloc at 1. cbv beta iota.
  unfold bindM at 1. unfold set_note_parent, get_note. unfold bindM at 1. unfold bindM at 1. unfold lookup.
  rewrite <- app_assoc. cbn [app]. rewrite nth_app_len. cbv beta iota. unfold ret. cbv beta iota. unfold store.
  rewrite replace_app_len. rewrite app_length. cbn [length]. rewrite Nat.add_1_r. reflexivity.
Qed.

(* the column Reference.join_table makes for a referenced column cc of table tcc; its note is object n, its table t *)
Definition jcol (cc : column) (tcc : table) (n : oid) (t : option oid) : column :=
  mkColumn (Some (fstr (t_name tcc) ++ 95%N :: fstr (c_name cc))) (c_type cc) false true true false None n [] DNone t.

(* the (note, column) pairs for a list of referenced columns, allocated from address [base] on; [tab]: what the columns record as their table *)
Fixpoint jt_ext (h0 : heap) (base : nat) (tab : option oid) (l : list oid) : option (list obj * list oid) :=
  match l with
  | [] => Some ([], [])
  | c :: rest =>
      match h_column h0 c with
      | Some cc => match c_table cc with
                   | Some tc => match h_table h0 tc with
                                | Some tcc => match jt_ext h0 (S (S base)) tab rest with
                                              | Some (ext, cols) => Some (ONote (mkNote [] (Some (S base))) :: OColumn (jcol cc tcc base tab) :: ext, S base :: cols)
                                              | None => None
                                              end
                                | None => None
                                end
                   | None => None
                   end
      | None => None
      end
  end.

Definition mkj (c : oid) : M oid :=
  do! cc <- get_column c ;;
  match c_table cc with
  | Some tc => do! tcc <- get_table tc ;;
               new_column (Some (fstr (t_name tcc) ++ 95%N :: fstr (c_name cc))) (c_type cc) false true true false DNone NAnone None []
  | None => raise EAttributeError
  end.

Lemma h_column_lt h c cc : h_column h c = Some cc -> c < length h.
Proof. unfold h_column. intros H. destruct (nth_error h c) eqn:E; [|discriminate H]. eapply nth_some_lt; exact E. Qed.
Lemma h_table_lt' h c cc : h_table h c = Some cc -> c < length h.
Proof. unfold h_table. intros H. destruct (nth_error h c) eqn:E; [|discriminate H]. eapply nth_some_lt; exact E. Qed.

Lemma mkj_run h0 pre c cc tc tcc : h_column h0 c = Some cc -> c_table cc = Some tc -> h_table h0 tc = Some tcc ->
  mkj c (h0 ++ pre) =
  ((h0 ++ pre) ++ [ONote (mkNote [] (Some (S (length (h0 ++ pre))))); OColumn (jcol cc tcc (length (h0 ++ pre)) None)], Ok (S (length (h0 ++ pre)))).
Proof.
  intros Hc Ht Htb. unfold mkj. unfold bindM at 1. unfold get_column, bindM, lookup.
  rewrite (nth_app_old h0 pre c (h_column_lt _ _ _ Hc)). unfold h_column in Hc. destruct (nth_error h0 c) as [[]|]; try discriminate Hc. inversion Hc; subst.
  cbv beta iota. unfold ret. cbv beta iota. rewrite Ht. unfold get_table, bindM, lookup.
  rewrite (nth_app_old h0 pre tc (h_table_lt' _ _ _ Htb)). unfold h_table in Htb. destruct (nth_error h0 tc) as [[]|]; try discriminate Htb. inversion Htb; subst.
  cbv beta iota. apply new_column_exact.
Qed.

Lemma jt_ext_len h0 tab l : forall base ext cols, jt_ext h0 base tab l = Some (ext, cols) -> length ext = 2 * length l /\ length cols = length l.
Proof.
  induction l as [|c l IH]; intros base ext cols H; cbn [jt_ext] in H; [inversion H; split; reflexivity|].
  destruct (h_column h0 c) as [cc|]; [|discriminate H]. destruct (c_table cc) as [tc|]; [|discriminate H]. destruct (h_table h0 tc) as [tcc|]; [|discriminate H].
  destruct (jt_ext h0 (S (S base)) tab l) as [[e0 c0]|] eqn:E; [|discriminate H]. inversion H; subst. destruct (IH _ _ _ E) as [A B]. cbn [length]. split; lia.
Qed.

(* the generator expression of join_table, run: the pairs are appended in order *)
Lemma mapMM_mkj h0 l : forall pre ext cols, jt_ext h0 (length (h0 ++ pre)) None l = Some (ext, cols) ->
  mapMM mkj l (h0 ++ pre) = ((h0 ++ pre) ++ ext, Ok cols).
Proof.
  induction l as [|c l IH]; intros pre ext cols H; cbn [jt_ext] in H.
  - inversion H; subst. cbn. rewrite app_nil_r. reflexivity.
  - destruct (h_column h0 c) as [cc|] eqn:Hc; [|discriminate H]. destruct (c_table cc) as [tc|] eqn:Ht; [|discriminate H].
    destruct (h_table h0 tc) as [tcc|] eqn:Htb; [|discriminate H].
    destruct (jt_ext h0 (S (S (length (h0 ++ pre)))) None l) as [[e0 c0]|] eqn:E; [|discriminate H]. inversion H; subst. clear H.
    cbn [mapMM]. unfold bindM at 1. rewrite (mkj_run h0 pre c cc tc tcc Hc Ht Htb). cbv beta iota.
    set (two := [ONote (mkNote [] (Some (S (length (h0 ++ pre))))); OColumn (jcol cc tcc (length (h0 ++ pre)) None)]).
    rewrite <- (app_assoc h0 pre two). unfold bindM at 1.
    rewrite (IH (pre ++ two) e0 c0).
    + cbv beta iota. unfold ret. rewrite <- !app_assoc. reflexivity.
    + rewrite app_assoc. rewrite (app_length (h0 ++ pre) two). cbn [length two]. rewrite Nat.add_comm. exact E.
Qed.

(* ---- Table(..., columns=<those columns>): the constructor's add_column loop ---- *)
Lemma jt_ext_cols h0 l : forall base t extN cols, jt_ext h0 base None l = Some (extN, cols) ->
  exists extT, jt_ext h0 base (Some t) l = Some (extT, cols) /\ length extT = length extN.
Proof.
  induction l as [|c l IH]; intros base t extN cols H; cbn [jt_ext] in *; [inversion H; subst; exists []; split; reflexivity|].
  destruct (h_column h0 c) as [cc|]; [|discriminate H]. destruct (c_table cc) as [tc|]; [|discriminate H]. destruct (h_table h0 tc) as [tcc|]; [|discriminate H].
  destruct (jt_ext h0 (S (S base)) None l) as [[e0 c0]|] eqn:E; [|discriminate H]. inversion H; subst.
  destruct (IH _ t _ _ E) as (eT & -> & L). eexists. split; [reflexivity|]. cbn [length]. rewrite L. reflexivity.
Qed.

Lemma add_loop h0 t l : forall P extN extT cols tb N,
  jt_ext h0 (length P) None l = Some (extN, cols) -> jt_ext h0 (length P) (Some t) l = Some (extT, cols) ->
  t = length P + length extN + 1 ->
  iterM (table_add_column t) cols (P ++ extN ++ [N; OTable tb]) =
  (P ++ extT ++ [N; OTable (set_columns (t_columns tb ++ cols) tb)], Ok tt).
Proof.
  induction l as [|c l IH]; intros P extN extT cols tb N HN HT Ht; cbn [jt_ext] in HN, HT.
  - inversion HN; inversion HT; subst. cbn [iterM app]. rewrite app_nil_r. destruct tb; reflexivity.
  - destruct (h_column h0 c) as [cc|]; [|discriminate HN]. destruct (c_table cc) as [tc|]; [|discriminate HN]. destruct (h_table h0 tc) as [tcc|]; [|discriminate HN].
    destruct (jt_ext h0 (S (S (length P))) None l) as [[eN cN]|] eqn:EN; [|discriminate HN].
    destruct (jt_ext h0 (S (S (length P))) (Some t) l) as [[eT cT]|] eqn:ET; [|discriminate HT].
    injection HN as E1 E2. injection HT as E3 E4. subst extN extT cols. injection E4 as E4. subst cT. rename cN into cols'.
    set (nt := ONote (mkNote [] (Some (S (length P))))).
    cbn [iterM]. unfold bindM at 1.
    (* the column sits right after P ++ [nt] *)
    assert (Hl : S (length P) = length (P ++ [nt])) by (rewrite app_length; cbn; lia).
    assert (Eh : forall X R, P ++ (nt :: X :: R) = (P ++ [nt]) ++ X :: R) by (intros; rewrite <- app_assoc; reflexivity).
    unfold table_add_column at 1. unfold bindM at 1. unfold lookup. cbn [app]. rewrite Eh.
    rewrite (nth_app_len' (P ++ [nt]) _ _ _ Hl). cbv beta iota.
    unfold bindM at 1. unfold upd_column, get_column. unfold bindM at 1. unfold bindM at 1. unfold lookup.
    rewrite (nth_app_len' (P ++ [nt]) _ _ _ Hl). cbv beta iota.
    unfold ret. cbv beta iota. unfold store. rewrite (replace_app_len' (P ++ [nt]) _ _ _ _ Hl). cbv beta iota.
    (* the table sits right after everything but the last object *)
    set (jT := OColumn (set_c_table (Some t) (jcol cc tcc (length P) None))).
    assert (Et : forall T, (P ++ [nt]) ++ jT :: eN ++ [N; T] = ((P ++ [nt]) ++ jT :: eN ++ [N]) ++ T :: []).
    { intros T. rewrite <- !app_assoc. cbn [app]. rewrite <- app_assoc. reflexivity. }
    assert (Lt : t = length ((P ++ [nt]) ++ jT :: eN ++ [N])).
    { rewrite Ht. rewrite !app_length. cbn [length]. rewrite app_length. cbn [length]. lia. }
    unfold upd_table, get_table. unfold bindM at 1. unfold bindM at 1. unfold lookup. rewrite Et.
    rewrite (nth_app_len' _ _ _ _ Lt). cbv beta iota.
    unfold ret. cbv beta iota. unfold store. rewrite (replace_app_len' _ _ _ _ _ Lt). cbv beta iota.
    (* back to the shape of the induction hypothesis *)
    specialize (IH (P ++ [nt; jT]) eN eT cols' (set_columns (t_columns tb ++ [S (length P)]) tb) N).
    assert (L2 : length (P ++ [nt; jT]) = S (S (length P))) by (rewrite app_length; cbn; lia).
    rewrite L2 in IH. specialize (IH EN ET).
    assert (Ht2 : t = S (S (length P)) + length eN + 1) by (rewrite Ht; cbn [length]; lia).
    specialize (IH Ht2).
    assert (EH : forall X : obj, ((P ++ [nt]) ++ jT :: eN ++ [N]) ++ [X] = (P ++ [nt; jT]) ++ eN ++ [N; X]).
    { intros X. rewrite <- !app_assoc. cbn [app]. rewrite <- app_assoc. reflexivity. }
    rewrite EH.
    refine (eq_trans IH _). cbn [t_columns set_columns]. rewrite <- !app_assoc. cbn [app]. destruct tb; reflexivity.
Qed.

(* Table(name, schema, columns=cols, abstract=True) on a heap that ends with the (note, column) pairs *)
Lemma new_table_exact h0 l nm sc extN cols :
  jt_ext h0 (length h0) None l = Some (extN, cols) ->
  let n := length h0 + length extN in
  exists extT, jt_ext h0 (length h0) (Some (S n)) l = Some (extT, cols) /\
  new_table nm sc None cols [] NAnone None None true [] (h0 ++ extN) =
  (h0 ++ extT ++ [ONote (mkNote [] (Some (S n))); OTable (mkTable None nm sc cols [] None n None None true [])], Ok (S n)).
Proof.
  intros HN n. destruct (jt_ext_cols h0 l (length h0) (S n) extN cols HN) as (extT & HT & LT). exists extT. split; [exact HT|].
  unfold new_table, new_note_from. unfold bindM at 1. unfold alloc at 1. cbv beta iota.
  unfold bindM at 1. unfold alloc at 1. cbv beta iota.
  assert (Ln : length (h0 ++ extN) = n) by (rewrite app_length; reflexivity). rewrite Ln.
  assert (Lt : length ((h0 ++ extN) ++ [ONote (mkNote [] None)]) = S n) by (rewrite app_length, Ln; cbn; lia). rewrite Lt.
  set (tb0 := mkTable None nm sc [] [] (or_none None) n None None true []).
  assert (EH : ((h0 ++ extN) ++ [ONote (mkNote [] None)]) ++ [OTable tb0] = h0 ++ extN ++ [ONote (mkNote [] None); OTable tb0]).
  { rewrite <- !app_assoc. reflexivity. }
  rewrite EH. unfold bindM at 1.
  rewrite (add_loop h0 (S n) l h0 extN extT cols tb0 (ONote (mkNote [] None)) HN HT) by (unfold n; lia).
  cbv beta iota. cbn [iterM]. unfold bindM at 1. unfold ret at 1. cbv beta iota.
  unfold bindM at 1. unfold set_note_parent, get_note. unfold bindM at 1. unfold bindM at 1. unfold lookup.
  assert (EN : forall X Y : obj, h0 ++ extT ++ [X; Y] = (h0 ++ extT) ++ X :: [Y]) by (intros; rewrite <- app_assoc; reflexivity).
  assert (LN : n = length (h0 ++ extT)) by (rewrite app_length, LT; reflexivity).
  rewrite EN. rewrite (nth_app_len' _ _ _ _ LN). cbv beta iota. unfold ret. cbv beta iota. unfold store.
  rewrite (replace_app_len' _ _ _ _ _ LN). rewrite <- app_assoc. reflexivity.
Qed.

(* Reference.join_table *)
Theorem join_table_exact h rid r c1 c2 t1id t2id tt1 tt2 extN cols :
  h_reference h rid = Some r -> ostr_eqb (r_type r) (Some MANY_TO_MANY) = true ->
  ref_table1 h r = Ok (Some t1id) -> ref_table2 h r = Ok (Some t2id) -> h_table h t1id = Some tt1 -> h_table h t2id = Some tt2 ->
  r_col1 r = Some c1 -> r_col2 r = Some c2 -> jt_ext h (length h) None (c1 ++ c2) = Some (extN, cols) ->
  let n := length h + length extN in
  exists extT, jt_ext h (length h) (Some (S n)) (c1 ++ c2) = Some (extT, cols) /\
  ref_join_table rid h =
  (h ++ extT ++ [ONote (mkNote [] (Some (S n)));
                 OTable (mkTable None (Some (fstr (t_name tt1) ++ 95%N :: fstr (t_name tt2))) (t_schema tt1) cols [] None n None None true [])],
   Ok (Some (S n))).
Proof.
  intros Hr Hm H1 H2 Ht1 Ht2 Hc1 Hc2 HN n.
  destruct (new_table_exact h (c1 ++ c2) (Some (fstr (t_name tt1) ++ 95%N :: fstr (t_name tt2))) (t_schema tt1) extN cols HN) as (extT & HT & HNT).
  exists extT. split; [exact HT|].
  unfold ref_join_table. unfold bindM at 1. unfold get_reference, bindM, lookup.
  unfold h_reference in Hr. destruct (nth_error h rid) as [[]|]; try discriminate Hr. inversion Hr; subst. cbv beta iota. unfold ret. cbv beta iota.
  rewrite Hm. cbn [negb]. unfold get_heap. cbv beta iota. unfold lift. rewrite H1. cbv beta iota. rewrite H2. cbv beta iota.
  unfold get_table, bindM, lookup.
  unfold h_table in Ht1. destruct (nth_error h t1id) as [[]|]; try discriminate Ht1. inversion Ht1; subst. cbv beta iota. unfold ret. cbv beta iota.
  unfold h_table in Ht2. destruct (nth_error h t2id) as [[]|]; try discriminate Ht2. inversion Ht2; subst. cbv beta iota.
  rewrite Hc1, Hc2.
  change (mapMM _ (c1 ++ c2) h) with (mapMM mkj (c1 ++ c2) h).
  pose proof (mapMM_mkj h (c1 ++ c2) [] extN cols) as MM. rewrite app_nil_r in MM. rewrite (MM HN). cbv beta iota.
  fold n in HNT. rewrite HNT. reflexivity.
Qed.

Lemma Forall2_impl_j {A B} (R S : A -> B -> Prop) l l' : (forall a b, R a b -> S a b) -> Forall2 R l l' -> Forall2 S l l'.
Proof. intros H F. induction F; constructor; auto. Qed.

(* where the columns are, and what they say *)
Lemma jt_ext_lookup h0 tab l : forall base ext cols, jt_ext h0 base tab l = Some (ext, cols) ->
  forall P R, length P = base ->
  Forall2 (fun c jc => exists cc tc tcc, h_column h0 c = Some cc /\ c_table cc = Some tc /\ h_table h0 tc = Some tcc /\
                                         h_column (P ++ ext ++ R) jc = Some (jcol cc tcc (jc - 1) tab)) l cols.
Proof.
  induction l as [|c l IH]; intros base ext cols H P R LP; cbn [jt_ext] in H; [inversion H; constructor|].
  destruct (h_column h0 c) as [cc|] eqn:Hc; [|discriminate H]. destruct (c_table cc) as [tc|] eqn:Ht; [|discriminate H].
  destruct (h_table h0 tc) as [tcc|] eqn:Htb; [|discriminate H].
  destruct (jt_ext h0 (S (S base)) tab l) as [[e0 c0]|] eqn:E; [|discriminate H]. inversion H; subst. clear H.
  constructor.
  - exists cc, tc, tcc. repeat split; try assumption. cbn [app]. unfold h_column.
    replace (P ++ ONote (mkNote [] (Some (S (length P)))) :: OColumn (jcol cc tcc (length P) tab) :: e0 ++ R)
      with ((P ++ [ONote (mkNote [] (Some (S (length P))))]) ++ OColumn (jcol cc tcc (length P) tab) :: e0 ++ R) by (rewrite <- app_assoc; reflexivity).
    rewrite (nth_app_len' _ _ _ (S (length P))) by (rewrite app_length; cbn; lia). cbn. rewrite Nat.sub_0_r. reflexivity.
  - specialize (IH _ _ _ E (P ++ [ONote (mkNote [] (Some (S (length P)))); OColumn (jcol cc tcc (length P) tab)]) R).
    rewrite app_length in IH. cbn [length] in IH. specialize (IH ltac:(lia)).
    eapply Forall2_impl_j; [|exact IH]. intros a b (cc' & tc' & tcc' & A1 & A2 & A3 & A4). exists cc', tc', tcc'. repeat split; try assumption.
    rewrite <- A4. f_equal. rewrite <- !app_assoc. reflexivity.
Qed.

(* the readable form: what a caller of Reference.join_table sees *)
Theorem join_table_spec h rid r c1 c2 t1id t2id tt1 tt2 extN cols :
  h_reference h rid = Some r -> ostr_eqb (r_type r) (Some MANY_TO_MANY) = true ->
  ref_table1 h r = Ok (Some t1id) -> ref_table2 h r = Ok (Some t2id) -> h_table h t1id = Some tt1 -> h_table h t2id = Some tt2 ->
  r_col1 r = Some c1 -> r_col2 r = Some c2 -> jt_ext h (length h) None (c1 ++ c2) = Some (extN, cols) ->
  exists h' t tb,
    ref_join_table rid h = (h', Ok (Some t)) /\ h_table h' t = Some tb /\
    (forall x, x < length h -> nth_error h' x = nth_error h x) /\
    t_name tb = Some (fstr (t_name tt1) ++ 95%N :: fstr (t_name tt2)) /\ t_schema tb = t_schema tt1 /\ t_abstract tb = true /\
    t_indexes tb = [] /\ t_columns tb = cols /\ length cols = length c1 + length c2 /\
    Forall2 (fun c jc => exists cc tc tcc jcc, h_column h c = Some cc /\ c_table cc = Some tc /\ h_table h tc = Some tcc /\ h_column h' jc = Some jcc /\
               c_name jcc = Some (fstr (t_name tcc) ++ 95%N :: fstr (c_name cc)) /\ c_type jcc = c_type cc /\
               c_not_null jcc = true /\ c_pk jcc = true /\ c_unique jcc = false /\ c_autoinc jcc = false /\ c_default jcc = DNone /\
               c_table jcc = Some t) (c1 ++ c2) cols.
Proof.
  intros Hr Hm H1 H2 Ht1 Ht2 Hc1 Hc2 HN.
  destruct (join_table_exact h rid r c1 c2 t1id t2id tt1 tt2 extN cols Hr Hm H1 H2 Ht1 Ht2 Hc1 Hc2 HN) as (extT & HT & Run).
  set (n := length h + length extN) in *. set (t := S n) in *.
  eexists _, t, _. split; [exact Run|].
  destruct (jt_ext_len _ _ _ _ _ _ HT) as [LE LC]. destruct (jt_ext_len _ _ _ _ _ _ HN) as [LE' _].
  assert (Lt : t = length ((h ++ extT) ++ [ONote (mkNote [] (Some t))])) by (rewrite !app_length; cbn [length]; unfold t, n; lia).
  split.
  { unfold h_table. replace (h ++ extT ++ [ONote (mkNote [] (Some t)); OTable (mkTable None (Some (fstr (t_name tt1) ++ 95%N :: fstr (t_name tt2))) (t_schema tt1) cols [] None n None None true [])])
      with (((h ++ extT) ++ [ONote (mkNote [] (Some t))]) ++ OTable (mkTable None (Some (fstr (t_name tt1) ++ 95%N :: fstr (t_name tt2))) (t_schema tt1) cols [] None n None None true []) :: [])
      by (rewrite <- !app_assoc; reflexivity).
    rewrite (nth_app_len' _ _ _ _ Lt). reflexivity. }
  split; [intros x Hx; apply nth_app_old; exact Hx|].
  cbn [t_name t_schema t_abstract t_indexes t_columns]. repeat split; try reflexivity.
  - rewrite LC. apply app_length.
  - pose proof (jt_ext_lookup h (Some t) (c1 ++ c2) (length h) extT cols HT h
                  [ONote (mkNote [] (Some t)); OTable (mkTable None (Some (fstr (t_name tt1) ++ 95%N :: fstr (t_name tt2))) (t_schema tt1) cols [] None n None None true [])] eq_refl) as F.
    eapply Forall2_impl_j; [|exact F]. intros c jc (cc & tc & tcc & A1 & A2 & A3 & A4). exists cc, tc, tcc, (jcol cc tcc (jc - 1) (Some t)).
    repeat split; assumption || reflexivity.
Qed.

(* evaluated: posts.(a,b) <> tags.x *)
Definition jx_note : obj := ONote (mkNote [] None).
Definition jx_col (nm ty : string) (t : oid) : obj := OColumn (mkColumn (Some (s2l nm)) (CTStr (s2l ty)) false false false false None 0 [] DNone (Some t)).
Definition jx_tab (nm sc : string) (cols : list oid) : obj := OTable (mkTable None (Some (s2l nm)) (Some (s2l sc)) cols [] None 0 None None false []).
Definition jx_ref : reference := mkReference None (Some (s2l "<>")) (Some [1; 2]) (Some [4]) None None None None false.
Definition jx_heap : heap := [jx_note; jx_col "a" "int" 3; jx_col "b" "text" 3; jx_tab "posts" "blog" [1; 2]; jx_col "x" "uuid" 5; jx_tab "tags" "public" [4]; OReference jx_ref].
Example join_table_example :
  match ref_join_table 6 jx_heap with
  | (h', Ok (Some t)) =>
      firstn 7 h' = jx_heap /\
      option_map (fun tb => (t_name tb, t_schema tb, t_abstract tb, t_columns tb)) (h_table h' t)
        = Some (Some (s2l "posts_tags"), Some (s2l "blog"), true, [8; 10; 12]) /\
      map (fun c => option_map (fun cc => (c_name cc, c_type cc, c_not_null cc, c_pk cc, c_table cc)) (h_column h' c)) [8; 10; 12]
        = [Some (Some (s2l "posts_a"), CTStr (s2l "int"), true, true, Some t);
           Some (Some (s2l "posts_b"), CTStr (s2l "text"), true, true, Some t);
           Some (Some (s2l "tags_x"), CTStr (s2l "uuid"), true, true, Some t)]
  | _ => False
  end.
Proof. vm_compute. repeat split; reflexivity. Qed.
