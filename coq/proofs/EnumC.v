(* EnumC.v — C01, enums followed from their blueprints to the returned database: for every parser state on which build_database
   succeeds, the enums of the database are — one per enum blueprint, in order — objects with exactly the declared name, schema
   (public when none is written), comment and, in order, one item per declared item with its declared name, comment and note
   text; each points back to the database. *)
From PyDBML Require Import PyStr Py Heap Classes Database Tools PP Actions Build Entry MonadFacts RuleFacts ContainerInv ContainerFull TableInv BuildInv BuildLinks BuildRules BuildDocs BuildRaises Frame Counts Sticky.
From Coq Require Import Lia.
Import ListNotations.

Definition note_arg_text (a : note_arg) : option pystr := match a with NAnone => Some [] | NAstr s => Some s | NAobj _ => None end.

Lemma new_enumitem_exact nm a c tx h : note_arg_text a = Some tx ->
  new_enumitem nm a c h = (h ++ [ONote (mkNote tx (Some (S (length h)))); OEnumItem (mkEnumItem nm (length h) c)], Ok (S (length h))).
Proof.
  intros Ha. unfold new_enumitem. unfold bindM at 1.
  assert (E : new_note_from a h = (h ++ [ONote (mkNote tx None)], Ok (length h))).
  { destruct a; inversion Ha; subst; reflexivity. }
  rewrite E. cbv beta iota. unfold bindM at 1. unfold alloc at 1. cbv beta iota.
  unfold bindM at 1. unfold set_note_parent, get_note. unfold bindM at 1. unfold bindM at 1. unfold lookup.
  rewrite <- app_assoc. cbn [app]. rewrite nth_app_len. cbv beta iota. unfold ret. cbv beta iota. unfold store.
  rewrite replace_app_len. rewrite app_length. cbn [length]. rewrite Nat.add_1_r. reflexivity.
Qed.

(* what an enum-item blueprint declares: name, comment, note text *)
Definition declares_item (bp : pyv) (nm c : option pystr) (tx : pystr) : Prop :=
  exists d a, bp = PVBlue 8 d /\ nm = fstr_of d "name" /\ c = fstr_of d "comment" /\ note_text_of d "note" = Ok a /\ note_arg_text a = Some tx.

Lemma note_text_of_arg d k a : note_text_of d k = Ok a -> exists tx, note_arg_text a = Some tx.
Proof.
  unfold note_text_of. destruct (dget (K k) d) as [v|]; [|intros H; inversion H; exists []; reflexivity].
  destruct v; try discriminate.
  repeat (match goal with |- (match ?x with _ => _ end) = _ -> _ => destruct x end; try discriminate).
  all: match goal with |- context [preformat ?t] => destruct (preformat t) as [v|]; cbn; [|discriminate] end; intros H; inversion H; eexists; reflexivity.
Qed.

Lemma build_enum_item_exact bp h h' o : build_enum_item bp h = (h', Ok o) ->
  exists nm c tx, declares_item bp nm c tx /\
    h' = h ++ [ONote (mkNote tx (Some (S (length h)))); OEnumItem (mkEnumItem nm (length h) c)] /\ o = S (length h).
Proof.
  intros H. destruct bp as [| | | | | | |tag d]; try (cbn in H; discriminate H).
  assert (T8 : tag = 8%N \/ build_enum_item (PVBlue tag d) h = (h, Raise (EStuck 402))).
  { destruct tag as [|p]; [right; reflexivity|]. destruct p as [q|q|]; [right; destruct q; reflexivity| |right; reflexivity].
    destruct q as [r0|r0|]; [right; destruct r0; reflexivity| |right; reflexivity]. destruct r0 as [s0|s0|]; [right; reflexivity| |right; reflexivity]. destruct s0; [right; reflexivity|right; reflexivity|left; reflexivity]. }
  destruct T8 as [->|T8]; [|rewrite T8 in H; discriminate H].
  unfold build_enum_item in H. unfold bindM, lift in H. destruct (note_text_of d "note") as [a|x] eqn:En; [|discriminate H].
  destruct (note_text_of_arg _ _ _ En) as (tx & Ha). rewrite (new_enumitem_exact _ _ _ tx h Ha) in H. inversion H; subst.
  exists (fstr_of d "name"), (fstr_of d "comment"), tx. split; [exists d, a; auto|]. auto.
Qed.

(* the (note, item) pairs of a list of declared items, allocated from address [base] on *)
Fixpoint items_ext (base : nat) (l : list (option pystr * option pystr * pystr)) : list obj * list oid :=
  match l with
  | [] => ([], [])
  | (nm, c, tx) :: r => let '(e, os) := items_ext (S (S base)) r in
                        (ONote (mkNote tx (Some (S base))) :: OEnumItem (mkEnumItem nm base c) :: e, S base :: os)
  end.

Lemma mapMM_items l : forall h h' os, mapMM build_enum_item l h = (h', Ok os) ->
  exists decl, Forall2 (fun bp d => declares_item bp (fst (fst d)) (snd (fst d)) (snd d)) l decl /\
               h' = h ++ fst (items_ext (length h) decl) /\ os = snd (items_ext (length h) decl).
Proof.
  induction l as [|bp l IH]; intros h h' os H; cbn [mapMM] in H.
  - inversion H; subst. exists []. cbn. rewrite app_nil_r. repeat split. constructor.
  - apply bindM_inv in H as [[e [_ H]]|[o [h1 [H1 H]]]]; [discriminate H|].
    apply bindM_inv in H as [[e [_ H]]|[os' [h2 [H2 H]]]]; [discriminate H|]. inversion H; subst. clear H.
    destruct (build_enum_item_exact _ _ _ _ H1) as (nm & c & tx & Hdec & -> & ->).
    destruct (IH _ _ _ H2) as (decl & F & -> & ->).
    exists ((nm, c, tx) :: decl). split; [constructor; [exact Hdec|exact F]|].
    cbn [items_ext]. rewrite app_length. cbn [length]. replace (length h + 2) with (S (S (length h))) by lia.
    destruct (items_ext (S (S (length h))) decl) as [e0 os0]. cbn [fst snd]. split; [rewrite <- app_assoc; reflexivity|reflexivity].
Qed.

Lemma items_ext_lookup : forall decl base P R, length P = base ->
  Forall2 (fun d o => nth_error (P ++ fst (items_ext base decl) ++ R) o = Some (OEnumItem (mkEnumItem (fst (fst d)) (o - 1) (snd (fst d)))) /\
                      nth_error (P ++ fst (items_ext base decl) ++ R) (o - 1) = Some (ONote (mkNote (snd d) (Some o))) /\ base < o)
          decl (snd (items_ext base decl)).
Proof.
  induction decl as [|[[nm c] tx] decl IH]; intros base P R LP; cbn [items_ext]; [constructor|].
  specialize (IH (S (S base)) (P ++ [ONote (mkNote tx (Some (S base))); OEnumItem (mkEnumItem nm base c)]) R).
  rewrite app_length in IH. cbn [length] in IH. specialize (IH ltac:(lia)).
  destruct (items_ext (S (S base)) decl) as [e0 os0]. cbn [fst snd] in *. constructor.
  - cbn [fst snd]. replace (S base - 1) with base by lia. subst base. split; [|split; [|lia]].
    + replace (P ++ (ONote (mkNote tx (Some (S (length P)))) :: OEnumItem (mkEnumItem nm (length P) c) :: e0) ++ R)
        with ((P ++ [ONote (mkNote tx (Some (S (length P))))]) ++ OEnumItem (mkEnumItem nm (length P) c) :: e0 ++ R) by (rewrite <- app_assoc; reflexivity).
      replace (S (length P)) with (length (P ++ [ONote (mkNote tx (Some (S (length P))))])) at 2 by (rewrite app_length; cbn; lia).
      apply nth_app_len.
    + cbn [app]. apply nth_app_len.
  - eapply Forall2_impl_s; [|exact IH]. intros d o (A & B & C). rewrite <- !app_assoc in A, B. cbn [app] in A, B. repeat split; [exact A|exact B|lia].
Qed.

(* Enum(name, items, schema, comment): the add_item loop appends the items in order *)
Lemma enum_loop nm sc c : forall todo done H, (forall o, In o todo -> o < length H /\ exists it, nth_error H o = Some (OEnumItem it)) ->
  iterM (enum_add_item (length H)) (map IAobj todo) (H ++ [OEnum (mkEnum None nm sc c (Some done))]) =
  (H ++ [OEnum (mkEnum None nm sc c (Some (done ++ todo)))], Ok tt).
Proof.
  induction todo as [|o todo IH]; intros done H Hin; cbn [map iterM].
  - rewrite app_nil_r. reflexivity.
  - destruct (Hin o (or_introl eq_refl)) as [Lo (it & Ho)].
    unfold bindM at 1. unfold enum_add_item at 1. unfold bindM at 1. unfold lookup. rewrite (nth_error_app1 H _ Lo). rewrite Ho. cbv beta iota.
    unfold bindM at 1. unfold get_enum, bindM, lookup. rewrite nth_app_len. cbv beta iota. unfold ret. cbv beta iota. cbn [e_items e_database e_name e_schema e_comment].
    unfold store. rewrite replace_app_len. cbv beta iota.
    refine (eq_trans (IH (done ++ [o]) H (fun o' Hi => Hin o' (or_intror Hi))) _). rewrite <- app_assoc. reflexivity.
Qed.

Definition declares_enum (bp : pyv) (nm sc c : option pystr) (items : list pyv) : Prop :=
  exists d, bp = PVBlue 9 d /\ nm = fstr_of d "name" /\ sc = Some (match fstr_of d "schema" with Some s => s | None => K "public" end) /\
            c = fstr_of d "comment" /\ items = flist_of d "items".

Lemma build_enum_exact bp h h' e : build_enum bp h = (h', Ok e) ->
  exists nm sc c items decl, declares_enum bp nm sc c items /\
    Forall2 (fun ib d => declares_item ib (fst (fst d)) (snd (fst d)) (snd d)) items decl /\
    h' = (h ++ fst (items_ext (length h) decl)) ++ [OEnum (mkEnum None nm sc c (Some (snd (items_ext (length h) decl))))] /\
    e = length (h ++ fst (items_ext (length h) decl)).
Proof.
  intros H. destruct bp as [| | | | | | |tag d]; try (cbn in H; discriminate H).
  assert (T9 : tag = 9%N \/ build_enum (PVBlue tag d) h = (h, Raise (EStuck 403))).
  { destruct tag as [|p]; [right; reflexivity|]. destruct p as [q|q|]; [|right; destruct q; reflexivity|right; reflexivity].
    destruct q as [r0|r0|]; [right; reflexivity| |right; reflexivity]. destruct r0 as [s0|s0|]; [right; reflexivity| |right; reflexivity].
    destruct s0; [right; reflexivity|right; reflexivity|left; reflexivity]. }
  destruct T9 as [->|T9]; [|rewrite T9 in H; discriminate H].
  unfold build_enum in H. apply bindM_inv in H as [[x [_ H]]|[os [h1 [H1 H2]]]]; [discriminate H|].
  destruct (mapMM_items _ _ _ _ H1) as (decl & F & -> & ->).
  exists (fstr_of d "name"), (Some (match fstr_of d "schema" with Some s => s | None => K "public" end)), (fstr_of d "comment"), (flist_of d "items"), decl.
  split; [exists d; auto|]. split; [exact F|].
  unfold new_enum in H2. unfold bindM at 1 in H2. unfold alloc at 1 in H2. cbv beta iota in H2.
  set (HH := h ++ fst (items_ext (length h) decl)) in *.
  unfold bindM at 1 in H2. rewrite (enum_loop _ _ _ (snd (items_ext (length h) decl)) [] HH) in H2.
  - cbv beta iota in H2. unfold ret in H2. inversion H2; subst. split; reflexivity.
  - intros o Hin. pose proof (items_ext_lookup decl (length h) h [] eq_refl) as FL. rewrite app_nil_r in FL.
    assert (G : forall (l1 : list (option pystr * option pystr * pystr)) l2, Forall2 (fun d0 o0 => nth_error HH o0 = Some (OEnumItem (mkEnumItem (fst (fst d0)) (o0 - 1) (snd (fst d0)))) /\
                 nth_error HH (o0 - 1) = Some (ONote (mkNote (snd d0) (Some o0))) /\ length h < o0) l1 l2 -> In o l2 -> o < length HH /\ exists it, nth_error HH o = Some (OEnumItem it)).
    { intros l1 l2 FF. induction FF as [|a b l1' l2' (A & _ & _) _ IHF]; intros Hi; [destruct Hi|].
      destruct Hi as [<-|Hi]; [split; [eapply nth_some_lt; exact A|eexists; exact A]|apply IHF; exact Hi]. }
    exact (G _ _ FL Hin).
Qed.

Definition item_at (h : heap) (dd : option pystr * option pystr * pystr) (o : oid) : Prop :=
  nth_error h o = Some (OEnumItem (mkEnumItem (fst (fst dd)) (o - 1) (snd (fst dd)))) /\
  nth_error h (o - 1) = Some (ONote (mkNote (snd dd) (Some o))).

(* the step "build the enum, add it": the enum, its items and their notes, afterwards *)
Lemma estep_fixes d bp h h' : d < length h -> estep d bp h = (h', Ok tt) ->
  exists nm sc c items decl e os, declares_enum bp nm sc c items /\
    Forall2 (fun ib dd => declares_item ib (fst (fst dd)) (snd (fst dd)) (snd dd)) items decl /\
    nth_error h' e = Some (OEnum (mkEnum (Some d) nm sc c (Some os))) /\
    Forall2 (fun dd o => item_at h' dd o /\ length h < o /\ o < e) decl os /\
    length h <= e /\ e < length h' /\
    h_database h' d = option_map (fun db => db_with_enums (d_enums db ++ [e]) db) (h_database h d).
Proof.
  intros Hd H. unfold estep in H. apply bindM_inv in H as [[x [_ H]]|[e [h1 [H1 H2]]]]; [discriminate H|].
  destruct (build_enum_exact _ _ _ _ H1) as (nm & sc & c & items & decl & Hdec & F & -> & ->).
  set (HH := h ++ fst (items_ext (length h) decl)) in *. set (os := snd (items_ext (length h) decl)) in *.
  exists nm, sc, c, items, decl, (length HH), os. split; [exact Hdec|]. split; [exact F|].
  assert (LH : length h <= length HH) by (unfold HH; rewrite app_length; lia).
  unfold db_add in H2. unfold bindM at 1 in H2. unfold lookup in H2. rewrite nth_app_len in H2. cbv beta iota in H2.
  unfold db_add_enum in H2. unfold bindM at 1 in H2. unfold get_database, bindM, lookup in H2.
  rewrite nth_error_app1 in H2 by lia. unfold h_database.
  destruct (nth_error HH d) as [obd|] eqn:End; [|discriminate H2]. destruct obd; try discriminate H2. cbv beta iota in H2. unfold ret in H2. cbv beta iota in H2.
  unfold get_enum, bindM, lookup in H2. rewrite nth_app_len in H2. cbv beta iota in H2. unfold ret in H2. cbv beta iota in H2. unfold get_heap in H2. cbv beta iota in H2.
  match type of H2 with (if ?b then _ else _) _ = _ => destruct b; [discriminate H2|] end.
  match type of H2 with (if ?b then _ else _) _ = _ => destruct b; [discriminate H2|] end.
  unfold set_obj_database, bindM, lookup in H2. rewrite nth_app_len in H2. cbv beta iota in H2. unfold store in H2. rewrite replace_app_len in H2.
  cbn [e_name e_schema e_comment e_items] in H2.
  unfold upd_db, get_database, bindM, lookup in H2. rewrite nth_error_app1 in H2 by lia. rewrite End in H2. cbv beta iota in H2. unfold ret, store in H2. inversion H2; subst. clear H2.
  assert (End0 : nth_error h d = Some (ODatabase d0)).
  { unfold HH in End. rewrite nth_error_app1 in End by exact Hd. exact End. }
  rewrite End0. cbn [option_map].
  assert (Hne : d <> length HH) by lia.
  split; [rewrite nth_replace_other by exact Hne; apply nth_app_len|].
  split.
  { pose proof (items_ext_lookup decl (length h) h [] eq_refl) as FL. rewrite app_nil_r in FL. fold HH os in FL.
    eapply Forall2_impl_s; [|exact FL]. intros dd o (A & B & C). pose proof (nth_some_lt _ _ _ A) as Lo.
    split; [split|split; [exact C|exact Lo]].
    - rewrite nth_replace_other by lia. rewrite nth_error_app1 by exact Lo. exact A.
    - rewrite nth_replace_other by lia. rewrite nth_error_app1 by lia. exact B. }
  split; [exact LH|]. split; [rewrite length_replace_nth, app_length; cbn; lia|].
  rewrite nth_replace_same by (rewrite app_length; lia). reflexivity.
Qed.

(* an enum of the returned database holds what its blueprint declares *)
Definition enum_holds (h : heap) (d : oid) (bp : pyv) (e : oid) : Prop :=
  exists nm sc c items decl os, declares_enum bp nm sc c items /\
    Forall2 (fun ib dd => declares_item ib (fst (fst dd)) (snd (fst dd)) (snd dd)) items decl /\
    h_enum h e = Some (mkEnum (Some d) nm sc c (Some os)) /\ Forall2 (item_at h) decl os.

Lemma build_rest_enums d tables refs groups proj stickies l h :
  build_rest (mkPState tables refs l groups proj stickies) d h =
  bindM (iterM (estep d) l) (fun _ => build_rest (mkPState tables refs [] groups proj stickies) d) h.
Proof. reflexivity. Qed.

Lemma enum_phase_final d tables refs groups proj stickies : forall l h hfin v db,
  d < length h -> h_database h d = Some db -> d_project db = None ->
  build_rest (mkPState tables refs l groups proj stickies) d h = (hfin, Ok v) ->
  exists es ha dba, iterM (estep d) l h = (ha, Ok tt) /\ h_database ha d = Some dba /\ d_enums dba = d_enums db ++ es /\
    Forall2 (enum_holds hfin d) l es.
Proof.
  induction l as [|bp l IH]; intros h hfin v db Hd Hdb Hp H.
  - exists [], h, db. rewrite app_nil_r. split; [reflexivity|]. split; [exact Hdb|]. split; [reflexivity|constructor].
  - rewrite build_rest_enums in H. cbn [iterM] in H. unfold bindM at 1 in H. unfold bindM at 1 in H.
    destruct (estep d bp h) as [h1 [[]|x]] eqn:E1; [|discriminate H].
    change (build_rest (mkPState tables refs l groups proj stickies) d h1 = (hfin, Ok v)) in H.
    destruct (estep_fixes d bp h h1 Hd E1) as (nm & sc & c & items & decl & e & os & Hdec & Fd & He & Fi & Le & Lh & Hdb1). rewrite Hdb in Hdb1. cbn [option_map] in Hdb1.
    assert (Hfr : forall x, x < length h1 -> x <> d -> nth_error hfin x = nth_error h1 x).
    { apply (build_steps_write_only_to_the_database_and_new_objects (mkPState tables refs l groups proj stickies) d h1 hfin (Ok v)); [lia| |exact H].
      intros x Hx. rewrite Hdb1 in Hx. inversion Hx; subst. cbn. exact Hp. }
    destruct (IH h1 hfin v _ ltac:(lia) Hdb1 Hp H) as (es & ha & dba & Hit & Hdba & Hen & F).
    exists (e :: es), ha, dba. split; [cbn [iterM]; unfold bindM; rewrite E1; exact Hit|]. split; [exact Hdba|].
    split; [rewrite Hen; cbn [d_enums db_with_enums]; rewrite <- app_assoc; reflexivity|].
    constructor; [|exact F]. exists nm, sc, c, items, decl, os. split; [exact Hdec|]. split; [exact Fd|]. split.
    + unfold h_enum. rewrite (Hfr e Lh ltac:(lia)), He. reflexivity.
    + eapply Forall2_impl_s; [|exact Fi]. intros dd o ((A & B) & C1 & C2). split.
      * rewrite (Hfr o ltac:(lia) ltac:(lia)). exact A.
      * rewrite (Hfr (o - 1) ltac:(lia) ltac:(lia)). exact B.
Qed.

Theorem build_database_enums s allow sq dq h0 h1 dd :
  WW h0 -> (forall t tb, h_table h0 t = Some tb -> NoDup (names_of tb)) -> Forall good_table_bp (ps_tables s) ->
  build_database s allow sq dq h0 = (h1, Ok dd) ->
  exists db, h_database h1 dd = Some db /\ Forall2 (enum_holds h1 dd) (ps_enums s) (d_enums db).
Proof.
  intros HW Hgood Hg H. set (d := length h0).
  destruct (build_database_runs _ _ _ _ _ _ _ H) as (ha & hb & hc & hd & he & -> & A1 & B1 & C1 & D1 & E1 & F1). fold d in A1, B1, C1, D1, E1, F1 |- *.
  set (db0 := mkDatabase [] [] [] [] [] [] None allow sq dq) in *.
  destruct (JTC_initial [] [] h0 allow sq dq HW Hgood) as [HJ0 _]. fold d in HJ0. fold db0 in HJ0.
  assert (Hdb0 : h_database (h0 ++ [ODatabase db0]) d = Some db0).
  { unfold h_database, d. rewrite nth_error_app2 by lia. rewrite Nat.sub_diag. reflexivity. }
  (* enums *)
  destruct (phase_grows d KEnum (estep d) build_enum (ps_enums s)) with (h := h0 ++ [ODatabase db0]) (h' := ha) (db := db0) as [HJa (dba & osa & Hdba & La & Lena & Oa & Fa)]; [|exact HJ0|exact Hdb0|exact A1|].
  { intros bp h h' _ HJ Hst. apply (add_built_grows d (build_enum bp) KEnum h h' HJ); [|apply gdb_of_Rext, gR_build_enum|apply post_build_enum|discriminate|exact Hst].
    intros h1' r Hb. eapply J_Rext; [eapply gR_build_enum; exact Hb|exact HJ]. }
  (* tables *)
  rewrite Forall_forall in Hg.
  destruct (phase_grows d KTable (step d) (build_table d) (ps_tables s)) with (h := ha) (h' := hb) (db := dba) as [HJb (dbb & osb & Hdbb & Lb & Lenb & Ob & Fb)]; [|exact HJa|exact Hdba|exact B1|].
  { intros bp h h' Hin HJ Hst. apply (add_built_grows d (build_table d bp) KTable h h' HJ); [|apply gdb_build_table, Hg, Hin| |discriminate|exact Hst].
    - intros h1' r Hb. exact (proj1 (build_table_keeps_J d bp h h1' r (Hg bp Hin) HJ Hb)).
    - intros hx hy t Hb. apply kind_of_tbl. eapply post_build_table_tbl; exact Hb. }
  (* groups *)
  destruct (phase_grows d KGroup (gstep d) (build_group d) (ps_groups s)) with (h := hb) (h' := hc) (db := dbb) as [HJc (dbc & osc & Hdbc & Lc & Lenc & Oc & Fc)]; [|exact HJb|exact Hdbb|exact C1|].
  { intros bp h h' _ HJ Hst. apply (add_built_grows d (build_group d bp) KGroup h h' HJ); [|apply gdb_of_Rext, gR_build_group|apply post_build_group|discriminate|exact Hst].
    intros h1' r Hb. eapply J_Rext; [eapply gR_build_group; exact Hb|exact HJ]. }
  (* sticky notes *)
  destruct (phase_grows d KSticky (sstep d) build_sticky (ps_stickies s)) with (h := hc) (h' := hd) (db := dbc) as [HJd (dbd & osd & Hdbd & Ld & Lend & Od & Fd)]; [|exact HJc|exact Hdbc|exact D1|].
  { intros bp h h' _ HJ Hst. apply (add_built_grows d (build_sticky bp) KSticky h h' HJ); [|apply gdb_of_Rext, gR_build_sticky|apply post_build_sticky|discriminate|exact Hst].
    intros h1' r Hb. eapply J_Rext; [eapply gR_build_sticky; exact Hb|exact HJ]. }
  (* project *)
  assert (P : J d he /\ exists dbe, h_database he d = Some dbe /\ (forall k', k' <> KProject -> klist k' dbe = klist k' dbd) /\
                                 (d_project dbe = None <-> ps_project s = None /\ d_project dbd = None)).
  { unfold pstep in E1. destruct (ps_project s) as [bp|].
    - apply bindM_inv in E1 as [[e [_ E1]]|[x [hp [X1 X2]]]]; [discriminate E1|].
      assert (HJ1 : J d hp) by (eapply J_Rext; [eapply gR_build_project; exact X1|exact HJd]).
      split; [exact (proj1 (pres_db_add d x _ _ _ HJ1 Logic.I X2))|].
      destruct (J_InvDB _ _ HJ1) as (db1 & ID1 & Hdb1). pose proof (gdb_of_Rext d _ (gR_build_project bp) _ _ _ X1 dbd Hdbd) as Hdb1'. rewrite Hdb1 in Hdb1'. inversion Hdb1'; subst db1.
      destruct (db_add_step hp d dbd x ID1) as [[e R]|(db' & h2 & ob & k0 & Hrun & ID' & Ho & Hk & _ & _ & Hl2 & [Hoth _] & _)].
      { rewrite R in X2. discriminate X2. }
      rewrite Hrun in X2. inversion X2; subst h2.
      destruct (post_build_project _ _ _ _ X1) as (ob' & Hn & Hk'). rewrite Ho in Hn. inversion Hn; subst ob'. rewrite Hk in Hk'. inversion Hk'; subst k0.
      exists db'. split; [destruct ID' as [[A _ _ _ _ _] _ _]; exact A|]. split; [exact Hoth|].
      pose proof (Hl2 eq_refl) as L2. cbn in L2. split; [intros Hn0; rewrite Hn0 in L2; discriminate L2|intros [Hn0 _]; discriminate Hn0].
    - inversion E1; subst. split; [exact HJd|]. exists dbd. split; [exact Hdbd|]. split; [reflexivity|]. tauto. }
  destruct P as [HJe (dbe & Hdbe & Oe & Pe)].
  (* references *)
  destruct (phase_grows d KRef (rstep d) (build_reference d) (ps_refs s)) with (h := he) (h' := h1) (db := dbe) as [HJf (dbf & osf & Hdbf & Lf & Lenf & Of & Ff)]; [|exact HJe|exact Hdbe|exact F1|].
  { intros bp h h' _ HJ Hst. apply (add_built_grows d (build_reference d bp) KRef h h' HJ); [|apply gdb_of_Rext, gR_build_reference|apply post_build_reference|discriminate|exact Hst].
    intros h1' r Hb. eapply J_Rext; [eapply gR_build_reference; exact Hb|exact HJ]. }
  (* the enum phase again, object by object, with the frame theorem *)
  assert (Run : build_rest s d (h0 ++ [ODatabase db0]) = (h1, Ok d)).
  { rewrite build_database_split in H. unfold bindM in H. unfold new_database, alloc in H. fold d in H. fold db0 in H. exact H. }
  destruct s as [tables refs enums groups proj stickies]. cbn [ps_enums ps_tables ps_refs ps_groups ps_project ps_stickies] in *.
  assert (Hdl : d < length (h0 ++ [ODatabase db0])) by (rewrite app_length; cbn; unfold d; lia).
  destruct (enum_phase_final d tables refs groups proj stickies enums _ h1 d db0 Hdl Hdb0 eq_refl Run) as (es & ha' & dba' & Hit & Hdba' & Hen & FE).
  rewrite A1 in Hit. inversion Hit; subst ha'. rewrite Hdba in Hdba'. inversion Hdba'; subst dba'.
  exists dbf. split; [exact Hdbf|].
  assert (En : d_enums dbf = es).
  { change (klist KEnum dbf = es). rewrite (Of KEnum ltac:(discriminate)), (Oe KEnum ltac:(discriminate)), (Od KEnum ltac:(discriminate)), (Oc KEnum ltac:(discriminate)), (Ob KEnum ltac:(discriminate)).
    change (d_enums dba = es). rewrite Hen. reflexivity. }
  rewrite En. exact FE.
Qed.

Theorem parser_parse_enums source allow sq dq h0 h1 d :
  WW h0 -> (forall t tb, h_table h0 t = Some tb -> NoDup (names_of tb)) ->
  (forall st, blueprints_of source allow h0 = (h0, Ok st) -> Forall good_table_bp (ps_tables st)) ->
  parser_parse source allow sq dq h0 = (h1, Ok d) ->
  exists st db, blueprints_of source allow h0 = (h0, Ok st) /\ h_database h1 d = Some db /\ Forall2 (enum_holds h1 d) (ps_enums st) (d_enums db).
Proof.
  intros HW Hgood Hbp H. unfold parser_parse in H. apply bindM_inv in H as [[e [_ H]]|[st [hx [H1 H2]]]]; [discriminate H|].
  pose proof (ro_blueprints_of _ _ _ _ _ H1) as ->.
  destruct (build_database_enums _ _ _ _ _ _ _ HW Hgood (Hbp st H1) H2) as (db & Hdb & C).
  exists st, db. split; [exact H1|]. split; [exact Hdb|exact C].
Qed.
