(* RuleFacts.v — C06: each rule violation is answered by the error that belongs to the rule (stated on
   the container / blueprint level, where the rules are enforced); C05: resolution facts; C08: totality
   of the text helpers; C14: which comment is stored. *)
From PyDBML Require Import PyStr Py Heap Classes Database Tools PP Actions Build MonadFacts GenClasses GenTie.
Import ListNotations.

(* ------------------------------------------------------------------ C06 *)
Lemma get_database_ok h d db : h_database h d = Some db -> get_database d h = (h, Ok db).
Proof.
  unfold h_database, get_database, bindM, lookup. destruct (nth_error h d) as [[]|]; try discriminate.
  intros H. inversion H; subst. reflexivity.
Qed.
Lemma get_table_ok h t tb : h_table h t = Some tb -> get_table t h = (h, Ok tb).
Proof.
  unfold h_table, get_table, bindM, lookup. destruct (nth_error h t) as [[]|]; try discriminate.
  intros H. inversion H; subst. reflexivity.
Qed.
Lemma get_enum_ok h t tb : h_enum h t = Some tb -> get_enum t h = (h, Ok tb).
Proof.
  unfold h_enum, get_enum, bindM, lookup. destruct (nth_error h t) as [[]|]; try discriminate.
  intros H. inversion H; subst. reflexivity.
Qed.
Lemma get_group_ok h t tb : h_group h t = Some tb -> get_group t h = (h, Ok tb).
Proof.
  unfold h_group, get_group, bindM, lookup. destruct (nth_error h t) as [[]|]; try discriminate.
  intros H. inversion H; subst. reflexivity.
Qed.
Lemma get_reference_ok h t tb : h_reference h t = Some tb -> get_reference t h = (h, Ok tb).
Proof.
  unfold h_reference, get_reference, bindM, lookup. destruct (nth_error h t) as [[]|]; try discriminate.
  intros H. inversion H; subst. reflexivity.
Qed.

(* two tables with the same schema and name / a reused alias / an alias equal to an existing key *)
Lemma add_table_name_clash h d db o t :
  h_database h d = Some db -> h_table h o = Some t ->
  (dict_has (table_full_name t) (d_table_dict db) = true
   \/ (truthy (t_alias t) = true /\ dict_has (fstr (t_alias t)) (d_table_dict db) = true)) ->
  db_add_table d o h = (h, Raise EDatabaseValidation).
Proof.
  intros Hd Ht Hc. unfold db_add_table, bindM. rewrite (get_database_ok _ _ _ Hd), (get_table_ok _ _ _ Ht). cbn.
  destruct (list_has (table_eqb h) o (d_tables db)); [reflexivity|].
  destruct (dict_has (table_full_name t) (d_table_dict db)) eqn:E1; [reflexivity|].
  destruct Hc as [Hc|[Ha Hc]]; [discriminate|]. rewrite Ha, Hc. reflexivity.
Qed.

Lemma add_enum_clash h d db o e :
  h_database h d = Some db -> h_enum h o = Some e ->
  existsb (fun e2 => match h_enum h e2 with
                     | Some ee => ostr_eqb (e_name ee) (e_name e) && ostr_eqb (e_schema ee) (e_schema e)
                     | None => false end) (d_enums db) = true ->
  db_add_enum d o h = (h, Raise EDatabaseValidation).
Proof.
  intros Hd He Hc. unfold db_add_enum, bindM. rewrite (get_database_ok _ _ _ Hd), (get_enum_ok _ _ _ He). cbn.
  destruct (list_has (enum_eqb h) o (d_enums db)); [reflexivity|]. rewrite Hc. reflexivity.
Qed.

Lemma add_group_clash h d db o g :
  h_database h d = Some db -> h_group h o = Some g ->
  existsb (fun g2 => match h_group h g2 with Some gg => str_eqb (g_name gg) (g_name g) | None => false end) (d_table_groups db) = true ->
  db_add_table_group d o h = (h, Raise EDatabaseValidation).
Proof.
  intros Hd Hg Hc. unfold db_add_table_group, bindM. rewrite (get_database_ok _ _ _ Hd), (get_group_ok _ _ _ Hg). cbn.
  destruct (list_has Nat.eqb o (d_table_groups db)); [reflexivity|]. rewrite Hc. reflexivity.
Qed.

(* a repeated reference: equal up to the inline flag (and the owner), however it was written *)
Lemma add_reference_duplicate h d db o r :
  h_database h d = Some db -> h_reference h o = Some r ->
  list_has (ref_eqb h) o (d_refs db) = true ->
  db_add_reference d o h = (h, Raise EDatabaseValidation) \/ db_add_reference d o h = (h, Raise ETypeError).
Proof.
  intros Hd Hr Hc. unfold db_add_reference, bindM. rewrite (get_database_ok _ _ _ Hd), (get_reference_ok _ _ _ Hr). cbn.
  destruct (r_col1 r), (r_col2 r); try (right; reflexivity).
  left. match goal with |- context [existsb ?f ?l] => destruct (existsb f l) end; [rewrite Hc|]; reflexivity.
Qed.

(* reference equality does not look at the inline flag nor at the owning database *)
Lemma ref_eqb_ignores_inline_and_owner h a b ra rb :
  h_reference h a = Some ra -> h_reference h b = Some rb ->
  r_type ra = r_type rb -> r_col1 ra = r_col1 rb -> r_col2 ra = r_col2 rb -> r_name ra = r_name rb ->
  r_comment ra = r_comment rb -> r_on_update ra = r_on_update rb -> r_on_delete ra = r_on_delete rb ->
  (forall c, column_eqb h c c = true) ->
  ref_eqb h a b = true.
Proof.
  intros Ha Hb H1 H2 H3 H4 H5 H6 H7 Hrefl. unfold ref_eqb. rewrite Ha, Hb, H1, H2, H3, H4, H5, H6, H7.
  assert (S : forall o, ostr_eqb o o = true).
  { intros [s|]; [|reflexivity]. cbn. induction s as [|x s IH]; [reflexivity|]. cbn. rewrite N.eqb_refl. exact IH. }
  assert (L : forall l, opt_eqb (list_eqb (column_eqb h)) l l = true).
  { intros [l|]; [|reflexivity]. cbn. induction l as [|x l IH]; [reflexivity|]. cbn. rewrite Hrefl. exact IH. }
  rewrite !S, !L. apply orb_true_r.
Qed.

Lemma dont_compare_reference_fields :
  dict_get (s2l "Reference") gen_dont_compare_fields = Some [s2l "database"; s2l "_inline"].
Proof. reflexivity. Qed.

(* unknown table / column *)
Lemma locate_table_missing h d db (schema name : pystr) :
  h_database h d = Some db ->
  dict_get name (d_table_dict db) = None -> dict_get (schema ++ 46%N :: name) (d_table_dict db) = None ->
  locate_table d schema name h = (h, Raise ETableNotFound).
Proof.
  intros Hd H1 H2. unfold locate_table, bindM. rewrite (get_database_ok _ _ _ Hd). cbv beta iota. rewrite H1, H2. reflexivity.
Qed.

Lemma table_getitem_missing h t tb s :
  h_table h t = Some tb ->
  find (fun c => match h_column h c with Some cc => ostr_eqb (c_name cc) (Some s) | None => false end) (t_columns tb) = None ->
  table_getitem t (KStr s) h = (h, Raise EColumnNotFound).
Proof.
  intros Ht Hf. unfold table_getitem, bindM. rewrite (get_table_ok _ _ _ Ht). cbn. rewrite Hf. reflexivity.
Qed.

(* a table without columns: the parse action of the table rule raises SyntaxError *)
Lemma empty_table_rejected src loc r :
  (exists n, pr_getitem r (K "name") = Some n) ->
  pr_getitem r (K "settings") = None -> pr_getitem r (K "alias") = None -> pr_getitem r (K "note") = None ->
  pr_getitem r (K "indexes") = None -> pr_getitem r (K "columns") = None ->
  act 13 src loc r = ARRaise ESyntaxError.
Proof.
  intros [n Hn] H1 H2 H3 H4 H5. unfold act, getv. rewrite Hn, H1, H2, H3, H4, H5. cbn [option_map].
  destruct (option_map ptok_to_pyv (pr_getitem r (K "schema"))); cbn;
  destruct (comment_before r); cbn; destruct (properties_of r); reflexivity.
Qed.

(* ------------------------------------------------------------------ C05 *)
(* a located table is a value of the database's name index; a resolved column is one of that table's own columns *)
Lemma locate_table_in_dict h d db (schema name : pystr) t h' :
  h_database h d = Some db -> locate_table d schema name h = (h', Ok t) ->
  h' = h /\ (dict_get name (d_table_dict db) = Some t \/ dict_get (schema ++ 46%N :: name) (d_table_dict db) = Some t).
Proof.
  intros Hd. unfold locate_table, bindM. rewrite (get_database_ok _ _ _ Hd). cbv beta iota.
  destruct (dict_get name (d_table_dict db)) eqn:E1.
  - intros H. inversion H; subst. auto.
  - destruct (dict_get (schema ++ 46%N :: name) (d_table_dict db)) eqn:E2; intros H; inversion H; subst. auto.
Qed.

Lemma table_getitem_is_own_column h t tb k c h' :
  h_table h t = Some tb -> table_getitem t k h = (h', Ok c) -> h' = h /\ In c (t_columns tb).
Proof.
  intros Ht. unfold table_getitem, bindM. rewrite (get_table_ok _ _ _ Ht). cbn. destruct k as [z|s].
  - destruct (py_index (length (t_columns tb)) z) as [n|]; [|intros H; inversion H].
    destruct (nth_error (t_columns tb) n) eqn:E; intros H; inversion H; subst. split; [reflexivity|]. eapply nth_error_In; eauto.
  - cbn. match goal with |- context [find ?f ?l] => destruct (find f l) eqn:E end; intros H; inversion H; subst.
    split; [reflexivity|]. apply find_some in E. tauto.
Qed.

(* ------------------------------------------------------------------ C08 *)
(* the note normalisation is total (after the repair of D3): whitespace-only and empty notes included *)
Lemma preformat_total t : exists v, preformat t = Ok v.
Proof.
  unfold preformat, remove_indentation. destruct (strip_empty_lines t); [eexists; reflexivity|].
  match goal with |- context [list_min ?l] => destruct (list_min l) end; eexists; reflexivity.
Qed.

(* doublequote_string raises only for text with a line feed *)
Lemma doublequote_total s : mem cLF s = false -> exists v, doublequote_string s = Ok v.
Proof. intros H. unfold doublequote_string. rewrite H. eexists; reflexivity. Qed.

(* ------------------------------------------------------------------ C14 *)
(* comments: the trailing comment wins over the block above; the block above is used otherwise
   (reference rule; the column and index rules share the same code path) *)
Definition comment_of (v : action_result) : option pyv :=
  match v with ARVal (PVBlue _ d) => dget (K "comment") d | _ => None end.
