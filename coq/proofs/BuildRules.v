(* BuildRules.v — C06 at the level of documents: whatever else it contains, a document with two tables of the same schema
   and name never yields a database.  The first table's full name stays in the name index through every later step of the
   build (names of tables never change, the index only grows), so the second add_table is refused and the error leaves
   every enclosing loop. *)
From PyDBML Require Import PyStr Py Heap Classes Database Tools PP Actions Build GenClasses GenGrammar Entry MonadFacts ToolsFacts RuleFacts ContainerInv ContainerFull TableInv BuildInv BuildLinks.
From Coq Require Import Lia.
Import ListNotations.

(* ====================== D1 ====================== *)

(* ---- C06 at the level of documents: two table blueprints with the same schema and name never build ---- *)
(* the keys under which a table blueprint's table is registered: schema.name and, if present, the alias *)
Definition bp_keys (bp : pyv) : list pystr :=
  match bp with
  | PVBlue 7 dd => (bp_schema dd ++ 46%N :: fstr (fstr_of dd "name")) ::
                   (if truthy (or_none (fstr_of dd "alias")) then [fstr (or_none (fstr_of dd "alias"))] else [])
  | _ => []
  end.

(* tables keep their keys *)
Definition Rn (h h' : heap) : Prop :=
  forall t tb, h_table h t = Some tb -> exists tb', h_table h' t = Some tb' /\ names_of tb' = names_of tb.
Lemma Rn_refl h : Rn h h. Proof. intros t tb H. eauto. Qed.
Lemma Rn_trans a b c : Rn a b -> Rn b c -> Rn a c.
Proof. intros H1 H2 t tb H. destruct (H1 _ _ H) as (tb1 & A & B). destruct (H2 _ _ A) as (tb2 & C & D). exists tb2. split; [exact C|congruence]. Qed.
Lemma Rn_Rext h h' : Rext h h' -> Rn h h'.
Proof. intros R t tb H. destruct (Rext_table_fwd _ _ _ _ R H) as (tb' & A & _ & _ & _ & E). exists tb'. split; [exact A|exact E]. Qed.
Lemma Rn_dview h h' : same_dview h h' -> Rn h h'.
Proof.
  intros S t tb H. destruct (same_dview_table _ _ _ _ (same_dview_sym _ _ S) H) as (tb' & A & _ & E).
  exists tb'. split; [exact A|exact E].
Qed.

Definition nview (ob : obj) : option (list pystr) := match ob with OTable tb => Some (names_of tb) | _ => None end.
Lemma Rn_store h o ob ob' : nth_error h o = Some ob -> nview ob' = nview ob -> Rn h (replace_nth o ob' h).
Proof.
  intros Ho E t tb H. destruct (Nat.eq_dec o t) as [->|N].
  - apply h_table_nth in H. rewrite Ho in H. inversion H; subst ob. destruct ob'; try discriminate E. cbn in E. inversion E.
    exists t0. split; [unfold h_table; rewrite (nth_replace_same' _ _ _ _ Ho); reflexivity|congruence].
  - exists tb. split; [|reflexivity]. unfold h_table in *. rewrite nth_replace_other by exact N. exact H.
Qed.
Lemma gn_set_obj_database o v : guar Rn (set_obj_database o v).
Proof.
  intros h h' r H. unfold set_obj_database, bindM, lookup in H. destruct (nth_error h o) as [ob|] eqn:E.
  - destruct ob; inversion H; subst; try apply Rn_refl; (eapply Rn_store; [exact E|reflexivity]).
  - inversion H; subst. apply Rn_refl.
Qed.
Lemma gn_upd_db d f : guar Rn (upd_db d f).
Proof.
  intros h h' r H. unfold upd_db, get_database, bindM, lookup in H. destruct (nth_error h d) as [ob|] eqn:E.
  - destruct ob; inversion H; subst; try apply Rn_refl. eapply Rn_store; [exact E|reflexivity].
  - inversion H; subst. apply Rn_refl.
Qed.
Ltac gn :=
  repeat first [ apply gn_set_obj_database | apply gn_upd_db
               | apply (g_ro _ Rn_refl); solve [ro_any]
               | apply (g_bind _ Rn_trans); [|intros ?]
               | match goal with |- guar _ (match ?x with _ => _ end) => destruct x end
               | match goal with |- guar _ (if ?x then _ else _) => destruct x end ].
Lemma gn_db_add d o : guar Rn (db_add d o).
Proof.
  unfold db_add. apply (g_bind _ Rn_trans); [apply (g_ro _ Rn_refl), ro_lookup|intros ob].
  destruct ob; try (apply (g_ro _ Rn_refl), ro_raise).
  - unfold db_add_table. gn.
  - unfold db_add_reference. gn.
  - unfold db_add_enum. gn.
  - unfold db_add_sticky_note. gn.
  - unfold db_add_project, db_delete_project. gn.
  - unfold db_add_table_group. gn.
Qed.
Lemma gn_of_Rext {A} (m : M A) : guar Rext m -> guar Rn m.
Proof. intros G h h' r H. apply Rn_Rext. eapply G; eauto. Qed.
Lemma gn_of_dview {A} (m : M A) : guar same_dview m -> guar Rn m.
Proof. intros G h h' r H. apply Rn_dview. eapply G; eauto. Qed.

Definition named (nm : pystr) (h : heap) (t : oid) : Prop := exists tb, h_table h t = Some tb /\ In nm (names_of tb).
Lemma named_Rn nm h h' t : Rn h h' -> named nm h t -> named nm h' t.
Proof. intros R (tb & A & B). destruct (R _ _ A) as (tb' & A' & B'). exists tb'. split; [exact A'|congruence]. Qed.

Lemma gn_upd_index i f : guar Rn (upd_index i f).
Proof.
  intros h h' r H. unfold upd_index, get_index, bindM, lookup in H. destruct (nth_error h i) as [ob|] eqn:E.
  - destruct ob; inversion H; subst; try apply Rn_refl. eapply Rn_store; [exact E|reflexivity].
  - inversion H; subst. apply Rn_refl.
Qed.

(* build_table: every step keeps names; the returned table carries the blueprint's full name *)
Lemma gn_build_table_body d t cols idxs :
  guar Rn (do!! iterM (fun cb => do! c <- build_column d cb ;; table_add_column t c) cols ;;
           do!! iterM (fun ib => do! i <- build_index ib ;; do! subs <- mapMM (subject_of t) (match ib with PVBlue 6 idd => flist_of idd "subject_names" | _ => [] end) ;;
                                 do!! upd_index i (set_subjects subs) ;; table_add_index t i) idxs ;;
           ret t).
Proof.
  apply (g_bind _ Rn_trans); [|intros _].
  { apply (g_iterM _ Rn_refl Rn_trans). intros cb. apply (g_bind _ Rn_trans); [apply gn_of_Rext, gR_build_column|intros c].
    apply gn_of_dview, gd_table_add_column. }
  apply (g_bind _ Rn_trans); [|intros _; apply (g_ro _ Rn_refl), ro_ret].
  apply (g_iterM _ Rn_refl Rn_trans). intros ib. apply (g_bind _ Rn_trans); [apply gn_of_Rext, gR_build_index|intros i].
  apply (g_bind _ Rn_trans); [apply gn_of_Rext, (g_mapMM _ Rext_refl Rext_trans), gR_subject_of|intros subs].
  apply (g_bind _ Rn_trans); [apply gn_upd_index|intros _]. apply gn_of_dview, gd_table_add_index.
Qed.

Lemma build_table_named d bp nm h h' t : good_table_bp bp -> In nm (bp_keys bp) -> build_table d bp h = (h', Ok t) -> named nm h' t.
Proof.
  intros Hg Hnm H. destruct bp as [s0|b0|z0|f0| |d0|l0|tag dd]; try contradiction.
  destruct (N.eq_dec tag 7) as [->|Nt].
  2:{ exfalso. destruct tag as [|p]; [contradiction|].
      destruct p as [q|q|]; try contradiction. destruct q as [r0|r0|]; try contradiction. destruct r0; try contradiction; try congruence. }
  unfold build_table in H.
  apply bindM_inv in H as [[e [_ H]]|[nt [h1 [H1 H]]]]; [discriminate H|].
  apply bindM_inv in H as [[e [_ H]]|[t0 [h2 [H2 H]]]]; [discriminate H|].
  (* the table as allocated *)
  assert (N2 : named nm h2 t0).
  { unfold new_table in H2. cbn [iterM] in H2.
    apply bindM_inv in H2 as [[e [_ H2]]|[n [hn [_ H2]]]]; [discriminate H2|].
    unfold bindM at 1 in H2. unfold alloc in H2. cbv beta iota in H2.
    apply bindM_inv in H2 as [[e [_ H2]]|[u1 [hx [Hx H2]]]]; [discriminate H2|]. unfold ret in Hx. injection Hx as E1 _. subst hx.
    apply bindM_inv in H2 as [[e [_ H2]]|[u2 [hy [Hy H2]]]]; [discriminate H2|]. unfold ret in Hy. injection Hy as E2 _. subst hy.
    apply bindM_inv in H2 as [[e [_ H2]]|[u3 [hz [Hz H2]]]]; [discriminate H2|]. unfold ret in H2. injection H2 as E3 E4. subst.
    eapply named_Rn; [apply Rn_Rext; eapply gR_set_note_parent; eauto|].
    eexists. split; [unfold h_table; rewrite nth_error_app2 by lia; rewrite Nat.sub_diag; reflexivity|]. exact Hnm. }
  pose proof (gn_build_table_body d t0 _ _ _ _ _ H) as R.
  assert (t = t0).
  { apply bindM_inv in H as [[e [_ H]]|[u [hx [_ H]]]]; [discriminate H|]. apply bindM_inv in H as [[e [_ H]]|[u' [hy [_ H]]]]; [discriminate H|].
    unfold ret in H. inversion H. reflexivity. }
  subst t0. eapply named_Rn; eauto.
Qed.

(* ====================== D2 ====================== *)

(* the database value is not touched while a table is being built *)
Definition Rd (d : oid) (h h' : heap) : Prop := forall db, h_database h d = Some db -> h_database h' d = Some db.
Lemma Rd_refl d h : Rd d h h. Proof. intros db H; exact H. Qed.
Lemma Rd_trans d a b c : Rd d a b -> Rd d b c -> Rd d a c. Proof. intros H1 H2 db H. auto. Qed.
Lemma gdb_of_Rext {A} d (m : M A) : guar Rext m -> guar (Rd d) m.
Proof. intros G h h' r H db Hd. eapply Rext_db; [eapply G; eauto|exact Hd]. Qed.
Lemma gdb_of_dview {A} d (m : M A) : guar same_dview m -> guar (Rd d) m.
Proof. intros G h h' r H db Hd. eapply same_dview_db; [eapply G; eauto|exact Hd]. Qed.

Lemma gdb_upd_index d i f : guar (Rd d) (upd_index i f).
Proof.
  intros h h' r H db Hdb. unfold upd_index, get_index, bindM, lookup in H. destruct (nth_error h i) as [ob|] eqn:E.
  - destruct ob; inversion H; subst; try exact Hdb. rewrite (h_database_replace_nondb _ _ _ _ _ E); [exact Hdb|reflexivity|reflexivity].
  - inversion H; subst. exact Hdb.
Qed.

Lemma gdb_build_table d bp : good_table_bp bp -> guar (Rd d) (build_table d bp).
Proof.
  intros Hg. unfold build_table.
  destruct bp as [s0|b0|z0|f0| |d0|l0|tag dd]; try (apply (g_ro _ (Rd_refl d)), ro_stuck).
  destruct (N.eq_dec tag 7) as [->|Nt].
  2:{ destruct tag as [|p]; [apply (g_ro _ (Rd_refl d)), ro_stuck|].
      destruct p as [q|q|]; try (apply (g_ro _ (Rd_refl d)), ro_stuck). destruct q as [r0|r0|]; try (apply (g_ro _ (Rd_refl d)), ro_stuck).
      destruct r0; try (apply (g_ro _ (Rd_refl d)), ro_stuck). congruence. }
  apply (g_bind _ (Rd_trans d)); [apply (g_ro _ (Rd_refl d)), ro_lift|intros nt].
  apply (g_bind _ (Rd_trans d)); [apply gdb_of_Rext, new_table_empty_Rext; exact Hg|intros t].
  apply (g_bind _ (Rd_trans d)); [|intros _].
  { apply (g_iterM _ (Rd_refl d) (Rd_trans d)). intros cb. apply (g_bind _ (Rd_trans d)); [apply gdb_of_Rext, gR_build_column|intros c].
    apply gdb_of_dview, gd_table_add_column. }
  apply (g_bind _ (Rd_trans d)); [|intros _; apply (g_ro _ (Rd_refl d)), ro_ret].
  apply (g_iterM _ (Rd_refl d) (Rd_trans d)). intros ib. apply (g_bind _ (Rd_trans d)); [apply gdb_of_Rext, gR_build_index|intros i].
  apply (g_bind _ (Rd_trans d)); [apply gdb_of_Rext, (g_mapMM _ Rext_refl Rext_trans), gR_subject_of|intros subs].
  apply (g_bind _ (Rd_trans d)); [apply gdb_upd_index|intros _]. apply gdb_of_dview, gd_table_add_index.
Qed.

Definition step (d : oid) (bp : pyv) : M unit := do! t <- build_table d bp ;; db_add d t.
Definition NameIn (nm : pystr) (d : oid) (h : heap) : Prop :=
  exists db t, h_database h d = Some db /\ dict_get nm (d_table_dict db) = Some t.

Lemma iterM_app_ok {A} (f : A -> M unit) a b : forall h h' u, iterM f (a ++ b) h = (h', Ok u) ->
  exists hm, iterM f a h = (hm, Ok tt) /\ iterM f b hm = (h', Ok u).
Proof.
  induction a as [|x a IH]; intros h h' u H; cbn [app iterM] in *.
  - exists h. split; [reflexivity|exact H].
  - apply bindM_inv in H as [[e [_ H]]|[[] [h1 [H1 H]]]]; [discriminate H|].
    destruct (IH _ _ _ H) as (hm & A1 & A2). exists hm. split; [|exact A2]. unfold bindM. rewrite H1. exact A1.
Qed.

Lemma J_InvDB d h : J d h -> exists db, InvDB h d db /\ h_database h d = Some db.
Proof. intros (db & ID & _). exists db. split; [exact ID|]. destruct ID as [[A _ _ _ _ _] _ _]. exact A. Qed.

(* a successful step leaves the new table's full name in the index *)
Lemma step_establishes d bp nm h h' u : J d h -> good_table_bp bp -> In nm (bp_keys bp) -> step d bp h = (h', Ok u) -> NameIn nm d h'.
Proof.
  intros HJ Hg Hnm H. unfold step in H. apply bindM_inv in H as [[e [_ H]]|[t [h1 [H1 H2]]]]; [discriminate H|].
  destruct (build_table_keeps_J d bp h h1 (Ok t) Hg HJ H1) as [HJ1 _]. pose proof (build_table_named d bp nm h h1 t Hg Hnm H1) as (tb & Ht & Hn).
  destruct (J_InvDB _ _ HJ1) as (db1 & ID1 & Hdb1).
  destruct (db_add_step h1 d db1 t ID1) as [[e R]|(db' & h2 & ob & k & Hrun & ID' & Ho & Hk & Hm & Hl1 & _)].
  { rewrite R in H2. discriminate H2. }
  rewrite Hrun in H2. inversion H2; subst h2. pose proof (h_table_nth _ _ _ Ht) as Htn. rewrite Htn in Ho. inversion Ho; subst ob. cbn in Hk. inversion Hk; subst k.
  assert (Hin : In t (d_tables db')) by (change (In t (klist KTable db')); rewrite (Hl1 ltac:(discriminate)); apply in_or_app; right; left; reflexivity).
  destruct ID' as [[Idb' _ _ _ If' _] _ _]. destruct (If' t Hin) as (tb' & Ht' & _ & Hkeys).
  destruct (gn_db_add d t _ _ _ Hrun t tb Ht) as (tb'' & A & B). rewrite Ht' in A. inversion A; subst tb''.
  exists db', t. split; [exact Idb'|]. apply Hkeys. rewrite B. exact Hn.
Qed.

(* a later successful step keeps it there *)
Lemma step_keeps d bp nm h h' u : J d h -> good_table_bp bp -> NameIn nm d h -> step d bp h = (h', Ok u) -> NameIn nm d h'.
Proof.
  intros HJ Hg (db & t0 & Hdb & Hget) H. unfold step in H. apply bindM_inv in H as [[e [_ H]]|[t [h1 [H1 H2]]]]; [discriminate H|].
  destruct (build_table_keeps_J d bp h h1 (Ok t) Hg HJ H1) as [HJ1 _].
  pose proof (gdb_build_table d bp Hg _ _ _ H1 db Hdb) as Hdb1.
  destruct (J_InvDB _ _ HJ1) as (db1 & ID1 & Hdb1'). assert (db1 = db) by congruence. subst db1.
  destruct (db_add_step h1 d db t ID1) as [[e R]|(db' & h2 & ob & k & Hrun & ID' & _ & _ & _ & _ & _ & _ & Hdm)].
  { rewrite R in H2. discriminate H2. }
  rewrite Hrun in H2. inversion H2; subst h2. destruct ID' as [[Idb' _ _ _ _ _] _ _]. exists db', t0. split; [exact Idb'|apply Hdm; exact Hget].
Qed.

(* a second table with a name that is already in the index is refused *)
Lemma step_clashes d bp nm h h' u : J d h -> good_table_bp bp -> NameIn nm d h -> In nm (bp_keys bp) -> step d bp h <> (h', Ok u).
Proof.
  intros HJ Hg (db & t0 & Hdb & Hget) Hnm H. unfold step in H. apply bindM_inv in H as [[e [_ H]]|[t [h1 [H1 H2]]]]; [discriminate H|].
  pose proof (gdb_build_table d bp Hg _ _ _ H1 db Hdb) as Hdb1.
  pose proof (build_table_named d bp nm h h1 t Hg Hnm H1) as (tb & Ht & Hn).
  assert (Hhas : dict_has (table_full_name tb) (d_table_dict db) = true
                 \/ (truthy (t_alias tb) = true /\ dict_has (fstr (t_alias tb)) (d_table_dict db) = true)).
  { unfold names_of in Hn. destruct Hn as [E|Hn].
    - left. unfold dict_has. rewrite E, Hget. reflexivity.
    - right. destruct (truthy (t_alias tb)) eqn:Ea; [|destruct Hn]. destruct Hn as [E|[]]. split; [reflexivity|].
      unfold dict_has. rewrite E, Hget. reflexivity. }
  pose proof (add_table_name_clash h1 d db t tb Hdb1 Ht Hhas) as Hc.
  rewrite (db_add_dispatch h1 d t (OTable tb) (h_table_nth _ _ _ Ht)) in H2. rewrite Hc in H2. discriminate H2.
Qed.

(* ====================== D3 ====================== *)

Lemma pres_step d bp : good_table_bp bp -> pres d (fun _ => True) (step d bp).
Proof. intros Hg. apply pres_table_then_add. exact Hg. Qed.

Lemma iter_steps_J d l h h' u : Forall good_table_bp l -> J d h -> iterM (step d) l h = (h', Ok u) -> J d h'.
Proof.
  intros Hg HJ H. rewrite Forall_forall in Hg.
  destruct (pres_iterM_in d (fun _ => True) (step d) l (fun bp Hin => pres_step d bp (Hg bp Hin)) _ _ _ HJ Logic.I H) as [X _]. exact X.
Qed.

Lemma iter_steps_keep d nm l : forall h h' u, Forall good_table_bp l -> J d h -> NameIn nm d h -> iterM (step d) l h = (h', Ok u) -> NameIn nm d h'.
Proof.
  induction l as [|bp l IH]; intros h h' u Hg HJ HN H; cbn [iterM] in H.
  - inversion H; subst. exact HN.
  - inversion Hg as [|? ? Hg1 Hg2]; subst. apply bindM_inv in H as [[e [_ H]]|[[] [h1 [H1 H]]]]; [discriminate H|].
    eapply IH; [exact Hg2| |eapply step_keeps; eauto|exact H].
    destruct (pres_step d bp Hg1 _ _ _ HJ Logic.I H1) as [X _]. exact X.
Qed.

(* the tables phase of build_database cannot succeed on two blueprints with the same schema and name *)
Theorem tables_phase_rejects_duplicates d l1 bp1 l2 bp2 l3 nm h h' u :
  Forall good_table_bp (l1 ++ bp1 :: l2 ++ bp2 :: l3) -> In nm (bp_keys bp1) -> In nm (bp_keys bp2) -> J d h ->
  iterM (step d) (l1 ++ bp1 :: l2 ++ bp2 :: l3) h <> (h', Ok u).
Proof.
  intros Hg N1 N2 HJ H.
  apply Forall_app in Hg as [G1 Hg]. inversion Hg as [|? ? Gb1 Hg']; subst. apply Forall_app in Hg' as [G2 Hg'']. inversion Hg'' as [|? ? Gb2 G3]; subst.
  destruct (iterM_app_ok _ _ _ _ _ _ H) as (ha & A1 & A2).
  pose proof (iter_steps_J d l1 h ha tt G1 HJ A1) as HJa.
  cbn [iterM] in A2. apply bindM_inv in A2 as [[e [_ A2]]|[[] [hb [B1 A2]]]]; [discriminate A2|].
  pose proof (step_establishes d bp1 nm ha hb tt HJa Gb1 N1 B1) as HNb.
  destruct (pres_step d bp1 Gb1 _ _ _ HJa Logic.I B1) as [HJb _].
  destruct (iterM_app_ok _ _ _ _ _ _ A2) as (hc & C1 & C2).
  pose proof (iter_steps_J d l2 hb hc tt G2 HJb C1) as HJc.
  pose proof (iter_steps_keep d nm l2 hb hc tt G2 HJb HNb C1) as HNc.
  cbn [iterM] in C2. apply bindM_inv in C2 as [[e [_ C2]]|[[] [hd [D1 C2]]]]; [discriminate C2|].
  exact (step_clashes d bp2 nm hc hd tt HJc Gb2 HNc N2 D1).
Qed.

(* C06: whatever else the document contains, a document with two tables sharing a key — the same schema and name, the same alias,
   or the alias of one equal to the full name of the other — never yields a database *)
Theorem build_database_rejects_duplicate_tables s allow sq dq h0 h1 dd l1 bp1 l2 bp2 l3 nm :
  WW h0 -> (forall t tb, h_table h0 t = Some tb -> NoDup (names_of tb)) -> Forall good_table_bp (ps_tables s) ->
  ps_tables s = l1 ++ bp1 :: l2 ++ bp2 :: l3 -> In nm (bp_keys bp1) -> In nm (bp_keys bp2) ->
  build_database s allow sq dq h0 <> (h1, Ok dd).
Proof.
  intros HW Hgood Hg Hl N1 N2 H. unfold build_database in H. unfold bindM at 1 in H. unfold new_database, alloc in H. cbv beta iota in H.
  set (db0 := mkDatabase [] [] [] [] [] [] None allow sq dq) in *. set (d := length h0) in *.
  assert (HJ : J d (h0 ++ [ODatabase db0])).
  { exists db0. split; [apply fresh_database_full; exact Hgood|].
    intros k. eapply W_Rext; [|apply HW]. eapply (gR_alloc (ODatabase db0)); [exact Logic.I|reflexivity]. }
  apply bindM_inv in H as [[e [_ H]]|[u1 [ha [A1 H]]]]; [discriminate H|].
  assert (HJa : J d ha).
  { destruct (pres_iterM d (fun _ => True) (fun bp => do! e <- build_enum bp ;; db_add d e) (ps_enums s)
                (fun bp => pres_build_then_add d build_enum bp (gR_build_enum bp)) _ _ _ HJ Logic.I A1) as [X _]. exact X. }
  apply bindM_inv in H as [[e [_ H]]|[u2 [hb [B1 H]]]]; [discriminate H|].
  rewrite Hl in B1, Hg. destruct u2. exact (tables_phase_rejects_duplicates d l1 bp1 l2 bp2 l3 nm ha hb tt Hg N1 N2 HJa B1).
Qed.

(* for every source text *)
Theorem parser_rejects_duplicate_tables source allow sq dq h0 h1 d st l1 bp1 l2 bp2 l3 nm :
  WW h0 -> (forall t tb, h_table h0 t = Some tb -> NoDup (names_of tb)) ->
  blueprints_of source allow h0 = (h0, Ok st) -> Forall good_table_bp (ps_tables st) ->
  ps_tables st = l1 ++ bp1 :: l2 ++ bp2 :: l3 -> In nm (bp_keys bp1) -> In nm (bp_keys bp2) ->
  parser_parse source allow sq dq h0 <> (h1, Ok d).
Proof.
  intros HW Hgood Hb Hg Hl N1 N2 H. unfold parser_parse, bindM in H. rewrite Hb in H.
  exact (build_database_rejects_duplicate_tables st allow sq dq h0 h1 d l1 bp1 l2 bp2 l3 nm HW Hgood Hg Hl N1 N2 H).
Qed.

(* ====================== F1: enums ====================== *)

(* ---- two enum blueprints with the same schema and name never build ---- *)
Definition bp_enum_key (bp : pyv) : option (option pystr * option pystr) :=
  match bp with
  | PVBlue 9 dd => Some (fstr_of dd "name", Some (match fstr_of dd "schema" with Some s => s | None => K "public" end))
  | _ => None
  end.

(* enums keep their name and schema *)
Definition Re (h h' : heap) : Prop :=
  forall e en, h_enum h e = Some en -> exists en', h_enum h' e = Some en' /\ e_name en' = e_name en /\ e_schema en' = e_schema en.
Lemma Re_refl h : Re h h. Proof. intros e en H. eauto. Qed.
Lemma Re_trans a b c : Re a b -> Re b c -> Re a c.
Proof. intros H1 H2 e en H. destruct (H1 _ _ H) as (e1 & A & B & C). destruct (H2 _ _ A) as (e2 & D & E & F). exists e2. repeat split; congruence. Qed.

Definition eview (ob : obj) : option (option pystr * option pystr) := match ob with OEnum en => Some (e_name en, e_schema en) | _ => None end.
Lemma h_enum_nth h c cc : h_enum h c = Some cc <-> nth_error h c = Some (OEnum cc).
Proof. unfold h_enum. destruct (nth_error h c) as [[]|]; split; intros H; try discriminate; inversion H; reflexivity. Qed.
Lemma Re_store h o ob ob' : nth_error h o = Some ob -> eview ob' = eview ob -> Re h (replace_nth o ob' h).
Proof.
  intros Ho E e en H. destruct (Nat.eq_dec o e) as [->|N].
  - apply h_enum_nth in H. rewrite Ho in H. inversion H; subst ob. destruct ob'; try discriminate E. cbn in E. inversion E.
    exists e0. split; [unfold h_enum; rewrite (nth_replace_same' _ _ _ _ Ho); reflexivity|]. split; congruence.
  - exists en. split; [|split; reflexivity]. unfold h_enum in *. rewrite nth_replace_other by exact N. exact H.
Qed.
Lemma Re_app h ob : Re h (h ++ [ob]).
Proof.
  intros e en H. exists en. split; [|split; reflexivity]. unfold h_enum in *. rewrite nth_error_app1; [exact H|].
  destruct (nth_error h e) eqn:E; [eapply nth_some_lt; eauto|discriminate].
Qed.

(* every primitive step of the enum phase *)
Lemma ge_alloc ob : guar Re (alloc ob). Proof. intros h h' r H. unfold alloc in H. inversion H; subst. apply Re_app. Qed.
Lemma ge_set_note_parent n p : guar Re (set_note_parent n p).
Proof.
  intros h h' r H. unfold set_note_parent, get_note, bindM, lookup in H. destruct (nth_error h n) as [ob|] eqn:E.
  - destruct ob; inversion H; subst; try apply Re_refl. eapply Re_store; [exact E|reflexivity].
  - inversion H; subst. apply Re_refl.
Qed.
Lemma ge_enum_store e f :
  guar Re (do! x <- get_enum e ;;
           match e_items x with
           | Some its => store e (OEnum (mkEnum (e_database x) (e_name x) (e_schema x) (e_comment x) (Some (f its))))
           | None => raise EAttributeError
           end).
Proof.
  intros h h' r H. unfold get_enum, bindM, lookup in H.
  destruct (nth_error h e) as [[t|c|i|rf|en|ei|n|s|x|p|g|d]|] eqn:E; try (inversion H; subst; apply Re_refl).
  cbv beta iota in H. unfold ret in H. destruct (e_items en); inversion H; subst; try apply Re_refl.
  eapply Re_store; [exact E|reflexivity].
Qed.
Lemma ge_set_obj_database o v : guar Re (set_obj_database o v).
Proof.
  intros h h' r H. unfold set_obj_database, bindM, lookup in H. destruct (nth_error h o) as [ob|] eqn:E.
  - destruct ob; inversion H; subst; try apply Re_refl; (eapply Re_store; [exact E|reflexivity]).
  - inversion H; subst. apply Re_refl.
Qed.
Lemma ge_upd_db d f : guar Re (upd_db d f).
Proof.
  intros h h' r H. unfold upd_db, get_database, bindM, lookup in H. destruct (nth_error h d) as [ob|] eqn:E.
  - destruct ob; inversion H; subst; try apply Re_refl. eapply Re_store; [exact E|reflexivity].
  - inversion H; subst. apply Re_refl.
Qed.

Ltac ge :=
  repeat first [ apply ge_alloc | apply ge_set_note_parent | apply ge_set_obj_database | apply ge_upd_db | apply ge_enum_store
               | apply (g_ro _ Re_refl); solve [ro_any]
               | apply (g_ro _ Re_refl), ro_lift
               | apply (g_bind _ Re_trans); [|intros ?]
               | apply (g_iterM _ Re_refl Re_trans); intros ?
               | apply (g_mapMM _ Re_refl Re_trans); intros ?
               | match goal with |- guar _ (match ?x with _ => _ end) => destruct x end
               | match goal with |- guar _ (if ?x then _ else _) => destruct x end ].

Lemma ge_new_note_from a : guar Re (new_note_from a). Proof. unfold new_note_from. ge. Qed.
Lemma ge_new_enumitem n nt c : guar Re (new_enumitem n nt c). Proof. unfold new_enumitem. ge; apply ge_new_note_from. Qed.
Lemma ge_enum_add_item e a : guar Re (enum_add_item e a).
Proof.
  unfold enum_add_item. destruct a as [o|s].
  - apply (g_bind _ Re_trans); [apply (g_ro _ Re_refl), ro_lookup|intros ob].
    destruct ob; try (apply (g_ro _ Re_refl), ro_ret). apply (ge_enum_store e (fun its => its ++ [o])).
  - apply (g_bind _ Re_trans); [apply ge_new_enumitem|intros i]. apply (ge_enum_store e (fun its => its ++ [i])).
Qed.
Lemma ge_build_enum bp : guar Re (build_enum bp).
Proof.
  unfold build_enum, build_enum_item, new_enum. ge; try first [apply ge_new_enumitem | apply ge_enum_add_item | apply ge_new_note_from].
Qed.
Lemma ge_db_add d o : guar Re (db_add d o).
Proof.
  unfold db_add. apply (g_bind _ Re_trans); [apply (g_ro _ Re_refl), ro_lookup|intros ob].
  destruct ob; try (apply (g_ro _ Re_refl), ro_raise).
  - unfold db_add_table. ge.
  - unfold db_add_reference. ge.
  - unfold db_add_enum. ge.
  - unfold db_add_sticky_note. ge.
  - unfold db_add_project, db_delete_project. ge.
  - unfold db_add_table_group. ge.
Qed.

(* ====================== F2: enums ====================== *)

Definition enum_keyed (key : option pystr * option pystr) (h : heap) (e : oid) : Prop :=
  exists en, h_enum h e = Some en /\ (e_name en, e_schema en) = key.
Lemma enum_keyed_Re key h h' e : Re h h' -> enum_keyed key h e -> enum_keyed key h' e.
Proof. intros R (en & A & B). destruct (R _ _ A) as (en' & A' & B1 & B2). exists en'. split; [exact A'|]. rewrite B1, B2. exact B. Qed.

Lemma build_enum_keyed bp key h h' e : bp_enum_key bp = Some key -> build_enum bp h = (h', Ok e) -> enum_keyed key h' e.
Proof.
  intros Hk H. destruct bp as [s0|b0|z0|f0| |d0|l0|tag dd]; try discriminate Hk.
  destruct (N.eq_dec tag 9) as [->|Nt].
  2:{ exfalso. destruct tag as [|p]; [discriminate Hk|].
      destruct p as [q|q|]; try discriminate Hk. destruct q as [r0|r0|]; try discriminate Hk. destruct r0 as [r1|r1|]; try discriminate Hk.
      destruct r1; discriminate Hk || congruence. }
  cbn in Hk. inversion Hk; subst key. clear Hk. unfold build_enum in H.
  apply bindM_inv in H as [[e0 [_ H]]|[items [h1 [_ H]]]]; [discriminate H|].
  unfold new_enum in H. unfold bindM at 1 in H. unfold alloc in H. cbv beta iota in H.
  apply bindM_inv in H as [[e0 [_ H]]|[u [h2 [H2 H]]]]; [discriminate H|]. unfold ret in H. inversion H; subst. clear H.
  eapply enum_keyed_Re; [eapply (g_iterM _ Re_refl Re_trans); [intros a; apply ge_enum_add_item|exact H2]|].
  eexists. split; [unfold h_enum; rewrite nth_error_app2 by lia; rewrite Nat.sub_diag; reflexivity|reflexivity].
Qed.

Definition estep (d : oid) (bp : pyv) : M unit := do! e <- build_enum bp ;; db_add d e.
Definition EnumIn (key : option pystr * option pystr) (d : oid) (h : heap) : Prop :=
  exists db e, h_database h d = Some db /\ In e (d_enums db) /\ enum_keyed key h e.

Lemma pres_estep d bp : pres d (fun _ => True) (estep d bp).
Proof. apply pres_build_then_add. apply gR_build_enum. Qed.

Lemma estep_establishes d bp key h h' u : J d h -> bp_enum_key bp = Some key -> estep d bp h = (h', Ok u) -> EnumIn key d h'.
Proof.
  intros HJ Hk H. unfold estep in H. apply bindM_inv in H as [[e0 [_ H]]|[e [h1 [H1 H2]]]]; [discriminate H|].
  assert (HJ1 : J d h1) by (eapply J_Rext; [eapply gR_build_enum; eauto|exact HJ]).
  pose proof (build_enum_keyed bp key h h1 e Hk H1) as (en & Hen & Hkey).
  destruct (J_InvDB _ _ HJ1) as (db1 & ID1 & Hdb1).
  destruct (db_add_step h1 d db1 e ID1) as [[e0 R]|(db' & h2 & ob & k & Hrun & ID' & Ho & Hkd & Hm & Hl1 & _)].
  { rewrite R in H2. discriminate H2. }
  rewrite Hrun in H2. inversion H2; subst h2. pose proof (proj1 (h_enum_nth _ _ _) Hen) as Hn. rewrite Hn in Ho. inversion Ho; subst ob.
  cbn in Hkd. inversion Hkd; subst k.
  assert (Hin : In e (d_enums db')) by (change (In e (klist KEnum db')); rewrite (Hl1 ltac:(discriminate)); apply in_or_app; right; left; reflexivity).
  destruct ID' as [[Idb' _ _ _ _ _] _ _]. exists db', e. split; [exact Idb'|]. split; [exact Hin|].
  eapply enum_keyed_Re; [eapply ge_db_add; eauto|]. exists en. auto.
Qed.

Lemma estep_keeps d bp key h h' u : J d h -> EnumIn key d h -> estep d bp h = (h', Ok u) -> EnumIn key d h'.
Proof.
  intros HJ (db & e0 & Hdb & Hin & Hkeyed) H. unfold estep in H. apply bindM_inv in H as [[e1 [_ H]]|[e [h1 [H1 H2]]]]; [discriminate H|].
  pose proof (gR_build_enum _ _ _ _ H1) as R1.
  assert (HJ1 : J d h1) by (eapply J_Rext; eauto).
  pose proof (Rext_db _ _ _ _ R1 Hdb) as Hdb1.
  pose proof (enum_keyed_Re key h h1 e0 (ge_build_enum bp _ _ _ H1) Hkeyed) as Hk1.
  destruct (J_InvDB _ _ HJ1) as (db1 & ID1 & Hdb1'). assert (db1 = db) by congruence. subst db1.
  destruct (db_add_step h1 d db e ID1) as [[e1 R]|(db' & h2 & ob & k & Hrun & ID' & _ & _ & _ & Hl1 & _ & Hoth & _)].
  { rewrite R in H2. discriminate H2. }
  rewrite Hrun in H2. inversion H2; subst h2. destruct ID' as [[Idb' _ _ _ _ _] _ _].
  exists db', e0. split; [exact Idb'|]. split; [apply (klist_grows k e db db' KEnum Hoth Hl1 ltac:(discriminate)); exact Hin|].
  eapply enum_keyed_Re; [eapply ge_db_add; eauto|exact Hk1].
Qed.

Lemma ostr_eqb_refl (a : option pystr) : ostr_eqb a a = true.
Proof. destruct a; cbn; [apply str_eqb_refl|reflexivity]. Qed.

Lemma estep_clashes d bp key h h' u : J d h -> EnumIn key d h -> bp_enum_key bp = Some key -> estep d bp h <> (h', Ok u).
Proof.
  intros HJ (db & e0 & Hdb & Hin & Hkeyed) Hk H. unfold estep in H. apply bindM_inv in H as [[e1 [_ H]]|[e [h1 [H1 H2]]]]; [discriminate H|].
  pose proof (gR_build_enum _ _ _ _ H1) as R1. pose proof (Rext_db _ _ _ _ R1 Hdb) as Hdb1.
  pose proof (enum_keyed_Re key h h1 e0 (ge_build_enum bp _ _ _ H1) Hkeyed) as (en0 & Hen0 & Hk0).
  pose proof (build_enum_keyed bp key h h1 e Hk H1) as (en & Hen & Hke).
  assert (Hex : existsb (fun e2 => match h_enum h1 e2 with
                                   | Some ee => ostr_eqb (e_name ee) (e_name en) && ostr_eqb (e_schema ee) (e_schema en)
                                   | None => false end) (d_enums db) = true).
  { apply existsb_exists. exists e0. split; [exact Hin|]. rewrite Hen0. rewrite <- Hk0 in Hke. inversion Hke as [[E1 E2]].
    rewrite E1, E2, !ostr_eqb_refl. reflexivity. }
  pose proof (add_enum_clash h1 d db e en Hdb1 Hen Hex) as Hc.
  rewrite (db_add_dispatch h1 d e (OEnum en) (proj1 (h_enum_nth _ _ _) Hen)) in H2. rewrite Hc in H2. discriminate H2.
Qed.

Lemma iter_esteps_J d l h h' u : J d h -> iterM (estep d) l h = (h', Ok u) -> J d h'.
Proof. intros HJ H. destruct (pres_iterM d (fun _ => True) (estep d) l (pres_estep d) _ _ _ HJ Logic.I H) as [X _]. exact X. Qed.
Lemma iter_esteps_keep d key l : forall h h' u, J d h -> EnumIn key d h -> iterM (estep d) l h = (h', Ok u) -> EnumIn key d h'.
Proof.
  induction l as [|bp l IH]; intros h h' u HJ HN H; cbn [iterM] in H.
  - inversion H; subst. exact HN.
  - apply bindM_inv in H as [[e [_ H]]|[[] [h1 [H1 H]]]]; [discriminate H|].
    eapply IH; [|eapply estep_keeps; eauto|exact H]. destruct (pres_estep d bp _ _ _ HJ Logic.I H1) as [X _]. exact X.
Qed.

Theorem build_database_rejects_duplicate_enums s allow sq dq h0 h1 dd l1 bp1 l2 bp2 l3 key :
  WW h0 -> (forall t tb, h_table h0 t = Some tb -> NoDup (names_of tb)) ->
  ps_enums s = l1 ++ bp1 :: l2 ++ bp2 :: l3 -> bp_enum_key bp1 = Some key -> bp_enum_key bp2 = Some key ->
  build_database s allow sq dq h0 <> (h1, Ok dd).
Proof.
  intros HW Hgood Hl N1 N2 H. unfold build_database in H. unfold bindM at 1 in H. unfold new_database, alloc in H. cbv beta iota in H.
  set (db0 := mkDatabase [] [] [] [] [] [] None allow sq dq) in *. set (d := length h0) in *.
  assert (HJ : J d (h0 ++ [ODatabase db0])).
  { exists db0. split; [apply fresh_database_full; exact Hgood|].
    intros k. eapply W_Rext; [|apply HW]. eapply (gR_alloc (ODatabase db0)); [exact Logic.I|reflexivity]. }
  apply bindM_inv in H as [[e [_ H]]|[u1 [ha [A1 _]]]]; [discriminate H|]. rewrite Hl in A1. destruct u1.
  change (iterM (estep d) (l1 ++ bp1 :: l2 ++ bp2 :: l3) (h0 ++ [ODatabase db0]) = (ha, Ok tt)) in A1.
  destruct (iterM_app_ok _ _ _ _ _ _ A1) as (hb & B1 & B2).
  pose proof (iter_esteps_J d l1 _ hb tt HJ B1) as HJb.
  cbn [iterM] in B2. apply bindM_inv in B2 as [[e [_ B2]]|[[] [hc [C1 B2]]]]; [discriminate B2|].
  pose proof (estep_establishes d bp1 key hb hc tt HJb N1 C1) as HNc.
  destruct (pres_estep d bp1 _ _ _ HJb Logic.I C1) as [HJc _].
  destruct (iterM_app_ok _ _ _ _ _ _ B2) as (hd & D1 & D2).
  pose proof (iter_esteps_J d l2 hc hd tt HJc D1) as HJd.
  pose proof (iter_esteps_keep d key l2 hc hd tt HJc HNc D1) as HNd.
  cbn [iterM] in D2. apply bindM_inv in D2 as [[e [_ D2]]|[[] [he [E1 D2]]]]; [discriminate D2|].
  exact (estep_clashes d bp2 key hd he tt HJd HNd N2 E1).
Qed.

(* ====================== G1: table groups ====================== *)

(* ---- two table-group blueprints with the same name never build ---- *)
Definition bp_group_key (bp : pyv) : option pystr := match bp with PVBlue 11 dd => fstr_of dd "name" | _ => None end.

Definition Rg (h h' : heap) : Prop :=
  forall g gg, h_group h g = Some gg -> exists gg', h_group h' g = Some gg' /\ g_name gg' = g_name gg.
Lemma Rg_refl h : Rg h h. Proof. intros e en H. eauto. Qed.
Lemma Rg_trans a b c : Rg a b -> Rg b c -> Rg a c.
Proof. intros H1 H2 e en H. destruct (H1 _ _ H) as (e1 & A & B). destruct (H2 _ _ A) as (e2 & D & E). exists e2. split; congruence. Qed.
Definition gview (ob : obj) : option pystr := match ob with OGroup g => Some (g_name g) | _ => None end.
Lemma Rg_store h o ob ob' : nth_error h o = Some ob -> gview ob' = gview ob -> Rg h (replace_nth o ob' h).
Proof.
  intros Ho E e en H. destruct (Nat.eq_dec o e) as [->|N].
  - apply h_group_nth in H. rewrite Ho in H. inversion H; subst ob. destruct ob'; try discriminate E. cbn in E. inversion E.
    exists g. split; [unfold h_group; rewrite (nth_replace_same' _ _ _ _ Ho); reflexivity|congruence].
  - exists en. split; [|reflexivity]. unfold h_group in *. rewrite nth_replace_other by exact N. exact H.
Qed.
Lemma Rg_app h ob : Rg h (h ++ [ob]).
Proof.
  intros e en H. exists en. split; [|reflexivity]. unfold h_group in *. rewrite nth_error_app1; [exact H|].
  destruct (nth_error h e) eqn:E; [eapply nth_some_lt; eauto|discriminate].
Qed.
Lemma gg_alloc ob : guar Rg (alloc ob). Proof. intros h h' r H. unfold alloc in H. inversion H; subst. apply Rg_app. Qed.
Lemma gg_set_obj_database o v : guar Rg (set_obj_database o v).
Proof.
  intros h h' r H. unfold set_obj_database, bindM, lookup in H. destruct (nth_error h o) as [ob|] eqn:E.
  - destruct ob; inversion H; subst; try apply Rg_refl; (eapply Rg_store; [exact E|reflexivity]).
  - inversion H; subst. apply Rg_refl.
Qed.
Lemma gg_upd_db d f : guar Rg (upd_db d f).
Proof.
  intros h h' r H. unfold upd_db, get_database, bindM, lookup in H. destruct (nth_error h d) as [ob|] eqn:E.
  - destruct ob; inversion H; subst; try apply Rg_refl. eapply Rg_store; [exact E|reflexivity].
  - inversion H; subst. apply Rg_refl.
Qed.
Ltac gg :=
  repeat first [ apply gg_alloc | apply gg_set_obj_database | apply gg_upd_db
               | apply (g_ro _ Rg_refl); solve [ro_any]
               | apply (g_ro _ Rg_refl), ro_lift
               | apply (g_ro _ Rg_refl), ro_group_items
               | apply (g_bind _ Rg_trans); [|intros ?]
               | match goal with |- guar _ (match ?x with _ => _ end) => destruct x end
               | match goal with |- guar _ (if ?x then _ else _) => destruct x end ].
Lemma gg_build_group d bp : guar Rg (build_group d bp).
Proof. unfold build_group, new_group. gg. Qed.
Lemma gg_db_add d o : guar Rg (db_add d o).
Proof.
  unfold db_add. apply (g_bind _ Rg_trans); [apply (g_ro _ Rg_refl), ro_lookup|intros ob].
  destruct ob; try (apply (g_ro _ Rg_refl), ro_raise).
  - unfold db_add_table. gg.
  - unfold db_add_reference. gg.
  - unfold db_add_enum. gg.
  - unfold db_add_sticky_note. gg.
  - unfold db_add_project, db_delete_project. gg.
  - unfold db_add_table_group. gg.
Qed.

Definition group_keyed (key : pystr) (h : heap) (g : oid) : Prop := exists gg, h_group h g = Some gg /\ g_name gg = key.
Lemma group_keyed_Rg key h h' g : Rg h h' -> group_keyed key h g -> group_keyed key h' g.
Proof. intros R (gg & A & B). destruct (R _ _ A) as (gg' & A' & B'). exists gg'. split; [exact A'|congruence]. Qed.

Lemma build_group_keyed d bp key h h' g : bp_group_key bp = Some key -> build_group d bp h = (h', Ok g) -> group_keyed key h' g.
Proof.
  intros Hk H. destruct bp as [s0|b0|z0|f0| |d0|l0|tag dd]; try discriminate Hk.
  destruct (N.eq_dec tag 11) as [->|Nt].
  2:{ exfalso. destruct tag as [|p]; [discriminate Hk|].
      destruct p as [q|q|]; try discriminate Hk. destruct q as [r0|r0|]; try discriminate Hk. destruct r0 as [r1|r1|]; try discriminate Hk.
      destruct r1; discriminate Hk || congruence. }
  cbn in Hk. unfold build_group in H.
  apply bindM_inv in H as [[e0 [_ H]]|[items [h1 [_ H]]]]; [discriminate H|].
  apply bindM_inv in H as [[e0 [_ H]]|[nt [h2 [_ H]]]]; [discriminate H|].
  apply bindM_inv in H as [[e0 [_ H]]|[n [h3 [_ H]]]]; [discriminate H|].
  rewrite Hk in H. unfold new_group, alloc in H. inversion H; subst.
  eexists. split; [unfold h_group; rewrite nth_error_app2 by lia; rewrite Nat.sub_diag; reflexivity|reflexivity].
Qed.

Definition gstep (d : oid) (bp : pyv) : M unit := do! g <- build_group d bp ;; db_add d g.
Definition GroupIn (key : pystr) (d : oid) (h : heap) : Prop :=
  exists db g, h_database h d = Some db /\ In g (d_table_groups db) /\ group_keyed key h g.

Lemma pres_gstep d bp : pres d (fun _ => True) (gstep d bp).
Proof. apply (pres_build_then_add d (build_group d)). apply gR_build_group. Qed.

Lemma gstep_establishes d bp key h h' u : J d h -> bp_group_key bp = Some key -> gstep d bp h = (h', Ok u) -> GroupIn key d h'.
Proof.
  intros HJ Hk H. unfold gstep in H. apply bindM_inv in H as [[e0 [_ H]]|[g [h1 [H1 H2]]]]; [discriminate H|].
  assert (HJ1 : J d h1) by (eapply J_Rext; [eapply gR_build_group; eauto|exact HJ]).
  pose proof (build_group_keyed d bp key h h1 g Hk H1) as (gg & Hgg & Hkey).
  destruct (J_InvDB _ _ HJ1) as (db1 & ID1 & Hdb1).
  destruct (db_add_step h1 d db1 g ID1) as [[e0 R]|(db' & h2 & ob & k & Hrun & ID' & Ho & Hkd & Hm & Hl1 & _)].
  { rewrite R in H2. discriminate H2. }
  rewrite Hrun in H2. inversion H2; subst h2. pose proof (proj1 (h_group_nth _ _ _) Hgg) as Hn. rewrite Hn in Ho. inversion Ho; subst ob.
  cbn in Hkd. inversion Hkd; subst k.
  assert (Hin : In g (d_table_groups db')) by (change (In g (klist KGroup db')); rewrite (Hl1 ltac:(discriminate)); apply in_or_app; right; left; reflexivity).
  destruct ID' as [[Idb' _ _ _ _ _] _ _]. exists db', g. split; [exact Idb'|]. split; [exact Hin|].
  eapply group_keyed_Rg; [eapply gg_db_add; eauto|]. exists gg. auto.
Qed.

Lemma gstep_keeps d bp key h h' u : J d h -> GroupIn key d h -> gstep d bp h = (h', Ok u) -> GroupIn key d h'.
Proof.
  intros HJ (db & g0 & Hdb & Hin & Hkeyed) H. unfold gstep in H. apply bindM_inv in H as [[e1 [_ H]]|[g [h1 [H1 H2]]]]; [discriminate H|].
  pose proof (gR_build_group _ _ _ _ _ H1) as R1.
  assert (HJ1 : J d h1) by (eapply J_Rext; eauto).
  pose proof (Rext_db _ _ _ _ R1 Hdb) as Hdb1.
  pose proof (group_keyed_Rg key h h1 g0 (gg_build_group d bp _ _ _ H1) Hkeyed) as Hk1.
  destruct (J_InvDB _ _ HJ1) as (db1 & ID1 & Hdb1'). assert (db1 = db) by congruence. subst db1.
  destruct (db_add_step h1 d db g ID1) as [[e1 R]|(db' & h2 & ob & k & Hrun & ID' & _ & _ & _ & Hl1 & _ & Hoth & _)].
  { rewrite R in H2. discriminate H2. }
  rewrite Hrun in H2. inversion H2; subst h2. destruct ID' as [[Idb' _ _ _ _ _] _ _].
  exists db', g0. split; [exact Idb'|]. split; [apply (klist_grows k g db db' KGroup Hoth Hl1 ltac:(discriminate)); exact Hin|].
  eapply group_keyed_Rg; [eapply gg_db_add; eauto|exact Hk1].
Qed.

Lemma gstep_clashes d bp key h h' u : J d h -> GroupIn key d h -> bp_group_key bp = Some key -> gstep d bp h <> (h', Ok u).
Proof.
  intros HJ (db & g0 & Hdb & Hin & Hkeyed) Hk H. unfold gstep in H. apply bindM_inv in H as [[e1 [_ H]]|[g [h1 [H1 H2]]]]; [discriminate H|].
  pose proof (gR_build_group _ _ _ _ _ H1) as R1. pose proof (Rext_db _ _ _ _ R1 Hdb) as Hdb1.
  pose proof (group_keyed_Rg key h h1 g0 (gg_build_group d bp _ _ _ H1) Hkeyed) as (gg0 & Hgg0 & Hk0).
  pose proof (build_group_keyed d bp key h h1 g Hk H1) as (gg & Hgg & Hke).
  assert (Hex : existsb (fun g2 => match h_group h1 g2 with Some x => str_eqb (g_name x) (g_name gg) | None => false end) (d_table_groups db) = true).
  { apply existsb_exists. exists g0. split; [exact Hin|]. rewrite Hgg0, Hk0, Hke. apply str_eqb_refl. }
  pose proof (add_group_clash h1 d db g gg Hdb1 Hgg Hex) as Hc.
  rewrite (db_add_dispatch h1 d g (OGroup gg) (proj1 (h_group_nth _ _ _) Hgg)) in H2. rewrite Hc in H2. discriminate H2.
Qed.

(* ====================== G2: table groups ====================== *)

Lemma iter_gsteps_J d l h h' u : J d h -> iterM (gstep d) l h = (h', Ok u) -> J d h'.
Proof. intros HJ H. destruct (pres_iterM d (fun _ => True) (gstep d) l (pres_gstep d) _ _ _ HJ Logic.I H) as [X _]. exact X. Qed.
Lemma iter_gsteps_keep d key l : forall h h' u, J d h -> GroupIn key d h -> iterM (gstep d) l h = (h', Ok u) -> GroupIn key d h'.
Proof.
  induction l as [|bp l IH]; intros h h' u HJ HN H; cbn [iterM] in H.
  - inversion H; subst. exact HN.
  - apply bindM_inv in H as [[e [_ H]]|[[] [h1 [H1 H]]]]; [discriminate H|].
    eapply IH; [|eapply gstep_keeps; eauto|exact H]. destruct (pres_gstep d bp _ _ _ HJ Logic.I H1) as [X _]. exact X.
Qed.

Theorem build_database_rejects_duplicate_groups s allow sq dq h0 h1 dd l1 bp1 l2 bp2 l3 key :
  WW h0 -> (forall t tb, h_table h0 t = Some tb -> NoDup (names_of tb)) -> Forall good_table_bp (ps_tables s) ->
  ps_groups s = l1 ++ bp1 :: l2 ++ bp2 :: l3 -> bp_group_key bp1 = Some key -> bp_group_key bp2 = Some key ->
  build_database s allow sq dq h0 <> (h1, Ok dd).
Proof.
  intros HW Hgood Hg Hl N1 N2 H. unfold build_database in H. unfold bindM at 1 in H. unfold new_database, alloc in H. cbv beta iota in H.
  set (db0 := mkDatabase [] [] [] [] [] [] None allow sq dq) in *. set (d := length h0) in *.
  assert (HJ : J d (h0 ++ [ODatabase db0])).
  { exists db0. split; [apply fresh_database_full; exact Hgood|].
    intros k. eapply W_Rext; [|apply HW]. eapply (gR_alloc (ODatabase db0)); [exact Logic.I|reflexivity]. }
  apply bindM_inv in H as [[e [_ H]]|[u1 [ha [A1 H]]]]; [discriminate H|].
  assert (HJa : J d ha).
  { destruct (pres_iterM d (fun _ => True) (fun bp => do! e <- build_enum bp ;; db_add d e) (ps_enums s)
                (fun bp => pres_build_then_add d build_enum bp (gR_build_enum bp)) _ _ _ HJ Logic.I A1) as [X _]. exact X. }
  apply bindM_inv in H as [[e [_ H]]|[u2 [hb [B1 H]]]]; [discriminate H|]. destruct u2.
  pose proof (iter_steps_J d (ps_tables s) ha hb tt Hg HJa B1) as HJb.
  apply bindM_inv in H as [[e [_ H]]|[u3 [hc [C1 _]]]]; [discriminate H|]. rewrite Hl in C1. destruct u3.
  change (iterM (gstep d) (l1 ++ bp1 :: l2 ++ bp2 :: l3) hb = (hc, Ok tt)) in C1.
  destruct (iterM_app_ok _ _ _ _ _ _ C1) as (h2 & D1 & D2).
  pose proof (iter_gsteps_J d l1 _ h2 tt HJb D1) as HJ2.
  cbn [iterM] in D2. apply bindM_inv in D2 as [[e [_ D2]]|[[] [h3 [E1 D2]]]]; [discriminate D2|].
  pose proof (gstep_establishes d bp1 key h2 h3 tt HJ2 N1 E1) as HN3.
  destruct (pres_gstep d bp1 _ _ _ HJ2 Logic.I E1) as [HJ3 _].
  destruct (iterM_app_ok _ _ _ _ _ _ D2) as (h4 & F1 & F2).
  pose proof (iter_gsteps_J d l2 h3 h4 tt HJ3 F1) as HJ4.
  pose proof (iter_gsteps_keep d key l2 h3 h4 tt HJ3 HN3 F1) as HN4.
  cbn [iterM] in F2. apply bindM_inv in F2 as [[e [_ F2]]|[[] [h5 [G1 F2]]]]; [discriminate F2|].
  exact (gstep_clashes d bp2 key h4 h5 tt HJ4 HN4 N2 G1).
Qed.

(* ====================== H1: unknown table ====================== *)

(* ---- a reference that names a table no table blueprint defines never builds ---- *)

(* every listed table answers only to keys of the table blueprints *)
Definition TabKeys (allk : list pystr) (d : oid) (h : heap) : Prop :=
  forall db t tb, h_database h d = Some db -> In t (d_tables db) -> h_table h t = Some tb -> incl (names_of tb) allk.

Lemma TabKeys_dict allk d h db k t0 : Inv h d db -> TabKeys allk d h -> dict_get k (d_table_dict db) = Some t0 -> In k allk.
Proof.
  intros [[[Idb _ _ _ _ Ib] _ _] _] HT Hg. destruct (Ib k t0 Hg) as (Hin & tb & Ht & Hk). exact (HT db t0 tb Idb Hin Ht k Hk).
Qed.

Lemma TabKeys_gen allk d h h' db db' : Inv h d db -> h_database h' d = Some db' -> Rn h h' ->
  (forall t, In t (d_tables db') -> In t (d_tables db) \/ (forall tb, h_table h' t = Some tb -> incl (names_of tb) allk)) ->
  TabKeys allk d h -> TabKeys allk d h'.
Proof.
  intros [[[Idb _ _ _ If _] _ _] _] Hdb' R Hnew HT db2 t tb Hdb2 Hin Ht. rewrite Hdb' in Hdb2. inversion Hdb2; subst db2.
  destruct (Hnew t Hin) as [Hold|Hn]; [|exact (Hn tb Ht)].
  destruct (If t Hold) as (tb0 & Ht0 & _). destruct (R _ _ Ht0) as (tb' & Ht' & En). rewrite Ht in Ht'. inversion Ht'; subst tb'.
  rewrite En. exact (HT db t tb0 Idb Hold Ht0).
Qed.

Definition keys_eq (ks : list pystr) (h : heap) (t : oid) : Prop := exists tb, h_table h t = Some tb /\ names_of tb = ks.
Lemma keys_eq_Rn ks h h' t : Rn h h' -> keys_eq ks h t -> keys_eq ks h' t.
Proof. intros R (tb & A & B). destruct (R _ _ A) as (tb' & A' & B'). exists tb'. split; [exact A'|congruence]. Qed.

Lemma build_table_keys d bp h h' t : good_table_bp bp -> build_table d bp h = (h', Ok t) -> keys_eq (bp_keys bp) h' t.
Proof.
  intros Hg H. destruct bp as [s0|b0|z0|f0| |d0|l0|tag dd]; try discriminate H.
  destruct (N.eq_dec tag 7) as [->|Nt].
  2:{ exfalso. unfold build_table in H. destruct tag as [|p]; [discriminate H|].
      destruct p as [q|q|]; try discriminate H. destruct q as [r0|r0|]; try discriminate H. destruct r0; try discriminate H. congruence. }
  unfold build_table in H.
  apply bindM_inv in H as [[e [_ H]]|[nt [h1 [H1 H]]]]; [discriminate H|].
  apply bindM_inv in H as [[e [_ H]]|[t0 [h2 [H2 H]]]]; [discriminate H|].
  assert (N2 : keys_eq (bp_keys (PVBlue 7 dd)) h2 t0).
  { unfold new_table in H2. cbn [iterM] in H2.
    apply bindM_inv in H2 as [[e [_ H2]]|[n [hn [_ H2]]]]; [discriminate H2|].
    unfold bindM at 1 in H2. unfold alloc in H2. cbv beta iota in H2.
    apply bindM_inv in H2 as [[e [_ H2]]|[u1 [hx [Hx H2]]]]; [discriminate H2|]. unfold ret in Hx. injection Hx as E1 _. subst hx.
    apply bindM_inv in H2 as [[e [_ H2]]|[u2 [hy [Hy H2]]]]; [discriminate H2|]. unfold ret in Hy. injection Hy as E2 _. subst hy.
    apply bindM_inv in H2 as [[e [_ H2]]|[u3 [hz [Hz H2]]]]; [discriminate H2|]. unfold ret in H2. injection H2 as E3 E4. subst.
    eapply keys_eq_Rn; [apply Rn_Rext; eapply gR_set_note_parent; eauto|].
    eexists. split; [unfold h_table; rewrite nth_error_app2 by lia; rewrite Nat.sub_diag; reflexivity|]. reflexivity. }
  pose proof (gn_build_table_body d t0 _ _ _ _ _ H) as R.
  assert (t = t0).
  { apply bindM_inv in H as [[e [_ H]]|[u [hx [_ H]]]]; [discriminate H|]. apply bindM_inv in H as [[e [_ H]]|[u' [hy [_ H]]]]; [discriminate H|].
    unfold ret in H. inversion H. reflexivity. }
  subst t0. eapply keys_eq_Rn; eauto.
Qed.

Lemma gn_build_table d bp : good_table_bp bp -> guar Rn (build_table d bp).
Proof.
  intros Hg. unfold build_table.
  destruct bp as [s0|b0|z0|f0| |d0|l0|tag dd]; try (apply (g_ro _ Rn_refl), ro_stuck).
  destruct (N.eq_dec tag 7) as [->|Nt].
  2:{ destruct tag as [|p]; [apply (g_ro _ Rn_refl), ro_stuck|].
      destruct p as [q|q|]; try (apply (g_ro _ Rn_refl), ro_stuck). destruct q as [r0|r0|]; try (apply (g_ro _ Rn_refl), ro_stuck).
      destruct r0; try (apply (g_ro _ Rn_refl), ro_stuck). congruence. }
  apply (g_bind _ Rn_trans); [apply (g_ro _ Rn_refl), ro_lift|intros nt].
  apply (g_bind _ Rn_trans); [apply gn_of_Rext, new_table_empty_Rext; exact Hg|intros t].
  apply gn_build_table_body.
Qed.

(* one table step *)
Lemma step_TabKeys allk d bp h h' r : J d h -> good_table_bp bp -> incl (bp_keys bp) allk -> TabKeys allk d h -> step d bp h = (h', r) -> TabKeys allk d h'.
Proof.
  intros HJ Hg Hk HT H. unfold step in H. apply bindM_inv in H as [[e [H1 _]]|[t [h1 [H1 H2]]]].
  - destruct (J_InvDB _ _ HJ) as (db & ID & Hdb). destruct HJ as (db0 & I0). assert (db0 = db) by (destruct I0 as [[[A _ _ _ _ _] _ _] _]; congruence). subst db0.
    eapply TabKeys_gen; [exact I0|exact (gdb_build_table d bp Hg _ _ _ H1 db Hdb)|exact (gn_build_table d bp Hg _ _ _ H1)| |exact HT]. intros t Hin; left; exact Hin.
  - destruct HJ as (db & I). pose proof I as [[[Idb _ _ _ _ _] _ _] _].
    assert (HT1 : TabKeys allk d h1).
    { eapply TabKeys_gen; [exact I|exact (gdb_build_table d bp Hg _ _ _ H1 db Idb)|exact (gn_build_table d bp Hg _ _ _ H1)| |exact HT]. intros t0 Hin; left; exact Hin. }
    destruct (build_table_keeps_J d bp h h1 (Ok t) Hg (ex_intro _ db I) H1) as [(db1 & I1) _].
    pose proof (build_table_keys d bp h h1 t Hg H1) as Hkeys.
    pose proof I1 as [ID1 _].
    destruct (db_add_step h1 d db1 t ID1) as [[e R]|(db' & h2 & ob & k & Hrun & ID' & Ho & Hkd & Hm & Hl1 & _ & Hoth & _)].
    { rewrite R in H2. inversion H2; subst. exact HT1. }
    rewrite Hrun in H2. inversion H2; subst h2 r. destruct ID' as [[Idb' _ _ _ _ _] _ _].
    eapply TabKeys_gen; [exact I1|exact Idb'|exact (gn_db_add d t _ _ _ Hrun)| |exact HT1].
    intros t0 Hin. destruct Hkeys as (tb & Ht & En). rewrite (h_table_nth _ _ _ Ht) in Ho. inversion Ho; subst ob. cbn in Hkd. inversion Hkd; subst k.
    change (In t0 (klist KTable db')) in Hin. rewrite (Hl1 ltac:(discriminate)) in Hin. apply in_app_or in Hin as [Hin|[<-|[]]]; [left; exact Hin|right].
    intros tb' Ht'. destruct (gn_db_add d t _ _ _ Hrun t tb Ht) as (tb'' & A & B). rewrite Ht' in A. inversion A; subst tb''. rewrite B, En. exact Hk.
Qed.

(* ====================== H2: unknown table ====================== *)

Lemma post_new_group n i c nt col : post (new_group n i c nt col) (kind_is KGroup).
Proof. unfold new_group. apply alloc_post. reflexivity. Qed.
Lemma post_new_reference ty c1 c2 n c u dl i : post (new_reference ty c1 c2 n c u dl i) (kind_is KRef).
Proof. unfold new_reference. apply alloc_post. reflexivity. Qed.
Ltac postk2 :=
  repeat first [ apply post_new_group | apply post_new_reference | apply post_raise | apply post_stuck
               | apply post_bind; intros ?
               | match goal with |- post (match ?x with _ => _ end) _ => destruct x end
               | match goal with |- post (if ?x then _ else _) _ => destruct x end ].
Lemma post_build_group d bp : post (build_group d bp) (kind_is KGroup). Proof. unfold build_group. postk2. Qed.
Lemma post_build_reference d bp : post (build_reference d bp) (kind_is KRef). Proof. unfold build_reference. postk2. Qed.

(* building and adding something that is not a table *)
Lemma nontable_step_TabKeys {A} allk d (b : A -> M oid) bp k h h' r :
  guar Rext (b bp) -> post (b bp) (kind_is k) -> k <> KTable -> J d h -> TabKeys allk d h ->
  (do! x <- b bp ;; db_add d x) h = (h', r) -> TabKeys allk d h'.
Proof.
  intros G P Nk HJ HT H. destruct HJ as (db & I). pose proof I as [[[Idb _ _ _ _ _] _ _] _].
  apply bindM_inv in H as [[e [H1 _]]|[x [h1 [H1 H2]]]].
  - pose proof (G _ _ _ H1) as R. eapply TabKeys_gen; [exact I|exact (Rext_db _ _ _ _ R Idb)|exact (Rn_Rext _ _ R)| |exact HT]. intros t Hin; left; exact Hin.
  - pose proof (G _ _ _ H1) as R.
    assert (HT1 : TabKeys allk d h1).
    { eapply TabKeys_gen; [exact I|exact (Rext_db _ _ _ _ R Idb)|exact (Rn_Rext _ _ R)| |exact HT]. intros t Hin; left; exact Hin. }
    pose proof (Inv_Rext _ _ _ _ R I) as I1. pose proof I1 as [ID1 _].
    destruct (P _ _ _ H1) as (ob & Hob & Hkind).
    destruct (db_add_step h1 d db x ID1) as [[e R']|(db' & h2 & ob' & k' & Hrun & ID' & Ho & Hkd & Hm & Hl1 & _ & Hoth & _)].
    { rewrite R' in H2. inversion H2; subst. exact HT1. }
    rewrite Hrun in H2. inversion H2; subst h2 r. destruct ID' as [[Idb' _ _ _ _ _] _ _].
    rewrite Hob in Ho. inversion Ho; subst ob'. rewrite Hkind in Hkd. inversion Hkd; subst k'.
    eapply TabKeys_gen; [exact I1|exact Idb'|exact (gn_db_add d x _ _ _ Hrun)| |exact HT1].
    intros t0 Hin. left. change (In t0 (klist KTable db')) in Hin. destruct Hoth as [Hoo _]. rewrite (Hoo KTable) in Hin by congruence. exact Hin.
Qed.

Definition presT {A} (allk : list pystr) (d : oid) (m : M A) : Prop :=
  forall h h' r, J d h -> TabKeys allk d h -> m h = (h', r) -> J d h' /\ TabKeys allk d h'.
Lemma presT_bind {A B} allk d (m : M A) (f : A -> M B) : presT allk d m -> (forall a, presT allk d (f a)) -> presT allk d (bindM m f).
Proof.
  intros Hm Hf h h' r HJ HT H. apply bindM_inv in H as [[e [H1 _]]|[a [h1 [H1 H2]]]].
  - eapply Hm; eauto.
  - destruct (Hm _ _ _ HJ HT H1) as [HJ1 HT1]. eapply Hf; eauto.
Qed.
Lemma presT_iterM_in {A} allk d (f : A -> M unit) l : (forall a, In a l -> presT allk d (f a)) -> presT allk d (iterM f l).
Proof.
  induction l as [|x l IH]; intros Hf; cbn [iterM].
  - intros h h' r HJ HT H. inversion H; subst. auto.
  - apply presT_bind; [apply Hf; left; reflexivity|intros _; apply IH; intros a Ha; apply Hf; right; exact Ha].
Qed.

Lemma presT_nontable {A} allk d (b : A -> M oid) bp k : guar Rext (b bp) -> post (b bp) (kind_is k) -> k <> KTable ->
  presT allk d (do! x <- b bp ;; db_add d x).
Proof.
  intros G P Nk h h' r HJ HT H. split; [|eapply nontable_step_TabKeys; eauto].
  destruct (pres_build_then_add d b bp G _ _ _ HJ Logic.I H) as [X _]. exact X.
Qed.
Lemma presT_table allk d bp : good_table_bp bp -> incl (bp_keys bp) allk -> presT allk d (step d bp).
Proof.
  intros Hg Hk h h' r HJ HT H. split; [|eapply step_TabKeys; eauto].
  destruct (pres_step d bp Hg _ _ _ HJ Logic.I H) as [X _]. exact X.
Qed.

(* the reference blueprint names a table under keys no table blueprint provides *)
Definition ref_names_missing (allk : list pystr) (rb : pyv) : Prop :=
  match rb with
  | PVBlue 4 dd =>
      exists t1n t2n c1 c2, fstr_of dd "table1" = Some t1n /\ fstr_of dd "table2" = Some t2n /\ fstr_of dd "col1" = Some c1 /\ fstr_of dd "col2" = Some c2 /\
        let s1 := match fstr_of dd "schema1" with Some s => s | None => K "public" end in
        ~ In t1n allk /\ ~ In (s1 ++ 46%N :: t1n) allk
  | _ => False
  end.

Lemma build_reference_missing allk d rb h h' x : J d h -> TabKeys allk d h -> ref_names_missing allk rb -> build_reference d rb h <> (h', Ok x).
Proof.
  intros (db & I) HT Hm H. pose proof I as [[[Idb _ _ _ _ _] _ _] _].
  destruct rb as [s0|b0|z0|f0| |d0|l0|tag dd]; try contradiction.
  destruct (N.eq_dec tag 4) as [->|Nt].
  2:{ destruct tag as [|p]; [contradiction|]. destruct p as [q|q|]; try contradiction. destruct q as [r0|r0|]; try contradiction. destruct r0; try contradiction; congruence. }
  destruct Hm as (t1n & t2n & c1 & c2 & E1 & E2 & E3 & E4 & N1 & N2). unfold build_reference in H. rewrite E1, E2, E3, E4 in H.
  assert (G1 : dict_get t1n (d_table_dict db) = None).
  { destruct (dict_get t1n (d_table_dict db)) as [t0|] eqn:G; [|reflexivity]. exfalso. apply N1. eapply TabKeys_dict; eauto. }
  assert (G2 : dict_get (match fstr_of dd "schema1" with Some s => s | None => K "public" end ++ 46%N :: t1n) (d_table_dict db) = None).
  { match goal with |- dict_get ?k _ = None => destruct (dict_get k (d_table_dict db)) as [t0|] eqn:G; [|reflexivity] end. exfalso. apply N2. eapply TabKeys_dict; eauto. }
  cbv beta iota zeta in H. unfold bindM at 1 in H.
  match type of H with context [locate_table d ?s t1n h] =>
    assert (L : locate_table d s t1n h = (h, Raise ETableNotFound)) by (apply (locate_table_missing h d db s t1n Idb G1); exact G2);
    rewrite L in H end.
  discriminate H.
Qed.

(* ====================== H3: unknown table ====================== *)

Theorem build_database_rejects_unknown_table s allow sq dq h0 h1 dd l1 rb l2 :
  WW h0 -> (forall t tb, h_table h0 t = Some tb -> NoDup (names_of tb)) -> Forall good_table_bp (ps_tables s) ->
  ps_refs s = l1 ++ rb :: l2 -> ref_names_missing (flat_map bp_keys (ps_tables s)) rb ->
  build_database s allow sq dq h0 <> (h1, Ok dd).
Proof.
  intros HW Hgood Hg Hl Hm H. set (allk := flat_map bp_keys (ps_tables s)) in *.
  unfold build_database in H. unfold bindM at 1 in H. unfold new_database, alloc in H. cbv beta iota in H.
  set (db0 := mkDatabase [] [] [] [] [] [] None allow sq dq) in *. set (d := length h0) in *.
  assert (HJ : J d (h0 ++ [ODatabase db0])).
  { exists db0. split; [apply fresh_database_full; exact Hgood|].
    intros k. eapply W_Rext; [|apply HW]. eapply (gR_alloc (ODatabase db0)); [exact Logic.I|reflexivity]. }
  assert (HT : TabKeys allk d (h0 ++ [ODatabase db0])).
  { intros db t tb Hdb Hin. unfold h_database, d in Hdb. rewrite nth_error_app2 in Hdb by lia. rewrite Nat.sub_diag in Hdb. inversion Hdb; subst db. destruct Hin. }
  rewrite Forall_forall in Hg.
  (* enums *)
  apply bindM_inv in H as [[e [_ H]]|[u1 [ha [A1 H]]]]; [discriminate H|].
  destruct (presT_iterM_in allk d _ (ps_enums s) (fun bp _ => presT_nontable allk d build_enum bp KEnum (gR_build_enum bp) (post_build_enum bp) ltac:(discriminate)) _ _ _ HJ HT A1) as [HJa HTa].
  (* tables *)
  apply bindM_inv in H as [[e [_ H]]|[u2 [hb [B1 H]]]]; [discriminate H|].
  assert (PT : forall bp, In bp (ps_tables s) -> presT allk d (step d bp)).
  { intros bp Hin. apply presT_table; [apply Hg; exact Hin|]. intros k Hk. unfold allk. apply in_flat_map. exists bp. split; assumption. }
  destruct (presT_iterM_in allk d (step d) (ps_tables s) PT _ _ _ HJa HTa B1) as [HJb HTb].
  (* groups, sticky notes, project *)
  apply bindM_inv in H as [[e [_ H]]|[u3 [hc [C1 H]]]]; [discriminate H|].
  destruct (presT_iterM_in allk d _ (ps_groups s) (fun bp _ => presT_nontable allk d (build_group d) bp KGroup (gR_build_group d bp) (post_build_group d bp) ltac:(discriminate)) _ _ _ HJb HTb C1) as [HJc HTc].
  apply bindM_inv in H as [[e [_ H]]|[u4 [hd [D1 H]]]]; [discriminate H|].
  destruct (presT_iterM_in allk d _ (ps_stickies s) (fun bp _ => presT_nontable allk d build_sticky bp KSticky (gR_build_sticky bp) (post_build_sticky bp) ltac:(discriminate)) _ _ _ HJc HTc D1) as [HJd HTd].
  apply bindM_inv in H as [[e [_ H]]|[u5 [he [E1 H]]]]; [discriminate H|].
  assert (HJTe : J d he /\ TabKeys allk d he).
  { destruct (ps_project s) as [bp|].
    - exact (presT_nontable allk d build_project bp KProject (gR_build_project bp) (post_build_project bp) ltac:(discriminate) _ _ _ HJd HTd E1).
    - inversion E1; subst. auto. }
  destruct HJTe as [HJe HTe].
  (* references: those before rb succeed, rb itself cannot *)
  apply bindM_inv in H as [[e [_ H]]|[u6 [hf [F1 _]]]]; [discriminate H|]. rewrite Hl in F1. destruct u6.
  destruct (iterM_app_ok _ _ _ _ _ _ F1) as (hg & G1 & G2).
  destruct (presT_iterM_in allk d _ l1 (fun bp _ => presT_nontable allk d (build_reference d) bp KRef (gR_build_reference d bp) (post_build_reference d bp) ltac:(discriminate)) _ _ _ HJe HTe G1) as [HJg HTg].
  cbn [iterM] in G2. apply bindM_inv in G2 as [[e [_ G2]]|[[] [hh [I1 _]]]]; [discriminate G2|].
  apply bindM_inv in I1 as [[e [_ I1]]|[x [hi [K1 _]]]]; [discriminate I1|].
  exact (build_reference_missing allk d rb hg hi x HJg HTg Hm K1).
Qed.
