(* BuildRules.v — C06 at the level of documents: whatever else it contains, a document with two tables of the same schema
   and name never yields a database.  The first table's full name stays in the name index through every later step of the
   build (names of tables never change, the index only grows), so the second add_table is refused and the error leaves
   every enclosing loop. *)
From PyDBML Require Import PyStr Py Heap Classes Database Tools PP Actions Build GenClasses GenGrammar Entry MonadFacts ToolsFacts RuleFacts ContainerInv ContainerFull TableInv BuildInv.
From Coq Require Import Lia.
Import ListNotations.

(* ====================== D1 ====================== *)

(* ---- C06 at the level of documents: two table blueprints with the same schema and name never build ---- *)
Definition bp_full (bp : pyv) : option pystr :=
  match bp with PVBlue 7 dd => Some (bp_schema dd ++ 46%N :: fstr (fstr_of dd "name")) | _ => None end.

(* tables keep their full name *)
Definition Rn (h h' : heap) : Prop :=
  forall t tb, h_table h t = Some tb -> exists tb', h_table h' t = Some tb' /\ table_full_name tb' = table_full_name tb.
Lemma Rn_refl h : Rn h h. Proof. intros t tb H. eauto. Qed.
Lemma Rn_trans a b c : Rn a b -> Rn b c -> Rn a c.
Proof. intros H1 H2 t tb H. destruct (H1 _ _ H) as (tb1 & A & B). destruct (H2 _ _ A) as (tb2 & C & D). exists tb2. split; [exact C|congruence]. Qed.
Lemma names_full a b : names_of a = names_of b -> table_full_name a = table_full_name b.
Proof. unfold names_of. intros H. inversion H. reflexivity. Qed.
Lemma Rn_Rext h h' : Rext h h' -> Rn h h'.
Proof. intros R t tb H. destruct (Rext_table_fwd _ _ _ _ R H) as (tb' & A & _ & _ & _ & E). exists tb'. split; [exact A|apply names_full; exact E]. Qed.
Lemma Rn_dview h h' : same_dview h h' -> Rn h h'.
Proof.
  intros S t tb H. destruct (same_dview_table _ _ _ _ (same_dview_sym _ _ S) H) as (tb' & A & _ & E).
  exists tb'. split; [exact A|apply names_full; exact E].
Qed.

Definition nview (ob : obj) : option pystr := match ob with OTable tb => Some (table_full_name tb) | _ => None end.
Lemma Rn_store h o ob ob' : nth_error h o = Some ob -> nview ob' = nview ob -> Rn h (replace_nth o ob' h).
Proof.
  intros Ho E t tb H. destruct (Nat.eq_dec o t) as [->|N].
  - apply h_table_nth in H. rewrite Ho in H. inversion H; subst ob. destruct ob'; try discriminate E. cbn in E. inversion E.
    exists t0. split; [unfold h_table; rewrite (nth_replace_same' _ _ _ _ Ho); reflexivity|congruence].
  - exists tb. split; [|reflexivity]. unfold h_table in *. rewrite nth_replace_other by exact N. exact H.
Qed.
Lemma gn_set_obj_database o v : guar Rn (set_obj_database o v).
Proof.
  intros h h' r H. unfold set_obj_database, bindM, lookup in H. destruct (nth_error h o) as [ob|] eqn:E.
  - destruct ob; inversion H; subst; try apply Rn_refl; (eapply Rn_store; [exact E|reflexivity]).
  - inversion H; subst. apply Rn_refl.
Qed.
Lemma gn_upd_db d f : guar Rn (upd_db d f).
Proof.
  intros h h' r H. unfold upd_db, get_database, bindM, lookup in H. destruct (nth_error h d) as [ob|] eqn:E.
  - destruct ob; inversion H; subst; try apply Rn_refl. eapply Rn_store; [exact E|reflexivity].
  - inversion H; subst. apply Rn_refl.
Qed.
Ltac gn :=
  repeat first [ apply gn_set_obj_database | apply gn_upd_db
               | apply (g_ro _ Rn_refl); solve [ro_any]
               | apply (g_bind _ Rn_trans); [|intros ?]
               | match goal with |- guar _ (match ?x with _ => _ end) => destruct x end
               | match goal with |- guar _ (if ?x then _ else _) => destruct x end ].
Lemma gn_db_add d o : guar Rn (db_add d o).
Proof.
  unfold db_add. apply (g_bind _ Rn_trans); [apply (g_ro _ Rn_refl), ro_lookup|intros ob].
  destruct ob; try (apply (g_ro _ Rn_refl), ro_raise).
  - unfold db_add_table. gn.
  - unfold db_add_reference. gn.
  - unfold db_add_enum. gn.
  - unfold db_add_sticky_note. gn.
  - unfold db_add_project, db_delete_project. gn.
  - unfold db_add_table_group. gn.
Qed.
Lemma gn_of_Rext {A} (m : M A) : guar Rext m -> guar Rn m.
Proof. intros G h h' r H. apply Rn_Rext. eapply G; eauto. Qed.
Lemma gn_of_dview {A} (m : M A) : guar same_dview m -> guar Rn m.
Proof. intros G h h' r H. apply Rn_dview. eapply G; eauto. Qed.

Definition named (nm : pystr) (h : heap) (t : oid) : Prop := exists tb, h_table h t = Some tb /\ table_full_name tb = nm.
Lemma named_Rn nm h h' t : Rn h h' -> named nm h t -> named nm h' t.
Proof. intros R (tb & A & B). destruct (R _ _ A) as (tb' & A' & B'). exists tb'. split; [exact A'|congruence]. Qed.

Lemma gn_upd_index i f : guar Rn (upd_index i f).
Proof.
  intros h h' r H. unfold upd_index, get_index, bindM, lookup in H. destruct (nth_error h i) as [ob|] eqn:E.
  - destruct ob; inversion H; subst; try apply Rn_refl. eapply Rn_store; [exact E|reflexivity].
  - inversion H; subst. apply Rn_refl.
Qed.

(* build_table: every step keeps names; the returned table carries the blueprint's full name *)
Lemma gn_build_table_body d t cols idxs :
  guar Rn (do!! iterM (fun cb => do! c <- build_column d cb ;; table_add_column t c) cols ;;
           do!! iterM (fun ib => do! i <- build_index ib ;; do! subs <- mapMM (subject_of t) (match ib with PVBlue 6 idd => flist_of idd "subject_names" | _ => [] end) ;;
                                 do!! upd_index i (set_subjects subs) ;; table_add_index t i) idxs ;;
           ret t).
Proof.
  apply (g_bind _ Rn_trans); [|intros _].
  { apply (g_iterM _ Rn_refl Rn_trans). intros cb. apply (g_bind _ Rn_trans); [apply gn_of_Rext, gR_build_column|intros c].
    apply gn_of_dview, gd_table_add_column. }
  apply (g_bind _ Rn_trans); [|intros _; apply (g_ro _ Rn_refl), ro_ret].
  apply (g_iterM _ Rn_refl Rn_trans). intros ib. apply (g_bind _ Rn_trans); [apply gn_of_Rext, gR_build_index|intros i].
  apply (g_bind _ Rn_trans); [apply gn_of_Rext, (g_mapMM _ Rext_refl Rext_trans), gR_subject_of|intros subs].
  apply (g_bind _ Rn_trans); [apply gn_upd_index|intros _]. apply gn_of_dview, gd_table_add_index.
Qed.

Lemma build_table_named d bp nm h h' t : good_table_bp bp -> bp_full bp = Some nm -> build_table d bp h = (h', Ok t) -> named nm h' t.
Proof.
  intros Hg Hnm H. destruct bp as [s0|b0|z0|f0| |d0|l0|tag dd]; try discriminate Hnm.
  destruct (N.eq_dec tag 7) as [->|Nt].
  2:{ exfalso. destruct tag as [|p]; [discriminate Hnm|].
      destruct p as [q|q|]; try discriminate Hnm. destruct q as [r0|r0|]; try discriminate Hnm. destruct r0; try discriminate Hnm. congruence. }
  cbn in Hnm. inversion Hnm; subst nm. clear Hnm. unfold build_table in H.
  apply bindM_inv in H as [[e [_ H]]|[nt [h1 [H1 H]]]]; [discriminate H|].
  apply bindM_inv in H as [[e [_ H]]|[t0 [h2 [H2 H]]]]; [discriminate H|].
  (* the table as allocated *)
  assert (N2 : named (bp_schema dd ++ 46%N :: fstr (fstr_of dd "name")) h2 t0).
  { unfold new_table in H2. cbn [iterM] in H2.
    apply bindM_inv in H2 as [[e [_ H2]]|[n [hn [_ H2]]]]; [discriminate H2|].
    unfold bindM at 1 in H2. unfold alloc in H2. cbv beta iota in H2.
    apply bindM_inv in H2 as [[e [_ H2]]|[u1 [hx [Hx H2]]]]; [discriminate H2|]. unfold ret in Hx. injection Hx as E1 _. subst hx.
    apply bindM_inv in H2 as [[e [_ H2]]|[u2 [hy [Hy H2]]]]; [discriminate H2|]. unfold ret in Hy. injection Hy as E2 _. subst hy.
    apply bindM_inv in H2 as [[e [_ H2]]|[u3 [hz [Hz H2]]]]; [discriminate H2|]. unfold ret in H2. injection H2 as E3 E4. subst.
    eapply named_Rn; [apply Rn_Rext; eapply gR_set_note_parent; eauto|].
    eexists. split; [unfold h_table; rewrite nth_error_app2 by lia; rewrite Nat.sub_diag; reflexivity|]. reflexivity. }
  pose proof (gn_build_table_body d t0 _ _ _ _ _ H) as R.
  assert (t = t0).
  { apply bindM_inv in H as [[e [_ H]]|[u [hx [_ H]]]]; [discriminate H|]. apply bindM_inv in H as [[e [_ H]]|[u' [hy [_ H]]]]; [discriminate H|].
    unfold ret in H. inversion H. reflexivity. }
  subst t0. eapply named_Rn; eauto.
Qed.

(* ====================== D2 ====================== *)

(* the database value is not touched while a table is being built *)
Definition Rd (d : oid) (h h' : heap) : Prop := forall db, h_database h d = Some db -> h_database h' d = Some db.
Lemma Rd_refl d h : Rd d h h. Proof. intros db H; exact H. Qed.
Lemma Rd_trans d a b c : Rd d a b -> Rd d b c -> Rd d a c. Proof. intros H1 H2 db H. auto. Qed.
Lemma gdb_of_Rext {A} d (m : M A) : guar Rext m -> guar (Rd d) m.
Proof. intros G h h' r H db Hd. eapply Rext_db; [eapply G; eauto|exact Hd]. Qed.
Lemma gdb_of_dview {A} d (m : M A) : guar same_dview m -> guar (Rd d) m.
Proof. intros G h h' r H db Hd. eapply same_dview_db; [eapply G; eauto|exact Hd]. Qed.

Lemma gdb_upd_index d i f : guar (Rd d) (upd_index i f).
Proof.
  intros h h' r H db Hdb. unfold upd_index, get_index, bindM, lookup in H. destruct (nth_error h i) as [ob|] eqn:E.
  - destruct ob; inversion H; subst; try exact Hdb. rewrite (h_database_replace_nondb _ _ _ _ _ E); [exact Hdb|reflexivity|reflexivity].
  - inversion H; subst. exact Hdb.
Qed.

Lemma gdb_build_table d bp : good_table_bp bp -> guar (Rd d) (build_table d bp).
Proof.
  intros Hg. unfold build_table.
  destruct bp as [s0|b0|z0|f0| |d0|l0|tag dd]; try (apply (g_ro _ (Rd_refl d)), ro_stuck).
  destruct (N.eq_dec tag 7) as [->|Nt].
  2:{ destruct tag as [|p]; [apply (g_ro _ (Rd_refl d)), ro_stuck|].
      destruct p as [q|q|]; try (apply (g_ro _ (Rd_refl d)), ro_stuck). destruct q as [r0|r0|]; try (apply (g_ro _ (Rd_refl d)), ro_stuck).
      destruct r0; try (apply (g_ro _ (Rd_refl d)), ro_stuck). congruence. }
  apply (g_bind _ (Rd_trans d)); [apply (g_ro _ (Rd_refl d)), ro_lift|intros nt].
  apply (g_bind _ (Rd_trans d)); [apply gdb_of_Rext, new_table_empty_Rext; exact Hg|intros t].
  apply (g_bind _ (Rd_trans d)); [|intros _].
  { apply (g_iterM _ (Rd_refl d) (Rd_trans d)). intros cb. apply (g_bind _ (Rd_trans d)); [apply gdb_of_Rext, gR_build_column|intros c].
    apply gdb_of_dview, gd_table_add_column. }
  apply (g_bind _ (Rd_trans d)); [|intros _; apply (g_ro _ (Rd_refl d)), ro_ret].
  apply (g_iterM _ (Rd_refl d) (Rd_trans d)). intros ib. apply (g_bind _ (Rd_trans d)); [apply gdb_of_Rext, gR_build_index|intros i].
  apply (g_bind _ (Rd_trans d)); [apply gdb_of_Rext, (g_mapMM _ Rext_refl Rext_trans), gR_subject_of|intros subs].
  apply (g_bind _ (Rd_trans d)); [apply gdb_upd_index|intros _]. apply gdb_of_dview, gd_table_add_index.
Qed.

Definition step (d : oid) (bp : pyv) : M unit := do! t <- build_table d bp ;; db_add d t.
Definition NameIn (nm : pystr) (d : oid) (h : heap) : Prop :=
  exists db t, h_database h d = Some db /\ dict_get nm (d_table_dict db) = Some t.

Lemma iterM_app_ok {A} (f : A -> M unit) a b : forall h h' u, iterM f (a ++ b) h = (h', Ok u) ->
  exists hm, iterM f a h = (hm, Ok tt) /\ iterM f b hm = (h', Ok u).
Proof.
  induction a as [|x a IH]; intros h h' u H; cbn [app iterM] in *.
  - exists h. split; [reflexivity|exact H].
  - apply bindM_inv in H as [[e [_ H]]|[[] [h1 [H1 H]]]]; [discriminate H|].
    destruct (IH _ _ _ H) as (hm & A1 & A2). exists hm. split; [|exact A2]. unfold bindM. rewrite H1. exact A1.
Qed.

Lemma J_InvDB d h : J d h -> exists db, InvDB h d db /\ h_database h d = Some db.
Proof. intros (db & ID & _). exists db. split; [exact ID|]. destruct ID as [[A _ _ _ _ _] _ _]. exact A. Qed.

(* a successful step leaves the new table's full name in the index *)
Lemma step_establishes d bp nm h h' u : J d h -> good_table_bp bp -> bp_full bp = Some nm -> step d bp h = (h', Ok u) -> NameIn nm d h'.
Proof.
  intros HJ Hg Hnm H. unfold step in H. apply bindM_inv in H as [[e [_ H]]|[t [h1 [H1 H2]]]]; [discriminate H|].
  destruct (build_table_keeps_J d bp h h1 (Ok t) Hg HJ H1) as [HJ1 _]. pose proof (build_table_named d bp nm h h1 t Hg Hnm H1) as (tb & Ht & Hn).
  destruct (J_InvDB _ _ HJ1) as (db1 & ID1 & Hdb1).
  destruct (db_add_step h1 d db1 t ID1) as [[e R]|(db' & h2 & ob & k & Hrun & ID' & Ho & Hk & Hm & Hl1 & _)].
  { rewrite R in H2. discriminate H2. }
  rewrite Hrun in H2. inversion H2; subst h2. pose proof (h_table_nth _ _ _ Ht) as Htn. rewrite Htn in Ho. inversion Ho; subst ob. cbn in Hk. inversion Hk; subst k.
  assert (Hin : In t (d_tables db')) by (change (In t (klist KTable db')); rewrite (Hl1 ltac:(discriminate)); apply in_or_app; right; left; reflexivity).
  destruct ID' as [[Idb' _ _ _ If' _] _ _]. destruct (If' t Hin) as (tb' & Ht' & _ & Hkeys).
  destruct (gn_db_add d t _ _ _ Hrun t tb Ht) as (tb'' & A & B). rewrite Ht' in A. inversion A; subst tb''.
  exists db', t. split; [exact Idb'|]. apply Hkeys. left. congruence.
Qed.

(* a later successful step keeps it there *)
Lemma step_keeps d bp nm h h' u : J d h -> good_table_bp bp -> NameIn nm d h -> step d bp h = (h', Ok u) -> NameIn nm d h'.
Proof.
  intros HJ Hg (db & t0 & Hdb & Hget) H. unfold step in H. apply bindM_inv in H as [[e [_ H]]|[t [h1 [H1 H2]]]]; [discriminate H|].
  destruct (build_table_keeps_J d bp h h1 (Ok t) Hg HJ H1) as [HJ1 _].
  pose proof (gdb_build_table d bp Hg _ _ _ H1 db Hdb) as Hdb1.
  destruct (J_InvDB _ _ HJ1) as (db1 & ID1 & Hdb1'). assert (db1 = db) by congruence. subst db1.
  destruct (db_add_step h1 d db t ID1) as [[e R]|(db' & h2 & ob & k & Hrun & ID' & _ & _ & _ & _ & _ & _ & Hdm)].
  { rewrite R in H2. discriminate H2. }
  rewrite Hrun in H2. inversion H2; subst h2. destruct ID' as [[Idb' _ _ _ _ _] _ _]. exists db', t0. split; [exact Idb'|apply Hdm; exact Hget].
Qed.

(* a second table with a name that is already in the index is refused *)
Lemma step_clashes d bp nm h h' u : J d h -> good_table_bp bp -> NameIn nm d h -> bp_full bp = Some nm -> step d bp h <> (h', Ok u).
Proof.
  intros HJ Hg (db & t0 & Hdb & Hget) Hnm H. unfold step in H. apply bindM_inv in H as [[e [_ H]]|[t [h1 [H1 H2]]]]; [discriminate H|].
  pose proof (gdb_build_table d bp Hg _ _ _ H1 db Hdb) as Hdb1.
  pose proof (build_table_named d bp nm h h1 t Hg Hnm H1) as (tb & Ht & Hn).
  assert (Hhas : dict_has (table_full_name tb) (d_table_dict db) = true) by (unfold dict_has; rewrite Hn, Hget; reflexivity).
  pose proof (add_table_name_clash h1 d db t tb Hdb1 Ht (or_introl Hhas)) as Hc.
  rewrite (db_add_dispatch h1 d t (OTable tb) (h_table_nth _ _ _ Ht)) in H2. rewrite Hc in H2. discriminate H2.
Qed.

(* ====================== D3 ====================== *)

Lemma pres_step d bp : good_table_bp bp -> pres d (fun _ => True) (step d bp).
Proof. intros Hg. apply pres_table_then_add. exact Hg. Qed.

Lemma iter_steps_J d l h h' u : Forall good_table_bp l -> J d h -> iterM (step d) l h = (h', Ok u) -> J d h'.
Proof.
  intros Hg HJ H. rewrite Forall_forall in Hg.
  destruct (pres_iterM_in d (fun _ => True) (step d) l (fun bp Hin => pres_step d bp (Hg bp Hin)) _ _ _ HJ Logic.I H) as [X _]. exact X.
Qed.

Lemma iter_steps_keep d nm l : forall h h' u, Forall good_table_bp l -> J d h -> NameIn nm d h -> iterM (step d) l h = (h', Ok u) -> NameIn nm d h'.
Proof.
  induction l as [|bp l IH]; intros h h' u Hg HJ HN H; cbn [iterM] in H.
  - inversion H; subst. exact HN.
  - inversion Hg as [|? ? Hg1 Hg2]; subst. apply bindM_inv in H as [[e [_ H]]|[[] [h1 [H1 H]]]]; [discriminate H|].
    eapply IH; [exact Hg2| |eapply step_keeps; eauto|exact H].
    destruct (pres_step d bp Hg1 _ _ _ HJ Logic.I H1) as [X _]. exact X.
Qed.

(* the tables phase of build_database cannot succeed on two blueprints with the same schema and name *)
Theorem tables_phase_rejects_duplicates d l1 bp1 l2 bp2 l3 nm h h' u :
  Forall good_table_bp (l1 ++ bp1 :: l2 ++ bp2 :: l3) -> bp_full bp1 = Some nm -> bp_full bp2 = Some nm -> J d h ->
  iterM (step d) (l1 ++ bp1 :: l2 ++ bp2 :: l3) h <> (h', Ok u).
Proof.
  intros Hg N1 N2 HJ H.
  apply Forall_app in Hg as [G1 Hg]. inversion Hg as [|? ? Gb1 Hg']; subst. apply Forall_app in Hg' as [G2 Hg'']. inversion Hg'' as [|? ? Gb2 G3]; subst.
  destruct (iterM_app_ok _ _ _ _ _ _ H) as (ha & A1 & A2).
  pose proof (iter_steps_J d l1 h ha tt G1 HJ A1) as HJa.
  cbn [iterM] in A2. apply bindM_inv in A2 as [[e [_ A2]]|[[] [hb [B1 A2]]]]; [discriminate A2|].
  pose proof (step_establishes d bp1 nm ha hb tt HJa Gb1 N1 B1) as HNb.
  destruct (pres_step d bp1 Gb1 _ _ _ HJa Logic.I B1) as [HJb _].
  destruct (iterM_app_ok _ _ _ _ _ _ A2) as (hc & C1 & C2).
  pose proof (iter_steps_J d l2 hb hc tt G2 HJb C1) as HJc.
  pose proof (iter_steps_keep d nm l2 hb hc tt G2 HJb HNb C1) as HNc.
  cbn [iterM] in C2. apply bindM_inv in C2 as [[e [_ C2]]|[[] [hd [D1 C2]]]]; [discriminate C2|].
  exact (step_clashes d bp2 nm hc hd tt HJc Gb2 HNc N2 D1).
Qed.

(* C06: whatever else the document contains, a document with two tables of the same schema and name never yields a database *)
Theorem build_database_rejects_duplicate_tables s allow sq dq h0 h1 dd l1 bp1 l2 bp2 l3 nm :
  WW h0 -> (forall t tb, h_table h0 t = Some tb -> NoDup (names_of tb)) -> Forall good_table_bp (ps_tables s) ->
  ps_tables s = l1 ++ bp1 :: l2 ++ bp2 :: l3 -> bp_full bp1 = Some nm -> bp_full bp2 = Some nm ->
  build_database s allow sq dq h0 <> (h1, Ok dd).
Proof.
  intros HW Hgood Hg Hl N1 N2 H. unfold build_database in H. unfold bindM at 1 in H. unfold new_database, alloc in H. cbv beta iota in H.
  set (db0 := mkDatabase [] [] [] [] [] [] None allow sq dq) in *. set (d := length h0) in *.
  assert (HJ : J d (h0 ++ [ODatabase db0])).
  { exists db0. split; [apply fresh_database_full; exact Hgood|].
    intros k. eapply W_Rext; [|apply HW]. eapply (gR_alloc (ODatabase db0)); [exact Logic.I|reflexivity]. }
  apply bindM_inv in H as [[e [_ H]]|[u1 [ha [A1 H]]]]; [discriminate H|].
  assert (HJa : J d ha).
  { destruct (pres_iterM d (fun _ => True) (fun bp => do! e <- build_enum bp ;; db_add d e) (ps_enums s)
                (fun bp => pres_build_then_add d build_enum bp (gR_build_enum bp)) _ _ _ HJ Logic.I A1) as [X _]. exact X. }
  apply bindM_inv in H as [[e [_ H]]|[u2 [hb [B1 H]]]]; [discriminate H|].
  rewrite Hl in B1, Hg. destruct u2. exact (tables_phase_rejects_duplicates d l1 bp1 l2 bp2 l3 nm ha hb tt Hg N1 N2 HJa B1).
Qed.

(* for every source text *)
Theorem parser_rejects_duplicate_tables source allow sq dq h0 h1 d st l1 bp1 l2 bp2 l3 nm :
  WW h0 -> (forall t tb, h_table h0 t = Some tb -> NoDup (names_of tb)) ->
  blueprints_of source allow h0 = (h0, Ok st) -> Forall good_table_bp (ps_tables st) ->
  ps_tables st = l1 ++ bp1 :: l2 ++ bp2 :: l3 -> bp_full bp1 = Some nm -> bp_full bp2 = Some nm ->
  parser_parse source allow sq dq h0 <> (h1, Ok d).
Proof.
  intros HW Hgood Hb Hg Hl N1 N2 H. unfold parser_parse, bindM in H. rewrite Hb in H.
  exact (build_database_rejects_duplicate_tables st allow sq dq h0 h1 d l1 bp1 l2 bp2 l3 nm HW Hgood Hg Hl N1 N2 H).
Qed.
