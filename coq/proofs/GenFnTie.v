(* GenFnTie.v — the hand-written definitions of the pure text helpers (model/Tools.v), which the theorems of C02, C08, C13 and
   C14 are about, are equal to the definitions regenerated from the source text of those functions on every run
   (coq/gen/GenFns.v, tools/translate_fns.py).  An edit of one of the functions in /repo changes GenFns.v and breaks one of
   these lemmas (or leaves the translated subset: the translator aborts). *)
From PyDBML Require Import PyStr Py Heap Classes Tools RenderSQL RenderDBML GenFns.
Import ListNotations.

Lemma py_mul_char c n : py_mul [c] n = repeat c n.
Proof. unfold py_mul. induction n as [|n IH]; [reflexivity|]. cbn [repeat concat]. rewrite IH. reflexivity. Qed.

Theorem gen_comment_is_model v c : gen_comment v c = comment v c.
Proof. reflexivity. Qed.

Theorem gen_indent_is_model v n : gen_indent v n = indent v n.
Proof.
  unfold gen_indent, indent. destruct v as [|x v]; [reflexivity|]. cbn [is_nil].
  change (s2l " ") with [cSP]. rewrite py_mul_char. reflexivity.
Qed.

Theorem gen_remove_bom_is_model s : gen_remove_bom s = remove_bom s.
Proof. unfold gen_remove_bom, remove_bom. destruct s as [|c r]; [reflexivity|]. change 65279%N with cBOM. destruct (N.eqb c cBOM); reflexivity. Qed.

Theorem gen_doublequote_string_is_model s : gen_doublequote_string s = doublequote_string s.
Proof. unfold gen_doublequote_string, doublequote_string. change 10%N with cLF. destruct (mem cLF s); reflexivity. Qed.

Theorem gen_quote_string_is_model t : gen_quote_string t = quote_string t.
Proof.
  unfold gen_quote_string, quote_string. change 10%N with cLF. destruct (mem cLF t).
  - unfold sq3. cbn [app]. reflexivity.
  - reflexivity.
Qed.

Theorem gen_note_option_to_dbml_is_model t : gen_note_option_to_dbml t = note_option_to_dbml t.
Proof.
  unfold gen_note_option_to_dbml, note_option_to_dbml. change 10%N with cLF. destruct (mem cLF t).
  - unfold sq3. cbn. reflexivity.
  - cbn. reflexivity.
Qed.

Theorem gen_comment_to_dbml_is_model v : gen_comment_to_dbml v = comment_to_dbml v.
Proof. reflexivity. Qed.
Theorem gen_comment_to_sql_is_model v : gen_comment_to_sql v = comment_to_sql v.
Proof. reflexivity. Qed.

(* tools.indent's default indentation, as the renderers rely on it *)
Theorem gen_indent_default : gen_indent_default_spaces = 4.
Proof. reflexivity. Qed.

(* ---- small renderers ---- *)
Theorem gen_render_expression_sql_is_model x : gen_render_expression_sql x = sql_expression x.
Proof. reflexivity. Qed.
Theorem gen_render_expression_dbml_is_model x : gen_render_expression_dbml x = dbml_expression x.
Proof. reflexivity. Qed.

(* EnumItem.sql = check of the required attributes (SQLObject.sql) and then the registered renderer function *)
Theorem gen_render_enum_item_sql_is_model i :
  sql_enum_item i = do _ <- check_attributes (OEnumItem i); Ok (gen_render_enum_item_sql i).
Proof.
  unfold sql_enum_item, gen_render_enum_item_sql, with_comment. destruct (check_attributes (OEnumItem i)); [|reflexivity]. cbn [bind].
  destruct (truthy (ei_comment i)); reflexivity.
Qed.

Theorem gen_render_sticky_note_dbml_is_model s : gen_render_sticky_note_dbml s = dbml_sticky s.
Proof.
  unfold gen_render_sticky_note_dbml, dbml_sticky. rewrite gen_quote_string_is_model. cbn. repeat rewrite <- app_assoc. try reflexivity.
Qed.

(* ---- the qualified name of a table / an enum, as both renderers spell it ---- *)
Theorem gen_get_full_name_for_sql_is_model s n : gen_get_full_name_for_sql (mkNamed s n) = full_name_for_sql s n.
Proof.
  unfold gen_get_full_name_for_sql, full_name_for_sql, PUBLIC, q2. cbn [nm_schema nm_name].
  destruct (ostr_eqb s (Some (s2l "public"))); cbn; rewrite <- ?app_assoc; reflexivity.
Qed.
Theorem gen_get_full_name_for_dbml_is_model s n : gen_get_full_name_for_dbml (mkNamed s n) = full_name_for_dbml s n.
Proof.
  unfold gen_get_full_name_for_dbml, full_name_for_dbml, full_name_for_sql, PUBLIC, q2. cbn [nm_schema nm_name].
  destruct (ostr_eqb s (Some (s2l "public"))); cbn; rewrite <- ?app_assoc; reflexivity.
Qed.

(* ---- the PRIMARY KEY clause of a pk index ---- *)
Theorem gen_render_pk_sql_is_model i keys :
  with_comment (i_comment i) (s2l "PRIMARY KEY (" ++ keys ++ [41%N]) = gen_render_pk_sql i keys.
Proof.
  unfold gen_render_pk_sql, with_comment. destruct (truthy (i_comment i)); reflexivity.
Qed.

(* ---- the DBML Note { ... } block ---- *)
Theorem gen_render_note_is_model t : gen_render_note t = dbml_note t.
Proof. unfold gen_render_note, dbml_note. rewrite gen_quote_string_is_model. cbn. repeat rewrite <- app_assoc. try reflexivity. Qed.
