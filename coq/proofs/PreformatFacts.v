(* PreformatFacts.v — C13: the note normalisation (strip_empty_lines then remove_indentation) is idempotent.
   strip_empty_lines is idempotent on every text; the composition is idempotent on every text whose
   whitespace characters are blank, TAB and LF (the hypothesis is necessary: see C13_idempotent_full_refuted). *)
From PyDBML Require Import PyStr Py Tools ToolsFacts.
From Coq Require Import Lia.
Import ListNotations.

(* ====================== part 1 ====================== *)

(* the whitespace characters of the text are blank, TAB and LF only *)
Definition ws_ok (t : pystr) : Prop :=
  forall c, In c t -> py_isspace c = true -> is_blank c = true \/ c = cLF.

Lemma is_blank_space c : is_blank c = true -> py_isspace c = true.
Proof. unfold is_blank. intros H. apply orb_true_iff in H as [H|H]; apply N.eqb_eq in H; subst; reflexivity. Qed.

Lemma LF_not_blank : is_blank cLF = false. Proof. reflexivity. Qed.

Definition tail_chars (s : pystr) : bool := forallb (fun x => N.eqb x cLF || is_blank x) s.

Lemma in_tail_chars b : in_tail b = true -> tail_chars b = true.
Proof. destruct b as [|c r]; [reflexivity|]. unfold in_tail. intros H. apply andb_true_iff in H as [_ H]. exact H. Qed.

Lemma in_tail_app a b : a <> [] -> in_tail a = true -> tail_chars b = true -> in_tail (a ++ b) = true.
Proof.
  destruct a as [|x l]; [congruence|]. intros _ Ha Hb.
  assert (H1 : N.eqb x cLF = true) by (unfold in_tail in Ha; apply andb_true_iff in Ha; tauto).
  assert (H2 : tail_chars (x :: l) = true) by (apply in_tail_chars; exact Ha).
  change (N.eqb x cLF && tail_chars ((x :: l) ++ b) = true).
  rewrite H1. cbn [andb]. unfold tail_chars in *. rewrite forallb_app. apply andb_true_intro. split; assumption.
Qed.

(* ---- lazy_content ---- *)
Lemma lazy_content_nonempty s : s <> [] -> lazy_content s <> [].
Proof. destruct s; [congruence|]. cbn. discriminate. Qed.

Lemma lazy_content_split s : exists b, s = lazy_content s ++ b /\ in_tail b = true.
Proof.
  induction s as [|c r IH]; [exists []; split; reflexivity|].
  cbn [lazy_content]. destruct (in_tail r) eqn:E.
  - exists r. split; [reflexivity|exact E].
  - destruct IH as [b [Hb Ht]]. exists b. split; [cbn; f_equal; exact Hb|exact Ht].
Qed.

(* fixed points of lazy_content: no proper non-empty tail in the trailing language *)
Definition no_tail (s : pystr) : Prop :=
  forall a b, s = a ++ b -> a <> [] -> b <> [] -> in_tail b = false.

Lemma lazy_content_fix s : no_tail s -> lazy_content s = s.
Proof.
  induction s as [|c r IH]; intros H; [reflexivity|].
  cbn [lazy_content]. destruct r as [|c2 r2]; [reflexivity|].
  rewrite (H [c] (c2 :: r2) eq_refl) by discriminate.
  f_equal. apply IH. intros a b Hab Ha Hb. apply (H (c :: a) b); [cbn; f_equal; exact Hab|discriminate|exact Hb].
Qed.

Lemma lazy_content_no_tail s : no_tail (lazy_content s).
Proof.
  induction s as [|c r IH]; intros a b Hab Ha Hb.
  - destruct a; [congruence|discriminate Hab].
  - cbn [lazy_content] in Hab. destruct (in_tail r) eqn:E.
    + destruct a as [|x a]; [congruence|]. destruct a; destruct b; cbn in Hab; try congruence; inversion Hab.
    + destruct a as [|x a]; [congruence|]. cbn in Hab. inversion Hab as [[Hx Hr]]. subst x.
      destruct a as [|y a].
      * cbn in Hr. subst b.
        (* tail of lazy_content r is in_tail-free: it is a prefix of r with an in_tail remainder *)
        destruct (lazy_content_split r) as [b2 [Hb2 Ht2]].
        destruct (in_tail (lazy_content r)) eqn:E2; [|reflexivity]. exfalso.
        (* then r itself would be in_tail *)
        assert (in_tail r = true).
        { rewrite Hb2. apply in_tail_app; [intro Hn; rewrite Hn in Hb; congruence | exact E2 | apply in_tail_chars; exact Ht2]. }
        congruence.
      * apply (IH (y :: a) b Hr); [discriminate|exact Hb].
Qed.

Lemma lazy_content_idem s : lazy_content (lazy_content s) = lazy_content s.
Proof. apply lazy_content_fix, lazy_content_no_tail. Qed.

(* ====================== part 2 ====================== *)

(* ---- after_blank_line / skip_blank_lines ---- *)
Lemma abl_length s r : after_blank_line s = Some r -> length r < length s.
Proof.
  revert r. induction s as [|c s IH]; intros r H; [discriminate|]. cbn in H.
  destruct (N.eqb c cLF); [inversion H; subst; cbn; lia|].
  destruct (is_blank c); [|discriminate]. apply IH in H. cbn. lia.
Qed.

Lemma abl_suffix s r : after_blank_line s = Some r -> exists pre, s = pre ++ r.
Proof.
  revert r. induction s as [|c s IH]; intros r H; [discriminate|]. cbn in H.
  destruct (N.eqb c cLF); [inversion H; subst; exists [c]; reflexivity|].
  destruct (is_blank c); [|discriminate]. destruct (IH r H) as [pre Hp]. exists (c :: pre). cbn. f_equal. exact Hp.
Qed.

Definition head_ok (w : pystr) : Prop := after_blank_line w = None \/ after_blank_line w = Some [].

Lemma skip_spec fuel : forall s, s <> [] -> length s <= fuel ->
  let w := skip_blank_lines fuel s in w <> [] /\ head_ok w /\ exists pre, s = pre ++ w.
Proof.
  induction fuel as [|f IH]; intros s Hs Hl; [destruct s; [congruence|cbn in Hl; lia]|].
  cbn [skip_blank_lines]. destruct (after_blank_line s) as [r|] eqn:E.
  - destruct r as [|c r'] eqn:Er.
    + split; [exact Hs|]. split; [right; exact E|exists []; reflexivity].
    + rewrite <- Er in *. destruct (after_blank_line r) as [r2|] eqn:E2.
      * pose proof (abl_length _ _ E) as L1.
        assert (Hr : r <> []) by (subst r; discriminate).
        destruct (IH r Hr ltac:(lia)) as [H1 [H2 [pre Hp]]].
        split; [exact H1|]. split; [exact H2|].
        destruct (abl_suffix _ _ E) as [pre0 Hp0]. exists (pre0 ++ pre). rewrite <- app_assoc, <- Hp. exact Hp0.
      * split; [subst r; discriminate|]. split; [left; exact E2|]. apply abl_suffix in E. exact E.
  - split; [exact Hs|]. split; [left; exact E|exists []; reflexivity].
Qed.

Lemma skip_fix fuel s : after_blank_line s = None -> skip_blank_lines fuel s = s.
Proof. intros H. destruct fuel; [reflexivity|]. cbn. rewrite H. reflexivity. Qed.

Lemma abl_lazy_none w : after_blank_line w = None -> after_blank_line (lazy_content w) = None.
Proof.
  induction w as [|c r IH]; intros H; [reflexivity|].
  cbn [after_blank_line] in H. cbn [lazy_content].
  destruct (N.eqb c cLF) eqn:E1; [discriminate|].
  destruct (is_blank c) eqn:E2.
  - destruct (in_tail r); cbn [after_blank_line]; rewrite E1, E2; [reflexivity|apply IH; exact H].
  - cbn [after_blank_line]. rewrite E1, E2. reflexivity.
Qed.

Lemma abl_some_nil_form w : after_blank_line w = Some [] -> w = [cLF] \/ exists c r, w = c :: r /\ is_blank c = true /\ after_blank_line r = Some [].
Proof.
  destruct w as [|c r]; [discriminate|]. cbn. destruct (N.eqb c cLF) eqn:E1.
  - intros H. inversion H; subst. apply N.eqb_eq in E1. subst. left. reflexivity.
  - destruct (is_blank c) eqn:E2; [|discriminate]. intros H. right. exists c, r. auto.
Qed.

Lemma abl_lazy_some_nil w : after_blank_line w = Some [] ->
  lazy_content w = [cLF] \/ after_blank_line (lazy_content w) = None.
Proof.
  induction w as [|c r IH]; intros H; [discriminate|].
  destruct (abl_some_nil_form _ H) as [Hw|[c' [r' [Hw [Hb Hr]]]]].
  - inversion Hw; subst. left. reflexivity.
  - inversion Hw; subst c' r'. cbn [lazy_content].
    assert (Hc : N.eqb c cLF = false) by (destruct (N.eqb c cLF) eqn:E; [apply N.eqb_eq in E; subst; discriminate Hb|reflexivity]).
    destruct (in_tail r) eqn:Et.
    + right. cbn. rewrite Hc, Hb. reflexivity.
    + right. cbn [after_blank_line]. rewrite Hc, Hb.
      destruct (IH Hr) as [Hl|Hl]; [|exact Hl].
      (* lazy_content r = [LF] forces r to start with LF, hence (with abl r = Some []) r = [LF], in_tail *)
      exfalso. destruct r as [|x r2]; [discriminate|]. cbn [lazy_content] in Hl.
      assert (x = cLF) by (destruct (in_tail r2); inversion Hl; reflexivity). subst x.
      cbn in Hr. inversion Hr; subst r2. cbn in Et. discriminate.
Qed.

(* normal form of strip_empty_lines *)
Definition strip_nf (u : pystr) : Prop := u <> [] /\ after_blank_line u = None /\ no_tail u.

Lemma strip_cases s : s <> [] -> strip_empty_lines s = [cLF] \/ strip_nf (strip_empty_lines s).
Proof.
  intros Hs. unfold strip_empty_lines. destruct s as [|c0 s0] eqn:Es; [congruence|]. rewrite <- Es in *.
  destruct (skip_spec (length s) s Hs (le_n _)) as [Hw [Hh _]].
  set (w := skip_blank_lines (length s) s) in *.
  destruct Hh as [Hn|Hn].
  - right. split; [apply lazy_content_nonempty; exact Hw|]. split; [apply abl_lazy_none; exact Hn|apply lazy_content_no_tail].
  - destruct (abl_lazy_some_nil w Hn) as [Hl|Hl]; [left; exact Hl|].
    right. split; [apply lazy_content_nonempty; exact Hw|]. split; [exact Hl|apply lazy_content_no_tail].
Qed.

Lemma strip_nf_fix u : strip_nf u -> strip_empty_lines u = u.
Proof.
  intros [Hn [Ha Ht]]. unfold strip_empty_lines. destruct u as [|c r] eqn:E; [reflexivity|]. rewrite <- E in *.
  rewrite skip_fix by exact Ha. apply lazy_content_fix. exact Ht.
Qed.

Lemma strip_LF : strip_empty_lines [cLF] = [cLF]. Proof. reflexivity. Qed.

Theorem strip_empty_lines_idem s : strip_empty_lines (strip_empty_lines s) = strip_empty_lines s.
Proof.
  destruct s as [|c r] eqn:E; [reflexivity|]. rewrite <- E.
  destruct (strip_cases s) as [H|H]; [subst; discriminate| |].
  - rewrite H. reflexivity.
  - apply strip_nf_fix. exact H.
Qed.

(* ====================== part 3 ====================== *)

(* ---- lines ---- *)
Definition lines (s : pystr) : list pystr := split_on cLF s.
Definition nonblank (l : pystr) : bool := negb (is_nil l) && negb (str_isspace l).
Definition all_blank (l : pystr) : bool := forallb is_blank l.
Definition lf_free (l : pystr) : Prop := mem cLF l = false.

Lemma lines_join s : join [cLF] (lines s) = s. Proof. apply split_on_join. Qed.
Lemma lines_lf_free s : Forall lf_free (lines s). Proof. apply split_on_no_sep. Qed.
Lemma lines_nonempty s : lines s <> []. Proof. apply split_on_nonempty. Qed.

Lemma lines_app_lf a b : lines (a ++ cLF :: b) = removelast (lines a) ++ [last (lines a) []] ++ lines b.
Proof.
  unfold lines. induction a as [|x a IH]; [reflexivity|].
  cbn [app split_on]. destruct (N.eqb x cLF) eqn:E.
  - rewrite IH. destruct (split_on cLF a) as [|l ls] eqn:S; [exfalso; eapply split_on_nonempty; eauto|]. reflexivity.
  - rewrite IH. destruct (split_on cLF a) as [|l ls] eqn:S; [exfalso; eapply split_on_nonempty; eauto|].
    destruct ls as [|l2 ls]; reflexivity.
Qed.

Lemma last_app' {A} (l1 l2 : list A) d : l2 <> [] -> last (l1 ++ l2) d = last l2 d.
Proof.
  induction l1 as [|x l1 IH]; intros H; [reflexivity|].
  cbn [app]. destruct (l1 ++ l2) eqn:E; [destruct l1; [cbn in E; congruence|discriminate E]|].
  change (last (x :: a :: l) d) with (last (a :: l) d). apply IH. exact H.
Qed.

Lemma last_lines_app_lf a b : last (lines (a ++ cLF :: b)) [] = last (lines b) [].
Proof.
  rewrite lines_app_lf. rewrite app_assoc. apply last_app'. apply lines_nonempty.
Qed.

Lemma length_lines_app_lf a b : 2 <= length (lines (a ++ cLF :: b)).
Proof.
  rewrite lines_app_lf. rewrite !app_length. pose proof (lines_nonempty b). destruct (lines b); [congruence|]. cbn. lia.
Qed.

Lemma tail_chars_cons x b : tail_chars (x :: b) = (N.eqb x cLF || is_blank x) && tail_chars b.
Proof. reflexivity. Qed.

Lemma tail_chars_lines b : tail_chars b = true -> Forall (fun l => all_blank l = true) (lines b).
Proof.
  unfold lines. induction b as [|x b IH]; intros H; [repeat constructor|].
  rewrite tail_chars_cons in H. apply andb_true_iff in H as [Hx Hb]. specialize (IH Hb). cbn [split_on].
  destruct (N.eqb x cLF) eqn:E.
  - constructor; [reflexivity|exact IH].
  - cbn [orb] in Hx.
    destruct (split_on cLF b) as [|l ls]; [repeat constructor; unfold all_blank; cbn [forallb]; rewrite Hx; reflexivity|].
    inversion IH; subst. constructor; [unfold all_blank in *; cbn [forallb]; rewrite Hx; assumption|assumption].
Qed.

Lemma Forall_last {A} (P : A -> Prop) l d : l <> [] -> Forall P l -> P (last l d).
Proof.
  induction l as [|x l IH]; [congruence|]. intros _ H. inversion H; subst.
  destruct l as [|y l]; [exact H2|]. apply IH; [discriminate|exact H3].
Qed.

(* (<-) a last line that is not all blank, or a single line, excludes a trailing-language tail *)
Lemma no_tail_of_last s : (length (lines s) = 1 \/ all_blank (last (lines s) []) = false) -> no_tail s.
Proof.
  intros H a b Hab Ha Hb. destruct (in_tail b) eqn:E; [|reflexivity]. exfalso.
  destruct b as [|x b']; [congruence|]. pose proof E as E0. unfold in_tail in E. apply andb_true_iff in E as [Ex Et].
  apply N.eqb_eq in Ex. subst x s.
  destruct H as [H|H].
  - pose proof (length_lines_app_lf a b'). lia.
  - rewrite last_lines_app_lf in H.
    assert (Tb : tail_chars b' = true).
    { apply in_tail_chars in E0. rewrite tail_chars_cons in E0. apply andb_true_iff in E0. tauto. }
    pose proof (Forall_last (fun l => all_blank l = true) (lines b') [] (lines_nonempty b') (tail_chars_lines _ Tb)) as HL.
    cbn beta in HL. rewrite HL in H. discriminate H.
Qed.

Lemma join_removelast (L : list pystr) : 2 <= length L ->
  join [cLF] L = join [cLF] (removelast L) ++ cLF :: last L [].
Proof.
  induction L as [|x L IH]; [cbn; lia|]. intros H.
  destruct L as [|y L]; [cbn in H; lia|].
  destruct L as [|z L].
  - reflexivity.
  - change (join [cLF] (x :: y :: z :: L)) with (x ++ [cLF] ++ join [cLF] (y :: z :: L)).
    rewrite IH by (cbn; lia).
    change (removelast (x :: y :: z :: L)) with (x :: removelast (y :: z :: L)).
    change (last (x :: y :: z :: L) []) with (last (y :: z :: L) []).
    remember (removelast (y :: z :: L)) as R. destruct R as [|r R].
    + cbn in HeqR. destruct L; discriminate.
    + change (join [cLF] (x :: r :: R)) with (x ++ [cLF] ++ join [cLF] (r :: R)).
      rewrite <- !app_assoc. reflexivity.
Qed.

Lemma all_blank_tail_chars l : all_blank l = true -> tail_chars l = true.
Proof.
  unfold all_blank, tail_chars. induction l as [|x l IH]; [reflexivity|]. cbn. intros H.
  apply andb_true_iff in H as [H1 H2]. rewrite H1, orb_true_r. cbn. apply IH. exact H2.
Qed.

Lemma abl_blank_then_lf bl r : all_blank bl = true -> after_blank_line (bl ++ cLF :: r) = Some r.
Proof.
  induction bl as [|x bl IH]; intros H; [reflexivity|]. cbn in H. apply andb_true_iff in H as [Hx Hb].
  cbn. assert (N.eqb x cLF = false) by (destruct (N.eqb x cLF) eqn:E; [apply N.eqb_eq in E; subst; discriminate Hx|reflexivity]).
  rewrite H, Hx. apply IH. exact Hb.
Qed.

(* (->) in a stripped text with at least two lines the last line is not all blank *)
Lemma last_not_blank_of_nf u : strip_nf u -> 2 <= length (lines u) -> all_blank (last (lines u) []) = false.
Proof.
  intros [Hn [Ha Ht]] HL. destruct (all_blank (last (lines u) [])) eqn:E; [|reflexivity]. exfalso.
  pose proof (join_removelast (lines u) HL) as J. rewrite lines_join in J.
  set (a := join [cLF] (removelast (lines u))) in *. set (m := last (lines u) []) in *.
  destruct a as [|x a'] eqn:Ea.
  - (* u = LF :: m : it starts with an (empty) blank line *)
    rewrite J in Ha. cbn in Ha. discriminate Ha.
  - assert (in_tail (cLF :: m) = false) by (apply (Ht (x :: a') (cLF :: m) J); discriminate).
    assert (in_tail (cLF :: m) = true); [|congruence].
    unfold in_tail. rewrite N.eqb_refl. cbn [andb]. change (tail_chars (cLF :: m) = true).
    rewrite tail_chars_cons, N.eqb_refl. cbn [orb andb]. apply all_blank_tail_chars. exact E.
Qed.

(* ====================== part 4 ====================== *)

Definition ind (l : pystr) : nat := leading_space_len l.
Definition all_space (l : pystr) : bool := forallb py_isspace l.

Lemma nonblank_spec l : nonblank l = negb (all_space l).
Proof. unfold nonblank, str_isspace, all_space. destruct l as [|x l]; [reflexivity|]. cbn [is_nil negb andb]. reflexivity. Qed.

(* a line is all whitespace, or whitespace followed by a non-whitespace character *)
Lemma line_decomp l :
  (all_space l = true) \/
  (exists sp c rest, l = sp ++ c :: rest /\ all_space sp = true /\ py_isspace c = false /\ ind l = length sp).
Proof.
  induction l as [|x l IH]; [left; reflexivity|].
  destruct (py_isspace x) eqn:E.
  - destruct IH as [H|[sp [c [rest [Hl [Hs [Hc Hi]]]]]]].
    + left. unfold all_space. cbn. rewrite E. exact H.
    + right. exists (x :: sp), c, rest. repeat split; [cbn; f_equal; exact Hl|unfold all_space; cbn; rewrite E; exact Hs|exact Hc|].
      unfold ind in *. cbn. rewrite E. f_equal. exact Hi.
  - right. exists [], x, l. repeat split; [exact E|]. unfold ind. cbn. rewrite E. reflexivity.
Qed.

Lemma all_space_app a b : all_space (a ++ b) = all_space a && all_space b.
Proof. apply forallb_app. Qed.

Lemma all_space_drop n l : all_space l = true -> all_space (drop n l) = true.
Proof.
  revert l. induction n as [|n IH]; intros l H; [exact H|]. destruct l as [|x l]; [reflexivity|].
  cbn. apply IH. unfold all_space in H. cbn in H. apply andb_true_iff in H. tauto.
Qed.

Lemma drop_app_le {A} n (a b : list A) : n <= length a -> drop n (a ++ b) = drop n a ++ b.
Proof.
  revert a. induction n as [|n IH]; intros a H; [reflexivity|]. destruct a as [|x a]; [cbn in H; lia|].
  cbn. apply IH. cbn in H. lia.
Qed.

Lemma length_drop {A} n (a : list A) : length (drop n a) = length a - n.
Proof. revert a. induction n as [|n IH]; intros a; [cbn; lia|]. destruct a; [reflexivity|]. cbn. apply IH. Qed.

Lemma ind_of_decomp sp c rest : all_space sp = true -> py_isspace c = false -> ind (sp ++ c :: rest) = length sp.
Proof.
  unfold ind, all_space. induction sp as [|x sp IH]; intros Hs Hc; cbn; [rewrite Hc; reflexivity|].
  cbn in Hs. apply andb_true_iff in Hs as [Hx Hs]. rewrite Hx. f_equal. apply IH; assumption.
Qed.

Lemma nonblank_drop n l : nonblank l = true -> n <= ind l ->
  nonblank (drop n l) = true /\ ind (drop n l) = ind l - n.
Proof.
  intros Hn Hle. rewrite nonblank_spec in Hn.
  destruct (line_decomp l) as [H|[sp [c [rest [Hl [Hs [Hc Hi]]]]]]]; [rewrite H in Hn; discriminate|].
  rewrite Hi in *. subst l. rewrite drop_app_le by exact Hle.
  split.
  - rewrite nonblank_spec, all_space_app. unfold all_space at 2. cbn [forallb]. rewrite Hc, andb_false_r. reflexivity.
  - rewrite ind_of_decomp; [apply length_drop|apply all_space_drop; exact Hs|exact Hc].
Qed.

Lemma blank_drop n l : nonblank l = false -> nonblank (drop n l) = false.
Proof.
  rewrite !nonblank_spec. intros H. apply negb_false_iff in H. rewrite all_space_drop by exact H. reflexivity.
Qed.

(* ---- list_min ---- *)
Lemma list_min_spec l n : list_min l = Some n -> In n l /\ forall x, In x l -> n <= x.
Proof.
  revert n. induction l as [|x l IH]; intros n H; [discriminate|]. cbn in H.
  destruct (list_min l) as [m|] eqn:E.
  - inversion H; subst. destruct (IH m eq_refl) as [Hin Hle].
    split.
    + destruct (Nat.min_spec x m) as [[_ ->]|[_ ->]]; [left; reflexivity|right; exact Hin].
    + intros y [->|Hy]; [apply Nat.le_min_l|]. etransitivity; [apply Nat.le_min_r|apply Hle; exact Hy].
  - inversion H; subst. destruct l; [|cbn in E; destruct (list_min l); discriminate].
    split; [left; reflexivity|]. intros y [->|[]]. lia.
Qed.

Lemma list_min_none l : list_min l = None -> l = [].
Proof. destruct l as [|x l]; [reflexivity|]. cbn. destruct (list_min l); discriminate. Qed.

Lemma list_min_zero l : In 0 l -> list_min l = Some 0.
Proof.
  induction l as [|x l IH]; [intros []|]. intros [->|H]; cbn.
  - destruct (list_min l); reflexivity.
  - rewrite (IH H). rewrite Nat.min_0_r. reflexivity.
Qed.

Lemma drop_lf_free n l : lf_free l -> lf_free (drop n l).
Proof.
  unfold lf_free. revert l. induction n as [|n IH]; intros l H; [exact H|]. destruct l as [|x l]; [reflexivity|].
  cbn in *. apply orb_false_iff in H as [_ H]. apply IH. exact H.
Qed.

Lemma drop_0 {A} (l : list A) : drop 0 l = l. Proof. reflexivity. Qed.
Lemma map_drop_0 (L : list pystr) : map (drop 0) L = L.
Proof. induction L; [reflexivity|]. cbn. f_equal. assumption. Qed.

(* removing the common indentation: the result is a fixed point *)
Section Remove.
  Variable u : pystr.
  Variable n : nat.
  Let L := lines u.
  Hypothesis Hmin : list_min (map ind (filter nonblank L)) = Some n.
  Let v := join [cLF] (map (drop n) L).

  Lemma lines_v : lines v = map (drop n) L.
  Proof.
    unfold v, lines. apply split_on_of_join.
    - intro H. apply map_eq_nil in H. eapply lines_nonempty; eauto.
    - apply Forall_forall. intros l Hin. apply in_map_iff in Hin as [l0 [<- Hl0]].
      apply drop_lf_free. pose proof (lines_lf_free u) as F. rewrite Forall_forall in F. apply F. exact Hl0.
  Qed.

  Lemma min_le l : In l L -> nonblank l = true -> n <= ind l.
  Proof.
    intros Hin Hn. apply (proj2 (list_min_spec _ _ Hmin)). apply in_map. apply filter_In. split; assumption.
  Qed.

  Lemma filter_map_drop : filter nonblank (map (drop n) L) = map (drop n) (filter nonblank L).
  Proof.
    assert (H : forall l, In l L -> nonblank (drop n l) = nonblank l).
    { intros l Hin. destruct (nonblank l) eqn:E; [apply nonblank_drop; [exact E|apply min_le; assumption]|apply blank_drop; exact E]. }
    clear Hmin v. induction L as [|x M IH]; [reflexivity|]. cbn. rewrite (H x (or_introl eq_refl)).
    destruct (nonblank x); cbn; rewrite IH; try reflexivity; intros l Hl; apply H; right; exact Hl.
  Qed.

  Lemma min_v : list_min (map ind (filter nonblank (lines v))) = Some 0.
  Proof.
    rewrite lines_v, filter_map_drop. apply list_min_zero.
    destruct (list_min_spec _ _ Hmin) as [Hin _]. apply in_map_iff in Hin as [l [Hl Hf]].
    apply in_map_iff. exists (drop n l). split; [|apply in_map; exact Hf].
    apply filter_In in Hf as [HinL Hnb]. rewrite (proj2 (nonblank_drop n l Hnb (min_le l HinL Hnb))). lia.
  Qed.

  Lemma remove_indentation_v : remove_indentation v = Ok v.
  Proof.
    unfold remove_indentation. destruct v as [|c r] eqn:Ev; [reflexivity|]. rewrite <- Ev.
    change (split_on cLF v) with (lines v).
    change (filter (fun l => negb (is_nil l) && negb (str_isspace l)) (lines v)) with (filter nonblank (lines v)).
    change (map leading_space_len (filter nonblank (lines v))) with (map ind (filter nonblank (lines v))).
    rewrite min_v, map_drop_0, lines_join. reflexivity.
  Qed.
End Remove.

(* ====================== part 5 ====================== *)

Lemma not_all_blank_decomp l : all_blank l = false ->
  exists bl c rest, l = bl ++ c :: rest /\ all_blank bl = true /\ is_blank c = false.
Proof.
  unfold all_blank. induction l as [|x l IH]; [discriminate|]. cbn. destruct (is_blank x) eqn:E; cbn.
  - intros H. destruct (IH H) as [bl [c [rest [Hl [Hb Hc]]]]]. exists (x :: bl), c, rest.
    repeat split; [cbn; f_equal; exact Hl|cbn; rewrite E; exact Hb|exact Hc].
  - intros _. exists [], x, l. repeat split. exact E.
Qed.

Lemma all_blank_all_space l : all_blank l = true -> all_space l = true.
Proof.
  unfold all_blank, all_space. induction l as [|x l IH]; [reflexivity|]. cbn. intros H. apply andb_true_iff in H as [H1 H2].
  rewrite (is_blank_space _ H1). apply IH. exact H2.
Qed.

Lemma all_blank_drop n l : all_blank l = true -> all_blank (drop n l) = true.
Proof.
  revert l. induction n as [|n IH]; intros l H; [exact H|]. destruct l as [|x l]; [reflexivity|].
  cbn. apply IH. unfold all_blank in H. cbn in H. apply andb_true_iff in H. tauto.
Qed.

Lemma abl_blank_then_other bl c x : all_blank bl = true -> is_blank c = false -> c <> cLF ->
  after_blank_line (bl ++ c :: x) = None.
Proof.
  induction bl as [|y bl IH]; intros Hb Hc Hn; cbn.
  - rewrite Hc. destruct (N.eqb c cLF) eqn:E; [apply N.eqb_eq in E; congruence|reflexivity].
  - unfold all_blank in Hb. cbn in Hb. apply andb_true_iff in Hb as [Hy Hb].
    assert (N.eqb y cLF = false) by (destruct (N.eqb y cLF) eqn:E; [apply N.eqb_eq in E; subst; discriminate Hy|reflexivity]).
    rewrite H, Hy. apply IH; assumption.
Qed.

Lemma join_cons_app (sep x : pystr) r : exists tl, join sep (x :: r) = x ++ tl.
Proof. destruct r; [exists []; cbn; rewrite app_nil_r; reflexivity|eexists; reflexivity]. Qed.

Lemma in_join c (L : list pystr) l : In l L -> In c l -> In c (join [cLF] L).
Proof.
  induction L as [|x M IH]; [intros []|]. intros [->|H] Hc.
  - destruct (join_cons_app [cLF] l M) as [tl ->]. apply in_or_app. left. exact Hc.
  - destruct M as [|y M]; [destruct H|].
    change (join [cLF] (x :: y :: M)) with (x ++ [cLF] ++ join [cLF] (y :: M)).
    apply in_or_app. right. apply in_or_app. right. apply IH; assumption.
Qed.

Lemma mem_false_neq c l x : mem c l = false -> In x l -> x <> c.
Proof. intros Hm Hin ->. apply mem_false_notin in Hm. contradiction. Qed.

Lemma last_map {A B} (f : A -> B) (l : list A) d d' : l <> [] -> last (map f l) d' = f (last l d).
Proof.
  induction l as [|x l IH]; [congruence|]. intros _. destruct l as [|y l]; [reflexivity|].
  change (last (map f (x :: y :: l)) d') with (last (map f (y :: l)) d'). rewrite IH by discriminate. reflexivity.
Qed.

Section Main.
  Variable u : pystr.
  Hypothesis Hws : ws_ok u.
  Hypothesis Hnf : strip_nf u.
  Variable n : nat.
  Let L := lines u.
  Hypothesis Hmin : list_min (map ind (filter nonblank L)) = Some n.
  Let v := join [cLF] (map (drop n) L).

  (* a character of a line that is neither blank nor LF is not whitespace at all *)
  Lemma line_char_not_space l c : In l L -> In c l -> is_blank c = false -> py_isspace c = false.
  Proof.
    intros Hl Hc Hb. destruct (py_isspace c) eqn:E; [|reflexivity]. exfalso.
    assert (In c u) by (rewrite <- (lines_join u); eapply in_join; eauto).
    destruct (Hws c H E) as [H1|H1]; [congruence|].
    pose proof (lines_lf_free u) as F. rewrite Forall_forall in F. specialize (F l Hl).
    eapply mem_false_neq in F; eauto.
  Qed.

  (* a line that is not all blank survives the removal of the common indentation *)
  Lemma not_blank_line_drop l : In l L -> all_blank l = false -> all_blank (drop n l) = false /\
    exists bl c rest, drop n l = bl ++ c :: rest /\ all_blank bl = true /\ is_blank c = false /\ c <> cLF.
  Proof.
    intros Hl Hb. destruct (not_all_blank_decomp l Hb) as [bl [c [rest [El [Hbl Hc]]]]].
    assert (Hin : In c l) by (rewrite El; apply in_or_app; right; left; reflexivity).
    pose proof (line_char_not_space l c Hl Hin Hc) as Hsp.
    assert (Hi : ind l = length bl) by (rewrite El; apply ind_of_decomp; [apply all_blank_all_space; exact Hbl|exact Hsp]).
    assert (Hnb : nonblank l = true).
    { rewrite nonblank_spec, El, all_space_app. unfold all_space at 2. cbn [forallb]. rewrite Hsp, andb_false_r. reflexivity. }
    pose proof (min_le u n Hmin l Hl Hnb) as Hle. fold L in Hle.
    assert (Hd : drop n l = drop n bl ++ c :: rest) by (rewrite El; apply drop_app_le; lia).
    assert (Hne : c <> cLF).
    { pose proof (lines_lf_free u) as F. rewrite Forall_forall in F. specialize (F l Hl). eapply mem_false_neq; eauto. }
    split.
    - rewrite Hd. unfold all_blank. rewrite forallb_app. cbn [forallb]. rewrite Hc, andb_false_r. reflexivity.
    - exists (drop n bl), c, rest. repeat split; [exact Hd|apply all_blank_drop; exact Hbl|exact Hc|exact Hne].
  Qed.

  Lemma L_nonempty : L <> []. Proof. apply lines_nonempty. Qed.

  Lemma first_line_not_blank : exists l1 R, L = l1 :: R /\ all_blank l1 = false.
  Proof.
    unfold L in *. destruct (lines u) as [|l1 R] eqn:EL; [exfalso; eapply lines_nonempty; eauto|]. exists l1, R. split; [reflexivity|].
    destruct (all_blank l1) eqn:E; [|reflexivity]. exfalso.
    destruct Hnf as [Hne [Ha Ht]]. pose proof (lines_join u) as J. rewrite EL in J.
    destruct R as [|l2 R].
    - (* single all-blank line: no non-blank line at all *)
      cbn in Hmin.
      rewrite nonblank_spec, (all_blank_all_space _ E) in Hmin. cbn in Hmin. discriminate Hmin.
    - change (join [cLF] (l1 :: l2 :: R)) with (l1 ++ [cLF] ++ join [cLF] (l2 :: R)) in J. cbn [app] in J.
      rewrite <- J in Ha. rewrite abl_blank_then_lf in Ha by exact E. discriminate Ha.
  Qed.

  Lemma v_head : v <> [] /\ after_blank_line v = None.
  Proof.
    destruct first_line_not_blank as [l1 [R [EL Hb]]].
    assert (Hl : In l1 L) by (rewrite EL; left; reflexivity).
    destruct (not_blank_line_drop l1 Hl Hb) as [_ [bl [c [rest [Hd [Hbl [Hc Hn]]]]]]].
    assert (Ev : exists tl, v = (bl ++ c :: rest) ++ tl).
    { unfold v. fold L. rewrite EL. cbn [map]. rewrite <- Hd. apply join_cons_app. }
    destruct Ev as [tl Ev]. rewrite Ev, <- app_assoc. cbn [app]. split.
    - destruct bl; discriminate.
    - apply abl_blank_then_other; assumption.
  Qed.

  Lemma v_no_tail : no_tail v.
  Proof.
    apply no_tail_of_last. unfold v, L. rewrite (lines_v u n). fold L. rewrite map_length.
    destruct (Nat.eq_dec (length L) 1) as [H1|H1]; [left; exact H1|]. right.
    assert (H2 : 2 <= length L) by (pose proof L_nonempty; destruct L as [|a [|b M]]; [congruence|cbn in H1; lia|cbn; lia]).
    pose proof (last_not_blank_of_nf u Hnf H2) as Hb. fold L in Hb.
    match goal with |- all_blank ?x = false => replace x with (drop n (last L [])) by (symmetry; apply last_map; apply L_nonempty) end.
    assert (Hin : In (last L []) L).
    { clear - H2. pose proof (@exists_last _ L) as E. destruct E as [M [x ->]]; [intro H; rewrite H in H2; cbn in H2; lia|].
      rewrite last_last. apply in_or_app. right. left. reflexivity. }
    apply (not_blank_line_drop _ Hin Hb).
  Qed.

  Lemma v_strip_nf : strip_nf v.
  Proof. destruct v_head as [H1 H2]. split; [exact H1|]. split; [exact H2|exact v_no_tail]. Qed.
End Main.

(* sub-text relations, to carry the whitespace hypothesis to the stripped text *)
Lemma strip_incl t : incl (strip_empty_lines t) t.
Proof.
  unfold strip_empty_lines. destruct t as [|c r] eqn:E; [intros x []|]. rewrite <- E.
  assert (Hs : t <> []) by (subst; discriminate).
  destruct (skip_spec (length t) t Hs (le_n _)) as [_ [_ [pre Hp]]].
  destruct (lazy_content_split (skip_blank_lines (length t) t)) as [b [Hb _]].
  intros x Hx. rewrite Hp, Hb. apply in_or_app. right. apply in_or_app. left. exact Hx.
Qed.

Theorem preformat_idempotent t : ws_ok t -> forall v, preformat t = Ok v -> preformat v = Ok v.
Proof.
  intros Hws v Hv. unfold preformat in *.
  destruct (list_eq_dec N.eq_dec t []) as [Et|Hs].
  - subst t. cbn in Hv. inversion Hv; subst. reflexivity.
  - remember (strip_empty_lines t) as u eqn:Eu0.
    assert (Hwu : ws_ok u) by (intros c Hc; apply Hws; apply (strip_incl t); rewrite <- Eu0; exact Hc).
    destruct (strip_cases t Hs) as [H|H]; rewrite <- Eu0 in H.
    + rewrite H in Hv. cbn in Hv. inversion Hv; subst v. reflexivity.
    + (* u in normal form *)
      pose proof H as [Hne _].
      unfold remove_indentation in Hv. destruct u as [|x u'] eqn:Eu; [congruence|]. rewrite <- Eu in *.
      change (split_on cLF u) with (lines u) in Hv.
      change (filter (fun l => negb (is_nil l) && negb (str_isspace l)) (lines u)) with (filter nonblank (lines u)) in Hv.
      change (map leading_space_len (filter nonblank (lines u))) with (map ind (filter nonblank (lines u))) in Hv.
      destruct (list_min (map ind (filter nonblank (lines u)))) as [n|] eqn:Em.
      * inversion Hv; subst v.
        rewrite (strip_nf_fix _ (v_strip_nf u Hwu H n Em)). apply remove_indentation_v. exact Em.
      * inversion Hv; subst v. rewrite (strip_nf_fix _ H).
        unfold remove_indentation. rewrite Eu. rewrite <- Eu.
        change (split_on cLF u) with (lines u).
        change (filter (fun l => negb (is_nil l) && negb (str_isspace l)) (lines u)) with (filter nonblank (lines u)).
        change (map leading_space_len (filter nonblank (lines u))) with (map ind (filter nonblank (lines u))).
        rewrite Em. reflexivity.
Qed.
