(* Frame.v — C11: a parse writes only to objects it has created itself.  For every source text, options and heap,
   PyDBMLParser.parse (model: Entry.parser_parse) leaves every object that existed before the call exactly as it was —
   whether the parse succeeds or raises half-way.  Two parse calls therefore share no mutable state: nothing a later call
   does can change a database returned by an earlier one.
   Method: a Hoare-style judgement with the fixed frame [n] = size of the heap at the start: every store goes to an object
   id >= n, and every object id a computation returns (and every project id recorded in a database created here) is >= n. *)
From PyDBML Require Import PyStr Py Heap Classes Database Tools PP Actions Build Entry MonadFacts ContainerInv TableInv BuildInv BuildRefs.
From Coq Require Import Lia.
Import ListNotations.

Definition okdb (n : nat) (db : database) : Prop := forall p, d_project db = Some p -> n <= p.
Definition okobj (n : nat) (ob : obj) : Prop := match ob with ODatabase db => okdb n db | _ => True end.
(* the heap is at least as large as the frame, and databases created above the frame record only projects above it *)
(* [d0]: one object below the frame that may be written as well — the database under construction, when the frame is
   taken in the middle of build_database; with d0 >= n the exception is void *)
Definition okk (n d0 i : nat) : Prop := n <= i \/ i = d0.
Definition FJ (n d0 : nat) (h : heap) : Prop := n <= length h /\ forall i ob, okk n d0 i -> nth_error h i = Some ob -> okobj n ob.
Definition Fr (n d0 : nat) (h h' : heap) : Prop := forall x, x < n -> x <> d0 -> nth_error h' x = nth_error h x.
Definition tri {A} (n d0 : nat) (P : A -> Prop) (m : M A) : Prop :=
  forall h h' r, FJ n d0 h -> m h = (h', r) -> Fr n d0 h h' /\ FJ n d0 h' /\ (forall v, r = Ok v -> P v) /\ length h <= length h'.

Lemma Fr_refl n d0 h : Fr n d0 h h. Proof. intros x _ _. reflexivity. Qed.
Lemma Fr_trans n d0 a b c : Fr n d0 a b -> Fr n d0 b c -> Fr n d0 a c.
Proof. intros H1 H2 x Hx Hd. rewrite (H2 x Hx Hd). apply H1; assumption. Qed.

Section TRI.
  Variables n d0 : nat.
  Definition T {A} (_ : A) : Prop := True.

  Lemma tri_weak {A} (P Q : A -> Prop) (m : M A) : tri n d0 P m -> (forall v, P v -> Q v) -> tri n d0 Q m.
  Proof. intros H W h h' r Hj E. destruct (H _ _ _ Hj E) as (F & J' & Pv & L). split; [exact F|split; [exact J'|split; [intros v Hv; apply W, Pv, Hv|exact L]]]. Qed.
  Lemma tri_ro {A} (m : M A) : readonly m -> tri n d0 T m.
  Proof. intros R h h' r Hj E. apply R in E. subst. refine (conj (Fr_refl _ _ _) (conj Hj (conj _ (Nat.le_refl _)))). intros v _. exact I. Qed.
  Lemma tri_ret {A} (P : A -> Prop) a : P a -> tri n d0 P (ret a).
  Proof. intros Pa h h' r Hj E. inversion E; subst. refine (conj (Fr_refl _ _ _) (conj Hj (conj _ (Nat.le_refl _)))). intros v Hv. inversion Hv; subst. exact Pa. Qed.
  Lemma tri_raise {A} (P : A -> Prop) e : tri n d0 P (raise e).
  Proof. intros h h' r Hj E. inversion E; subst. refine (conj (Fr_refl _ _ _) (conj Hj (conj _ (Nat.le_refl _)))). intros v Hv. discriminate Hv. Qed.
  Lemma tri_stuck {A} (P : A -> Prop) k : tri n d0 P (stuck k).
  Proof. apply tri_raise. Qed.
  Lemma tri_lift {A} (x : res A) : tri n d0 T (lift x). Proof. apply tri_ro, ro_lift. Qed.
  Lemma tri_bind {A B} (Q : A -> Prop) (P : B -> Prop) (m : M A) (f : A -> M B) :
    tri n d0 Q m -> (forall a, Q a -> tri n d0 P (f a)) -> tri n d0 P (bindM m f).
  Proof.
    intros Hm Hf h h' r Hj E. apply bindM_inv in E as [[e [E1 Er]]|[a [h1 [E1 E2]]]].
    - destruct (Hm _ _ _ Hj E1) as (F & J' & _ & L). refine (conj F (conj J' (conj _ L))). intros v Hv. subst r. discriminate Hv.
    - destruct (Hm _ _ _ Hj E1) as (F1 & J1 & Q1 & L1). destruct (Hf a (Q1 a eq_refl) _ _ _ J1 E2) as (F2 & J2 & P2 & L2).
      refine (conj (Fr_trans _ _ _ _ _ F1 F2) (conj J2 (conj P2 (Nat.le_trans _ _ _ L1 L2)))).
  Qed.
  Lemma tri_alloc ob : okobj n ob -> tri n d0 (le n) (alloc ob).
  Proof.
    intros Ho h h' r [L I] E. unfold alloc in E. inversion E; subst. refine (conj _ (conj (conj _ _) (conj _ _))).
    - intros x Hx _. rewrite nth_error_app1 by lia. reflexivity.
    - rewrite app_length. lia.
    - intros i ob' Hi Hn. destruct (Nat.lt_ge_cases i (length h)) as [Hl|Hl].
      + rewrite nth_error_app1 in Hn by lia. eapply I; eauto.
      + rewrite nth_error_app2 in Hn by lia. destruct (i - length h) as [|k]; cbn in Hn; [inversion Hn; subst; exact Ho|destruct k; discriminate Hn].
    - intros v Hv. inversion Hv. subst. exact L.
    - rewrite app_length. lia.
  Qed.
  Lemma tri_store_k i ob : okk n d0 i -> okobj n ob -> tri n d0 T (store i ob).
  Proof.
    intros Hi Ho h h' r [L I] E. unfold store in E. inversion E; subst. refine (conj _ (conj (conj _ _) (conj _ _))).
    - intros x Hx Hd. apply nth_replace_other. destruct Hi as [Hi|Hi]; [lia|congruence].
    - rewrite length_replace_nth. exact L.
    - intros j ob' Hj Hn. destruct (Nat.eq_dec i j) as [<-|Hne].
      + pose proof (nth_some_lt _ _ _ Hn) as Hl. rewrite length_replace_nth in Hl. rewrite nth_replace_same in Hn by exact Hl. inversion Hn; subst. exact Ho.
      + rewrite nth_replace_other in Hn by exact Hne. eapply I; eauto.
    - intros v _. exact Logic.I.
    - rewrite length_replace_nth. apply Nat.le_refl.
  Qed.
  Lemma tri_store i ob : n <= i -> okobj n ob -> tri n d0 T (store i ob).
  Proof. intros Hi. apply tri_store_k. left. exact Hi. Qed.
  Lemma tri_iterM {A} (f : A -> M unit) l : (forall a, tri n d0 T (f a)) -> tri n d0 T (iterM f l).
  Proof. intros Hf. induction l as [|x l IH]; cbn [iterM]; [apply tri_ret; exact I|eapply tri_bind; [apply Hf|intros _ _; exact IH]]. Qed.
  Lemma tri_mapMM {A B} (P : B -> Prop) (f : A -> M B) l : (forall a, tri n d0 P (f a)) -> tri n d0 (Forall P) (mapMM f l).
  Proof.
    intros Hf. induction l as [|x l IH]; cbn [mapMM]; [apply tri_ret; constructor|].
    eapply tri_bind; [apply Hf|intros y Hy]. eapply tri_bind; [exact IH|intros ys Hys]. apply tri_ret. constructor; assumption.
  Qed.
  (* a database read above the frame records only projects above the frame *)
  Lemma tri_get_database d : okk n d0 d -> tri n d0 (okdb n) (get_database d).
  Proof.
    intros Hd h h' r Hj E. pose proof (ro_get_database d _ _ _ E) as ->. refine (conj (Fr_refl _ _ _) (conj Hj (conj _ (Nat.le_refl _)))).
    intros v ->. unfold get_database, bindM, lookup in E. destruct (nth_error h d) as [ob|] eqn:En; [|discriminate E].
    destruct ob; try discriminate E. inversion E; subst. destruct Hj as [_ I0]. exact (I0 _ _ Hd En).
  Qed.
End TRI.

Ltac tri_ro_tac := apply tri_ro; solve [ro_any].
Ltac tri_step :=
  first [ apply tri_ret; first [exact I | assumption | lia | constructor]
        | apply tri_raise | apply tri_stuck
        | apply tri_store; [lia|exact I]
        | eapply tri_weak; [apply tri_alloc; exact I|intros ? ?; first [exact I|assumption]]
        | eapply tri_weak; [tri_ro_tac|intros ? _; exact I]
        | match goal with |- tri _ _ _ (match ?x with _ => _ end) => destruct x end
        | match goal with |- tri _ _ _ (if ?x then _ else _) => destruct x end
        | match goal with |- tri _ _ _ (let '(_, _) := ?x in _) => destruct x end ].

(* build_database = create the database object, then everything else *)
Definition build_rest (s : pstate) (db : oid) : M oid :=
  do!! iterM (fun bp => do! e <- build_enum bp ;; db_add db e) (ps_enums s) ;;
  do!! iterM (fun bp => do! t <- build_table db bp ;; db_add db t) (ps_tables s) ;;
  do!! iterM (fun bp => do! g <- build_group db bp ;; db_add db g) (ps_groups s) ;;
  do!! iterM (fun bp => do! n <- build_sticky bp ;; db_add db n) (ps_stickies s) ;;
  do!! (match ps_project s with
        | Some bp => do! p <- build_project bp ;; db_add db p
        | None => ret tt
        end) ;;
  do!! iterM (fun bp => do! r <- build_reference db bp ;; db_add db r) (ps_refs s) ;;
  ret db.
Lemma build_database_split s allow sq dq : build_database s allow sq dq = bindM (new_database sq dq allow) (build_rest s).
Proof. reflexivity. Qed.

(* ---- Classes.v ---- *)
Section OPS.
  Variables n d0 : nat.
  Notation TT := (fun _ => True).

  Lemma t_new_note_from a : tri n d0 (le n) (new_note_from a).
  Proof.
    unfold new_note_from. destruct a; try (apply tri_alloc; exact I).
    eapply tri_bind; [tri_ro_tac|intros x _]. apply tri_alloc. exact I.
  Qed.
  Lemma t_set_note_parent k p : n <= k -> tri n d0 (@T unit) (set_note_parent k p).
  Proof. intros Hk. unfold set_note_parent. eapply tri_bind; [tri_ro_tac|intros x _]. apply tri_store; [exact Hk|exact I]. Qed.
  Lemma t_new_expr t : tri n d0 (le n) (new_expr t). Proof. apply tri_alloc. exact I. Qed.
  Lemma t_new_column nm ty u nn pk ai d nt c p : tri n d0 (le n) (new_column nm ty u nn pk ai d nt c p).
  Proof.
    unfold new_column. eapply tri_bind; [apply t_new_note_from|intros k Hk]. eapply tri_bind; [apply tri_alloc; exact I|intros o Ho].
    eapply tri_bind; [apply t_set_note_parent; exact Hk|intros _ _]. apply tri_ret. exact Ho.
  Qed.
  Lemma t_new_index s nm u ty pk nt c : tri n d0 (le n) (new_index s nm u ty pk nt c).
  Proof.
    unfold new_index. eapply tri_bind; [apply t_new_note_from|intros k Hk]. eapply tri_bind; [apply tri_alloc; exact I|intros o Ho].
    eapply tri_bind; [apply t_set_note_parent; exact Hk|intros _ _]. apply tri_ret. exact Ho.
  Qed.
  Lemma t_new_enumitem nm nt c : tri n d0 (le n) (new_enumitem nm nt c).
  Proof.
    unfold new_enumitem. eapply tri_bind; [apply t_new_note_from|intros k Hk]. eapply tri_bind; [apply tri_alloc; exact I|intros o Ho].
    eapply tri_bind; [apply t_set_note_parent; exact Hk|intros _ _]. apply tri_ret. exact Ho.
  Qed.
  Lemma t_new_project nm items nt c : tri n d0 (le n) (new_project nm items nt c).
  Proof.
    unfold new_project. eapply tri_bind; [apply t_new_note_from|intros k Hk]. eapply tri_bind; [apply tri_alloc; exact I|intros o Ho].
    eapply tri_bind; [apply t_set_note_parent; exact Hk|intros _ _]. apply tri_ret. exact Ho.
  Qed.
  Lemma t_enum_add_item e a : n <= e -> tri n d0 (@T unit) (enum_add_item e a).
  Proof.
    intros He. unfold enum_add_item. destruct a as [o|s].
    - eapply tri_bind; [tri_ro_tac|intros ob _]. destruct ob; try (apply tri_ret; exact I).
      eapply tri_bind; [tri_ro_tac|intros x _]. destruct (e_items x); [apply tri_store; [exact He|exact I]|apply tri_raise].
    - eapply tri_bind; [apply t_new_enumitem|intros i Hi]. eapply tri_bind; [tri_ro_tac|intros x _].
      destruct (e_items x); [apply tri_store; [exact He|exact I]|apply tri_raise].
  Qed.
  Lemma t_new_enum nm items sc c : tri n d0 (le n) (new_enum nm items sc c).
  Proof.
    unfold new_enum. eapply tri_bind; [apply tri_alloc; exact I|intros e He].
    eapply tri_bind; [apply tri_iterM; intros a; apply t_enum_add_item; exact He|intros _ _]. apply tri_ret. exact He.
  Qed.
  Lemma t_new_sticky a b : tri n d0 (le n) (new_sticky a b). Proof. apply tri_alloc. exact I. Qed.
  Lemma t_new_group a b c d e : tri n d0 (le n) (new_group a b c d e). Proof. apply tri_alloc. exact I. Qed.
  Lemma t_new_reference a b c d e f g i : tri n d0 (le n) (new_reference a b c d e f g i). Proof. apply tri_alloc. exact I. Qed.
  Lemma t_new_database a b c : tri n d0 (le n) (new_database a b c).
  Proof. apply tri_alloc. cbn. intros p Hp. discriminate Hp. Qed.

  Lemma t_upd_table t f : n <= t -> tri n d0 (@T unit) (upd_table t f).
  Proof. intros Ht. unfold upd_table. eapply tri_bind; [tri_ro_tac|intros x _]. apply tri_store; [exact Ht|exact I]. Qed.
  Lemma t_upd_column t f : n <= t -> tri n d0 (@T unit) (upd_column t f).
  Proof. intros Ht. unfold upd_column. eapply tri_bind; [tri_ro_tac|intros x _]. apply tri_store; [exact Ht|exact I]. Qed.
  Lemma t_upd_index t f : n <= t -> tri n d0 (@T unit) (upd_index t f).
  Proof. intros Ht. unfold upd_index. eapply tri_bind; [tri_ro_tac|intros x _]. apply tri_store; [exact Ht|exact I]. Qed.
  Lemma t_table_add_column t c : n <= t -> n <= c -> tri n d0 (@T unit) (table_add_column t c).
  Proof.
    intros Ht Hc. unfold table_add_column. eapply tri_bind; [tri_ro_tac|intros ob _]. destruct ob; try apply tri_raise.
    eapply tri_bind; [apply t_upd_column; exact Hc|intros _ _]. apply t_upd_table. exact Ht.
  Qed.
  Lemma t_table_add_index t i : n <= t -> n <= i -> tri n d0 (@T unit) (table_add_index t i).
  Proof.
    intros Ht Hi. unfold table_add_index. eapply tri_bind; [tri_ro_tac|intros ob _]. destruct ob; try apply tri_raise.
    destruct (i_subjects _); [|apply tri_raise]. eapply tri_bind; [tri_ro_tac|intros h0 _].
    match goal with |- tri _ _ _ (if ?b then _ else _) => destruct b end; [|apply tri_raise].
    eapply tri_bind; [apply t_upd_index; exact Hi|intros _ _]. apply t_upd_table. exact Ht.
  Qed.
  Lemma t_new_table nm sc al nt hc c ab props : tri n d0 (le n) (new_table nm sc al [] [] nt hc c ab props).
  Proof.
    unfold new_table. eapply tri_bind; [apply t_new_note_from|intros k Hk]. eapply tri_bind; [apply tri_alloc; exact I|intros t Ht].
    cbn [iterM]. eapply (tri_bind n d0 (@T unit)); [apply tri_ret; exact I|intros _ _]. eapply (tri_bind n d0 (@T unit)); [apply tri_ret; exact I|intros _ _].
    eapply tri_bind; [apply t_set_note_parent; exact Hk|intros _ _]. apply tri_ret. exact Ht.
  Qed.

  (* ---- Database.v ---- *)
  Lemma t_set_obj_database o v : n <= o -> tri n d0 (@T unit) (set_obj_database o v).
  Proof.
    intros Ho. unfold set_obj_database. eapply tri_bind; [tri_ro_tac|intros ob _].
    destruct ob; try apply tri_stuck; (apply tri_store; [exact Ho|exact I]).
  Qed.
  Lemma t_upd_db d f : okk n d0 d -> (forall x, okdb n x -> okdb n (f x)) -> tri n d0 (@T unit) (upd_db d f).
  Proof.
    intros Hd Hf. unfold upd_db. eapply tri_bind; [apply tri_get_database; exact Hd|intros x Hx].
    apply tri_store_k; [exact Hd|]. cbn. apply Hf. exact Hx.
  Qed.
  Ltac keep_project := let y := fresh in let Hy := fresh in let q := fresh in let Hq := fresh in intros y Hy q Hq; apply Hy; exact Hq.

  Lemma t_db_add_table d o : okk n d0 d -> n <= o -> tri n d0 (@T unit) (db_add_table d o).
  Proof.
    intros Hd Ho. unfold db_add_table. eapply tri_bind; [tri_ro_tac|intros x _]. eapply tri_bind; [tri_ro_tac|intros t _]. eapply tri_bind; [tri_ro_tac|intros h0 _].
    repeat (match goal with |- tri _ _ _ (if ?b then _ else _) => destruct b end; [apply tri_raise|]).
    eapply tri_bind; [apply t_set_obj_database; exact Ho|intros _ _]. apply t_upd_db; [exact Hd|keep_project].
  Qed.
  Lemma t_db_add_reference d o : okk n d0 d -> n <= o -> tri n d0 (@T unit) (db_add_reference d o).
  Proof.
    intros Hd Ho. unfold db_add_reference. eapply tri_bind; [tri_ro_tac|intros x _]. eapply tri_bind; [tri_ro_tac|intros t _]. eapply tri_bind; [tri_ro_tac|intros h0 _].
    destruct (r_col1 t); [|apply tri_raise]. destruct (r_col2 t); [|apply tri_raise].
    match goal with |- tri _ _ _ (if ?b then _ else _) => destruct b end; [|apply tri_raise].
    match goal with |- tri _ _ _ (if ?b then _ else _) => destruct b end; [apply tri_raise|].
    eapply tri_bind; [apply t_set_obj_database; exact Ho|intros _ _]. apply t_upd_db; [exact Hd|keep_project].
  Qed.
  Lemma t_db_add_enum d o : okk n d0 d -> n <= o -> tri n d0 (@T unit) (db_add_enum d o).
  Proof.
    intros Hd Ho. unfold db_add_enum. eapply tri_bind; [tri_ro_tac|intros x _]. eapply tri_bind; [tri_ro_tac|intros t _]. eapply tri_bind; [tri_ro_tac|intros h0 _].
    repeat (match goal with |- tri _ _ _ (if ?b then _ else _) => destruct b end; [apply tri_raise|]).
    eapply tri_bind; [apply t_set_obj_database; exact Ho|intros _ _]. apply t_upd_db; [exact Hd|keep_project].
  Qed.
  Lemma t_db_add_sticky_note d o : okk n d0 d -> n <= o -> tri n d0 (@T unit) (db_add_sticky_note d o).
  Proof.
    intros Hd Ho. unfold db_add_sticky_note. eapply tri_bind; [tri_ro_tac|intros x _].
    eapply tri_bind; [apply t_set_obj_database; exact Ho|intros _ _]. apply t_upd_db; [exact Hd|keep_project].
  Qed.
  Lemma t_db_add_table_group d o : okk n d0 d -> n <= o -> tri n d0 (@T unit) (db_add_table_group d o).
  Proof.
    intros Hd Ho. unfold db_add_table_group. eapply tri_bind; [tri_ro_tac|intros x _]. eapply tri_bind; [tri_ro_tac|intros t _]. eapply tri_bind; [tri_ro_tac|intros h0 _].
    repeat (match goal with |- tri _ _ _ (if ?b then _ else _) => destruct b end; [apply tri_raise|]).
    eapply tri_bind; [apply t_set_obj_database; exact Ho|intros _ _]. apply t_upd_db; [exact Hd|keep_project].
  Qed.
  Lemma t_db_delete_project d : okk n d0 d -> tri n d0 (@T oid) (db_delete_project d).
  Proof.
    intros Hd. unfold db_delete_project. eapply tri_bind; [apply tri_get_database; exact Hd|intros x Hx].
    destruct (d_project x) as [p|] eqn:Ep; [|apply tri_raise].
    eapply tri_bind; [apply t_upd_db; [exact Hd|intros y _ q Hq; discriminate Hq]|intros _ _].
    eapply tri_bind; [apply t_set_obj_database; exact (Hx p Ep)|intros _ _]. apply tri_ret. exact I.
  Qed.
  Lemma t_db_add_project d o : okk n d0 d -> n <= o -> tri n d0 (@T unit) (db_add_project d o).
  Proof.
    intros Hd Ho. unfold db_add_project. eapply tri_bind; [tri_ro_tac|intros pr _]. eapply tri_bind; [tri_ro_tac|intros x _].
    eapply tri_bind with (Q := @T unit).
    - destruct (d_project x); [|apply tri_ret; exact I]. eapply tri_bind; [apply t_db_delete_project; exact Hd|intros _ _]. apply tri_ret. exact I.
    - intros _ _. eapply tri_bind; [apply t_set_obj_database; exact Ho|intros _ _].
      apply t_upd_db; [exact Hd|]. intros y _ q Hq. cbn in Hq. inversion Hq. subst. exact Ho.
  Qed.
  Lemma t_db_add d o : okk n d0 d -> n <= o -> tri n d0 (@T unit) (db_add d o).
  Proof.
    intros Hd Ho. unfold db_add. eapply tri_bind; [tri_ro_tac|intros ob _].
    destruct ob; try apply tri_raise;
      [apply t_db_add_table|apply t_db_add_reference|apply t_db_add_enum|apply t_db_add_sticky_note|apply t_db_add_project|apply t_db_add_table_group]; assumption.
  Qed.

  (* ---- Build.v ---- *)
  Lemma t_build_enum_item bp : tri n d0 (le n) (build_enum_item bp).
  Proof.
    unfold build_enum_item. destruct bp; try apply tri_stuck. repeat (match goal with |- tri _ _ _ (match ?x with _ => _ end) => destruct x end; try apply tri_stuck).
    eapply tri_bind; [apply tri_lift|intros nt _]. apply t_new_enumitem.
  Qed.

  Ltac bp_cases := repeat (match goal with |- tri _ _ _ (match ?x with _ => _ end) => destruct x end; try apply tri_stuck; try apply tri_raise).

  Lemma t_build_enum bp : tri n d0 (le n) (build_enum bp).
  Proof.
    unfold build_enum. destruct bp; try apply tri_stuck. bp_cases.
    all: eapply tri_bind; [apply tri_mapMM; intros a; apply t_build_enum_item|intros items _]; apply t_new_enum.
  Qed.
  Lemma t_build_index bp : tri n d0 (le n) (build_index bp).
  Proof.
    unfold build_index. destruct bp; try apply tri_stuck. bp_cases.
    all: eapply tri_bind; [apply tri_lift|intros nt _]; apply t_new_index.
  Qed.
  Lemma t_build_sticky bp : tri n d0 (le n) (build_sticky bp).
  Proof.
    unfold build_sticky. destruct bp; try apply tri_stuck. bp_cases.
    all: eapply tri_bind; [apply tri_lift|intros nt _]; apply t_new_sticky.
  Qed.
  Lemma t_build_project bp : tri n d0 (le n) (build_project bp).
  Proof.
    unfold build_project. destruct bp; try apply tri_stuck. bp_cases.
    all: eapply tri_bind; [apply tri_lift|intros nt _]; bp_cases; apply t_new_project.
  Qed.

  Lemma t_build_column d bp : tri n d0 (le n) (build_column d bp).
  Proof.
    unfold build_column. destruct bp; try apply tri_stuck. bp_cases.
    all: eapply (tri_bind n d0 (@T defval)).
    all: try (intros dflt _; bp_cases; eapply (tri_bind n d0 (@T (pystr * pystr))); [bp_cases; apply tri_ret; exact I|intros sn _];
              eapply tri_bind; [tri_ro_tac|intros db _]; eapply tri_bind; [tri_ro_tac|intros h0 _];
              eapply tri_bind; [apply tri_lift|intros nt _]; apply t_new_column).
    all: bp_cases; try (apply tri_ret; exact I).
    all: try (eapply tri_bind; [apply t_new_expr|intros x _]; apply tri_ret; exact I).
  Qed.

  Lemma t_build_reference d bp : tri n d0 (le n) (build_reference d bp).
  Proof.
    unfold build_reference. destruct bp; try apply tri_stuck. bp_cases.
    all: eapply tri_bind; [apply tri_ro, ro_locate_table|intros t1 _].
    all: eapply tri_bind; [apply tri_ro, ro_mapMM_getitem|intros c1 _].
    all: eapply tri_bind; [apply tri_ro, ro_locate_table|intros t2 _].
    all: eapply tri_bind; [apply tri_ro, ro_mapMM_getitem|intros c2 _].
    all: apply t_new_reference.
  Qed.
  Lemma t_build_group d bp : tri n d0 (le n) (build_group d bp).
  Proof.
    unfold build_group. destruct bp; try apply tri_stuck. bp_cases.
    all: eapply tri_bind; [apply tri_ro, ro_group_items|intros items _].
    all: eapply tri_bind; [apply tri_lift|intros nt _].
    all: eapply (tri_bind n d0 (@T (option oid))); [destruct nt; try (apply tri_ret; exact I); eapply tri_bind; [apply tri_alloc; exact I|intros x _]; apply tri_ret; exact I|intros k _].
    all: bp_cases; apply t_new_group.
  Qed.
  Lemma t_build_table d bp : tri n d0 (le n) (build_table d bp).
  Proof.
    unfold build_table. destruct bp; try apply tri_stuck. bp_cases.
    all: eapply tri_bind; [apply tri_lift|intros nt _].
    all: eapply tri_bind; [apply t_new_table|intros t Ht].
    all: eapply tri_bind; [apply tri_iterM; intros cb; eapply tri_bind; [apply t_build_column|intros c Hc]; apply t_table_add_column; assumption|intros _ _].
    all: eapply tri_bind; [|intros _ _; apply tri_ret; exact Ht].
    all: apply tri_iterM; intros ib; eapply tri_bind; [apply t_build_index|intros i Hi].
    all: eapply (tri_bind n d0 (@T (list subject))).
    all: try (intros subs _; eapply tri_bind; [apply t_upd_index; exact Hi|intros _ _]; apply t_table_add_index; assumption).
    all: eapply tri_weak; [apply (tri_mapMM n d0 (@T subject))|intros ? _; exact I].
    all: intros sj; bp_cases; try (apply tri_ret; exact I).
    all: try (eapply tri_bind; [apply t_new_expr|intros x _]; apply tri_ret; exact I).
    all: eapply tri_bind; [tri_ro_tac|intros tb _]; eapply tri_bind; [tri_ro_tac|intros h0 _]; bp_cases; apply tri_ret; exact I.
  Qed.

  Lemma t_build_rest (P : oid -> Prop) st db : P db -> okk n d0 db -> tri n d0 P (build_rest st db).
  Proof.
    intros HP Hdb. unfold build_rest.
    eapply tri_bind; [apply tri_iterM; intros bp; eapply tri_bind; [apply t_build_enum|intros e He]; apply t_db_add; assumption|intros _ _].
    eapply tri_bind; [apply tri_iterM; intros bp; eapply tri_bind; [apply t_build_table|intros e He]; apply t_db_add; assumption|intros _ _].
    eapply tri_bind; [apply tri_iterM; intros bp; eapply tri_bind; [apply t_build_group|intros e He]; apply t_db_add; assumption|intros _ _].
    eapply tri_bind; [apply tri_iterM; intros bp; eapply tri_bind; [apply t_build_sticky|intros e He]; apply t_db_add; assumption|intros _ _].
    eapply (tri_bind n d0 (@T unit)); [destruct (ps_project st); [eapply tri_bind; [apply t_build_project|intros e He]; apply t_db_add; assumption|apply tri_ret; exact I]|intros _ _].
    eapply tri_bind; [apply tri_iterM; intros bp; eapply tri_bind; [apply t_build_reference|intros e He]; apply t_db_add; assumption|intros _ _].
    apply tri_ret. exact HP.
  Qed.
  Lemma t_build_database st allow sq dq : tri n d0 (le n) (build_database st allow sq dq).
  Proof. rewrite build_database_split. eapply tri_bind; [apply t_new_database|intros db Hdb]. apply t_build_rest; [exact Hdb|left; exact Hdb]. Qed.

  Lemma t_parser_parse source allow sq dq : tri n d0 (le n) (parser_parse source allow sq dq).
  Proof. unfold parser_parse. eapply tri_bind; [apply tri_ro, ro_blueprints_of|intros st _]. apply t_build_database. Qed.
End OPS.

Lemma FJ_start h : FJ (length h) (length h) h.
Proof. split; [apply Nat.le_refl|]. intros i ob Hi Hn. apply nth_some_lt in Hn. unfold okk in Hi. lia. Qed.

(* PyDBMLParser.parse writes to no object that existed before the call, whatever the outcome; the database it returns is
   the first object it creates *)
Theorem parser_parse_frame source allow sq dq h h' r :
  parser_parse source allow sq dq h = (h', r) ->
  length h <= length h' /\ (forall x, x < length h -> nth_error h' x = nth_error h x) /\ (forall d, r = Ok d -> d = length h /\ d < length h').
Proof.
  intros E. destruct (t_parser_parse (length h) (length h) source allow sq dq _ _ _ (FJ_start h) E) as (F & _ & _ & L).
  refine (conj L (conj (fun x Hx => F x Hx ltac:(lia)) _)). intros d ->.
  unfold parser_parse in E. apply bindM_inv in E as [[e [_ E]]|[st [h1 [E1 E2]]]]; [discriminate E|].
  pose proof (ro_blueprints_of _ _ _ _ _ E1) as ->. rewrite build_database_split in E2.
  apply bindM_inv in E2 as [[e [_ E2]]|[a [h2 [E3 E4]]]]; [discriminate E2|].
  destruct (t_new_database (length h) (length h) sq dq allow _ _ _ (FJ_start h) E3) as (_ & Hj & _ & _).
  unfold new_database, alloc in E3. inversion E3; subst. clear E3.
  destruct (t_build_rest (length h) (length h) (fun _ => True) st (length h) Logic.I (or_introl (Nat.le_refl _)) _ _ _ Hj E4) as (_ & _ & _ & L2).
  rewrite app_length in L2. cbn in L2.
  assert (Hd : d = length h).
  { clear - E4. unfold build_rest in E4. revert E4. generalize (h ++ [ODatabase (mkDatabase [] [] [] [] [] [] None allow sq dq)]). intros h1 E2.
    repeat (apply bindM_inv in E2 as [[e [_ E2]]|[u [hx [_ E2]]]]; [discriminate E2|]; clear u; revert E2; generalize hx; clear hx h1; intros h1 E2).
    inversion E2. reflexivity. }
  split; [exact Hd|lia].
Qed.

(* two parse calls, the second on the heap the first left (it may have failed): the first result is untouched, and so is
   everything that existed before either call; the two results are different objects *)
Theorem later_parse_leaves_earlier_results s1 a1 sq1 dq1 s2 a2 sq2 dq2 h0 h1 h2 r1 r2 :
  parser_parse s1 a1 sq1 dq1 h0 = (h1, r1) -> parser_parse s2 a2 sq2 dq2 h1 = (h2, r2) ->
  (forall x, x < length h1 -> nth_error h2 x = nth_error h1 x) /\
  (forall x, x < length h0 -> nth_error h2 x = nth_error h0 x) /\
  (forall d1 d2, r1 = Ok d1 -> r2 = Ok d2 -> d1 < length h1 /\ length h1 <= d2).
Proof.
  intros E1 E2. destruct (parser_parse_frame _ _ _ _ _ _ _ E1) as (L1 & F1 & P1). destruct (parser_parse_frame _ _ _ _ _ _ _ E2) as (L2 & F2 & P2).
  split; [exact F2|split].
  - intros x Hx. rewrite F2 by lia. apply F1. exact Hx.
  - intros d1 d2 -> ->. destruct (P1 d1 eq_refl) as [_ A]. destruct (P2 d2 eq_refl) as [B _]. split; [exact A|lia].
Qed.

(* the same judgement with the frame taken in the middle of a build: whatever build_database still does to a heap in which the
   database [db] records no project below the frame, it writes only to [db] and to objects it creates *)
Theorem build_steps_write_only_to_the_database_and_new_objects st db h h' r :
  db < length h -> (forall x, h_database h db = Some x -> d_project x = None) ->
  build_rest st db h = (h', r) ->
  forall x, x < length h -> x <> db -> nth_error h' x = nth_error h x.
Proof.
  intros Hdb Hp E.
  assert (HJ : FJ (length h) db h).
  { split; [apply Nat.le_refl|]. intros i ob [Hi|Hi] Hn; [apply nth_some_lt in Hn; lia|]. subst i.
    destruct ob; try exact I. cbn. intros p Hpp. rewrite (Hp d) in Hpp; [discriminate Hpp|]. unfold h_database. rewrite Hn. reflexivity. }
  destruct (t_build_rest (length h) db (fun _ => True) st db Logic.I (or_intror eq_refl) _ _ _ HJ E) as (F & _).
  exact F.
Qed.
