(* FlagC.v — C15: the option lives in one place, the flag of the Database object.
   (1) the database returned by a parse carries exactly the option that was passed (every write to the database object during the
       build keeps the flag);
   (2) rendering follows the flag as it is NOW: a column line / table block carries the arbitrary properties exactly when the flag
       of the column's (table's) database is set — whatever the objects carry. *)
From PyDBML Require Import PyStr Py Heap Classes Database Tools PP Actions Build Entry RenderSQL RenderDBML MonadFacts ContainerInv TableInv BuildInv BuildRefs DdlText DbmlText Frame.
From Coq Require Import Lia.
Import ListNotations.

(* ---- (1) ---- *)
Definition Ra (d : oid) (h h' : heap) : Prop :=
  forall db, h_database h d = Some db -> exists db', h_database h' d = Some db' /\ d_allow_properties db' = d_allow_properties db.
Lemma Ra_refl d h : Ra d h h. Proof. intros db H. eauto. Qed.
Lemma Ra_trans d a b c : Ra d a b -> Ra d b c -> Ra d a c.
Proof. intros H1 H2 db H. destruct (H1 _ H) as (db1 & A & B). destruct (H2 _ A) as (db2 & C & D). exists db2. split; [exact C|congruence]. Qed.

Lemma Ra_alloc d h ob : Ra d h (h ++ [ob]).
Proof.
  intros db H. exists db. split; [|reflexivity]. unfold h_database in *. destruct (nth_error h d) as [o|] eqn:E; [|discriminate H].
  rewrite nth_error_app1 by (eapply nth_some_lt; exact E). rewrite E. exact H.
Qed.
(* a store over an object that is not a database *)
Lemma Ra_store_other d h i ob : (forall x, nth_error h i <> Some (ODatabase x)) -> Ra d h (replace_nth i ob h).
Proof.
  intros Hn db H. exists db. split; [|reflexivity]. unfold h_database in *. destruct (Nat.eq_dec i d) as [->|Ne].
  - exfalso. destruct (nth_error h d) as [[]|] eqn:E; try discriminate H. eapply Hn; reflexivity.
  - rewrite nth_replace_other by exact Ne. exact H.
Qed.
(* a store of a database with the same flag over a database *)
Lemma Ra_store_db d h i x y : nth_error h i = Some (ODatabase x) -> d_allow_properties y = d_allow_properties x -> Ra d h (replace_nth i (ODatabase y) h).
Proof.
  intros Hi Hf db H. unfold h_database in *. destruct (Nat.eq_dec i d) as [->|Ne].
  - rewrite Hi in H. inversion H; subst. exists y. split; [|exact Hf]. rewrite nth_replace_same by (eapply nth_some_lt; exact Hi). reflexivity.
  - exists db. split; [|reflexivity]. rewrite nth_replace_other by exact Ne. exact H.
Qed.

Lemma ga_alloc d ob : guar (Ra d) (alloc ob).
Proof. intros h h' r H. unfold alloc in H. inversion H; subst. apply Ra_alloc. Qed.
Ltac typed_store Hrun Heq :=
  unfold bindM, lookup in Hrun;
  match type of Hrun with context [nth_error ?h ?i] => destruct (nth_error h i) as [ob|] eqn:Heq end;
  [|inversion Hrun; subst; apply Ra_refl].
Lemma ga_set_note_parent d k p : guar (Ra d) (set_note_parent k p).
Proof.
  intros h h' r H. unfold set_note_parent, get_note in H. typed_store H E.
  destruct ob; inversion H; subst; try apply Ra_refl. apply Ra_store_other. intros x. rewrite E. discriminate.
Qed.
Lemma ga_upd_table d t f : guar (Ra d) (upd_table t f).
Proof. intros h h' r H. unfold upd_table, get_table in H. typed_store H E. destruct ob; inversion H; subst; try apply Ra_refl. apply Ra_store_other. intros x. rewrite E. discriminate. Qed.
Lemma ga_upd_column d t f : guar (Ra d) (upd_column t f).
Proof. intros h h' r H. unfold upd_column, get_column in H. typed_store H E. destruct ob; inversion H; subst; try apply Ra_refl. apply Ra_store_other. intros x. rewrite E. discriminate. Qed.
Lemma ga_upd_index d t f : guar (Ra d) (upd_index t f).
Proof. intros h h' r H. unfold upd_index, get_index in H. typed_store H E. destruct ob; inversion H; subst; try apply Ra_refl. apply Ra_store_other. intros x. rewrite E. discriminate. Qed.
Lemma ga_set_obj_database d o v : guar (Ra d) (set_obj_database o v).
Proof.
  intros h h' r H. unfold set_obj_database in H. typed_store H E.
  destruct ob; inversion H; subst; try apply Ra_refl; apply Ra_store_other; intros x; rewrite E; discriminate.
Qed.
Lemma ga_upd_db d i f : (forall x, d_allow_properties (f x) = d_allow_properties x) -> guar (Ra d) (upd_db i f).
Proof.
  intros Hf h h' r H. unfold upd_db, get_database in H. typed_store H E.
  destruct ob; inversion H; subst; try apply Ra_refl. eapply Ra_store_db; [exact E|apply Hf].
Qed.

Ltac ga d :=
  repeat first [ apply ga_alloc | apply ga_set_note_parent | apply ga_upd_table | apply ga_upd_column | apply ga_upd_index
               | apply ga_set_obj_database | apply ga_upd_db; intros ?; reflexivity
               | apply (g_ro _ (Ra_refl d)); solve [ro_any]
               | apply (g_bind _ (Ra_trans d)); [|intros ?]
               | apply (g_iterM _ (Ra_refl d) (Ra_trans d)); intros ?
               | apply (g_mapMM _ (Ra_refl d) (Ra_trans d)); intros ?
               | match goal with |- guar _ (match ?x with _ => _ end) => destruct x end
               | match goal with |- guar _ (if ?x then _ else _) => destruct x end ].

Lemma ga_new_note_from d a : guar (Ra d) (new_note_from a). Proof. unfold new_note_from. ga d. Qed.
Lemma ga_new_expr d t : guar (Ra d) (new_expr t). Proof. unfold new_expr. ga d. Qed.
Lemma ga_new_column d nm ty u nn pk ai df nt c p : guar (Ra d) (new_column nm ty u nn pk ai df nt c p).
Proof. unfold new_column. apply (g_bind _ (Ra_trans d)); [apply ga_new_note_from|intros k]. ga d. Qed.
Lemma ga_new_index d s nm u ty pk nt c : guar (Ra d) (new_index s nm u ty pk nt c).
Proof. unfold new_index. apply (g_bind _ (Ra_trans d)); [apply ga_new_note_from|intros k]. ga d. Qed.
Lemma ga_new_enumitem d nm nt c : guar (Ra d) (new_enumitem nm nt c).
Proof. unfold new_enumitem. apply (g_bind _ (Ra_trans d)); [apply ga_new_note_from|intros k]. ga d. Qed.
Lemma ga_new_project d nm items nt c : guar (Ra d) (new_project nm items nt c).
Proof. unfold new_project. apply (g_bind _ (Ra_trans d)); [apply ga_new_note_from|intros k]. ga d. Qed.
Lemma ga_enum_store d e f : guar (Ra d) (do! x <- get_enum e ;; match e_items x with
                                          | Some its => store e (OEnum (mkEnum (e_database x) (e_name x) (e_schema x) (e_comment x) (Some (f its))))
                                          | None => raise EAttributeError end).
Proof.
  intros h h' r H. unfold get_enum in H. typed_store H E. destruct ob; inversion H; subst; try apply Ra_refl.
  cbv beta iota in H. unfold ret in H. destruct (e_items e0); inversion H; subst; try apply Ra_refl.
  apply Ra_store_other. intros x. rewrite E. discriminate.
Qed.
Lemma ga_enum_add_item d e a : guar (Ra d) (enum_add_item e a).
Proof.
  unfold enum_add_item. destruct a as [o|s].
  - apply (g_bind _ (Ra_trans d)); [apply (g_ro _ (Ra_refl d)), ro_lookup|intros ob]. destruct ob; try (apply (g_ro _ (Ra_refl d)), ro_ret).
    apply (ga_enum_store d e (fun its => its ++ [o])).
  - apply (g_bind _ (Ra_trans d)); [apply ga_new_enumitem|intros i]. apply (ga_enum_store d e (fun its => its ++ [i])).
Qed.
Lemma ga_new_enum d nm items sc c : guar (Ra d) (new_enum nm items sc c).
Proof. unfold new_enum. apply (g_bind _ (Ra_trans d)); [apply ga_alloc|intros e]. apply (g_bind _ (Ra_trans d)); [apply (g_iterM _ (Ra_refl d) (Ra_trans d)); intros a; apply ga_enum_add_item|intros _]. ga d. Qed.
Lemma ga_table_add_column d t c : guar (Ra d) (table_add_column t c). Proof. unfold table_add_column. ga d. Qed.
Lemma ga_table_add_index d t i : guar (Ra d) (table_add_index t i). Proof. unfold table_add_index. ga d. Qed.
Lemma ga_new_table d nm sc al nt hc c ab props : guar (Ra d) (new_table nm sc al [] [] nt hc c ab props).
Proof. unfold new_table. apply (g_bind _ (Ra_trans d)); [apply ga_new_note_from|intros k]. cbn [iterM]. ga d. Qed.
Lemma ga_db_add d i o : guar (Ra d) (db_add i o).
Proof.
  unfold db_add. apply (g_bind _ (Ra_trans d)); [apply (g_ro _ (Ra_refl d)), ro_lookup|intros ob].
  destruct ob; try (apply (g_ro _ (Ra_refl d)), ro_raise).
  - unfold db_add_table. ga d.
  - unfold db_add_reference. ga d.
  - unfold db_add_enum. ga d.
  - unfold db_add_sticky_note. ga d.
  - unfold db_add_project, db_delete_project. ga d.
  - unfold db_add_table_group. ga d.
Qed.

Ltac gab d :=
  repeat first [ apply ga_new_note_from | apply ga_new_expr | apply ga_new_column | apply ga_new_index | apply ga_new_enumitem | apply ga_new_project
               | apply ga_new_enum | apply ga_new_table | apply ga_table_add_column | apply ga_table_add_index | apply ga_db_add
               | apply ga_alloc | apply ga_upd_index
               | apply (g_ro _ (Ra_refl d)); solve [ro_any | apply ro_locate_table | apply ro_group_items | apply ro_table_getitem | apply ro_lift]
               | apply (g_bind _ (Ra_trans d)); [|intros ?]
               | apply (g_iterM _ (Ra_refl d) (Ra_trans d)); intros ?
               | apply (g_mapMM _ (Ra_refl d) (Ra_trans d)); intros ?
               | match goal with |- guar _ (match ?x with _ => _ end) => destruct x end
               | match goal with |- guar _ (if ?x then _ else _) => destruct x end ].

Lemma ga_build_enum_item d bp : guar (Ra d) (build_enum_item bp). Proof. unfold build_enum_item. gab d. Qed.
Lemma ga_build_enum d bp : guar (Ra d) (build_enum bp).
Proof. unfold build_enum. destruct bp; try (apply (g_ro _ (Ra_refl d)), ro_stuck). repeat (match goal with |- guar _ (match ?x with _ => _ end) => destruct x end; try (apply (g_ro _ (Ra_refl d)), ro_stuck)).
  all: apply (g_bind _ (Ra_trans d)); [apply (g_mapMM _ (Ra_refl d) (Ra_trans d)); intros a; apply ga_build_enum_item|intros items; apply ga_new_enum]. Qed.
Lemma ga_build_column d i bp : guar (Ra d) (build_column i bp). Proof. unfold build_column. gab d. Qed.
Lemma ga_build_index d bp : guar (Ra d) (build_index bp). Proof. unfold build_index. gab d. Qed.
Lemma ga_build_sticky d bp : guar (Ra d) (build_sticky bp). Proof. unfold build_sticky, new_sticky. gab d. Qed.
Lemma ga_build_project d bp : guar (Ra d) (build_project bp). Proof. unfold build_project. gab d. Qed.
Lemma ga_build_group d i bp : guar (Ra d) (build_group i bp). Proof. unfold build_group, new_group. gab d. Qed.
Lemma ga_build_reference d i bp : guar (Ra d) (build_reference i bp).
Proof. unfold build_reference, new_reference. gab d. Qed.
Lemma ga_build_table d i bp : guar (Ra d) (build_table i bp). Proof. unfold build_table. gab d; first [apply ga_build_column | apply ga_build_index]. Qed.

Theorem build_database_keeps_the_option s allow sq dq h h' dd :
  build_database s allow sq dq h = (h', Ok dd) -> exists db, h_database h' dd = Some db /\ d_allow_properties db = allow.
Proof.
  intros H. rewrite Frame.build_database_split in H. apply bindM_inv in H as [[e [_ H]]|[d [h1 [H1 H2]]]]; [discriminate H|].
  unfold new_database, alloc in H1. inversion H1; subst. clear H1.
  assert (G : guar (Ra (length h)) (Frame.build_rest s (length h))).
  { unfold Frame.build_rest. gab (length h); first [apply ga_build_enum | apply ga_build_table | apply ga_build_group | apply ga_build_sticky | apply ga_build_project | apply ga_build_reference | apply (g_ro _ (Ra_refl (length h))), ro_ret]. }
  assert (Hd : h_database (h ++ [ODatabase (mkDatabase [] [] [] [] [] [] None allow sq dq)]) (length h) = Some (mkDatabase [] [] [] [] [] [] None allow sq dq)).
  { unfold h_database. rewrite nth_error_app2 by lia. rewrite Nat.sub_diag. reflexivity. }
  destruct (G _ _ _ H2 _ Hd) as (db' & A & B).
  assert (Edd : dd = length h).
  { clear - H2. unfold Frame.build_rest in H2. revert H2. generalize (h ++ [ODatabase (mkDatabase [] [] [] [] [] [] None allow sq dq)]). intros h1 E2.
    repeat (apply bindM_inv in E2 as [[e [_ E2]]|[u [hx [_ E2]]]]; [discriminate E2|]; clear u; revert E2; generalize hx; clear hx h1; intros h1 E2).
    inversion E2. reflexivity. }
  subst dd. exists db'. split; [exact A|exact B].
Qed.

Theorem parser_parse_keeps_the_option source allow sq dq h h' d :
  parser_parse source allow sq dq h = (h', Ok d) -> exists db, h_database h' d = Some db /\ d_allow_properties db = allow.
Proof.
  intros H. unfold parser_parse in H. apply bindM_inv in H as [[e [_ H]]|[st [hx [_ H2]]]]; [discriminate H|].
  exact (build_database_keeps_the_option _ _ _ _ _ _ _ H2).
Qed.

(* ---- (2) ---- *)
Definition table_flag (h : heap) (t : table) : bool :=
  match t_database t with Some d => match h_database h d with Some db => d_allow_properties db | None => false end | None => false end.
Definition column_flag (h : heap) (c : column) : bool :=
  match c_table c with Some t => match h_table h t with Some tb => table_flag h tb | None => false end | None => false end.

Theorem column_properties_follow_the_flag rd h cid c s : dbml_column rd h cid c = Ok s ->
  exists inl dflt nt ty,
    s = with_comment_dbml (c_comment c)
          (q2 (fstr (c_name c)) ++ cSP :: ty
           ++ settings (inl ++ flag (c_pk c) (s2l "pk") ++ flag (c_autoinc c) (s2l "increment") ++ dflt
                        ++ flag (c_unique c) (s2l "unique") ++ flag (c_not_null c) (s2l "not null")
                        ++ (if is_nil nt then [] else [note_option_to_dbml nt])
                        ++ (if column_flag h c then props_items (c_properties c) else []))).
Proof.
  unfold dbml_column.
  match goal with |- bind ?m _ = _ -> _ => destruct m as [refs|x]; [|discriminate] end. cbn [bind].
  match goal with |- bind ?m _ = _ -> _ => destruct m as [inl|x]; [|discriminate] end. cbn [bind].
  match goal with |- bind ?m _ = _ -> _ => destruct m as [dflt|x]; [|discriminate] end. cbn [bind].
  destruct (note_text h (c_note c)) as [nt|x]; cbn [bind]; [|discriminate].
  match goal with |- bind ?m _ = _ -> _ => destruct m as [ty|x]; [|discriminate] end. cbn [bind].
  intros H. apply ok_inj in H. exists inl, dflt, nt, ty. symmetry. exact H.
Qed.

Theorem table_properties_follow_the_flag rd h t s : dbml_table rd h t = Ok s -> table_flag h t = false ->
  exists rows notes idx,
    s = with_comment_dbml (t_comment t)
          ((s2l "Table " ++ full_name_for_dbml (t_schema t) (t_name t) ++ [cSP]
            ++ (if truthy (t_alias t) then s2l "as " ++ q2 (fstr (t_alias t)) ++ [cSP] else [])
            ++ (if truthy (t_header_color t) then s2l "[headercolor: " ++ fstr (t_header_color t) ++ s2l "] " else []))
           ++ s2l "{" ++ cLF :: textwrap_indent (join [cLF] rows) (s2l "    ") ++ cLF :: [] ++ notes ++ idx ++ s2l "}").
Proof.
  unfold dbml_table, table_flag. cbv zeta. intros H Hf.
  match type of H with bind ?m _ = _ => destruct m as [rows|x]; [|discriminate H] end. cbn [bind] in H.
  destruct (note_text h (t_note t)) as [nt|x]; cbn [bind] in H; [|discriminate H].
  match type of H with bind ?m _ = _ => destruct m as [idx|x]; [|discriminate H] end. cbn [bind] in H.
  apply ok_inj in H. rewrite Hf in H. exists rows. eexists _, idx. rewrite <- H.
  destruct (t_properties t); reflexivity.
Qed.
