(* BuildDocs.v — C06 at the level of documents, continued: table groups naming unknown tables or listing a name twice,
   references and indexes naming columns that do not exist.  [TabCols]: every listed table was built from a table
   blueprint and carries that blueprint's keys and column names, through every later step of the build. *)
From PyDBML Require Import PyStr Py Heap Classes Database Tools PP Actions Build GenClasses GenGrammar Entry MonadFacts ToolsFacts RuleFacts ContainerInv ContainerFull TableInv BuildInv BuildLinks BuildRules.
From Coq Require Import Lia.
Import ListNotations.


(* ====================== part 1 ====================== *)
(* the (schema, name) pair under which a group item is looked up *)
Definition item_key (tn : pystr) : pystr * pystr :=
  match split_on 46%N tn with
  | [a; b] => (a, b)
  | c0 :: _ => (K "public", c0)
  | [] => (K "public", [])
  end.

Lemma group_items_cons d tn rest acc :
  group_items d (PVStr tn :: rest) acc =
  (do! t <- locate_table d (fst (item_key tn)) (snd (item_key tn)) ;; do! h <- get_heap ;;
   if list_has (table_eqb h) t acc then raise EValidation else group_items d rest (acc ++ [t])).
Proof.
  cbn [group_items]. unfold item_key. destruct (split_on 46%N tn) as [|a [|b [|c r]]]; reflexivity.
Qed.

Definition group_names_missing (allk : list pystr) (gb : pyv) : Prop :=
  match gb with
  | PVBlue 11 dd =>
      exists l1 tn l2, flist_of dd "items" = l1 ++ PVStr tn :: l2 /\
        ~ In (snd (item_key tn)) allk /\ ~ In (fst (item_key tn) ++ 46%N :: snd (item_key tn)) allk
  | _ => False
  end.

Lemma group_items_missing allk d db h tn l2 : Inv h d db -> TabKeys allk d h ->
  ~ In (snd (item_key tn)) allk -> ~ In (fst (item_key tn) ++ 46%N :: snd (item_key tn)) allk ->
  forall l1 acc h' x, group_items d (l1 ++ PVStr tn :: l2) acc h <> (h', Ok x).
Proof.
  intros I HT N1 N2. pose proof I as [[[Idb _ _ _ _ _] _ _] _].
  induction l1 as [|y l1 IH]; intros acc h' x H.
  - cbn [app] in H. rewrite group_items_cons in H.
    assert (G1 : dict_get (snd (item_key tn)) (d_table_dict db) = None).
    { destruct (dict_get (snd (item_key tn)) (d_table_dict db)) as [t0|] eqn:G; [|reflexivity]. exfalso. apply N1. eapply TabKeys_dict; eauto. }
    assert (G2 : dict_get (fst (item_key tn) ++ 46%N :: snd (item_key tn)) (d_table_dict db) = None).
    { match goal with |- dict_get ?k _ = None => destruct (dict_get k (d_table_dict db)) as [t0|] eqn:G; [|reflexivity] end. exfalso. apply N2. eapply TabKeys_dict; eauto. }
    unfold bindM at 1 in H. rewrite (locate_table_missing h d db _ _ Idb G1 G2) in H. discriminate H.
  - cbn [app] in H. destruct y as [s0|b0|z0|f0| |d0|l0|tag dd]; try (cbn [group_items] in H; discriminate H).
    rewrite group_items_cons in H.
    apply bindM_inv in H as [[e [_ H]]|[t [h1 [H1 H]]]]; [discriminate H|].
    pose proof (ro_locate_table _ _ _ _ _ _ H1) as ->.
    unfold bindM at 1, get_heap in H. cbv beta iota in H.
    destruct (list_has (table_eqb h) t acc); [discriminate H|]. exact (IH _ _ _ H).
Qed.

Lemma build_group_missing allk d gb h h' x : J d h -> TabKeys allk d h -> group_names_missing allk gb -> build_group d gb h <> (h', Ok x).
Proof.
  intros (db & I) HT Hm H.
  destruct gb as [s0|b0|z0|f0| |d0|l0|tag dd]; try contradiction.
  destruct (N.eq_dec tag 11) as [->|Nt].
  2:{ destruct tag as [|p]; [contradiction|]. destruct p as [q|q|]; try contradiction. destruct q as [r0|r0|]; try contradiction. destruct r0 as [r1|r1|]; try contradiction; destruct r1; try contradiction; congruence. }
  destruct Hm as (l1 & tn & l2 & El & N1 & N2). unfold build_group in H. rewrite El in H.
  apply bindM_inv in H as [[e [_ H]]|[items [h1 [H1 _]]]]; [discriminate H|].
  exact (group_items_missing allk d db h tn l2 I HT N1 N2 l1 [] h1 items H1).
Qed.

(* the same item name twice *)
Definition group_repeats (gb : pyv) : Prop :=
  match gb with
  | PVBlue 11 dd => exists l1 tn l2 l3, flist_of dd "items" = l1 ++ PVStr tn :: l2 ++ PVStr tn :: l3
  | _ => False
  end.

Lemma group_items_acc d l : forall acc h h' items, group_items d l acc h = (h', Ok items) -> h' = h /\ incl acc items.
Proof.
  induction l as [|y l IH]; intros acc h h' items H.
  - cbn in H. inversion H; subst. split; [reflexivity|apply incl_refl].
  - destruct y as [s0|b0|z0|f0| |d0|l0|tag dd]; try (cbn [group_items] in H; discriminate H).
    rewrite group_items_cons in H.
    apply bindM_inv in H as [[e [_ H]]|[t [h1 [H1 H]]]]; [discriminate H|].
    pose proof (ro_locate_table _ _ _ _ _ _ H1) as ->.
    unfold bindM at 1, get_heap in H. cbv beta iota in H.
    destruct (list_has (table_eqb h) t acc); [discriminate H|].
    destruct (IH _ _ _ _ H) as [-> Hi]. split; [reflexivity|]. intros a Ha. apply Hi. apply in_or_app. left. exact Ha.
Qed.

Lemma group_items_repeat d h tn l2 l3 : forall l1 acc h' x, group_items d (l1 ++ PVStr tn :: l2 ++ PVStr tn :: l3) acc h <> (h', Ok x).
Proof.
  assert (Second : forall t m2 acc h' x, In t acc -> locate_table d (fst (item_key tn)) (snd (item_key tn)) h = (h, Ok t) ->
            group_items d (m2 ++ PVStr tn :: l3) acc h <> (h', Ok x)).
  { intros t. induction m2 as [|y m2 IH]; intros acc h' x Hin Hloc H.
    - cbn [app] in H. rewrite group_items_cons in H. unfold bindM at 1 in H. rewrite Hloc in H.
      unfold bindM at 1, get_heap in H. cbv beta iota in H.
      assert (E : list_has (table_eqb h) t acc = true).
      { unfold list_has. apply existsb_exists. exists t. split; [exact Hin|apply table_eqb_refl]. }
      rewrite E in H. discriminate H.
    - cbn [app] in H. destruct y as [s0|b0|z0|f0| |d0|l0|tag dd]; try (cbn [group_items] in H; discriminate H).
      rewrite group_items_cons in H.
      apply bindM_inv in H as [[e [_ H]]|[t' [h1 [H1 H]]]]; [discriminate H|].
      pose proof (ro_locate_table _ _ _ _ _ _ H1) as ->.
      unfold bindM at 1, get_heap in H. cbv beta iota in H.
      destruct (list_has (table_eqb h) t' acc); [discriminate H|].
      apply (IH _ _ _ (in_or_app _ _ _ (or_introl Hin)) Hloc H). }
  induction l1 as [|y l1 IH]; intros acc h' x H.
  - cbn [app] in H. rewrite group_items_cons in H.
    apply bindM_inv in H as [[e [_ H]]|[t [h1 [H1 H]]]]; [discriminate H|].
    pose proof (ro_locate_table _ _ _ _ _ _ H1) as ->.
    unfold bindM at 1, get_heap in H. cbv beta iota in H.
    destruct (list_has (table_eqb h) t acc); [discriminate H|].
    apply (Second t l2 (acc ++ [t]) h' x); [apply in_or_app; right; left; reflexivity|exact H1|exact H].
  - cbn [app] in H. destruct y as [s0|b0|z0|f0| |d0|l0|tag dd]; try (cbn [group_items] in H; discriminate H).
    rewrite group_items_cons in H.
    apply bindM_inv in H as [[e [_ H]]|[t [h1 [H1 H]]]]; [discriminate H|].
    pose proof (ro_locate_table _ _ _ _ _ _ H1) as ->.
    unfold bindM at 1, get_heap in H. cbv beta iota in H.
    destruct (list_has (table_eqb h) t acc); [discriminate H|]. exact (IH _ _ _ H).
Qed.

Lemma build_group_repeat d gb h h' x : group_repeats gb -> build_group d gb h <> (h', Ok x).
Proof.
  intros Hm H.
  destruct gb as [s0|b0|z0|f0| |d0|l0|tag dd]; try contradiction.
  destruct (N.eq_dec tag 11) as [->|Nt].
  2:{ destruct tag as [|p]; [contradiction|]. destruct p as [q|q|]; try contradiction. destruct q as [r0|r0|]; try contradiction. destruct r0 as [r1|r1|]; try contradiction; destruct r1; try contradiction; congruence. }
  destruct Hm as (l1 & tn & l2 & l3 & El). unfold build_group in H. rewrite El in H.
  apply bindM_inv in H as [[e [_ H]]|[items [h1 [H1 _]]]]; [discriminate H|].
  exact (group_items_repeat d h tn l2 l3 l1 [] h1 items H1).
Qed.


(* ====================== part 2 ====================== *)
Definition rstep (d : oid) (bp : pyv) : M unit := do! r <- build_reference d bp ;; db_add d r.
Definition sstep (d : oid) (bp : pyv) : M unit := do! r <- build_sticky bp ;; db_add d r.
Definition pstep (d : oid) (obp : option pyv) : M unit :=
  match obp with Some bp => do! p <- build_project bp ;; db_add d p | None => ret tt end.

Definition JT (allk : list pystr) (d : oid) (h : heap) : Prop := J d h /\ TabKeys allk d h.

(* a successful build passes through six phases; the structural invariant and "the table index holds only keys of table
   blueprints" hold between any two of them *)
Lemma build_database_phases s allow sq dq h0 h1 dd :
  WW h0 -> (forall t tb, h_table h0 t = Some tb -> NoDup (names_of tb)) -> Forall good_table_bp (ps_tables s) ->
  build_database s allow sq dq h0 = (h1, Ok dd) ->
  let d := length h0 in let allk := flat_map bp_keys (ps_tables s) in
  exists hi ha hb hc hd he,
    dd = d /\
    JT allk d hi /\ iterM (estep d) (ps_enums s) hi = (ha, Ok tt) /\
    JT allk d ha /\ iterM (step d) (ps_tables s) ha = (hb, Ok tt) /\
    JT allk d hb /\ iterM (gstep d) (ps_groups s) hb = (hc, Ok tt) /\
    JT allk d hc /\ iterM (sstep d) (ps_stickies s) hc = (hd, Ok tt) /\
    JT allk d hd /\ pstep d (ps_project s) hd = (he, Ok tt) /\
    JT allk d he /\ iterM (rstep d) (ps_refs s) he = (h1, Ok tt) /\
    JT allk d h1.
Proof.
  intros HW Hgood Hg H d allk.
  unfold build_database in H. unfold bindM at 1 in H. unfold new_database, alloc in H. cbv beta iota in H.
  set (db0 := mkDatabase [] [] [] [] [] [] None allow sq dq) in *. fold d in H.
  assert (HJ : J d (h0 ++ [ODatabase db0])).
  { exists db0. split; [apply fresh_database_full; exact Hgood|].
    intros k. eapply W_Rext; [|apply HW]. eapply (gR_alloc (ODatabase db0)); [exact Logic.I|reflexivity]. }
  assert (HT : TabKeys allk d (h0 ++ [ODatabase db0])).
  { intros db t tb Hdb Hin. unfold h_database, d in Hdb. rewrite nth_error_app2 in Hdb by lia. rewrite Nat.sub_diag in Hdb. inversion Hdb; subst db. destruct Hin. }
  rewrite Forall_forall in Hg.
  apply bindM_inv in H as [[e [_ H]]|[u1 [ha [A1 H]]]]; [discriminate H|]. destruct u1.
  destruct (presT_iterM_in allk d _ (ps_enums s) (fun bp _ => presT_nontable allk d build_enum bp KEnum (gR_build_enum bp) (post_build_enum bp) ltac:(discriminate)) _ _ _ HJ HT A1) as [HJa HTa].
  apply bindM_inv in H as [[e [_ H]]|[u2 [hb [B1 H]]]]; [discriminate H|]. destruct u2.
  assert (PT : forall bp, In bp (ps_tables s) -> presT allk d (step d bp)).
  { intros bp Hin. apply presT_table; [apply Hg; exact Hin|]. intros k Hk. unfold allk. apply in_flat_map. exists bp. split; assumption. }
  destruct (presT_iterM_in allk d (step d) (ps_tables s) PT _ _ _ HJa HTa B1) as [HJb HTb].
  apply bindM_inv in H as [[e [_ H]]|[u3 [hc [C1 H]]]]; [discriminate H|]. destruct u3.
  destruct (presT_iterM_in allk d _ (ps_groups s) (fun bp _ => presT_nontable allk d (build_group d) bp KGroup (gR_build_group d bp) (post_build_group d bp) ltac:(discriminate)) _ _ _ HJb HTb C1) as [HJc HTc].
  apply bindM_inv in H as [[e [_ H]]|[u4 [hd [D1 H]]]]; [discriminate H|]. destruct u4.
  destruct (presT_iterM_in allk d _ (ps_stickies s) (fun bp _ => presT_nontable allk d build_sticky bp KSticky (gR_build_sticky bp) (post_build_sticky bp) ltac:(discriminate)) _ _ _ HJc HTc D1) as [HJd HTd].
  apply bindM_inv in H as [[e [_ H]]|[u5 [he [E1 H]]]]; [discriminate H|]. destruct u5.
  assert (HJTe : J d he /\ TabKeys allk d he).
  { destruct (ps_project s) as [bp|].
    - exact (presT_nontable allk d build_project bp KProject (gR_build_project bp) (post_build_project bp) ltac:(discriminate) _ _ _ HJd HTd E1).
    - inversion E1; subst. auto. }
  destruct HJTe as [HJe HTe].
  apply bindM_inv in H as [[e [_ H]]|[u6 [hf [F1 H]]]]; [discriminate H|]. destruct u6.
  destruct (presT_iterM_in allk d _ (ps_refs s) (fun bp _ => presT_nontable allk d (build_reference d) bp KRef (gR_build_reference d bp) (post_build_reference d bp) ltac:(discriminate)) _ _ _ HJe HTe F1) as [HJf HTf].
  unfold ret in H. injection H as E1' E2'. subst hf dd.
  exists (h0 ++ [ODatabase db0]), ha, hb, hc, hd, he. unfold JT.
  repeat match goal with |- _ /\ _ => split end; try assumption; reflexivity.
Qed.

(* every step of a phase keeps JT; the blueprint in the middle of a successful phase ran successfully from a JT heap *)
Lemma phase_reaches {A} allk d (f : A -> M unit) l1 x l2 h h' :
  (forall a, In a (l1 ++ x :: l2) -> presT allk d (f a)) -> JT allk d h -> iterM f (l1 ++ x :: l2) h = (h', Ok tt) ->
  exists hm hn, JT allk d hm /\ f x hm = (hn, Ok tt).
Proof.
  intros P [HJ HT] H. destruct (iterM_app_ok _ _ _ _ _ _ H) as (hm & G1 & G2).
  assert (P1 : forall a, In a l1 -> presT allk d (f a)) by (intros a Ha; apply P; apply in_or_app; left; exact Ha).
  destruct (presT_iterM_in allk d f l1 P1 _ _ _ HJ HT G1) as [HJm HTm].
  cbn [iterM] in G2. apply bindM_inv in G2 as [[e [_ G2]]|[[] [hn [I1 _]]]]; [discriminate G2|].
  exists hm, hn. split; [split; assumption|exact I1].
Qed.

Theorem build_database_rejects_group_of_unknown_table s allow sq dq h0 h1 dd l1 gb l2 :
  WW h0 -> (forall t tb, h_table h0 t = Some tb -> NoDup (names_of tb)) -> Forall good_table_bp (ps_tables s) ->
  ps_groups s = l1 ++ gb :: l2 -> group_names_missing (flat_map bp_keys (ps_tables s)) gb ->
  build_database s allow sq dq h0 <> (h1, Ok dd).
Proof.
  intros HW Hgood Hg Hl Hm H.
  destruct (build_database_phases _ _ _ _ _ _ _ HW Hgood Hg H) as (hi & ha & hb & hc & hd & he & _ & _ & _ & _ & _ & JTb & C1 & _).
  rewrite Hl in C1.
  destruct (phase_reaches _ _ (gstep (length h0)) l1 gb l2 hb hc
              (fun bp _ => presT_nontable _ _ (build_group (length h0)) bp KGroup (gR_build_group _ bp) (post_build_group _ bp) ltac:(discriminate)) JTb C1)
    as (hm & hn & [HJm HTm] & R).
  unfold gstep in R. apply bindM_inv in R as [[e [_ R]]|[x [hx [K1 _]]]]; [discriminate R|].
  exact (build_group_missing _ _ gb hm hx x HJm HTm Hm K1).
Qed.

Theorem build_database_rejects_group_listing_a_name_twice s allow sq dq h0 h1 dd l1 gb l2 :
  WW h0 -> (forall t tb, h_table h0 t = Some tb -> NoDup (names_of tb)) -> Forall good_table_bp (ps_tables s) ->
  ps_groups s = l1 ++ gb :: l2 -> group_repeats gb ->
  build_database s allow sq dq h0 <> (h1, Ok dd).
Proof.
  intros HW Hgood Hg Hl Hm H.
  destruct (build_database_phases _ _ _ _ _ _ _ HW Hgood Hg H) as (hi & ha & hb & hc & hd & he & _ & _ & _ & _ & _ & JTb & C1 & _).
  rewrite Hl in C1.
  destruct (phase_reaches _ _ (gstep (length h0)) l1 gb l2 hb hc
              (fun bp _ => presT_nontable _ _ (build_group (length h0)) bp KGroup (gR_build_group _ bp) (post_build_group _ bp) ltac:(discriminate)) JTb C1)
    as (hm & hn & _ & R).
  unfold gstep in R. apply bindM_inv in R as [[e [_ R]]|[x [hx [K1 _]]]]; [discriminate R|].
  exact (build_group_repeat _ gb hm hx x Hm K1).
Qed.


(* ====================== part 3 ====================== *)
(* ---- what a table's columns are called: the view, and the relation "objects below n keep it" ---- *)
Inductive nview := NT (cols : list oid) | NC (nm : option pystr) | NO.
Definition nview_of (ob : obj) : nview :=
  match ob with OTable tb => NT (t_columns tb) | OColumn c => NC (c_name c) | _ => NO end.
Lemma nview_cview a b : cview_of a = cview_of b -> nview_of a = nview_of b.
Proof. destruct a, b; cbn; intros H; try discriminate H; try reflexivity; inversion H; reflexivity. Qed.

Definition Rcb (n : nat) (h h' : heap) : Prop :=
  forall x ob, x < n -> nth_error h x = Some ob -> exists ob', nth_error h' x = Some ob' /\ nview_of ob' = nview_of ob.
Lemma Rcb_refl n h : Rcb n h h. Proof. intros x ob _ H. eauto. Qed.
Lemma Rcb_trans n a b c : Rcb n a b -> Rcb n b c -> Rcb n a c.
Proof. intros H1 H2 x ob Hx H. destruct (H1 _ _ Hx H) as (o1 & A & B). destruct (H2 _ _ Hx A) as (o2 & C & D). exists o2. split; [exact C|congruence]. Qed.
Lemma Rcb_Rext n h h' : Rext h h' -> Rcb n h h'.
Proof.
  intros [L O N] x ob _ Hx. pose proof (nth_some_lt _ _ _ Hx) as Hl. specialize (O x Hl). rewrite Hx in O. cbn in O.
  destruct (nth_error h' x) as [ob'|] eqn:E; [|discriminate O]. cbn in O. inversion O as [O']. exists ob'. split; [reflexivity|].
  apply nview_cview. unfold views in O'. inversion O'. reflexivity.
Qed.
Lemma Rcb_cview n h h' : same_cview h h' -> Rcb n h h'.
Proof.
  intros S x ob _ Hx. specialize (S x). rewrite Hx in S. cbn in S.
  destruct (nth_error h' x) as [ob'|] eqn:E; [|discriminate S]. cbn in S. inversion S as [S']. exists ob'. split; [reflexivity|apply nview_cview; exact S'].
Qed.
Lemma Rcb_store n h o ob ob' : nth_error h o = Some ob -> (o < n -> nview_of ob' = nview_of ob) -> Rcb n h (replace_nth o ob' h).
Proof.
  intros Ho E x ob0 Hx H. destruct (Nat.eq_dec o x) as [<-|N].
  - rewrite Ho in H. inversion H; subst ob0. exists ob'. split; [apply (nth_replace_same' _ _ _ _ Ho)|auto].
  - exists ob0. split; [rewrite nth_replace_other by exact N; exact H|reflexivity].
Qed.

Lemma gcb_of_Rext {A} n (m : M A) : guar Rext m -> guar (Rcb n) m.
Proof. intros G h h' r H. apply Rcb_Rext. eapply G; eauto. Qed.
Lemma gcb_of_cview {A} n (m : M A) : guar same_cview m -> guar (Rcb n) m.
Proof. intros G h h' r H. apply Rcb_cview. eapply G; eauto. Qed.

Lemma gcb_upd_index n i f : guar (Rcb n) (upd_index i f).
Proof.
  intros h h' r H. unfold upd_index, get_index, bindM, lookup in H. destruct (nth_error h i) as [ob|] eqn:E.
  - destruct ob; inversion H; subst; try apply Rcb_refl. eapply Rcb_store; [exact E|reflexivity].
  - inversion H; subst. apply Rcb_refl.
Qed.
Lemma gcb_upd_column n c f : (forall x, c_name (f x) = c_name x) -> guar (Rcb n) (upd_column c f).
Proof.
  intros Hf h h' r H. unfold upd_column, get_column, bindM, lookup in H. destruct (nth_error h c) as [ob|] eqn:E.
  - destruct ob; inversion H; subst; try apply Rcb_refl. eapply Rcb_store; [exact E|]. intros _. cbn. rewrite Hf. reflexivity.
  - inversion H; subst. apply Rcb_refl.
Qed.
Lemma gcb_upd_table_cols n t f : (forall x, t_columns (f x) = t_columns x) -> guar (Rcb n) (upd_table t f).
Proof.
  intros Hf h h' r H. unfold upd_table, get_table, bindM, lookup in H. destruct (nth_error h t) as [ob|] eqn:E.
  - destruct ob; inversion H; subst; try apply Rcb_refl. eapply Rcb_store; [exact E|]. intros _. cbn. rewrite Hf. reflexivity.
  - inversion H; subst. apply Rcb_refl.
Qed.
Lemma gcb_upd_table_new n t f : n <= t -> guar (Rcb n) (upd_table t f).
Proof.
  intros Hn h h' r H. unfold upd_table, get_table, bindM, lookup in H. destruct (nth_error h t) as [ob|] eqn:E.
  - destruct ob; inversion H; subst; try apply Rcb_refl. eapply Rcb_store; [exact E|]. intros Hlt. lia.
  - inversion H; subst. apply Rcb_refl.
Qed.

Ltac gcb :=
  repeat first [ apply gcb_upd_index
               | apply gcb_upd_column; intros ?; reflexivity
               | apply gcb_upd_table_cols; intros ?; reflexivity
               | apply (g_ro _ (Rcb_refl _)); solve [ro_any]
               | apply (g_bind _ (Rcb_trans _)); [|intros ?]
               | match goal with |- guar _ (match ?x with _ => _ end) => destruct x end
               | match goal with |- guar _ (if ?x then _ else _) => destruct x end ].

Lemma gcb_table_add_index n t i : guar (Rcb n) (table_add_index t i).
Proof. unfold table_add_index. gcb. Qed.
Lemma gcb_table_add_column n t c : n <= t -> guar (Rcb n) (table_add_column t c).
Proof.
  intros Hn. unfold table_add_column.
  apply (g_bind _ (Rcb_trans _)); [apply (g_ro _ (Rcb_refl _)), ro_lookup|intros ob].
  destruct ob; try (apply (g_ro _ (Rcb_refl _)), ro_raise).
  apply (g_bind _ (Rcb_trans _)); [apply gcb_upd_column; intros ?; reflexivity|intros _]. apply gcb_upd_table_new. exact Hn.
Qed.
Lemma gcb_db_add n d o : guar (Rcb n) (db_add d o). Proof. apply gcb_of_cview, gc_db_add. Qed.

(* ---- the names of a table's columns, in order ---- *)
Definition cols_named (ns : list (option pystr)) (h : heap) (t : oid) : Prop :=
  exists tb, h_table h t = Some tb /\
    Forall2 (fun c n => exists cc, h_column h c = Some cc /\ c_name cc = n) (t_columns tb) ns.

Lemma h_column_nth h c cc : h_column h c = Some cc <-> nth_error h c = Some (OColumn cc).
Proof. unfold h_column. destruct (nth_error h c) as [[]|]; split; intros H; inversion H; reflexivity. Qed.

Lemma Forall2_imp {A B} (P Q : A -> B -> Prop) l1 l2 : (forall a b, P a b -> Q a b) -> Forall2 P l1 l2 -> Forall2 Q l1 l2.
Proof. intros H F. induction F; constructor; auto. Qed.

Lemma cols_named_Rcb n ns h h' t : Rcb n h h' -> length h <= n -> cols_named ns h t -> cols_named ns h' t.
Proof.
  intros R Hn (tb & Ht & F). apply h_table_nth in Ht.
  destruct (R t _ ltac:(pose proof (nth_some_lt _ _ _ Ht); lia) Ht) as (ob' & A & B). destruct ob'; try discriminate B. cbn in B. inversion B as [B'].
  exists t0. split; [unfold h_table; rewrite A; reflexivity|]. rewrite B'.
  eapply Forall2_imp; [|exact F]. intros c nm (cc & Hc & En). apply h_column_nth in Hc.
  destruct (R c _ ltac:(pose proof (nth_some_lt _ _ _ Hc); lia) Hc) as (oc & C & D). destruct oc; try discriminate D. cbn in D. inversion D as [D'].
  exists c0. split; [apply h_column_nth; exact C|congruence].
Qed.

(* adding a column appends its name *)
Lemma add_column_named ns h h' t c cc u : cols_named ns h t -> h_column h c = Some cc ->
  table_add_column t c h = (h', Ok u) -> cols_named (ns ++ [c_name cc]) h' t.
Proof.
  intros (tb & Ht & F) Hc H. pose proof Hc as Hc'. apply h_column_nth in Hc'. pose proof Ht as Ht'. apply h_table_nth in Ht'.
  assert (Ntc : t <> c) by (intros ->; rewrite Ht' in Hc'; discriminate Hc').
  unfold table_add_column in H. unfold bindM at 1 in H. unfold lookup in H. rewrite Hc' in H. cbv beta iota in H.
  unfold upd_column, get_column in H. unfold bindM at 1 2 3 in H. unfold lookup in H. rewrite Hc' in H. cbv beta iota in H.
  unfold ret, store in H. cbv beta iota in H.
  unfold upd_table, get_table, bindM, lookup in H. rewrite nth_replace_other in H by congruence. rewrite Ht' in H. cbv beta iota in H.
  unfold ret, store in H. injection H as <- _.
  set (h1 := replace_nth c (OColumn (set_c_table (Some t) cc)) h).
  assert (Lt : nth_error h1 t = Some (OTable tb)) by (unfold h1; rewrite nth_replace_other by congruence; exact Ht').
  exists (set_columns (t_columns tb ++ [c]) tb). split; [unfold h_table; rewrite (nth_replace_same' _ _ _ _ Lt); reflexivity|].
  cbn [t_columns set_columns]. apply Forall2_app.
  - eapply Forall2_imp; [|exact F]. intros c0 nm (cc0 & Hc0 & En). apply h_column_nth in Hc0.
    assert (N0 : t <> c0) by (intros ->; rewrite Ht' in Hc0; discriminate Hc0).
    destruct (Nat.eq_dec c c0) as [<-|N].
    + rewrite Hc' in Hc0. inversion Hc0; subst cc0. exists (set_c_table (Some t) cc). split; [|exact En].
      apply h_column_nth. rewrite nth_replace_other by exact N0. unfold h1. apply (nth_replace_same' _ _ _ _ Hc').
    + exists cc0. split; [|exact En]. apply h_column_nth. rewrite nth_replace_other by exact N0. unfold h1. rewrite nth_replace_other by exact N. exact Hc0.
  - constructor; [|constructor]. exists (set_c_table (Some t) cc). split; [|reflexivity].
    apply h_column_nth. rewrite nth_replace_other by exact Ntc. unfold h1. apply (nth_replace_same' _ _ _ _ Hc').
Qed.

(* ---- building a table from its blueprint gives it the blueprint's column names ---- *)
Definition bp_colname (cb : pyv) : option pystr := match cb with PVBlue 5 cd => fstr_of cd "name" | _ => None end.
Definition bp_colnames (bp : pyv) : list (option pystr) :=
  match bp with PVBlue 7 dd => map bp_colname (flist_of dd "columns") | _ => [] end.

Definition col_is (nm : option pystr) (h : heap) (c : oid) : Prop := exists cc, h_column h c = Some cc /\ c_name cc = nm.
Lemma col_is_Rext nm h h' c : Rext h h' -> col_is nm h c -> col_is nm h' c.
Proof.
  intros R (cc & Hc & En). apply h_column_nth in Hc.
  destruct (Rcb_Rext (length h) _ _ R c _ (nth_some_lt _ _ _ Hc) Hc) as (ob' & A & B). destruct ob'; try discriminate B. cbn in B. inversion B.
  exists c0. split; [apply h_column_nth; exact A|congruence].
Qed.
Lemma post_new_column_named n ty u nn pk ai dflt nt c p : post (new_column n ty u nn pk ai dflt nt c p) (col_is n).
Proof.
  intros h h' x H. unfold new_column in H. apply bindM_inv in H as [[e [_ H]]|[nid [h1 [_ H]]]]; [discriminate H|].
  revert H. apply alloc_then_post.
  - intros h0. eexists. split; [apply h_column_nth; rewrite nth_error_app2 by lia; rewrite Nat.sub_diag; reflexivity|reflexivity].
  - intros y. apply gR_set_note_parent.
  - intros a b y. apply col_is_Rext.
Qed.
Lemma post_build_column_named d cb : post (build_column d cb) (col_is (bp_colname cb)).
Proof.
  unfold build_column.
  destruct cb as [s0|b0|z0|f0| |d0|l0|tag dd]; try apply post_stuck.
  destruct (N.eq_dec tag 5) as [->|Nt].
  2:{ destruct tag as [|p]; [apply post_stuck|]. destruct p as [q|q|]; try apply post_stuck. destruct q as [r0|r0|]; try apply post_stuck.
      destruct r0; try apply post_stuck. congruence. }
  cbn [bp_colname].
  repeat first [ apply post_new_column_named | apply post_raise | apply post_stuck
               | apply post_bind; intros ?
               | match goal with |- post (match ?x with _ => _ end) _ => destruct x end ].
Qed.

Lemma Rext_len h h' : Rext h h' -> length h <= length h'. Proof. intros [L _ _]. exact L. Qed.

Lemma new_table_fresh name schema alias nt hc c ab props h h2 t0 :
  new_table name schema alias [] [] nt hc c ab props h = (h2, Ok t0) -> length h <= t0 /\ cols_named [] h2 t0.
Proof.
  intros H2. unfold new_table in H2. cbn [iterM] in H2.
  apply bindM_inv in H2 as [[e [_ H2]]|[n [hn [Hn H2]]]]; [discriminate H2|].
  pose proof (Rext_len _ _ (gR_new_note_from _ _ _ _ Hn)) as L.
  unfold bindM at 1 in H2. unfold alloc in H2. cbv beta iota in H2.
  apply bindM_inv in H2 as [[e [_ H2]]|[u1 [hx [Hx H2]]]]; [discriminate H2|]. unfold ret in Hx. injection Hx as E1 _. subst hx.
  apply bindM_inv in H2 as [[e [_ H2]]|[u2 [hy [Hy H2]]]]; [discriminate H2|]. unfold ret in Hy. injection Hy as E2 _. subst hy.
  apply bindM_inv in H2 as [[e [_ H2]]|[u3 [hz [Hz H2]]]]; [discriminate H2|]. unfold ret in H2. injection H2 as E3 E4. subst.
  split; [exact L|].
  eapply cols_named_Rcb; [apply Rcb_Rext; eapply gR_set_note_parent; eauto|apply Nat.le_refl|].
  eexists. split; [unfold h_table; rewrite nth_error_app2 by lia; rewrite Nat.sub_diag; reflexivity|]. constructor.
Qed.

Lemma cols_loop d t0 : forall cols ns h h' u, cols_named ns h t0 ->
  iterM (fun cb => do! c <- build_column d cb ;; table_add_column t0 c) cols h = (h', Ok u) ->
  cols_named (ns ++ map bp_colname cols) h' t0.
Proof.
  induction cols as [|cb cols IH]; intros ns h h' u Hn H.
  - cbn in H. inversion H; subst. cbn. rewrite app_nil_r. exact Hn.
  - cbn [iterM] in H. apply bindM_inv in H as [[e [_ H]]|[[] [hb [Hb H]]]]; [discriminate H|].
    apply bindM_inv in Hb as [[e [_ Hb]]|[c [ha [Ha Hb]]]]; [discriminate Hb|].
    pose proof (gR_build_column _ _ _ _ _ Ha) as R.
    assert (Hn1 : cols_named ns ha t0) by (refine (cols_named_Rcb (length h) _ h _ _ (Rcb_Rext _ _ _ R) (Nat.le_refl _) Hn)).
    destruct (post_build_column_named d cb _ _ _ Ha) as (cc & Hc & En).
    pose proof (add_column_named _ _ _ _ _ _ _ Hn1 Hc Hb) as Hn2. rewrite En in Hn2.
    cbn [map]. replace (ns ++ bp_colname cb :: map bp_colname cols) with ((ns ++ [bp_colname cb]) ++ map bp_colname cols) by (rewrite <- app_assoc; reflexivity).
    eapply IH; eauto.
Qed.

Definition build_table_body (d t : oid) (cols idxs : list pyv) : M oid :=
  do!! iterM (fun cb => do! c <- build_column d cb ;; table_add_column t c) cols ;;
  do!! iterM (fun ib => do! i <- build_index ib ;; do! subs <- mapMM (subject_of t) (match ib with PVBlue 6 idd => flist_of idd "subject_names" | _ => [] end) ;;
                        do!! upd_index i (set_subjects subs) ;; table_add_index t i) idxs ;;
  ret t.

Definition idx_step (t : oid) (ib : pyv) : M unit :=
  do! i <- build_index ib ;; do! subs <- mapMM (subject_of t) (match ib with PVBlue 6 idd => flist_of idd "subject_names" | _ => [] end) ;;
  do!! upd_index i (set_subjects subs) ;; table_add_index t i.

Lemma gcb_idx_step n t ib : guar (Rcb n) (idx_step t ib).
Proof.
  unfold idx_step.
  apply (g_bind _ (Rcb_trans _)); [apply gcb_of_Rext, gR_build_index|intros i].
  apply (g_bind _ (Rcb_trans _)); [apply gcb_of_Rext, (g_mapMM _ Rext_refl Rext_trans), gR_subject_of|intros subs].
  apply (g_bind _ (Rcb_trans _)); [apply gcb_upd_index|intros _]. apply gcb_table_add_index.
Qed.

Lemma gcb_build_table_body n d t cols idxs : n <= t -> guar (Rcb n) (build_table_body d t cols idxs).
Proof.
  intros Hn. unfold build_table_body.
  apply (g_bind _ (Rcb_trans _)); [|intros _].
  { apply (g_iterM _ (Rcb_refl _) (Rcb_trans _)). intros cb. apply (g_bind _ (Rcb_trans _)); [apply gcb_of_Rext, gR_build_column|intros c].
    apply gcb_table_add_column. exact Hn. }
  apply (g_bind _ (Rcb_trans _)); [|intros _; apply (g_ro _ (Rcb_refl _)), ro_ret].
  apply (g_iterM _ (Rcb_refl _) (Rcb_trans _)). intros ib. apply gcb_idx_step.
Qed.

(* lengths never shrink along Rcb at the full length *)
Lemma Rcb_len h h' : Rcb (length h) h h' -> length h <= length h'.
Proof.
  intros R. destruct h as [|x l] eqn:E; [cbn; lia|]. rewrite <- E in *.
  assert (Hl : length h - 1 < length h) by (rewrite E; cbn; lia).
  destruct (nth_error h (length h - 1)) as [ob|] eqn:En; [|apply nth_error_None in En; lia].
  destruct (R _ _ Hl En) as (ob' & A & _). pose proof (nth_some_lt _ _ _ A). lia.
Qed.

Lemma idx_loop_cols t0 ns idxs h h' r : cols_named ns h t0 -> iterM (idx_step t0) idxs h = (h', r) -> cols_named ns h' t0.
Proof.
  intros Hn H. refine (cols_named_Rcb (length h) _ h _ _ _ (Nat.le_refl _) Hn).
  exact (g_iterM _ (Rcb_refl _) (Rcb_trans _) (idx_step t0) idxs (gcb_idx_step (length h) t0) _ _ _ H).
Qed.

Lemma build_table_eq d dd :
  build_table d (PVBlue 7 dd) =
  (do! nt <- lift (note_text_of dd "note") ;;
   do! t <- new_table (fstr_of dd "name") (Some (match fstr_of dd "schema" with Some s => s | None => K "public" end))
                      (fstr_of dd "alias") [] [] nt (fstr_of dd "header_color") (fstr_of dd "comment") false (fdict_of dd "properties") ;;
   build_table_body d t (flist_of dd "columns") (flist_of dd "indexes")).
Proof. reflexivity. Qed.

Lemma tag7 (tag : N) (P : Prop) : tag <> 7%N ->
  (match tag with 7%N => P | _ => True end) .
Proof. intros N. destruct tag as [|p]; [exact I|]. destruct p as [q|q|]; try exact I. destruct q as [r0|r0|]; try exact I. destruct r0; try exact I. congruence. Qed.

Lemma build_table_cols d bp h h' t : good_table_bp bp -> build_table d bp h = (h', Ok t) ->
  cols_named (bp_colnames bp) h' t /\ length h <= t.
Proof.
  intros Hg H. destruct bp as [s0|b0|z0|f0| |d0|l0|tag dd]; try discriminate H.
  destruct (N.eq_dec tag 7) as [->|Nt].
  2:{ exfalso. unfold build_table in H. destruct tag as [|p]; [discriminate H|].
      destruct p as [q|q|]; try discriminate H. destruct q as [r0|r0|]; try discriminate H. destruct r0; try discriminate H. congruence. }
  rewrite build_table_eq in H.
  apply bindM_inv in H as [[e [_ H]]|[nt [h1 [H1 H]]]]; [discriminate H|]. unfold lift in H1. injection H1 as <- _.
  apply bindM_inv in H as [[e [_ H]]|[t0 [h2 [H2 H]]]]; [discriminate H|].
  destruct (new_table_fresh _ _ _ _ _ _ _ _ _ _ _ H2) as [L N0].
  unfold build_table_body in H.
  apply bindM_inv in H as [[e [_ H]]|[[] [h3 [H3 H]]]]; [discriminate H|].
  apply bindM_inv in H as [[e [_ H]]|[[] [h4 [H4 H]]]]; [discriminate H|].
  unfold ret in H. injection H as <- <-.
  split; [|exact L]. cbn [bp_colnames].
  pose proof (cols_loop d t0 _ [] _ _ _ N0 H3) as N3. cbn [app] in N3.
  exact (idx_loop_cols t0 _ _ _ _ _ N3 H4).
Qed.

Lemma build_table_Rcb d bp h h' r : good_table_bp bp -> build_table d bp h = (h', r) -> Rcb (length h) h h'.
Proof.
  intros Hg H. destruct bp as [s0|b0|z0|f0| |d0|l0|tag dd]; try (unfold build_table, stuck, raise in H; inversion H; apply Rcb_refl).
  destruct (N.eq_dec tag 7) as [->|Nt].
  2:{ unfold build_table in H. destruct tag as [|p]; [inversion H; apply Rcb_refl|].
      destruct p as [q|q|]; try (inversion H; apply Rcb_refl). destruct q as [r0|r0|]; try (inversion H; apply Rcb_refl).
      destruct r0; try (inversion H; apply Rcb_refl). congruence. }
  rewrite build_table_eq in H.
  apply bindM_inv in H as [[e [H1 _]]|[nt [h1 [H1 H]]]]; [unfold lift in H1; destruct (note_text_of dd "note"); inversion H1; apply Rcb_refl|].
  assert (h1 = h) by (unfold lift in H1; destruct (note_text_of dd "note"); inversion H1; reflexivity). subst h1.
  apply bindM_inv in H as [[e [H2 _]]|[t0 [h2 [H2 H]]]].
  - apply Rcb_Rext. eapply new_table_empty_Rext; [|exact H2]. exact Hg.
  - destruct (new_table_fresh _ _ _ _ _ _ _ _ _ _ _ H2) as [L _].
    eapply Rcb_trans; [apply Rcb_Rext; eapply new_table_empty_Rext; [|exact H2]; exact Hg|].
    exact (gcb_build_table_body (length h) d t0 _ _ L _ _ _ H).
Qed.


(* ====================== part 4 ====================== *)
(* ---- every listed table was built from one of the table blueprints: it has that blueprint's keys and column names ---- *)
Definition TabCols (tbl : list pyv) (d : oid) (h : heap) : Prop :=
  forall db t, h_database h d = Some db -> In t (d_tables db) ->
    exists bp, In bp tbl /\ keys_eq (bp_keys bp) h t /\ cols_named (bp_colnames bp) h t.

Lemma TabCols_gen tbl d h h' db db' : Inv h d db -> h_database h' d = Some db' -> Rn h h' -> Rcb (length h) h h' ->
  (forall t, In t (d_tables db') -> In t (d_tables db) \/ exists bp, In bp tbl /\ keys_eq (bp_keys bp) h' t /\ cols_named (bp_colnames bp) h' t) ->
  TabCols tbl d h -> TabCols tbl d h'.
Proof.
  intros [[[Idb _ _ _ If _] _ _] _] Hdb' R Rc Hnew HT db2 t Hdb2 Hin. rewrite Hdb' in Hdb2. inversion Hdb2; subst db2.
  destruct (Hnew t Hin) as [Hold|Hn]; [|exact Hn].
  destruct (HT db t Idb Hold) as (bp & Hbp & Hk & Hc). exists bp. split; [exact Hbp|]. split.
  - eapply keys_eq_Rn; eauto.
  - eapply cols_named_Rcb; [exact Rc|apply Nat.le_refl|exact Hc].
Qed.

Definition keeps {A} (P : heap -> Prop) (m : M A) : Prop := forall h h' r, P h -> m h = (h', r) -> P h'.
Lemma keeps_bind {A B} P (m : M A) (f : A -> M B) : keeps P m -> (forall a, keeps P (f a)) -> keeps P (bindM m f).
Proof.
  intros Hm Hf h h' r HP H. apply bindM_inv in H as [[e [H1 _]]|[a [h1 [H1 H2]]]].
  - eapply Hm; eauto.
  - eapply Hf; [|exact H2]. eapply Hm; eauto.
Qed.
Lemma keeps_iterM_in {A} P (f : A -> M unit) l : (forall a, In a l -> keeps P (f a)) -> keeps P (iterM f l).
Proof.
  induction l as [|x l IH]; intros Hf; cbn [iterM].
  - intros h h' r HP H. inversion H; subst. exact HP.
  - apply keeps_bind; [apply Hf; left; reflexivity|intros _; apply IH; intros a Ha; apply Hf; right; exact Ha].
Qed.
Lemma keeps_reaches {A} P (f : A -> M unit) l1 x l2 h h' :
  (forall a, In a (l1 ++ x :: l2) -> keeps P (f a)) -> P h -> iterM f (l1 ++ x :: l2) h = (h', Ok tt) ->
  exists hm hn, P hm /\ f x hm = (hn, Ok tt).
Proof.
  intros Hk HP H. destruct (iterM_app_ok _ _ _ _ _ _ H) as (hm & G1 & G2).
  assert (P1 : forall a, In a l1 -> keeps P (f a)) by (intros a Ha; apply Hk; apply in_or_app; left; exact Ha).
  pose proof (keeps_iterM_in P f l1 P1 _ _ _ HP G1) as HPm.
  cbn [iterM] in G2. apply bindM_inv in G2 as [[e [_ G2]]|[[] [hn [I1 _]]]]; [discriminate G2|].
  exists hm, hn. split; [exact HPm|exact I1].
Qed.

Definition JTC (allk : list pystr) (tbl : list pyv) (d : oid) (h : heap) : Prop := J d h /\ TabKeys allk d h /\ TabCols tbl d h.

Lemma nontable_step_TabCols {A} tbl d (b : A -> M oid) bp k h h' r :
  guar Rext (b bp) -> post (b bp) (kind_is k) -> k <> KTable -> J d h -> TabCols tbl d h ->
  (do! x <- b bp ;; db_add d x) h = (h', r) -> TabCols tbl d h'.
Proof.
  intros G P Nk HJ HT H. destruct HJ as (db & I). pose proof I as [[[Idb _ _ _ _ _] _ _] _].
  apply bindM_inv in H as [[e [H1 _]]|[x [h1 [H1 H2]]]].
  - pose proof (G _ _ _ H1) as R. eapply TabCols_gen; [exact I|exact (Rext_db _ _ _ _ R Idb)|exact (Rn_Rext _ _ R)|exact (Rcb_Rext _ _ _ R)| |exact HT]. intros t Hin; left; exact Hin.
  - pose proof (G _ _ _ H1) as R.
    assert (HT1 : TabCols tbl d h1).
    { eapply TabCols_gen; [exact I|exact (Rext_db _ _ _ _ R Idb)|exact (Rn_Rext _ _ R)|exact (Rcb_Rext _ _ _ R)| |exact HT]. intros t Hin; left; exact Hin. }
    pose proof (Inv_Rext _ _ _ _ R I) as I1. pose proof I1 as [ID1 _].
    destruct (P _ _ _ H1) as (ob & Hob & Hkind).
    destruct (db_add_step h1 d db x ID1) as [[e R']|(db' & h2 & ob' & k' & Hrun & ID' & Ho & Hkd & Hm & Hl1 & _ & Hoth & _)].
    { rewrite R' in H2. inversion H2; subst. exact HT1. }
    rewrite Hrun in H2. inversion H2; subst h2 r. destruct ID' as [[Idb' _ _ _ _ _] _ _].
    rewrite Hob in Ho. inversion Ho; subst ob'. rewrite Hkind in Hkd. inversion Hkd; subst k'.
    eapply TabCols_gen; [exact I1|exact Idb'|exact (gn_db_add d x _ _ _ Hrun)|exact (gcb_db_add _ d x _ _ _ Hrun)| |exact HT1].
    intros t0 Hin. left. change (In t0 (klist KTable db')) in Hin. destruct Hoth as [Hoo _]. rewrite (Hoo KTable) in Hin by congruence. exact Hin.
Qed.

Lemma gcb_Rn_len h h' : Rcb (length h) h h' -> length h <= length h'. Proof. apply Rcb_len. Qed.

Lemma step_TabCols tbl d bp h h' r : J d h -> good_table_bp bp -> In bp tbl -> TabCols tbl d h -> step d bp h = (h', r) -> TabCols tbl d h'.
Proof.
  intros HJ Hg Hk HT H. unfold step in H. apply bindM_inv in H as [[e [H1 _]]|[t [h1 [H1 H2]]]].
  - destruct HJ as (db & I). pose proof I as [[[Idb _ _ _ _ _] _ _] _].
    eapply TabCols_gen; [exact I|exact (gdb_build_table d bp Hg _ _ _ H1 db Idb)|exact (gn_build_table d bp Hg _ _ _ H1)|exact (build_table_Rcb d bp _ _ _ Hg H1)| |exact HT]. intros t Hin; left; exact Hin.
  - destruct HJ as (db & I). pose proof I as [[[Idb _ _ _ _ _] _ _] _].
    assert (HT1 : TabCols tbl d h1).
    { eapply TabCols_gen; [exact I|exact (gdb_build_table d bp Hg _ _ _ H1 db Idb)|exact (gn_build_table d bp Hg _ _ _ H1)|exact (build_table_Rcb d bp _ _ _ Hg H1)| |exact HT]. intros t0 Hin; left; exact Hin. }
    destruct (build_table_keeps_J d bp h h1 (Ok t) Hg (ex_intro _ db I) H1) as [(db1 & I1) _].
    pose proof (build_table_keys d bp h h1 t Hg H1) as Hkeys.
    destruct (build_table_cols d bp h h1 t Hg H1) as [Hcols _].
    pose proof I1 as [ID1 _].
    destruct (db_add_step h1 d db1 t ID1) as [[e R]|(db' & h2 & ob & k & Hrun & ID' & Ho & Hkd & Hm & Hl1 & _ & Hoth & _)].
    { rewrite R in H2. inversion H2; subst. exact HT1. }
    rewrite Hrun in H2. inversion H2; subst h2 r. destruct ID' as [[Idb' _ _ _ _ _] _ _].
    eapply TabCols_gen; [exact I1|exact Idb'|exact (gn_db_add d t _ _ _ Hrun)|exact (gcb_db_add _ d t _ _ _ Hrun)| |exact HT1].
    intros t0 Hin. pose proof Hkeys as (tb & Ht & En). rewrite (h_table_nth _ _ _ Ht) in Ho. inversion Ho; subst ob. cbn in Hkd. inversion Hkd; subst k.
    change (In t0 (klist KTable db')) in Hin. rewrite (Hl1 ltac:(discriminate)) in Hin. apply in_app_or in Hin as [Hin|[<-|[]]]; [left; exact Hin|right].
    exists bp. split; [exact Hk|]. split.
    + eapply keys_eq_Rn; [exact (gn_db_add d t _ _ _ Hrun)|exact Hkeys].
    + eapply cols_named_Rcb; [exact (gcb_db_add (length h1) d t _ _ _ Hrun)|apply Nat.le_refl|exact Hcols].
Qed.

Lemma keeps_nontable {A} allk tbl d (b : A -> M oid) bp k : guar Rext (b bp) -> post (b bp) (kind_is k) -> k <> KTable ->
  keeps (JTC allk tbl d) (do! x <- b bp ;; db_add d x).
Proof.
  intros G P Nk h h' r (HJ & HT & HC) H.
  destruct (presT_nontable allk d b bp k G P Nk _ _ _ HJ HT H) as [HJ' HT']. split; [exact HJ'|]. split; [exact HT'|].
  exact (nontable_step_TabCols tbl d b bp k h h' r G P Nk HJ HC H).
Qed.
Lemma keeps_table allk tbl d bp : good_table_bp bp -> incl (bp_keys bp) allk -> In bp tbl -> keeps (JTC allk tbl d) (step d bp).
Proof.
  intros Hg Hk Hin h h' r (HJ & HT & HC) H.
  destruct (presT_table allk d bp Hg Hk _ _ _ HJ HT H) as [HJ' HT']. split; [exact HJ'|]. split; [exact HT'|].
  exact (step_TabCols tbl d bp h h' r HJ Hg Hin HC H).
Qed.

(* ---- the six phases of a successful build ---- *)
Lemma build_database_runs s allow sq dq h0 h1 dd :
  build_database s allow sq dq h0 = (h1, Ok dd) ->
  let d := length h0 in let hi := h0 ++ [ODatabase (mkDatabase [] [] [] [] [] [] None allow sq dq)] in
  exists ha hb hc hd he,
    dd = d /\
    iterM (estep d) (ps_enums s) hi = (ha, Ok tt) /\ iterM (step d) (ps_tables s) ha = (hb, Ok tt) /\
    iterM (gstep d) (ps_groups s) hb = (hc, Ok tt) /\ iterM (sstep d) (ps_stickies s) hc = (hd, Ok tt) /\
    pstep d (ps_project s) hd = (he, Ok tt) /\ iterM (rstep d) (ps_refs s) he = (h1, Ok tt).
Proof.
  intros H d hi. unfold build_database in H. unfold bindM at 1 in H. unfold new_database, alloc in H. cbv beta iota in H. fold d in H. fold hi in H.
  apply bindM_inv in H as [[e [_ H]]|[[] [ha [A1 H]]]]; [discriminate H|].
  apply bindM_inv in H as [[e [_ H]]|[[] [hb [B1 H]]]]; [discriminate H|].
  apply bindM_inv in H as [[e [_ H]]|[[] [hc [C1 H]]]]; [discriminate H|].
  apply bindM_inv in H as [[e [_ H]]|[[] [hd [D1 H]]]]; [discriminate H|].
  apply bindM_inv in H as [[e [_ H]]|[[] [he [E1 H]]]]; [discriminate H|].
  apply bindM_inv in H as [[e [_ H]]|[[] [hf [F1 H]]]]; [discriminate H|].
  unfold ret in H. injection H as <- <-.
  exists ha, hb, hc, hd, he. repeat split; assumption.
Qed.

Lemma JTC_initial allk tbl h0 allow sq dq :
  WW h0 -> (forall t tb, h_table h0 t = Some tb -> NoDup (names_of tb)) ->
  JTC allk tbl (length h0) (h0 ++ [ODatabase (mkDatabase [] [] [] [] [] [] None allow sq dq)]).
Proof.
  intros HW Hgood. set (db0 := mkDatabase [] [] [] [] [] [] None allow sq dq). set (d := length h0).
  assert (Hdb : forall db, h_database (h0 ++ [ODatabase db0]) d = Some db -> db = db0).
  { intros db Hdb. unfold h_database, d in Hdb. rewrite nth_error_app2 in Hdb by lia. rewrite Nat.sub_diag in Hdb. inversion Hdb; reflexivity. }
  split; [|split].
  - exists db0. split; [apply fresh_database_full; exact Hgood|].
    intros k. eapply W_Rext; [|apply HW]. eapply (gR_alloc (ODatabase db0)); [exact Logic.I|reflexivity].
  - intros db t tb Hd Hin. rewrite (Hdb _ Hd) in Hin. destruct Hin.
  - intros db t Hd Hin. rewrite (Hdb _ Hd) in Hin. destruct Hin.
Qed.

(* JTC holds when the references phase begins *)
Lemma JTC_before_refs s allow sq dq h0 h1 dd :
  WW h0 -> (forall t tb, h_table h0 t = Some tb -> NoDup (names_of tb)) -> Forall good_table_bp (ps_tables s) ->
  build_database s allow sq dq h0 = (h1, Ok dd) ->
  exists he, JTC (flat_map bp_keys (ps_tables s)) (ps_tables s) (length h0) he /\ iterM (rstep (length h0)) (ps_refs s) he = (h1, Ok tt).
Proof.
  intros HW Hgood Hg H. set (allk := flat_map bp_keys (ps_tables s)). set (tbl := ps_tables s). set (d := length h0).
  destruct (build_database_runs _ _ _ _ _ _ _ H) as (ha & hb & hc & hd & he & _ & A1 & B1 & C1 & D1 & E1 & F1).
  pose proof (JTC_initial allk tbl h0 allow sq dq HW Hgood) as Q0. rewrite Forall_forall in Hg.
  pose proof (keeps_iterM_in _ (estep d) (ps_enums s) (fun bp _ => keeps_nontable allk tbl d build_enum bp KEnum (gR_build_enum bp) (post_build_enum bp) ltac:(discriminate)) _ _ _ Q0 A1) as Qa.
  assert (PT : forall bp, In bp (ps_tables s) -> keeps (JTC allk tbl d) (step d bp)).
  { intros bp Hin. apply keeps_table; [apply Hg; exact Hin| |exact Hin]. intros k Hk. unfold allk. apply in_flat_map. exists bp. split; assumption. }
  pose proof (keeps_iterM_in _ (step d) (ps_tables s) PT _ _ _ Qa B1) as Qb.
  pose proof (keeps_iterM_in _ (gstep d) (ps_groups s) (fun bp _ => keeps_nontable allk tbl d (build_group d) bp KGroup (gR_build_group d bp) (post_build_group d bp) ltac:(discriminate)) _ _ _ Qb C1) as Qc.
  pose proof (keeps_iterM_in _ (sstep d) (ps_stickies s) (fun bp _ => keeps_nontable allk tbl d build_sticky bp KSticky (gR_build_sticky bp) (post_build_sticky bp) ltac:(discriminate)) _ _ _ Qc D1) as Qd.
  assert (Qe : JTC allk tbl d he).
  { unfold pstep in E1. destruct (ps_project s) as [bp|].
    - exact (keeps_nontable allk tbl d build_project bp KProject (gR_build_project bp) (post_build_project bp) ltac:(discriminate) _ _ _ Qd E1).
    - inversion E1; subst. exact Qd. }
  exists he. split; [exact Qe|exact F1].
Qed.


(* ====================== part 5 ====================== *)
(* no table blueprint answering to (schema, name) declares a column cn *)
Definition col_unknown (tbl : list pyv) (sch nm cn : pystr) : Prop :=
  forall bp, In bp tbl -> In nm (bp_keys bp) \/ In (sch ++ 46%N :: nm) (bp_keys bp) -> ~ In (Some cn) (bp_colnames bp).

Lemma find_none_named h cn : forall cs ns,
  Forall2 (fun c n => exists cc, h_column h c = Some cc /\ c_name cc = n) cs ns -> ~ In (Some cn) ns ->
  find (fun c => match h_column h c with Some cc => ostr_eqb (c_name cc) (Some cn) | None => false end) cs = None.
Proof.
  intros cs ns F. induction F as [|c n cs ns' (cc & Hc & Ec) F IH]; intros Hno; [reflexivity|].
  cbn [find]. rewrite Hc. destruct (ostr_eqb (c_name cc) (Some cn)) eqn:E.
  - exfalso. apply Hno. left. apply ostr_eqb_eq in E. congruence.
  - apply IH. intros Hin'. apply Hno. right. exact Hin'.
Qed.

Lemma getitem_unknown allk tbl d h sch nm cn t :
  JTC allk tbl d h -> locate_table d sch nm h = (h, Ok t) -> col_unknown tbl sch nm cn ->
  table_getitem t (KStr cn) h = (h, Raise EColumnNotFound).
Proof.
  intros ((db & I) & _ & HC) Hloc Hun. pose proof I as [[[Idb _ _ _ _ Ib] _ _] _].
  assert (Hk : exists k, (k = nm \/ k = sch ++ 46%N :: nm) /\ dict_get k (d_table_dict db) = Some t).
  { unfold locate_table in Hloc. unfold bindM in Hloc. unfold get_database, bindM, lookup in Hloc.
    rewrite (h_database_nth _ _ _ Idb) in Hloc. cbv beta iota in Hloc. unfold ret in Hloc.
    destruct (dict_get nm (d_table_dict db)) as [t0|] eqn:E1.
    - inversion Hloc; subst. exists nm. split; [left; reflexivity|exact E1].
    - destruct (dict_get (sch ++ 46%N :: nm) (d_table_dict db)) as [t0|] eqn:E2; [|discriminate Hloc].
      inversion Hloc; subst. exists (sch ++ 46%N :: nm). split; [right; reflexivity|exact E2]. }
  destruct Hk as (k & Hk & Hg). destruct (Ib k t Hg) as (Hin & tb & Ht & Hkn).
  destruct (HC db t Idb Hin) as (bp & Hbp & (tb1 & Ht1 & En) & (tb2 & Ht2 & F)).
  rewrite Ht in Ht1, Ht2. inversion Ht1; subst tb1. inversion Ht2; subst tb2. rewrite En in Hkn.
  assert (Hno : ~ In (Some cn) (bp_colnames bp)).
  { apply Hun; [exact Hbp|]. destruct Hk as [->| ->]; [left|right]; exact Hkn. }
  apply (table_getitem_missing h t tb cn Ht). exact (find_none_named h cn _ _ F Hno).
Qed.

Lemma mapMM_fails {A B} (f : A -> M B) x e h : (forall a, readonly (f a)) -> f x h = (h, Raise e) ->
  forall l, In x l -> forall h' ys, mapMM f l h <> (h', Ok ys).
Proof.
  intros Hro Hx. induction l as [|a l IH]; intros Hin h' ys H; [destruct Hin|].
  cbn [mapMM] in H. apply bindM_inv in H as [[e' [_ H]]|[y [h1 [H1 H]]]]; [discriminate H|].
  pose proof (Hro a _ _ _ H1) as ->.
  destruct Hin as [->|Hin]; [rewrite Hx in H1; discriminate H1|].
  apply bindM_inv in H as [[e' [_ H]]|[ys' [h2 [H2 _]]]]; [discriminate H|]. exact (IH Hin _ _ H2).
Qed.

(* the reference blueprint names, on its first or second side, a column that no table blueprint answering to that side declares *)
Definition ref_col_missing (tbl : list pyv) (rb : pyv) : Prop :=
  match rb with
  | PVBlue 4 dd =>
      exists t1n t2n c1 c2, fstr_of dd "table1" = Some t1n /\ fstr_of dd "table2" = Some t2n /\ fstr_of dd "col1" = Some c1 /\ fstr_of dd "col2" = Some c2 /\
        let s1 := match fstr_of dd "schema1" with Some s => s | None => K "public" end in
        let s2 := match fstr_of dd "schema2" with Some s => s | None => K "public" end in
        (exists c, In c (split_on 44%N c1) /\ col_unknown tbl s1 t1n (strip_paren_blank c)) \/
        (exists c, In c (split_on 44%N c2) /\ col_unknown tbl s2 t2n (strip_paren_blank c))
  | _ => False
  end.

Lemma build_reference_col_missing allk tbl d rb h h' x : JTC allk tbl d h -> ref_col_missing tbl rb -> build_reference d rb h <> (h', Ok x).
Proof.
  intros Q Hm H.
  destruct rb as [s0|b0|z0|f0| |d0|l0|tag dd]; try contradiction.
  destruct (N.eq_dec tag 4) as [->|Nt].
  2:{ destruct tag as [|p]; [contradiction|]. destruct p as [q|q|]; try contradiction. destruct q as [r0|r0|]; try contradiction. destruct r0; try contradiction; congruence. }
  destruct Hm as (t1n & t2n & c1 & c2 & E1 & E2 & E3 & E4 & Hside). unfold build_reference in H. rewrite E1, E2, E3, E4 in H.
  cbv beta iota zeta in H, Hside.
  apply bindM_inv in H as [[e [_ H]]|[t1 [h1 [L1 H]]]]; [discriminate H|].
  pose proof (ro_locate_table _ _ _ _ _ _ L1) as ->.
  apply bindM_inv in H as [[e [_ H]]|[col1 [h2 [M1 H]]]]; [discriminate H|].
  assert (h2 = h).
  { assert (RO : readonly (mapMM (fun c => table_getitem t1 (KStr (strip_paren_blank c))) (split_on 44%N c1))).
    { generalize (split_on 44%N c1). induction l as [|a l IH]; cbn [mapMM]; [apply ro_ret|].
      apply ro_bind; [apply ro_table_getitem|intros y]. apply ro_bind; [exact IH|intros ys; apply ro_ret]. }
    exact (RO _ _ _ M1). }
  subst h2.
  destruct Hside as [(c & Hin & Hun)|(c & Hin & Hun)].
  - eapply (mapMM_fails (fun c => table_getitem t1 (KStr (strip_paren_blank c))) c); [intros a; apply ro_table_getitem| |exact Hin|exact M1].
    exact (getitem_unknown allk tbl d h _ _ _ t1 Q L1 Hun).
  - apply bindM_inv in H as [[e [_ H]]|[t2 [h3 [L2 H]]]]; [discriminate H|].
    pose proof (ro_locate_table _ _ _ _ _ _ L2) as ->.
    apply bindM_inv in H as [[e [_ H]]|[col2 [h4 [M2 _]]]]; [discriminate H|].
    eapply (mapMM_fails (fun c => table_getitem t2 (KStr (strip_paren_blank c))) c); [intros a; apply ro_table_getitem| |exact Hin|exact M2].
    exact (getitem_unknown allk tbl d h _ _ _ t2 Q L2 Hun).
Qed.

Lemma keeps_rstep allk tbl d bp : keeps (JTC allk tbl d) (rstep d bp).
Proof. exact (keeps_nontable allk tbl d (build_reference d) bp KRef (gR_build_reference d bp) (post_build_reference d bp) ltac:(discriminate)). Qed.

Theorem build_database_rejects_unknown_column s allow sq dq h0 h1 dd l1 rb l2 :
  WW h0 -> (forall t tb, h_table h0 t = Some tb -> NoDup (names_of tb)) -> Forall good_table_bp (ps_tables s) ->
  ps_refs s = l1 ++ rb :: l2 -> ref_col_missing (ps_tables s) rb ->
  build_database s allow sq dq h0 <> (h1, Ok dd).
Proof.
  intros HW Hgood Hg Hl Hm H.
  destruct (JTC_before_refs _ _ _ _ _ _ _ HW Hgood Hg H) as (he & Qe & F1). rewrite Hl in F1.
  destruct (keeps_reaches _ (rstep (length h0)) l1 rb l2 he h1 (fun bp _ => keeps_rstep _ _ _ bp) Qe F1) as (hm & hn & Qm & R).
  unfold rstep in R. apply bindM_inv in R as [[e [_ R]]|[x [hx [K1 _]]]]; [discriminate R|].
  exact (build_reference_col_missing _ _ _ rb hm hx x Qm Hm K1).
Qed.


(* ====================== part 6 ====================== *)
Lemma mapMM_fails_inv {A B} (P : heap -> Prop) (f : A -> M B) x :
  (forall a h h' r, P h -> f a h = (h', r) -> P h') -> (forall h h' y, P h -> f x h <> (h', Ok y)) ->
  forall l, In x l -> forall h h' ys, P h -> mapMM f l h <> (h', Ok ys).
Proof.
  intros Hk Hx. induction l as [|a l IH]; intros Hin h h' ys HP H; [destruct Hin|].
  cbn [mapMM] in H. apply bindM_inv in H as [[e' [_ H]]|[y [h1 [H1 H]]]]; [discriminate H|].
  destruct Hin as [->|Hin]; [exact (Hx _ _ _ HP H1)|].
  apply bindM_inv in H as [[e' [_ H]]|[ys' [h2 [H2 _]]]]; [discriminate H|].
  exact (IH Hin _ _ _ (Hk _ _ _ _ HP H1) H2).
Qed.

Lemma subject_of_unknown ns t0 nm h h' y : cols_named ns h t0 -> ~ In (Some nm) ns -> subject_of t0 (PVStr nm) h <> (h', Ok y).
Proof.
  intros (tb & Ht & F) Hno H. unfold subject_of in H. unfold bindM at 1 in H. rewrite (get_table_ok _ _ _ Ht) in H. cbv beta iota in H.
  unfold bindM at 1, get_heap in H. cbv beta iota in H. rewrite (find_none_named h nm _ _ F Hno) in H. discriminate H.
Qed.

(* a table blueprint with an index over a column name that the blueprint does not declare *)
Definition index_col_missing (bp : pyv) : Prop :=
  match bp with
  | PVBlue 7 dd => exists i1 idd i2 nm, flist_of dd "indexes" = i1 ++ PVBlue 6 idd :: i2 /\
                     In (PVStr nm) (flist_of idd "subject_names") /\ ~ In (Some nm) (bp_colnames bp)
  | _ => False
  end.

Lemma build_table_index_col_missing d bp h h' t : index_col_missing bp -> build_table d bp h <> (h', Ok t).
Proof.
  intros Hm H. destruct bp as [s0|b0|z0|f0| |d0|l0|tag dd]; try contradiction.
  destruct (N.eq_dec tag 7) as [->|Nt].
  2:{ destruct tag as [|p]; [contradiction|]. destruct p as [q|q|]; try contradiction. destruct q as [r0|r0|]; try contradiction. destruct r0; try contradiction; congruence. }
  destruct Hm as (i1 & idd & i2 & nm & Ei & Hin & Hno).
  rewrite build_table_eq in H.
  apply bindM_inv in H as [[e [_ H]]|[nt [h1 [H1 H]]]]; [discriminate H|].
  apply bindM_inv in H as [[e [_ H]]|[t0 [h2 [H2 H]]]]; [discriminate H|].
  destruct (new_table_fresh _ _ _ _ _ _ _ _ _ _ _ H2) as [_ N0].
  unfold build_table_body in H.
  apply bindM_inv in H as [[e [_ H]]|[[] [h3 [H3 H]]]]; [discriminate H|].
  apply bindM_inv in H as [[e [_ H]]|[[] [h4 [H4 _]]]]; [discriminate H|].
  pose proof (cols_loop d t0 _ [] _ _ _ N0 H3) as N3. cbn [app] in N3. change (map bp_colname (flist_of dd "columns")) with (bp_colnames (PVBlue 7 dd)) in N3.
  rewrite Ei in H4. change (iterM (idx_step t0) (i1 ++ PVBlue 6 idd :: i2) h3 = (h4, Ok tt)) in H4.
  destruct (iterM_app_ok _ _ _ _ _ _ H4) as (hm & G1 & G2).
  pose proof (idx_loop_cols t0 _ _ _ _ _ N3 G1) as Nm.
  cbn [iterM] in G2. apply bindM_inv in G2 as [[e [_ G2]]|[[] [hn [I1 _]]]]; [discriminate G2|].
  unfold idx_step in I1. apply bindM_inv in I1 as [[e [_ I1]]|[i [hx [B1 I1]]]]; [discriminate I1|].
  apply bindM_inv in I1 as [[e [_ I1]]|[subs [hy [S1 _]]]]; [discriminate I1|].
  assert (Nx : cols_named (bp_colnames (PVBlue 7 dd)) hx t0).
  { refine (cols_named_Rcb (length hm) _ hm _ _ (Rcb_Rext _ _ _ (gR_build_index _ _ _ _ B1)) (Nat.le_refl _) Nm). }
  refine (mapMM_fails_inv (fun h => cols_named (bp_colnames (PVBlue 7 dd)) h t0) (subject_of t0) (PVStr nm) _ _ _ Hin hx hy subs Nx S1).
  - intros a ha hb r HP Ha. refine (cols_named_Rcb (length ha) _ ha _ _ (Rcb_Rext _ _ _ (gR_subject_of _ _ _ _ _ Ha)) (Nat.le_refl _) HP).
  - intros ha hb y HP. exact (subject_of_unknown _ t0 nm ha hb y HP Hno).
Qed.

Theorem build_database_rejects_index_over_unknown_column s allow sq dq h0 h1 dd l1 bp l2 :
  ps_tables s = l1 ++ bp :: l2 -> index_col_missing bp -> build_database s allow sq dq h0 <> (h1, Ok dd).
Proof.
  intros Hl Hm H.
  destruct (build_database_runs _ _ _ _ _ _ _ H) as (ha & hb & hc & hd & he & _ & _ & B1 & _). rewrite Hl in B1.
  destruct (iterM_app_ok _ _ _ _ _ _ B1) as (hm & _ & G2).
  cbn [iterM] in G2. apply bindM_inv in G2 as [[e [_ G2]]|[[] [hn [I1 _]]]]; [discriminate G2|].
  unfold step in I1. apply bindM_inv in I1 as [[e [_ I1]]|[t [hx [K1 _]]]]; [discriminate I1|].
  exact (build_table_index_col_missing _ bp hm hx t Hm K1).
Qed.

(* ====================== part 7: for every source text ====================== *)
Theorem parser_rejects_when_build_rejects source allow sq dq h0 st :
  blueprints_of source allow h0 = (h0, Ok st) -> (forall h1 dd, build_database st allow sq dq h0 <> (h1, Ok dd)) ->
  forall h1 d, parser_parse source allow sq dq h0 <> (h1, Ok d).
Proof. intros Hb Hn h1 d H. unfold parser_parse, bindM in H. rewrite Hb in H. exact (Hn h1 d H). Qed.

(* ====================== part 8: examples ====================== *)
From Coq Require Import String.
Open Scope string_scope.
Open Scope list_scope.

(* ---- the hypotheses are satisfiable, and the model run on such documents raises the error of the rule ---- *)
Definition ex_col (n : string) : pyv := PVBlue 5 [(K "name", PVStr (K n)); (K "type", PVStr (K "int"))].
Definition ex_table (n : string) (cols : list string) (idxs : list pyv) : pyv :=
  PVBlue 7 [(K "name", PVStr (K n)); (K "columns", PVList (map ex_col cols)); (K "indexes", PVList idxs)].
Definition ex_ref (t1 c1 t2 c2 : string) : pyv :=
  PVBlue 4 [(K "type", PVStr (K ">")); (K "table1", PVStr (K t1)); (K "col1", PVStr (K c1)); (K "table2", PVStr (K t2)); (K "col2", PVStr (K c2))].
Definition ex_group (n : string) (items : list string) : pyv :=
  PVBlue 11 [(K "name", PVStr (K n)); (K "items", PVList (map (fun i => PVStr (K i)) items))].
Definition ex_index (subjects : list string) : pyv :=
  PVBlue 6 [(K "subject_names", PVList (map (fun i => PVStr (K i)) subjects))].

Definition ex_doc_col : pstate := mkPState [ex_table "a" ["id"] []; ex_table "b" ["id"; "a_id"] []] [ex_ref "b" "a_id" "a" "zz"] [] [] None [].
Example unknown_column_example :
  ref_col_missing (ps_tables ex_doc_col) (ex_ref "b" "a_id" "a" "zz") /\ Forall good_table_bp (ps_tables ex_doc_col)
  /\ snd (build_database ex_doc_col false 0 1 []) = Raise EColumnNotFound.
Proof.
  split; [|split].
  - exists (K "b"), (K "a"), (K "a_id"), (K "zz"). repeat (split; [reflexivity|]). right. exists (K "zz"). split; [left; reflexivity|].
    intros bp [<-|[<-|[]]] Hk; vm_compute in Hk |- *.
    + intros [H|[]]; discriminate H.
    + destruct Hk as [[H|[]]|[H|[]]]; discriminate H.
  - repeat constructor; cbn; intros H; discriminate H.
  - vm_compute. reflexivity.
Qed.

Definition ex_doc_idx : pstate := mkPState [ex_table "a" ["id"] [ex_index ["id"; "nope"]]] [] [] [] None [].
Example index_unknown_column_example :
  index_col_missing (ex_table "a" ["id"] [ex_index ["id"; "nope"]]) /\ snd (build_database ex_doc_idx false 0 1 []) = Raise EColumnNotFound.
Proof.
  split.
  - exists [], [(K "subject_names", PVList [PVStr (K "id"); PVStr (K "nope")])], [], (K "nope"). split; [reflexivity|]. split; [right; left; reflexivity|].
    vm_compute. intros [H|[]]; discriminate H.
  - vm_compute. reflexivity.
Qed.

Definition ex_doc_grp : pstate := mkPState [ex_table "a" ["id"] []] [] [] [ex_group "g" ["a"; "ghost"]] None [].
Example group_unknown_table_example :
  group_names_missing (flat_map bp_keys (ps_tables ex_doc_grp)) (ex_group "g" ["a"; "ghost"]) /\ snd (build_database ex_doc_grp false 0 1 []) = Raise ETableNotFound.
Proof.
  split.
  - exists [PVStr (K "a")], (K "ghost"), []. split; [reflexivity|]. split; vm_compute; intros [H|[]]; discriminate H.
  - vm_compute. reflexivity.
Qed.

Definition ex_doc_grp2 : pstate := mkPState [ex_table "a" ["id"] []; ex_table "b" ["id"] []] [] [] [ex_group "g" ["a"; "b"; "a"]] None [].
Example group_repeat_example :
  group_repeats (ex_group "g" ["a"; "b"; "a"]) /\ snd (build_database ex_doc_grp2 false 0 1 []) = Raise EValidation.
Proof.
  split.
  - exists [], (K "a"), [PVStr (K "b")], []. reflexivity.
  - vm_compute. reflexivity.
Qed.
