(* LexFacts.v — lexical core of C13 / C01 / C02: the three string styles and the two identifier spellings,
   proved for the scanners of PP.v for every text, and tied to the parameters of the regenerated grammar. *)
From PyDBML Require Import PyStr Py PP.
From Coq Require Import Lia.
Import ListNotations.

(* "proper escapes" of the three string styles: backslash doubled, the quote character escaped *)
Fixpoint escape (q : ch) (t : pystr) : pystr :=
  match t with
  | [] => []
  | c :: r => if N.eqb c cBSL then cBSL :: cBSL :: escape q r
              else if N.eqb c q then cBSL :: q :: escape q r
              else c :: escape q r
  end.

Definition U f (s : pystr) : pystr := unquote f (Some cBSL) true s.

Lemma U_bsl_bsl f (r : pystr) : U (S f) (cBSL :: cBSL :: r) = cBSL :: U f r.
Proof. unfold U. destruct r as [|c3 [|c4 r4]]; reflexivity. Qed.
Lemma U_bsl_sq f (r : pystr) : U (S f) (cBSL :: cSQ :: r) = cSQ :: U f r.
Proof. unfold U. destruct r as [|c3 [|c4 r4]]; reflexivity. Qed.
Lemma U_bsl_dq f (r : pystr) : U (S f) (cBSL :: cDQ :: r) = cDQ :: U f r.
Proof. unfold U. destruct r as [|c3 [|c4 r4]]; reflexivity. Qed.
Lemma U_other f (c : ch) (r : pystr) : N.eqb c cBSL = false -> U (S f) (c :: r) = c :: U f r.
Proof. intros H. unfold U. cbn -[N.eqb]. rewrite H. cbn -[N.eqb]. reflexivity. Qed.
Lemma U_nil f : U f [] = [].
Proof. destruct f; reflexivity. Qed.

Definition is_quote (q : ch) : Prop := q = cSQ \/ q = cDQ.

Lemma unquote_escape q (t : pystr) : is_quote q -> forall f, length t < f -> U f (escape q t) = t.
Proof.
  intros Hq. induction t as [|c r IH]; intros f Hf; [apply U_nil|].
  destruct f as [|f]; [cbn in Hf; lia|]. cbn [escape].
  assert (Hr : U f (escape q r) = r) by (apply IH; cbn in Hf; lia).
  destruct (N.eqb c cBSL) eqn:E1.
  - apply N.eqb_eq in E1. subst c. rewrite U_bsl_bsl, Hr. reflexivity.
  - destruct (N.eqb c q) eqn:E2.
    + apply N.eqb_eq in E2. subst c. destruct Hq as [-> | ->]; [rewrite U_bsl_sq|rewrite U_bsl_dq]; rewrite Hr; reflexivity.
    + rewrite U_other by exact E1. rewrite Hr. reflexivity.
Qed.

(* ---- scanning the body of a quoted string ---- *)
Definition no_nl (t : pystr) : Prop := forall c, In c t -> c <> cLF /\ c <> cCR.

Definition QB1 q f (s : pystr) := quoted_body f [q] (Some cBSL) false s.          (* '...' or "..." *)
Definition QB3 f (s : pystr) := quoted_body f [cSQ; cSQ; cSQ] (Some cBSL) true s.   (* triple quoted *)

Lemma QB1_end q f (rest : pystr) : N.eqb q cBSL = false -> QB1 q (S f) (q :: rest) = Some ([], rest).
Proof. intros H. unfold QB1. cbn -[N.eqb]. rewrite H, N.eqb_refl. reflexivity. Qed.

Lemma QB1_esc q f (c2 : ch) (r : pystr) : N.eqb c2 cLF = false ->
  QB1 q (S f) (cBSL :: c2 :: r) = match QB1 q f r with Some (b, rest) => Some (cBSL :: c2 :: b, rest) | None => None end.
Proof. intros H. unfold QB1. cbn -[N.eqb]. rewrite H. reflexivity. Qed.

Lemma QB1_plain q f (c : ch) (r : pystr) :
  N.eqb c cBSL = false -> N.eqb c q = false -> N.eqb c cLF = false -> N.eqb c cCR = false ->
  QB1 q (S f) (c :: r) = match QB1 q f r with Some (b, rest) => Some (c :: b, rest) | None => None end.
Proof. intros H1 H2 H3 H4. unfold QB1. cbn -[N.eqb]. rewrite H1, H2, H3, H4. reflexivity. Qed.

Lemma neqb (a b : ch) : a <> b -> N.eqb a b = false.
Proof. intros H. destruct (N.eqb a b) eqn:E; [apply N.eqb_eq in E; congruence|reflexivity]. Qed.

Lemma quoted_body_single q (t rest : pystr) : is_quote q -> no_nl t -> forall f, length t < f ->
  QB1 q f (escape q t ++ q :: rest) = Some (escape q t, rest).
Proof.
  intros Hq. assert (Hqb : N.eqb q cBSL = false) by (destruct Hq as [-> | ->]; reflexivity).
  assert (Hql : N.eqb q cLF = false) by (destruct Hq as [-> | ->]; reflexivity).
  induction t as [|c r IH]; intros Hn f Hf.
  - destruct f; [cbn in Hf; lia|]. apply QB1_end. exact Hqb.
  - destruct f as [|f]; [cbn in Hf; lia|].
    assert (Hr : QB1 q f (escape q r ++ q :: rest) = Some (escape q r, rest)).
    { apply IH; [intros x Hx; apply Hn; right; exact Hx|cbn in Hf; lia]. }
    cbn [escape]. destruct (N.eqb c cBSL) eqn:E1.
    + cbn [app]. rewrite QB1_esc by reflexivity. rewrite Hr. reflexivity.
    + destruct (N.eqb c q) eqn:E2.
      * cbn [app]. rewrite QB1_esc by exact Hql. rewrite Hr. reflexivity.
      * cbn [app]. destruct (Hn c (or_introl eq_refl)) as [H3 H4].
        rewrite QB1_plain; [rewrite Hr; reflexivity|exact E1|exact E2|apply neqb; exact H3|apply neqb; exact H4].
Qed.

Lemma QB3_end f (rest : pystr) : QB3 (S f) (cSQ :: cSQ :: cSQ :: rest) = Some ([], rest).
Proof. reflexivity. Qed.
Lemma QB3_esc f (c2 : ch) (r : pystr) :
  QB3 (S f) (cBSL :: c2 :: r) = match QB3 f r with Some (b, rest) => Some (cBSL :: c2 :: b, rest) | None => None end.
Proof. unfold QB3. cbn -[N.eqb]. rewrite andb_false_r. reflexivity. Qed.
Lemma QB3_plain f (c : ch) (r : pystr) : N.eqb c cBSL = false -> N.eqb c cSQ = false ->
  QB3 (S f) (c :: r) = match QB3 f r with Some (b, rest) => Some (c :: b, rest) | None => None end.
Proof. intros H1 H2. unfold QB3. cbn -[N.eqb]. rewrite H1, H2. rewrite andb_false_r. reflexivity. Qed.

Lemma quoted_body_triple (t rest : pystr) : forall f, length t < f ->
  QB3 f (escape cSQ t ++ cSQ :: cSQ :: cSQ :: rest) = Some (escape cSQ t, rest).
Proof.
  induction t as [|c r IH]; intros f Hf.
  - destruct f; [cbn in Hf; lia|]. apply QB3_end.
  - destruct f as [|f]; [cbn in Hf; lia|].
    assert (Hr : QB3 f (escape cSQ r ++ cSQ :: cSQ :: cSQ :: rest) = Some (escape cSQ r, rest)) by (apply IH; cbn in Hf; lia).
    cbn [escape]. destruct (N.eqb c cBSL) eqn:E1; [cbn [app]; rewrite QB3_esc, Hr; reflexivity|].
    destruct (N.eqb c cSQ) eqn:E2; [cbn [app]; rewrite QB3_esc, Hr; reflexivity|].
    cbn [app]. rewrite QB3_plain by assumption. rewrite Hr. reflexivity.
Qed.

Lemma escape_length q (t : pystr) : length t <= length (escape q t) <= 2 * length t.
Proof.
  induction t as [|c r IH]; [cbn; lia|]. cbn [escape]. destruct (N.eqb c cBSL); [cbn; lia|]. destruct (N.eqb c q); cbn; lia.
Qed.

(* ---- the three string styles store the same text ---- *)
Theorem quoted_scan_single q (t rest : pystr) : is_quote q -> no_nl t ->
  quoted_scan [q] [q] (Some cBSL) false true true (q :: escape q t ++ q :: rest) = Some (t, rest).
Proof.
  intros Hq Hn. unfold quoted_scan. cbn [match_prefix]. rewrite N.eqb_refl.
  pose proof (escape_length q t) as L.
  fold (QB1 q (S (length (escape q t ++ q :: rest))) (escape q t ++ q :: rest)).
  rewrite (quoted_body_single q t rest Hq Hn) by (rewrite app_length; cbn; lia).
  fold (U (S (length (escape q t))) (escape q t)). rewrite (unquote_escape q t Hq) by lia. reflexivity.
Qed.

Theorem quoted_scan_triple (t rest : pystr) :
  quoted_scan [cSQ; cSQ; cSQ] [cSQ; cSQ; cSQ] (Some cBSL) true true true
              (cSQ :: cSQ :: cSQ :: escape cSQ t ++ cSQ :: cSQ :: cSQ :: rest) = Some (t, rest).
Proof.
  unfold quoted_scan. cbn [match_prefix]. rewrite !N.eqb_refl.
  pose proof (escape_length cSQ t) as L.
  fold (QB3 (S (length (escape cSQ t ++ cSQ :: cSQ :: cSQ :: rest))) (escape cSQ t ++ cSQ :: cSQ :: cSQ :: rest)).
  rewrite (quoted_body_triple t rest) by (rewrite app_length; cbn; lia).
  fold (U (S (length (escape cSQ t))) (escape cSQ t)). rewrite (unquote_escape cSQ t (or_introl eq_refl)) by lia. reflexivity.
Qed.

(* ---- identifiers: bare word and double-quoted spelling give the same token ---- *)
Lemma take_while_all (f : ch -> bool) (n rest : pystr) lim :
  forallb f n = true -> length n <= lim ->
  match rest with c :: _ => f c = false | [] => True end ->
  take_while f lim (n ++ rest) = (n, rest).
Proof.
  revert lim. induction n as [|c n IH]; intros lim Hf Hl Hr.
  - cbn [app]. destruct lim; [reflexivity|]. destruct rest as [|c r]; [reflexivity|]. cbn. rewrite Hr. reflexivity.
  - destruct lim; [cbn in Hl; lia|]. cbn in Hf. apply andb_true_iff in Hf as [Hc Hn]. cbn [app take_while]. rewrite Hc.
    rewrite IH; [reflexivity|exact Hn|cbn in Hl; lia|exact Hr].
Qed.

Lemma advance_app (n rest : pystr) p : p_rest p = n ++ rest -> p_rest (advance (length n) p) = rest.
Proof.
  revert p. induction n as [|c n IH]; intros p H; [exact H|].
  cbn [length advance]. rewrite H. cbn [app]. apply IH. reflexivity.
Qed.

(* Word(chars) in regex mode, unbounded: a non-empty run of word characters not followed by one *)
Lemma word_token (cs : list ch) (n rest : pystr) p :
  n <> [] -> forallb (fun x => mem x cs) n = true ->
  match rest with c :: _ => mem c cs = false | [] => True end ->
  p_rest p = n ++ rest ->
  run_terminal (PWord cs cs 1 0 false false true) p = IOk (advance (length n) p) (RStr n) [].
Proof.
  intros Hne Hf Hr Hp. destruct n as [|c0 n']; [congruence|]. cbn in Hf. apply andb_true_iff in Hf as [H0 Hn].
  unfold run_terminal. rewrite Hp. cbn [app]. rewrite H0.
  rewrite (take_while_all (fun x => mem x cs) n' rest (length (n' ++ rest))); [|exact Hn|rewrite app_length; lia|exact Hr].
  cbn [length Nat.ltb Nat.leb negb andb]. reflexivity.
Qed.

Definition QBD f (s : pystr) := quoted_body f [cDQ] None false s.    (* "..." without escape character *)
Lemma QBD_end f (rest : pystr) : QBD (S f) (cDQ :: rest) = Some ([], rest).
Proof. reflexivity. Qed.
Lemma QBD_plain f (c : ch) (r : pystr) : N.eqb c cDQ = false -> N.eqb c cLF = false -> N.eqb c cCR = false ->
  QBD (S f) (c :: r) = match QBD f r with Some (b, rest) => Some (c :: b, rest) | None => None end.
Proof. intros H1 H2 H3. unfold QBD. cbn -[N.eqb]. rewrite H1, H2, H3. reflexivity. Qed.

Definition ident_ok (n : pystr) : Prop := forall c, In c n -> c <> cDQ /\ c <> cLF /\ c <> cCR.

Lemma quoted_body_ident (n rest : pystr) : ident_ok n -> forall f, length n < f -> QBD f (n ++ cDQ :: rest) = Some (n, rest).
Proof.
  induction n as [|c r IH]; intros Hn f Hf.
  - destruct f; [cbn in Hf; lia|]. apply QBD_end.
  - destruct f as [|f]; [cbn in Hf; lia|]. cbn [app]. destruct (Hn c (or_introl eq_refl)) as [H1 [H2 H3]].
    rewrite QBD_plain by (apply neqb; assumption).
    rewrite IH; [reflexivity|intros x Hx; apply Hn; right; exact Hx|cbn in Hf; lia].
Qed.

Lemma unquote_plain (s : pystr) f : length s < f -> unquote f None false s = s.
Proof.
  revert f. induction s as [|c r IH]; intros f Hf; [destruct f; reflexivity|].
  destruct f as [|f]; [cbn in Hf; lia|]. cbn -[N.eqb]. rewrite andb_false_r. f_equal. apply IH. cbn in Hf. lia.
Qed.

Theorem quoted_identifier (n rest : pystr) : ident_ok n ->
  quoted_scan [cDQ] [cDQ] None false true false (cDQ :: n ++ cDQ :: rest) = Some (n, rest).
Proof.
  intros Hn. unfold quoted_scan. cbn [match_prefix]. rewrite N.eqb_refl.
  fold (QBD (S (length (n ++ cDQ :: rest))) (n ++ cDQ :: rest)).
  rewrite (quoted_body_ident n rest Hn) by (rewrite app_length; cbn; lia).
  rewrite unquote_plain by lia. reflexivity.
Qed.

(* ---- the regenerated grammar uses exactly these scanners ---- *)
From PyDBML Require Import GenGrammar.

Definition alternatives (e : pexpr) : list pcore :=
  match e_core e with
  | POr es | PMatchFirst es => map e_core es
  | _ => []
  end.

Lemma string_literal_scanners :
  alternatives g_generic__string_literal =
  [PQuoted [cSQ] [cSQ] (Some cBSL) false true true;
   PQuoted [cDQ] [cDQ] (Some cBSL) false true true;
   PQuoted [cSQ; cSQ; cSQ] [cSQ; cSQ; cSQ] (Some cBSL) true true true].
Proof. reflexivity. Qed.

Definition word_chars : list ch := s2l "0123456789ABCDEFGHIJKLMNOPQRSTUVWXYZ_abcdefghijklmnopqrstuvwxyz".

Lemma name_scanners :
  alternatives g_generic__name =
  [PWord word_chars word_chars 1 0 false false true; PQuoted [cDQ] [cDQ] None false true false].
Proof. reflexivity. Qed.

(* ---- the DBML renderer's quoting is read back by the scanners (lexical core of C02) ---- *)
From PyDBML Require Import Tools RenderSQL.

Fixpoint no_triple (t : pystr) : bool :=
  match t with
  | a :: ((b :: c :: _) as r) => negb (N.eqb a cSQ && N.eqb b cSQ && N.eqb c cSQ) && no_triple r
  | _ => true
  end.

Lemma prepare_is_escape (t : pystr) : mem cBSL t = false -> no_triple t = true ->
  prepare_text_for_dbml t = escape cSQ t.
Proof.
  induction t as [|a r IH]; intros Hb Ht; [reflexivity|].
  cbn [mem] in Hb. apply orb_false_iff in Hb as [Ha Hb]. rewrite N.eqb_sym in Ha.
  assert (Htr : no_triple r = true).
  { destruct r as [|b [|c r']]; try reflexivity. cbn [no_triple] in Ht. apply andb_true_iff in Ht. tauto. }
  cbn [prepare_text_for_dbml escape]. rewrite Ha.
  destruct (N.eqb a cSQ) eqn:E.
  - destruct r as [|b [|c r']].
    + reflexivity.
    + rewrite (IH Hb Htr). reflexivity.
    + cbn [no_triple] in Ht. apply andb_true_iff in Ht as [Hn _]. rewrite E in Hn. cbn [andb] in Hn.
      apply negb_true_iff in Hn. rewrite Hn. rewrite (IH Hb Htr). reflexivity.
  - rewrite (IH Hb Htr). reflexivity.
Qed.

Lemma no_nl_mem (t : pystr) : no_nl t -> mem cLF t = false.
Proof.
  induction t as [|a r IH]; intros Hn; [reflexivity|]. cbn [mem].
  destruct (Hn a (or_introl eq_refl)) as [H _]. rewrite (neqb cLF a) by congruence. cbn [orb].
  apply IH. intros x Hx. apply Hn. right. exact Hx.
Qed.

Theorem single_line_text_roundtrip (t rest : pystr) :
  no_nl t -> mem cBSL t = false -> no_triple t = true ->
  quoted_scan [cSQ] [cSQ] (Some cBSL) false true true (quote_string t ++ rest) = Some (t, rest).
Proof.
  intros Hn Hb Ht. unfold quote_string.
  pose proof (no_nl_mem t Hn) as Hl.
  rewrite Hl. rewrite prepare_is_escape by assumption. cbn [app]. rewrite <- app_assoc. cbn [app].
  apply quoted_scan_single; [left; reflexivity|exact Hn].
Qed.

(* names are always written between double quotes (q2) and read back unchanged *)
Theorem quoted_name_roundtrip (n rest : pystr) : ident_ok n ->
  quoted_scan [cDQ] [cDQ] None false true false (q2 n ++ rest) = Some (n, rest).
Proof. intros H. unfold q2. cbn [app]. rewrite <- app_assoc. cbn [app]. apply quoted_identifier. exact H. Qed.
